(* driver.ml — main loop of bin/xdmodel; see sxlib.ml for the protocol *)
open Sxlib
open Dispatch

let () =
  try
    while true do
      let line = input_line stdin in
      let out =
        try
          match parse line with
          | L (A fn :: args) -> to_string (dispatch fn args)
          | _ -> "(error bad-request)"
        with
        | Bad m -> "(error " ^ String.escaped m ^ ")"
        | Not_found -> "(error not-found)"
        | Failure m -> "(error failure-" ^ String.escaped m ^ ")"
        | Stack_overflow -> "(error stack-overflow)" in
      print_string out; print_char '\n'; flush stdout
    done
  with End_of_file -> ()
