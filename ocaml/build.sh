#!/bin/sh
# builds /verif/bin/xdmodel from the extracted model + the hand-written driver
set -e
cd "$(dirname "$0")"
mkdir -p _build ../bin
cp xdmodel_core.ml xdmodel_core.mli sxlib.ml dispatch.ml driver.ml _build/
cd _build
ocamlfind ocamlopt -O3 -w -a -package str xdmodel_core.mli xdmodel_core.ml sxlib.ml dispatch.ml driver.ml -o ../../bin/xdmodel 2>/dev/null \
 || ocamlfind ocamlopt -w -a xdmodel_core.mli xdmodel_core.ml sxlib.ml dispatch.ml driver.ml -o ../../bin/xdmodel
