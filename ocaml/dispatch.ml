(* dispatch.ml — table from protocol function names to extracted model functions *)
open Xdmodel_core
open Sxlib

let to_flags = function
  | L [a; b; c; d; e; f; g] ->
    { eLLIPSIS = to_bool a; nORMALIZE_WHITESPACE = to_bool b; iGNORE_WHITESPACE = to_bool c;
      nORMALIZE_REPR = to_bool d; dONT_ACCEPT_BLANKLINE = to_bool e;
      iGNORE_EXCEPTION_DETAIL = to_bool f; iGNORE_WANT = to_bool g }
  | _ -> raise (Bad "flags")

(* ---------- dispatch ---------- *)
let dispatch_ref : (string -> sx list -> sx) ref = ref (fun _ _ -> raise (Bad "no dispatch"))

(* canonical enumeration of the strings over `alpha` of length <= maxlen:
   by length, then lexicographic in alphabet order (itertools.product order) *)
let iter_strings (alpha : n array) (maxlen : int) (f : str -> unit) : unit =
  let k = Array.length alpha in
  for len = 0 to maxlen do
    let idx = Array.make len 0 in
    let continue = ref true in
    while !continue do
      f (Array.to_list (Array.map (fun i -> alpha.(i)) idx));
      (* increment *)
      let j = ref (len - 1) in
      while !j >= 0 && idx.(!j) = k - 1 do idx.(!j) <- 0; decr j done;
      if !j < 0 then continue := false else idx.(!j) <- idx.(!j) + 1
    done
  done

let rec subst (x : sx) (v : sx) : sx =
  match x with
  | A "_" -> v
  | A _ -> x
  | L l -> L (List.map (fun y -> subst y v) l)

(* (forall_str 'alphabet maxlen mode (fn args-with-_ ...))
   mode = bits   -> results must be booleans; answer is a 0/1 string
   mode = digest -> answer is the MD5 of the results joined by "\n" *)
let forall_str alpha maxlen mode call =
  let alpha = Array.of_list (to_str alpha) in
  let fn, args = match call with L (A fn :: args) -> fn, args | _ -> raise (Bad "forall_str call") in
  let b = Buffer.create 65536 in
  let first = ref true in
  iter_strings alpha maxlen (fun s ->
      let r = !dispatch_ref fn (List.map (fun a -> subst a (of_str s)) args) in
      match mode with
      | "bits" -> Buffer.add_char b (match r with A "true" -> '1' | A "false" -> '0' | _ -> '?')
      | _ -> if not !first then Buffer.add_char b '\n'; first := false; show b r);
  match mode with
  | "bits" -> A (Buffer.contents b)
  | _ -> A (Digest.to_hex (Digest.string (Buffer.contents b)))

let dispatch (fn : string) (args : sx list) : sx =
  match fn, args with
  | "ping", [] -> A "pong"
  | "forall_str", [alpha; maxlen; A mode; call] -> forall_str alpha (to_int maxlen) mode call
  (* Base *)
  | "is_space", [c] -> of_bool (is_space (n_of_int (to_int c)))
  | "is_linebreak", [c] -> of_bool (is_linebreak (n_of_int (to_int c)))
  | "is_word", [c] -> of_bool (is_word (n_of_int (to_int c)))
  | "class_table", [lo; hi] ->
    (* packed classification of the code points lo..hi-1: one char per point *)
    let lo = to_int lo and hi = to_int hi in
    let b = Buffer.create (hi - lo) in
    for i = lo to hi - 1 do
      let c = n_of_int i in
      let v = (if is_space c then 1 else 0) + (if is_linebreak c then 2 else 0) + (if is_word c then 4 else 0) in
      Buffer.add_char b (Char.chr (48 + v))
    done;
    A (Buffer.contents b)
  | "words", [s] -> of_list of_str (words (to_str s))
  | "splitlines_keep", [s] -> of_list of_str (splitlines_keep (to_str s))
  | "splitlines", [s] -> of_list of_str (splitlines (to_str s))
  | "strip", [s] -> of_str (strip (to_str s))
  | "rstrip", [s] -> of_str (rstrip (to_str s))
  | "lstrip", [s] -> of_str (lstrip (to_str s))
  (* Ellipsis *)
  | "split_ell", [s] -> of_list of_str (split_ell (to_str s))
  | "ellipsis_match", [g; w] -> of_bool (ellipsis_match (to_str g) (to_str w))
  (* Checker *)
  | "strip_ansi", [s] -> of_str (strip_ansi (to_str s))
  | "rm_prefix_u", [s] -> of_str (rm_prefix is_uU (to_str s))
  | "rm_prefix_b", [s] -> of_str (rm_prefix is_bB (to_str s))
  | "rm_blankline", [s] -> of_str (rm_blankline (to_str s))
  | "rm_trailing_ws", [s] -> of_str (rm_trailing_ws (to_str s))
  | "drop_cr_lines", [s] -> of_str (drop_cr_lines (to_str s))
  | "collapse_ws", [s] -> of_str (collapse_ws (to_str s))
  | "delete_ws", [s] -> of_str (delete_ws (to_str s))
  | "norm_repr", [fl; a; b] -> of_str (norm_repr (to_flags fl) (to_str a) (to_str b))
  | "normalize", [fl; g; w] -> of_pair of_str of_str (normalize (to_flags fl) (to_str g) (to_str w))
  | "check_match", [fl; g; w] -> of_bool (check_match (to_flags fl) (to_str g) (to_str w))
  | "check_output", [fl; g; w] -> of_bool (check_output (to_flags fl) (to_str g) (to_str w))
  | "check_output_allflags", [g; w] ->
    (* the verdict under all 32 settings of (ELLIPSIS, NW, IW, NR, DAB), as a bit string *)
    let g = to_str g and w = to_str w in
    let b = Buffer.create 32 in
    for i = 0 to 31 do
      let bit k = (i lsr k) land 1 = 1 in
      let fl = { eLLIPSIS = bit 0; nORMALIZE_WHITESPACE = bit 1; iGNORE_WHITESPACE = bit 2;
                 nORMALIZE_REPR = bit 3; dONT_ACCEPT_BLANKLINE = bit 4;
                 iGNORE_EXCEPTION_DETAIL = false; iGNORE_WANT = false } in
      Buffer.add_char b (if check_output fl g w then '1' else '0')
    done;
    A (Buffer.contents b)
  | "strip_exception_details", [s] -> of_str (strip_exception_details (to_str s))
  | "extract_exc_want_cb", [s] -> of_opt of_str (extract_exc_want_cb (to_str s))
  | "check_exception_cb", [fl; g; w] -> of_opt of_bool (check_exception_cb (to_flags fl) (to_str g) (to_str w))
  | "check_got_vs_want", [fl; w; g; ev] ->
    let ev = (match ev with A "notevaled" -> NotEvaled | A "reprraises" -> EvalReprRaises
                          | L [A "repr"; r] -> EvalRepr (to_str r) | _ -> raise (Bad "got_eval")) in
    A (match check_got_vs_want (to_flags fl) (to_str w) (to_str g) ev with
        | GW_ok -> "ok" | GW_gotwant -> "gotwant" | GW_extract_repr -> "extractrepr" | GW_repr_escapes -> "represcapes")
  | _ -> raise (Bad ("unknown function " ^ fn))


let () = dispatch_ref := dispatch
