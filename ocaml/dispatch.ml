(* dispatch.ml — table from protocol function names to extracted model functions *)
open Xdmodel_core
open Sxlib

let to_flags = function
  | L [a; b; c; d; e; f; g] ->
    { eLLIPSIS = to_bool a; nORMALIZE_WHITESPACE = to_bool b; iGNORE_WHITESPACE = to_bool c;
      nORMALIZE_REPR = to_bool d; dONT_ACCEPT_BLANKLINE = to_bool e;
      iGNORE_EXCEPTION_DETAIL = to_bool f; iGNORE_WANT = to_bool g }
  | _ -> raise (Bad "flags")

(* ---- parser protocol ---- *)
let to_lines x = to_list to_str x
let of_lines l = of_list of_str l
let to_directive = function
  | L [n; p; a; i] -> { d_name = to_str n; d_positive = to_bool p; d_args = to_lines a; d_inline = to_bool i }
  | _ -> raise (Bad "directive")
let of_directive d = L [of_str d.d_name; of_bool d.d_positive; of_lines d.d_args; of_bool d.d_inline]
let to_stmt = function
  | L [l; d; e] -> { st_lineno = to_nat l; st_deco = to_opt to_nat d; st_is_expr = to_bool e }
  | _ -> raise (Bad "stmt")
let to_tok = function
  | A "ok" -> T_ok | A "eof" -> T_eof_multiline | A "unindent" -> T_unindent | A "error" -> T_error
  | _ -> raise (Bad "tok")
let to_entry f = function
  | L [k; A "raise"] -> (to_lines k, None)
  | L [k; v] -> (to_lines k, Some (f v))
  | _ -> raise (Bad "entry")
let to_tables = function
  | L [t; a; s; d] ->
    { t_tok = to_list (to_entry to_tok) t; t_ast = to_list (to_entry (to_list to_stmt)) a;
      t_semi = to_list (to_entry to_bool) s; t_dirs = to_list (to_entry (to_list to_directive)) d }
  | _ -> raise (Bad "tables")
let of_label = function TEXT -> A "text" | DSRC -> A "dsrc" | DCNT -> A "dcnt" | WANT -> A "want"
let of_mode = function M_exec -> A "exec" | M_eval -> A "eval" | M_single -> A "single"
let of_query = function
  | Q_bal l -> L [A "need"; A "tok"; of_lines l]
  | Q_ast l -> L [A "need"; A "ast"; of_lines l]
  | Q_semi l -> L [A "need"; A "semi"; of_lines l]
  | Q_dirs l -> L [A "need"; A "dirs"; of_lines l]
let of_perr = function
  | E_Incomplete -> A "incomplete" | E_Syntax -> A "syntax" | E_Assertion -> A "assertion"
  | E_Index -> A "index" | E_Oracle -> A "oracle" | E_Need q -> of_query q
let of_res f = function Ok a -> L [A "ok"; f a] | Err (E_Need q) -> of_query q | Err e -> L [A "err"; of_perr e]
let of_part p =
  L [A "part"; of_lines p.exec_lines; of_lines p.want_lines; of_nat p.line_offset; of_lines p.orig_lines;
     (if p.p_dirs_raise then A "raise" else of_list of_directive p.p_directives); of_mode p.compile_mode]
let of_item = function IText t -> L [A "text"; of_str t] | IPart p -> of_part p
let of_fp = function FP_label -> A "_label_docsrc_lines" | FP_group -> A "_group_labeled_lines" | FP_package -> A "_package_groups"
let of_chunk = function
  | TextChunk ls -> L [A "textchunk"; of_lines ls]
  | CodeChunk (s, w) -> L [A "codechunk"; of_lines s; of_lines w]

(* ---- directive / run protocol ---- *)
let to_value = function
  | A "true" -> VBool true | A "false" -> VBool false
  | L (A "set" :: xs) -> VSet (List.map to_str xs)
  | _ -> raise (Bad "value")
let of_value = function VBool b -> of_bool b | VSet s -> L (A "set" :: List.map of_str s)
let to_dict x = to_list (to_pair to_str to_value) x
let of_dict d = of_list (of_pair of_str of_value) d
let to_reqtab x : (str * bool option) list =
  to_list (function L [k; A "raise"] -> (to_str k, None) | L [k; v] -> (to_str k, Some (to_bool v)) | _ -> raise (Bad "reqtab")) x
let requires_of tab (arg : str) : bool res =
  let rec go = function
    | [] -> Err (E_Need (Q_dirs [arg]))      (* reported as (need dirs (arg)) : a missing REQUIRES answer *)
    | (k, v) :: t -> if eqb_str k arg then (match v with Some b -> Ok b | None -> Err E_Oracle) else go t in
  go tab
let to_mode = function A "exec" -> M_exec | A "eval" -> M_eval | A "single" -> M_single | _ -> raise (Bad "mode")
let to_part = function
  | L [A "part"; e; w; o; orig; ds; m] ->
    { exec_lines = to_lines e; want_lines = to_lines w; line_offset = to_nat o; orig_lines = to_lines orig;
      p_directives = (match ds with A "raise" -> [] | _ -> to_list to_directive ds); compile_mode = to_mode m;
      p_dirs_raise = (match ds with A "raise" -> true | _ -> false) }
  | _ -> raise (Bad "part")
let to_ev = function
  | A "notevaled" -> NotEvaled | A "reprraises" -> EvalReprRaises
  | L [A "repr"; r] -> EvalRepr (to_str r) | _ -> raise (Bad "got_eval")
let to_outcome = function
  | L [A "ok"; o; ev] -> O_ok (to_str o, to_ev ev)
  | L [A "raise"; o; l; f] -> O_raise (to_str o, to_str l, to_bool f)
  | L [A "exit"; o] -> O_exit (to_str o)
  | A "compile" -> O_compile_error
  | A "loop" -> O_existing_loop
  | L [A "base"; o] -> O_base (to_str o)
  | _ -> raise (Bad "outcome")
let to_config = function
  | L [oe; py; ds; rk; imp] ->
    { c_on_error = (match oe with A "return" -> OE_return | A "raise" -> OE_raise | _ -> raise (Bad "on_error"));
      c_pytest_mode = to_bool py; c_default_state = to_dict ds; c_report_key = to_str rk; c_import_ok = to_bool imp }
  | _ -> raise (Bad "config")
let of_failure = function
  | F_directive -> A "directive" | F_import -> A "import" | F_compile -> A "compile" | F_gotwant -> A "gotwant"
  | F_extract_repr -> A "extractrepr" | F_exception -> A "exception" | F_existing_loop -> A "loop"
let of_rstate st =
  L [of_list of_nat st.r_skipped; of_list of_nat st.r_executed; of_list of_nat st.r_checked;
     of_list (of_pair of_nat of_str) st.r_logged; of_lines st.r_unmatched;
     (match st.r_failed with
      | None -> A "none"
      | Some (None, f) -> L [A "some"; A "import"; of_failure f]
      | Some (Some i, f) -> L [A "some"; of_nat i; of_failure f])]
let outcome_fun (ocs : outcome list) (i : nat) : outcome =
  let rec go l k = match l, k with
    | x :: _, O -> x
    | _ :: t, S k' -> go t k'
    | [], _ -> O_ok ([], NotEvaled) in
  go ocs i

(* ---------- dispatch ---------- *)
let dispatch_ref : (string -> sx list -> sx) ref = ref (fun _ _ -> raise (Bad "no dispatch"))

(* canonical enumeration of the strings over `alpha` of length <= maxlen:
   by length, then lexicographic in alphabet order (itertools.product order) *)
let iter_strings (alpha : n array) (maxlen : int) (f : str -> unit) : unit =
  let k = Array.length alpha in
  for len = 0 to maxlen do
    let idx = Array.make len 0 in
    let continue = ref true in
    while !continue do
      f (Array.to_list (Array.map (fun i -> alpha.(i)) idx));
      (* increment *)
      let j = ref (len - 1) in
      while !j >= 0 && idx.(!j) = k - 1 do idx.(!j) <- 0; decr j done;
      if !j < 0 then continue := false else idx.(!j) <- idx.(!j) + 1
    done
  done

let rec subst (x : sx) (v : sx) : sx =
  match x with
  | A "_" -> v
  | A _ -> x
  | L l -> L (List.map (fun y -> subst y v) l)

(* (forall_str 'alphabet maxlen mode (fn args-with-_ ...))
   mode = bits   -> results must be booleans; answer is a 0/1 string
   mode = digest -> answer is the MD5 of the results joined by "\n" *)
let forall_str alpha maxlen mode call =
  let alpha = Array.of_list (to_str alpha) in
  let fn, args = match call with L (A fn :: args) -> fn, args | _ -> raise (Bad "forall_str call") in
  let b = Buffer.create 65536 in
  let first = ref true in
  iter_strings alpha maxlen (fun s ->
      let r = !dispatch_ref fn (List.map (fun a -> subst a (of_str s)) args) in
      match mode with
      | "bits" -> Buffer.add_char b (match r with A "true" -> '1' | A "false" -> '0' | _ -> '?')
      | _ -> if not !first then Buffer.add_char b '\n'; first := false; show b r);
  match mode with
  | "bits" -> A (Buffer.contents b)
  | _ -> A (Digest.to_hex (Digest.string (Buffer.contents b)))

let dispatch (fn : string) (args : sx list) : sx =
  match fn, args with
  | "ping", [] -> A "pong"
  | "forall_str", [alpha; maxlen; A mode; call] -> forall_str alpha (to_int maxlen) mode call
  (* Base *)
  | "is_space", [c] -> of_bool (is_space (n_of_int (to_int c)))
  | "is_linebreak", [c] -> of_bool (is_linebreak (n_of_int (to_int c)))
  | "is_word", [c] -> of_bool (is_word (n_of_int (to_int c)))
  | "class_table", [lo; hi] ->
    (* packed classification of the code points lo..hi-1: one char per point *)
    let lo = to_int lo and hi = to_int hi in
    let b = Buffer.create (hi - lo) in
    for i = lo to hi - 1 do
      let c = n_of_int i in
      let v = (if is_space c then 1 else 0) + (if is_linebreak c then 2 else 0) + (if is_word c then 4 else 0) in
      Buffer.add_char b (Char.chr (48 + v))
    done;
    A (Buffer.contents b)
  | "words", [s] -> of_list of_str (words (to_str s))
  | "splitlines_keep", [s] -> of_list of_str (splitlines_keep (to_str s))
  | "splitlines", [s] -> of_list of_str (splitlines (to_str s))
  | "strip", [s] -> of_str (strip (to_str s))
  | "rstrip", [s] -> of_str (rstrip (to_str s))
  | "lstrip", [s] -> of_str (lstrip (to_str s))
  (* Ellipsis *)
  | "split_ell", [s] -> of_list of_str (split_ell (to_str s))
  | "ellipsis_match", [g; w] -> of_bool (ellipsis_match (to_str g) (to_str w))
  | "std_ellipsis_match", [w; g] -> of_bool (std_ellipsis_match (to_str w) (to_str g))
  | "populate_from_cli", [opts] -> of_dict (populate_from_cli (to_list (to_pair to_str to_bool) opts))
  | "extract_inline", [t] -> of_bool (extract_inline (to_str t))
  | "extract_inline_before_F31", [t] -> of_bool (extract_inline_before_F31 (to_str t))
  | "std_check_output", [e; n; w; g] -> of_bool (std_check_output (to_bool e) (to_bool n) (to_str w) (to_str g))
  (* Checker *)
  | "strip_ansi", [s] -> of_str (strip_ansi (to_str s))
  | "rm_prefix_u", [s] -> of_str (rm_prefix is_uU (to_str s))
  | "rm_prefix_b", [s] -> of_str (rm_prefix is_bB (to_str s))
  | "rm_blankline", [s] -> of_str (rm_blankline (to_str s))
  | "rm_trailing_ws", [s] -> of_str (rm_trailing_ws (to_str s))
  | "drop_cr_lines", [s] -> of_str (drop_cr_lines (to_str s))
  | "collapse_ws", [s] -> of_str (collapse_ws (to_str s))
  | "delete_ws", [s] -> of_str (delete_ws (to_str s))
  | "norm_repr", [fl; a; b] -> of_str (norm_repr (to_flags fl) (to_str a) (to_str b))
  | "normalize", [fl; g; w] -> of_pair of_str of_str (normalize (to_flags fl) (to_str g) (to_str w))
  | "check_match", [fl; g; w] -> of_bool (check_match (to_flags fl) (to_str g) (to_str w))
  | "check_output", [fl; g; w] -> of_bool (check_output (to_flags fl) (to_str g) (to_str w))
  | "check_output_allflags", [g; w] ->
    (* the verdict under all 32 settings of (ELLIPSIS, NW, IW, NR, DAB), as a bit string *)
    let g = to_str g and w = to_str w in
    let b = Buffer.create 32 in
    for i = 0 to 31 do
      let bit k = (i lsr k) land 1 = 1 in
      let fl = { eLLIPSIS = bit 0; nORMALIZE_WHITESPACE = bit 1; iGNORE_WHITESPACE = bit 2;
                 nORMALIZE_REPR = bit 3; dONT_ACCEPT_BLANKLINE = bit 4;
                 iGNORE_EXCEPTION_DETAIL = false; iGNORE_WANT = false } in
      Buffer.add_char b (if check_output fl g w then '1' else '0')
    done;
    A (Buffer.contents b)
  | "strip_exception_details", [s] -> of_str (strip_exception_details (to_str s))
  | "extract_exc_want_cb", [s] -> of_opt of_str (extract_exc_want_cb (to_str s))
  | "check_exception_cb", [fl; g; w] -> of_opt of_bool (check_exception_cb (to_flags fl) (to_str g) (to_str w))
  | "check_got_vs_want", [fl; w; g; ev] ->
    let ev = (match ev with A "notevaled" -> NotEvaled | A "reprraises" -> EvalReprRaises
                          | L [A "repr"; r] -> EvalRepr (to_str r) | _ -> raise (Bad "got_eval")) in
    A (match check_got_vs_want (to_flags fl) (to_str w) (to_str g) ev with
        | GW_ok -> "ok" | GW_gotwant -> "gotwant" | GW_extract_repr -> "extractrepr" | GW_repr_escapes -> "represcapes")
  (* Parser *)
  | "expandtabs", [s] -> of_str (expandtabs (to_str s))
  | "min_indentation", [s] -> of_nat (min_indentation (to_str s))
  | "normalize_docstring", [s] -> of_str (normalize_docstring (to_str s))
  | "label_lines", [tabs; s] ->
    let o = oracles_of_tables (to_tables tabs) in
    of_res (of_list (of_pair of_label of_str)) (label_lines (o_bal o) (to_str s))
  | "group_lines", [ll] ->
    let lab = function A "text" -> TEXT | A "dsrc" -> DSRC | A "dcnt" -> DCNT | A "want" -> WANT | _ -> raise (Bad "label") in
    of_res (of_list of_chunk) (group_lines (to_list (to_pair lab to_str) ll))
  | "parse", [tabs; s] ->
    let o = oracles_of_tables (to_tables tabs) in
    (match Xdmodel_core.parse o (to_str s) with
     | Parsed items -> L [A "parsed"; of_list of_item items]
     | ParseError (fp, e) -> L [A "parseerror"; of_fp fp; of_perr e]
     | NeedOracle q -> of_query q)
  | "parse_repl", [tabs; s] ->
    let o = oracles_of_tables (to_tables tabs) in
    (match Xdmodel_core.parse_repl o (to_str s) with
     | Parsed items -> L [A "parsed"; of_list of_item items]
     | ParseError (fp, e) -> L [A "parseerror"; of_fp fp; of_perr e]
     | NeedOracle q -> of_query q)
  (* Text / Directive / RunLoop *)
  | "dedent", [s] -> of_str (dedent (to_str s))
  | "codeblock", [s] -> of_str (codeblock (to_str s))
  | "indent_text", [p; s] -> of_str (indent_text (to_str p) (to_str s))
  | "extract_exc_want", [s] -> of_opt of_str (extract_exc_want (to_str s))
  | "check_exception", [fl; g; w] -> of_opt of_bool (check_exception (to_flags fl) (to_str g) (to_str w))
  | "has_any_code", [ls] ->
    of_bool (has_any_code { exec_lines = to_lines ls; want_lines = []; line_offset = O; orig_lines = [];
                            p_directives = []; compile_mode = M_exec; p_dirs_raise = false })
  | "part_check", [fl; w; um; g; ev] ->
    A (match part_check (to_flags fl) (to_str w) (to_lines um) (to_str g) (to_ev ev) with
        | GW_ok -> "ok" | GW_gotwant -> "gotwant" | GW_extract_repr -> "extractrepr" | GW_repr_escapes -> "represcapes")
  | "rs_trace", [ds0; rk; reqtab; updates] ->
    (* RuntimeState(ds0), set_report_style, then update(...) for each directive list:
       after each update the merged to_dict() and the skip test, or the error *)
    let req = requires_of (to_reqtab reqtab) in
    let rs0 = rs_init (to_dict ds0) in
    let rs0 = (match rk with A "none" -> rs0 | _ -> { rs_global = set_report_style rs0.rs_global (to_str rk); rs_inline = rs0.rs_inline }) in
    let merged rs = List.fold_left (fun d (k, v) -> Xdmodel_core.dset k v d) rs.rs_global rs.rs_inline in
    let rec go rs = function
      | [] -> []
      | u :: rest ->
        (match rs_update req rs (to_list to_directive u) with
         | UOk rs' -> L [A "ok"; of_dict (merged rs'); of_bool (rs_skips rs'); of_dict rs'.rs_global] :: go rs' rest
         | UErr U_KeyError -> [A "keyerror"]
         | UErr U_AttributeError -> [A "attributeerror"]
         | UErr U_Requires -> [A "requireserror"]
         | UNeed q -> [of_query q]) in
    L (go rs0 (to_list (fun x -> x) updates))
  | "run", [cfg; reqtab; ocs; parts] ->
    let req = requires_of (to_reqtab reqtab) in
    let ocl = to_list to_outcome ocs in
    (match run req (to_config cfg) (outcome_fun ocl) (to_list to_part parts) with
     | R_summary (sm, st) -> L [A "summary"; of_bool sm.s_passed; of_bool sm.s_failed; of_bool sm.s_skipped; of_rstate st]
     | R_raised (f, st) -> L [A "raised"; of_failure f; of_rstate st]
     | R_base st -> L [A "base"; of_rstate st]
     | R_no_frame st -> L [A "noframe"; of_rstate st]
     | R_pytest_skip st -> L [A "pytestskip"; of_rstate st]
     | R_need q -> of_query q)
  (* Runner *)
  | "gather", [cmd; exs] ->
    let to_ex = function L [c; u; d] -> { ex_callname = to_str c; ex_unique = to_str u; ex_disabled = to_bool d } | _ -> raise (Bad "example") in
    let cmd = (match cmd with A "all" -> C_all | A "dump" -> C_dump | A "list" -> C_list | L [A "name"; s] -> C_name (to_str s) | _ -> raise (Bad "command")) in
    of_list (fun e -> of_str e.ex_unique) (gather cmd (to_list to_ex exs))
  | "run_examples", [outs] ->
    let to_out = function
      | L [A "summary"; p; f; s] -> RO_summary { s_passed = to_bool p; s_failed = to_bool f; s_skipped = to_bool s }
      | A "raised" -> RO_raised | A "interrupt" -> RO_interrupt | _ -> raise (Bad "run_out") in
    (match run_examples (to_list to_out outs) with
     | None -> A "aborted"
     | Some rs -> L [of_nat rs.n_total; of_nat rs.n_passed; of_nat rs.n_failed; of_nat rs.n_skipped;
                     of_list of_nat rs.failed_idx; of_nat (exit_status rs)])
  | "verdicts", [cfg; reqtab; ocs; parts] ->
    (* native (on_error=return, mode native) and pytest (on_error=raise, mode pytest) verdicts of one doctest *)
    let req = requires_of (to_reqtab reqtab) in
    let ocl = to_list to_outcome ocs in
    let base = to_config cfg in
    let cn = { base with c_on_error = OE_return; c_pytest_mode = false } in
    let cp = { base with c_on_error = OE_raise; c_pytest_mode = true } in
    let ps = to_list to_part parts in
    let ov = function None -> A "none" | Some V_passed -> A "passed" | Some V_failed -> A "failed" | Some V_skipped -> A "skipped" in
    L [ov (native_verdict (run req cn (outcome_fun ocl) ps)); ov (pytest_verdict (run req cp (outcome_fun ocl) ps))]
  (* Collect *)
  | "style_examples", [st; split; parsed] ->
    let to_px = function A "parse" -> PX_parse | A "malformed" -> PX_malformed | A "other" -> PX_other | _ -> raise (Bad "pexn") in
    let of_px = function PX_parse -> A "parse" | PX_malformed -> A "malformed" | PX_other -> A "other" in
    let to_gb = function L [e; o; p] -> { gb_is_example = to_bool e; gb_offset = to_nat o; gb_parse = to_opt to_px p } | _ -> raise (Bad "gblock") in
    let to_fi = function L [A "text"; n; sk] -> FText (to_nat n, to_bool sk) | L [A "part"; n] -> FPart (to_nat n) | _ -> raise (Bad "fitem") in
    let st = (match st with A "google" -> S_google | A "freeform" -> S_freeform | A "auto" -> S_auto | _ -> raise (Bad "style")) in
    let split = to_opt (to_list to_gb) split in
    let parsed = (match parsed with L [A "raise"; e] -> Inl (to_px e) | L [A "items"; l] -> Inr (to_list to_fi l) | _ -> raise (Bad "parsed")) in
    let g = style_examples st split parsed in
    let c = contain g in
    L [of_list (fun e -> L [of_nat e.e_num; of_nat e.e_lineno_off]) c.c_examples; of_bool c.c_warned; of_bool c.c_propagates;
       of_opt of_px g.g_raise]
  (* FS *)
  | "fs", [tree; L (A op :: args)] ->
    let to_path x = to_list to_str x in
    let of_path p = of_list of_str p in
    let fs = fs_of_list (to_list (function L [p; d] -> (to_path p, to_bool d) | _ -> raise (Bad "fs entry")) tree) in
    (match op, args with
     | "modname_to_modpath", [roots; parts] -> of_opt of_path (modname_to_modpath fs (to_list to_path roots) (to_path parts))
     | "resolve_roots", [roots; parts] -> of_opt of_path (resolve_roots fs (to_list to_path roots) (to_path parts))
     | "modpath_to_modname", [p] -> of_opt of_path (modpath_to_modname fs (to_path p))
     | "split_modpath", [p] -> of_opt (of_pair of_path of_path) (split_modpath fs (to_path p))
     | "normalize_modpath", [hi; hm; p] -> of_path (normalize_modpath fs (to_bool hi) (to_bool hm) (to_path p))
     | _ -> raise (Bad "fs op"))
  (* Proc *)
  | "ppc_enter", [path; d; index] ->
    let (p', i) = ppc_enter (to_lines path) (to_str d) (to_z index) in L [of_lines p'; of_nat i]
  | "ppc_exit", [path; d; i] ->
    (match ppc_exit (to_lines path) (to_str d) (to_nat i) with
     | PPC_ok p -> L [A "ok"; of_lines p] | PPC_runtime_error -> A "runtimeerror" | PPC_index_error -> A "indexerror")
  | "run_proc", [st; bodies] ->
    let to_op = function
      | L [A "write"; t] -> Write (to_str t) | L [A "setstdout"; v] -> SetStdout (to_nat v)
      | L [A "setfilters"; v] -> SetFilters (to_nat v) | L [A "setshowwarning"; v] -> SetShowwarning (to_nat v)
      | _ -> raise (Bad "op") in
    let s0 = (match st with L [a; b; c; d] -> { p_stdout = to_nat a; p_stderr = to_nat b; p_filters = to_nat c; p_showwarning = to_nat d; p_cap_text = [] } | _ -> raise (Bad "proc")) in
    let (s1, logged) = run_proc s0 (to_list (to_list to_op) bodies) in
    L [of_nat s1.p_stdout; of_nat s1.p_stderr; of_nat s1.p_filters; of_nat s1.p_showwarning; of_lines logged]
  (* Isolation *)
  | "hs_history", [runs] ->
    (* runs: list of (default_state, parts) with parts = list of effect lists; the process-wide defaults are
       SKIP=false, REQUIRES=cell 0.  Answer, per run and per update: the REQUIRES the state reads
       (overlay first) or `raised`; and after every run the contents of the default cell *)
    let to_eff = function
      | L [A "assign"; inl; k; b] -> HE_assign (to_bool inl, to_str k, to_bool b)
      | L [A "set"; inl; add; k; a] -> HE_set (to_bool inl, to_bool add, to_str k, to_str a)
      | _ -> raise (Bad "heffect") in
    let defaults = [(k_SKIP, HBool false); (k_REQUIRES, HSet O)] in
    let read_req h st =
      (match hget k_REQUIRES st.hs_inline with
       | Some (HSet c) -> of_lines (hread h c)
       | _ -> (match hget k_REQUIRES st.hs_global with Some (HSet c) -> of_lines (hread h c) | _ -> A "none")) in
    let h = ref [[]] in
    let out = List.map (fun r ->
        let (ds, parts) = (match r with L [ds; ps] -> (to_list (to_pair to_str to_bool) ds, to_list (to_list to_eff) ps) | _ -> raise (Bad "run")) in
        let (h1, st0) = hs_init !h defaults ds in
        let cur = ref (h1, st0) in
        let alive = ref true in
        let tr = List.map (fun es ->
            if not !alive then A "dead" else
            (match hs_update (fst !cur) (snd !cur) es with
             | Some (h2, st2) -> cur := (h2, st2); read_req h2 st2
             | None -> alive := false; A "raised")) parts in
        h := fst !cur;
        L [L tr; of_lines (hread !h O)]) (to_list (fun x -> x) runs) in
    L out
  (* Format *)
  | "n_digits_of", [n] -> of_nat (n_digits_of (to_nat n))
  | "format_src", [parts; linenos; want; offset; prefix; partnos; lineno] ->
    of_str (format_src (to_list to_part parts) (to_bool linenos) (to_bool want) (to_bool offset) (to_bool prefix) (to_bool partnos) (to_nat lineno))
  | "repr_failure_head", [exname; node; fpath; prefix; lineno; parts; skipped; logged; failed; tb; offs; partnos] ->
    let to_failure = function
      | A "directive" -> F_directive | A "import" -> F_import | A "compile" -> F_compile | A "gotwant" -> F_gotwant
      | A "extractrepr" -> F_extract_repr | A "exception" -> F_exception | A "loop" -> F_existing_loop
      | _ -> raise (Bad "failure") in
    let fl = (match failed with
        | A "none" -> None
        | L [A "import"; f] -> Some (None, to_failure f)
        | L [i; f] -> Some (Some (to_nat i), to_failure f)
        | _ -> raise (Bad "failed")) in
    (match repr_failure_head_of (to_str exname) (to_str node) (to_str fpath) (to_str prefix) (to_nat lineno)
             (to_list to_part parts) (to_list to_nat skipped) (to_list (to_pair to_nat to_str) logged) fl
             (to_nat tb) (to_bool offs) (to_bool partnos) with
     | Some ls -> L [A "some"; of_lines ls]
     | None -> A "none")
  | "dump_module", [es] ->
    let to_de = function
      | L [fnm; node; hdr; parts] -> { de_func_name = to_str fnm; de_node = to_str node; de_header = to_lines hdr; de_parts = to_list to_part parts }
      | _ -> raise (Bad "dump example") in
    of_str (dump_module (to_list to_de es))
  (* StaticCollect *)
  | "visit_module", [moddoc; body] ->
    let rec to_node = function
      | L [A k; nm; hid; doc; ch] ->
        let k = (match k with "func" -> NK_Func | "class" -> NK_Class | "ifmain" -> NK_IfMain | "other" -> NK_Other | _ -> raise (Bad "nkind")) in
        SNode (k, to_str nm, to_bool hid, to_opt to_nat doc, to_list to_node ch)
      | _ -> raise (Bad "snode") in
    of_list (fun (k, v) -> L [of_str k; of_opt of_nat v]) (visit_module (to_opt to_nat moddoc) (to_list to_node body))
  | "dyn_module", [moddoc; body] ->
    let rec to_node = function
      | L [A k; nm; hid; doc; ch] ->
        let k = (match k with "func" -> NK_Func | "class" -> NK_Class | "ifmain" -> NK_IfMain | "other" -> NK_Other | _ -> raise (Bad "nkind")) in
        SNode (k, to_str nm, to_bool hid, to_opt to_nat doc, to_list to_node ch)
      | _ -> raise (Bad "snode") in
    of_list (fun (k, v) -> L [of_str k; of_opt of_nat v]) (dyn_module (to_opt to_nat moddoc) (to_list to_node body))
  | "find_docstr_start", [endpos; nlines; e1; e2; s1; s2] ->
    let ends = (function T_single3 -> to_bool e1 | T_double3 -> to_bool e2) in
    let starts = (fun _ t -> match t with T_single3 -> to_bool s1 | T_double3 -> to_bool s2) in
    of_z (find_docstr_start (to_nat endpos) (to_nat nlines) ends starts)
  | "google_group_offsets", [ids] -> of_list (of_pair of_nat of_nat) (google_group_offsets (to_list to_nat ids))
  | "freeform_example_lineno", [dl; items] ->
    let to_fi = function L [A "text"; n; sk] -> FText (to_nat n, to_bool sk) | L [A "part"; n] -> FPart (to_nat n) | _ -> raise (Bad "fitem") in
    of_opt of_nat (freeform_example_lineno (to_nat dl) (to_list to_fi items))
  | "package_modpaths", [d; tree] ->
    let rec to_tree = function
      | L [A "file"; n] -> DFile (to_str n)
      | L [A "dir"; n; ch] -> DDir (to_str n, to_list to_tree ch)
      | _ -> raise (Bad "dtree") in
    of_list of_lines (package_modpaths (to_lines d) (to_tree tree))
  | _ -> raise (Bad ("unknown function " ^ fn))


let () = dispatch_ref := dispatch
