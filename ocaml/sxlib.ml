(* sxlib.ml (part of the driver) — line protocol around the functions extracted from the Coq model.
   Hand written and trusted glue: s-expression reader/printer, conversion of
   integers / strings into the extracted inductive types, the dispatch table,
   and the `forall_str` enumerator used for exhaustive correspondence runs.

   Request  (one per line):  (fn arg arg ...)
   Response (one per line):  an s-expression, or (error "...") on bad input.

   Atoms:  123 / -5       integers
           'a.b.c         string given as decimal code points; ' alone = ""
           word           symbol (true, false, none, constructor names)        *)

open Xdmodel_core

type sx = A of string | L of sx list

exception Bad of string

(* ---------- reader ---------- *)
let parse (s : string) : sx =
  let n = String.length s in
  let pos = ref 0 in
  let rec skip () = if !pos < n && (s.[!pos] = ' ' || s.[!pos] = '\t' || s.[!pos] = '\r') then (incr pos; skip ()) in
  let rec value () =
    skip ();
    if !pos >= n then raise (Bad "eof");
    if s.[!pos] = '(' then begin
      incr pos;
      let items = ref [] in
      let rec loop () =
        skip ();
        if !pos >= n then raise (Bad "unclosed");
        if s.[!pos] = ')' then incr pos
        else begin items := value () :: !items; loop () end in
      loop ();
      L (List.rev !items)
    end else begin
      let st = !pos in
      while !pos < n && s.[!pos] <> ' ' && s.[!pos] <> '(' && s.[!pos] <> ')' do incr pos done;
      A (String.sub s st (!pos - st))
    end in
  value ()

(* ---------- printer ---------- *)
let rec show (b : Buffer.t) (x : sx) : unit =
  match x with
  | A a -> Buffer.add_string b a
  | L l ->
    Buffer.add_char b '(';
    List.iteri (fun i y -> if i > 0 then Buffer.add_char b ' '; show b y) l;
    Buffer.add_char b ')'

let to_string x = let b = Buffer.create 256 in show b x; Buffer.contents b

(* ---------- conversions: OCaml <-> extracted types ---------- *)
let rec pos_of_int i : positive =
  if i = 1 then XH
  else if i land 1 = 1 then XI (pos_of_int (i lsr 1))
  else XO (pos_of_int (i lsr 1))
let n_of_int i : n = if i <= 0 then N0 else Npos (pos_of_int i)
let rec int_of_pos (p : positive) : int =
  match p with XH -> 1 | XO q -> 2 * int_of_pos q | XI q -> 2 * int_of_pos q + 1
let int_of_n (x : n) : int = match x with N0 -> 0 | Npos p -> int_of_pos p
let rec nat_of_int i : nat = if i <= 0 then O else S (nat_of_int (i - 1))
let rec int_of_nat (x : nat) : int =
  let rec go acc x = match x with O -> acc | S y -> go (acc + 1) y in go 0 x
let z_of_int i : z = if i = 0 then Z0 else if i > 0 then Zpos (pos_of_int i) else Zneg (pos_of_int (-i))
let int_of_z (x : z) : int = match x with Z0 -> 0 | Zpos p -> int_of_pos p | Zneg p -> - (int_of_pos p)

let to_int = function A a -> (try int_of_string a with _ -> raise (Bad ("int: " ^ a))) | _ -> raise (Bad "int")
let to_nat x = nat_of_int (to_int x)
let to_z x = z_of_int (to_int x)
let to_bool = function A "true" -> true | A "false" -> false | _ -> raise (Bad "bool")
let to_str = function
  | A a when String.length a >= 1 && a.[0] = '\'' ->
    if String.length a = 1 then []
    else List.map (fun t -> n_of_int (int_of_string t))
        (String.split_on_char '.' (String.sub a 1 (String.length a - 1)))
  | _ -> raise (Bad "str")
let to_list f = function L l -> List.map f l | _ -> raise (Bad "list")
let to_opt f = function A "none" -> None | L [A "some"; x] -> Some (f x) | _ -> raise (Bad "option")
let to_pair f g = function L [a; b] -> (f a, g b) | _ -> raise (Bad "pair")
let to_sym = function A a -> a | _ -> raise (Bad "sym")

let of_int i = A (string_of_int i)
let of_nat x = of_int (int_of_nat x)
let of_z x = of_int (int_of_z x)
let of_n x = of_int (int_of_n x)
let of_bool b = A (if b then "true" else "false")
let of_str (s : str) =
  A ("'" ^ String.concat "." (List.map (fun c -> string_of_int (int_of_n c)) s))
let of_list f l = L (List.map f l)
let of_opt f = function None -> A "none" | Some x -> L [A "some"; f x]
let of_pair f g (a, b) = L [f a; g b]

