#!/bin/sh
# Builds the framework offline from files on disk: full .vo build of the Coq
# development (never -vos), extraction, and the OCaml driver bin/xdmodel.
set -e
cd "$(dirname "$0")"
cd coq
coq_makefile -f _CoqProject -o Makefile > /dev/null
timeout 3000 make -j16
cd ..
sh ocaml/build.sh
echo '(ping)' | bin/xdmodel | grep -q pong
echo "setup ok"
