"""prints the prompt for a sub-agent that writes a BEHAVIOUR-PRESERVING refactoring of one source file (to measure
false alarms of the checks); it gets the texts of the properties anchored in that file and nothing from /verif"""
import json, sys
fname = sys.argv[1]; wt = sys.argv[2]; out = sys.argv[3]
flavour = sys.argv[4] if len(sys.argv) > 4 else 'cleanup'
FLAVOURS = {
 'cleanup': 'restructure conditionals, extract or inline helper functions, replace loops by comprehensions or vice versa, rename local variables, reorder independent statements, precompile regular expressions, simplify expressions, replace string formatting styles, tidy comments.',
 'internals': 'a change of INTERNAL representation that callers outside the package cannot observe: replace an internal list by a generator or tuple where only iteration is used, change the algorithm of a helper (e.g. a different but equivalent way to scan, split, search or accumulate), cache or hoist repeated computations, split a long function into private helpers, replace a regular expression by equivalent string methods or vice versa, change the order in which independent checks are made, use different but equivalent standard-library calls. Public attributes, method names and everything the properties below talk about must keep their behaviour; private helper names (leading underscore) that are not used outside their module may change.',
}
props = []
for l in open('/verif/properties.jsonl'):
    p = json.loads(l)
    if any(f.endswith(fname) for f in p['anchors']['files']):
        props.append(p)
txt = '\n\n'.join('PROPERTY %s - %s\nStatement: %s' % (p['id'], p['title'], p['statement']) for p in props)
print(f"""You are helping to evaluate a verification effort for the Python project Erotemic/xdoctest (a rewrite of Python's doctest module). You get a private scratch git worktree of the repository at {wt} (a checkout of the current HEAD; work ONLY inside it and inside {out}; never touch /repo or /verif, never read /verif).

YOUR TASK: write ONE realistic, BEHAVIOUR-PRESERVING refactoring of the file src/xdoctest/{fname} (or of functions in it), the kind of change a maintainer would merge: {FLAVOURS[flavour]} Touch 15-60 lines, in at least three different functions. The refactoring MUST NOT change any externally observable behaviour of xdoctest: same parse results, same verdicts, same reported line numbers, same exceptions (type and message), same printed output, same return values, same side effects. In particular the following semantic properties (which hold on the unchanged tree) must still hold, for ALL inputs, not just the tested ones:

{txt}

Be careful: it is easy to change behaviour by accident (operator precedence, short-circuit order, default arguments such as flags= vs positional count=, mutable aliasing, iteration while mutating, exception types). Re-read your diff and convince yourself it is equivalent.

How to run things (no network; python is /venv/bin/python, 3.12):
  cd {wt} && PYTHONPATH={wt}/src /venv/bin/python -m pytest -q -p no:cacheprovider --timeout=900 -x --deselect tests/test_entry_point.py::test_xdoc_console_script_exec --deselect tests/test_entry_point.py::test_xdoc_console_script_location
  (about 3-5 minutes; the two deselected tests fail on the unchanged tree too; always set PYTHONPATH={wt}/src so that YOUR copy is imported.)

DELIVERABLES, written into the directory {out} (create it):
  1. patch.diff   - output of `git -C {wt} diff` (changes under src/xdoctest only; do not commit).
  2. meta.json    - {{"file": "{fname}", "summary": "<what was refactored, function by function>", "why_equivalent": "<one sentence per hunk>", "tests_result": "<e.g. 298 passed, 2 deselected>"}}
Run the FULL test suite once at the end; it must pass. Leave the worktree WITH your change applied. Report in your final message the summary and the test result.""")
