#!/bin/sh
# tools/with_patch.sh <patch.diff> <command...> : apply a patch to /repo, run the command, always undo it
P="$1"; shift
git -C /repo apply "$P" || { echo "patch does not apply"; exit 3; }
"$@"; rc=$?
git -C /repo checkout -- . 
exit $rc
