# (scratch helper kept for the record: builds the sub-agent prompts of one seeding round in /tmp/mut and the worktrees in /tmp/wt)
import json, os, re, subprocess, sys
suffix = sys.argv[1]
props = sys.argv[2:]
for pid in props:
    sites = []
    for d in sorted(os.listdir('/verif/seeded')):
        if not d.startswith(pid + '_'):
            continue
        try:
            meta = json.load(open('/verif/seeded/%s/meta.json' % d))
        except Exception:
            continue
        patch = open('/verif/seeded/%s/patch.diff' % d).read()
        files = re.findall(r'^\+\+\+ b/src/xdoctest/(\S+)', patch, re.M)
        funcs = sorted(set(m.strip() for m in re.findall(r'^@@.*@@ (?:def |class |async def )?(.*)$', patch, re.M)))
        summ = meta.get('summary', '')[:160].replace('\n', ' ')
        sites.append('%s [%s]: %s' % (','.join(files), '; '.join(f[:50] for f in funcs[:3]), summ))
    avoid = ' || '.join(sites)
    wt = '/tmp/wt/%s%s' % (pid, suffix)
    out = '/tmp/mut/%s%s' % (pid, suffix)
    subprocess.run(['git', '-C', '/repo', 'worktree', 'add', '-f', wt, 'HEAD', '-q'], check=False, capture_output=True)
    p = subprocess.run(['python3', '/verif/tools/agent_prompt.py', pid, wt, out, avoid, 'evasive'], capture_output=True, text=True)
    open('/tmp/mut/prompt_%s%s.txt' % (pid, suffix), 'w').write(p.stdout)
    print(pid, len(p.stdout), len(sites))
