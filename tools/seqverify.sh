#!/bin/sh
# waits until no verify_mutant is running, then verifies the given mutants one after the other
for m in "$@"; do
  while pgrep -f verify_mutant.sh >/dev/null; do sleep 10; done
  /verif/tools/verify_mutant.sh /tmp/mut/$m > /tmp/mut/verify_$m.log 2>&1
done
