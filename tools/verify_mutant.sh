#!/bin/sh
# tools/verify_mutant.sh <mutant-dir> : confirms, in a scratch worktree of /repo (removed afterwards), that
#  the patch applies, demo.py fails with it and passes without it, and the existing test suite passes with it.
# Writes <mutant-dir>/verified.json
D="$1"; N=$(basename "$D"); W=/tmp/vw/$N
mkdir -p /tmp/vw; git -C /repo worktree remove --force "$W" 2>/dev/null
git -C /repo worktree add -q --detach "$W" HEAD || exit 3
cd "$W"
PYTHONPATH=$W/src /venv/bin/python "$D/demo.py" > "$D/demo_clean.log" 2>&1; RC_CLEAN=$?
git apply "$D/patch.diff" || { echo "{\"applies\": false}" > "$D/verified.json"; git -C /repo worktree remove --force "$W"; exit 3; }
PYTHONPATH=$W/src /venv/bin/python "$D/demo.py" > "$D/demo_mutant.log" 2>&1; RC_MUT=$?
PYTHONPATH=$W/src /venv/bin/python -m pytest -q -p no:cacheprovider --timeout=900 --deselect tests/test_entry_point.py::test_xdoc_console_script_exec --deselect tests/test_entry_point.py::test_xdoc_console_script_location > "$D/suite.log" 2>&1; RC_SUITE=$?
TAIL=$(tail -1 "$D/suite.log" | tr -d '"')
echo "{\"applies\": true, \"demo_rc_clean\": $RC_CLEAN, \"demo_rc_mutant\": $RC_MUT, \"suite_rc\": $RC_SUITE, \"suite_tail\": \"$TAIL\"}" > "$D/verified.json"
cd /; git -C /repo worktree remove --force "$W"
cat "$D/verified.json"
