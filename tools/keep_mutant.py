#!/usr/bin/env python3
"""tools/keep_mutant.py <mutant-dir> <seeded-id> : copy a verified seeded change into /verif/seeded/<id>/"""
import json, os, shutil, sys
src, sid = sys.argv[1], sys.argv[2]
ver = json.load(open(os.path.join(src, 'verified.json')))
assert ver.get('applies') and ver['demo_rc_clean'] == 0 and ver['demo_rc_mutant'] != 0 and ver['suite_rc'] == 0, ver
dst = os.path.join('/verif/seeded', sid)
os.makedirs(dst, exist_ok=True)
shutil.copy(os.path.join(src, 'patch.diff'), dst)
shutil.copy(os.path.join(src, 'demo.py'), dst)
meta = json.load(open(os.path.join(src, 'meta.json')))
meta['confirmed_by_me'] = {
    'how': 'tools/verify_mutant.sh in a scratch worktree of /repo HEAD (removed afterwards): patch applies; demo.py exit 0 without / non-zero with the change; existing suite with the change',
    'demo_rc_clean': ver['demo_rc_clean'], 'demo_rc_mutant': ver['demo_rc_mutant'], 'suite': ver['suite_tail']}
meta['origin'] = 'independent sub-agent given only the property text and a scratch worktree'
json.dump(meta, open(os.path.join(dst, 'meta.json'), 'w'), indent=1)
print('kept', dst)
