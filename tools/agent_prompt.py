"""prints the prompt given to a mutant-writing sub-agent for one property (nothing from /verif but the property text)"""
import json, sys
pid = sys.argv[1]; wt = sys.argv[2]; out = sys.argv[3]
avoid = sys.argv[4] if len(sys.argv) > 4 else ''   # places earlier seeded changes already touched (for diversity)
evasive = len(sys.argv) > 5 and sys.argv[5] == 'evasive'
for l in open('/verif/properties.jsonl'):
    p = json.loads(l)
    if p['id'] == pid:
        break
print(f"""You are helping to evaluate a verification effort for the Python project Erotemic/xdoctest (a rewrite of Python's doctest module). You get ONE semantic property of xdoctest and a private scratch git worktree of the repository at {wt} (a checkout of the current HEAD; work ONLY inside it and inside {out}; never touch /repo or /verif, never read /verif).

PROPERTY {p['id']} - {p['title']}
Statement: {p['statement']}
Quantified over: {p['quantifier']['text']}
Code the property is anchored in: {', '.join(p['anchors']['files'])}

YOUR TASK: write ONE realistic change (a "seeded defect", like a plausible refactoring slip, an off-by-one, a wrong condition, a misplaced statement, a lost guard; 1-15 changed lines in src/xdoctest) that BREAKS this property, while
  (a) the package still imports and the existing test suite still passes, and
  (b) the breakage needs something specific to manifest - an unusual but legitimate input, a particular multi-step sequence, a particular combination of flags/options, two cooperating sites that each look fine alone - NOT something ordinary use would expose at once. Prefer subtle, semantically interesting defects over crude ones; do not just delete a whole feature.

How to run things (no network; python is /venv/bin/python, 3.12):
  cd {wt} && PYTHONPATH={wt}/src /venv/bin/python -m pytest -q -p no:cacheprovider --timeout=900 -x --deselect tests/test_entry_point.py::test_xdoc_console_script_exec --deselect tests/test_entry_point.py::test_xdoc_console_script_location
  (the full suite takes about 4-5 minutes: 298 tests incl. the in-source doctests; the two deselected tests fail on the unchanged tree too. Always set PYTHONPATH={wt}/src so that YOUR copy is imported, and check with: PYTHONPATH={wt}/src /venv/bin/python -c "import xdoctest; print(xdoctest.__file__)". While developing you can run just the most relevant test files first, but run the FULL suite once at the end.)

DELIVERABLES, all written into the directory {out} (create it):
  1. patch.diff   - output of `git -C {wt} diff` (changes under src/xdoctest only; do not commit).
  2. demo.py      - a small self-contained program that uses only the public behaviour of xdoctest (run as: PYTHONPATH=<tree>/src /venv/bin/python demo.py) and exits 0 on the unchanged tree and exits non-zero (printing what went wrong) with your change applied. It must demonstrate a violation of the PROPERTY as stated, not merely a difference in behaviour.
  3. meta.json    - {{"property": "{p['id']}", "summary": "<what the change does>", "needs": "<what specific input/sequence/flags it needs in order to manifest>", "files": [...], "tests_run": "<the command you ran>", "tests_result": "<e.g. 296 passed, 2 deselected>"}}
Verify yourself before finishing: demo.py fails with the change and passes on the unchanged tree (do NOT use `git stash`: the stash is shared by all worktrees of the repository and other people work in theirs at the same time; use `git -C {wt} diff > {out}/patch.diff; git -C {wt} apply -R {out}/patch.diff; <run demo>; git -C {wt} apply {out}/patch.diff`), and the full test suite passes with the change. Leave the worktree WITH your change applied. Report in your final message: the summary, what it needs to manifest, and the test results. If your first idea is caught by the test suite, try another idea (up to ~4 attempts).""" + (f"\n\nDIVERSITY: other people already wrote seeded changes in these places: {avoid}. Do NOT touch those functions; pick a different site and a different mechanism." if avoid else '') + ("\n\nEVASIVE: assume the people checking this property use differential testing of small and medium generated inputs (short strings over small alphabets, doctests of a few statements, modules of a few functions, every flag combination) plus some structured random inputs. Make your defect one that such testing tends to MISS although it is a real violation for legitimate inputs: it should need e.g. a size or count above a threshold, long lines, deep nesting, an unusual but legal character class (non-ASCII letters, other Unicode whitespace, form feeds), a rarely combined pair of options, a particular order of three or more events, or a legal syntax form generators rarely emit." if evasive else ''))
