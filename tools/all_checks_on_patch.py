#!/usr/bin/env python3
"""tools/all_checks_on_patch.py <patch.diff> [Cxx ...] : applies the patch in a scratch worktree of /repo and runs the quick
tier of all (or the named) checks against it; prints which checks raise an alarm.  Used to measure false alarms on
behaviour-preserving refactorings and cross-detection of seeded changes."""
import json, os, subprocess, sys
patch = os.path.abspath(sys.argv[1])
props = sys.argv[2:] or ['C%02d' % i for i in range(1, 21)]
W = '/tmp/wt/allchk%d' % os.getpid()
subprocess.run(['git', '-C', '/repo', 'worktree', 'add', '-q', '--detach', W, 'HEAD'], check=True)
try:
    a = subprocess.run(['git', '-C', W, 'apply', patch], stderr=subprocess.PIPE)
    if a.returncode:
        print('PATCH DOES NOT APPLY', a.stderr.decode()[-300:]); sys.exit(3)
    env = dict(os.environ, XDOCTEST_REPO=W)
    res = {}
    for p in props:
        r = subprocess.run(['timeout', '1500', './check', p, '--tier', 'quick', '--no-proof'], cwd='/verif', env=env, stdout=subprocess.PIPE, stderr=subprocess.STDOUT)
        txt = r.stdout.decode()
        v = [l for l in txt.split('\n') if l.startswith('VIOLATION')]
        res[p] = dict(exit=r.returncode, violations=len(v), no_input=sum(1 for l in v if l.rstrip().endswith('no-failing-input-found')),
                      kinds=sorted(set(l.split('replay=/verif/replays/')[1].split('-', 1)[1].rsplit('-', 1)[0] for l in v if 'replay=/verif/replays/' in l)))
        print(p, res[p], flush=True)
    print(json.dumps({k: v for k, v in res.items() if v['exit'] != 0}))
finally:
    subprocess.run(['git', '-C', '/repo', 'worktree', 'remove', '--force', W])
