#!/usr/bin/env python3
"""tools/mutant_matrix.py [ids...] : (an id may be written ID@Cxx to run the check of ANOTHER property against it) runs each kept seeded change against the check of its property, in a scratch
worktree of /repo (XDOCTEST_REPO), never in /repo itself; prints and writes seeded/MATRIX.json"""
import json, os, subprocess, sys
W = '/tmp/wt/matrix%d' % os.getpid()
subprocess.run(['git', '-C', '/repo', 'worktree', 'remove', '--force', W], stderr=subprocess.DEVNULL)
subprocess.run(['git', '-C', '/repo', 'worktree', 'add', '-q', '--detach', W, 'HEAD'], check=True)
ids = sys.argv[1:] or sorted(d for d in os.listdir('/verif/seeded') if os.path.isfile(os.path.join('/verif/seeded', d, 'meta.json')))
out = {}
try:
    for sid in ids:
        other = None
        if '@' in sid:
            sid, other = sid.split('@')
        d = os.path.join('/verif/seeded', sid)
        meta = json.load(open(os.path.join(d, 'meta.json')))
        prop = other or meta['property']
        if other:
            sid = sid + '@' + other
        subprocess.run(['git', '-C', W, 'checkout', '-q', '--', '.'], check=True)
        a = subprocess.run(['git', '-C', W, 'apply', os.path.join(d, 'patch.diff')], stderr=subprocess.PIPE)
        if a.returncode != 0:
            out[sid] = {'property': prop, 'applies': False, 'err': a.stderr.decode()[-200:]}
            print(sid, 'PATCH DOES NOT APPLY')
            continue
        env = dict(os.environ, XDOCTEST_REPO=W)
        p = subprocess.run(['timeout', '1500', './check', prop, '--tier', 'quick', '--no-proof'], cwd='/verif', env=env,
                           stdout=subprocess.PIPE, stderr=subprocess.STDOUT)
        txt = p.stdout.decode()
        kinds = sorted(set(l.split('replay=/verif/replays/')[1].split('-')[1:][0] if 'replay=' in l else '?' for l in txt.split('\n') if l.startswith('VIOLATION')))
        nviol = sum(1 for l in txt.split('\n') if l.startswith('VIOLATION'))
        nofail = sum(1 for l in txt.split('\n') if l.startswith('VIOLATION') and l.rstrip().endswith('no-failing-input-found'))
        out[sid] = {'property': prop, 'applies': True, 'exit': p.returncode, 'violations': nviol, 'without_failing_input': nofail,
                    'detected': p.returncode == 1 and nviol > 0}
        print(sid, prop, 'exit', p.returncode, 'violations', nviol, '(no-failing-input %d)' % nofail)
finally:
    subprocess.run(['git', '-C', '/repo', 'worktree', 'remove', '--force', W])
old = {}
if os.path.exists('/verif/seeded/MATRIX.json'):
    old = json.load(open('/verif/seeded/MATRIX.json'))
old = json.load(open('/verif/seeded/MATRIX.json')) if os.path.exists('/verif/seeded/MATRIX.json') else old
old.update(out)
json.dump(old, open('/verif/seeded/MATRIX.json', 'w'), indent=1, sort_keys=True)
