(* Lines.v — the line-number arithmetic of collection and failure reporting:
   TopLevelVisitor._find_docstr_startpos_workaround (where a docstring literal starts, from the line it
   ends on and the number of newlines in its value), docscrape_google.split_google_docblocks (the offset of
   a block = the sum of the lengths of the groups before it), the line numbers given to google and freeform
   doctests, and DocTest.failed_lineno. *)
From XD Require Export Model.Base Model.Collect.
Open Scope N_scope.

(* ---------- where the docstring literal starts ---------- *)
Inductive trip := T_single3 | T_double3.          (* triple single quotes, then triple double quotes: tried in this order *)

(* ends t: the last line of the literal, with a trailing comment removed and stripped, ends with t;
   starts i t: file line i, stripped and lower-cased, starts with t (optionally after an r or u prefix);
   i may be negative: Python indexes from the end *)
Definition find_docstr_start (endpos : nat) (nlines : nat)
           (ends : trip -> bool) (starts : Z -> trip -> bool) : Z :=
  let cand := (Z.of_nat endpos - Z.of_nat nlines)%Z in       (* stop - nlines - 1 with stop = endpos + 1 *)
  let try (t : trip) (start : Z) : Z * bool :=                 (* (start, break?) *)
    if ends t then (if starts cand t then (cand, true) else (Z.of_nat endpos, false)) else (start, false) in
  let '(s1, brk) := try T_single3 (Z.of_nat endpos) in
  if brk then s1 else fst (try T_double3 s1).

(* doclineno = start + 1 (1-based) *)
Definition doclineno (endpos nlines : nat) ends starts : Z := (find_docstr_start endpos nlines ends starts + 1)%Z.

(* ---------- google blocks ---------- *)
(* the lines of the docstring, each with the id of the group split_google_docblocks put it in
   (ids never decrease: a group is a run of consecutive lines) *)
Fixpoint group_runs (ids : list nat) (cur : nat) (len off : nat) : list (nat * nat) :=    (* (offset, length) per group *)
  match ids with
  | [] => match len with O => [] | _ => [(off, len)] end
  | g :: r => if Nat.eqb g cur then group_runs r cur (S len) off
              else match len with
                   | O => group_runs r g 1 off
                   | _ => (off, len) :: group_runs r g 1 (off + len)
                   end
  end.
Definition google_group_offsets (ids : list nat) : list (nat * nat) :=
  match ids with [] => [] | g :: _ => group_runs ids g 0 0 end.

(* lineno of a google example: the line after its tag line *)
Definition google_example_lineno (doclineno offset : nat) : nat := doclineno + offset + 1.

(* lineno of the freeform doctest: curr_offset lines after the docstring's first line *)
Definition freeform_example_lineno (doclineno : nat) (items : list fitem) : option nat :=
  let '(off, kept) := freeform_go items false false 0 0 in
  if Nat.eqb kept 0 then None else Some (doclineno + off)%nat.

(* ---------- positions in the file ---------- *)
(* 1-based file line of the part's first line / of the failing line *)
Definition part_file_line (lineno line_offset : nat) : nat := lineno + line_offset.
