(* Format.v — model of DoctestPart.format_part, DocTest.format_parts / format_src,
   utils.add_line_numbers and runner._convert_to_test_module (the `dump` command). *)
From XD Require Export Model.Base Model.Parser Model.Text.
Open Scope N_scope.

(* ---------- numbers ---------- *)
Fixpoint dec_go (fuel : nat) (n : N) (acc : str) : str :=
  match fuel with
  | O => acc
  | S f => let d := 48 + n mod 10 in
           if n <? 10 then d :: acc else dec_go f (n / 10) (d :: acc)
  end.
Definition decimal (n : nat) : str := dec_go 30 (N.of_nat n) [].

(* int(math.ceil(math.log(max(1, endline), 10))): the least d with endline <= 10^d *)
Fixpoint clog_go (fuel : nat) (n : N) (d : nat) (p : N) : nat :=
  match fuel with
  | O => d
  | S f => if n <=? p then d else clog_go f n (S d) (p * 10)
  end.
Definition n_digits_of (endline : nat) : nat := clog_go 30 (N.max 1 (N.of_nat endline)) 0 1.

(* '{count:{n_digits}d}': right-justified in a field of at least n_digits *)
Definition pad_left (w : nat) (s : str) : str := repeat_char SP (w - length s) ++ s.

(* utils.add_line_numbers(lines, start, n_digits) *)
Fixpoint add_line_numbers (lines : list str) (start : nat) (nd : nat) : list str :=
  match lines with
  | [] => []
  | l :: r => (pad_left nd (decimal start) ++ [SP] ++ l) :: add_line_numbers r (S start) nd
  end.

(* ---------- format_part ---------- *)
Record fmt := mkFmt { f_linenos : bool; f_want : bool; f_prefix : bool; f_partno : option nat }.

Definition part_n_lines (p : part) : nat := length (exec_lines p) + length (want_lines p).

Definition PARTNO_OPEN : str := [40;112].      (* "(p" *)
Definition PARTNO_CLOSE : str := [41;32].      (* ") " *)

(* the source lines and the want lines as displayed; the text is '\n'.join(src) [+ '\n' + '\n'.join(want)] *)
Definition format_part_pieces (p : part) (f : fmt) (startline : nat) (nd : option nat) : list str * list str :=
  let src_text := if f_prefix f then join_nl (orig_lines p) else join_nl (exec_lines p) in
  let want_text := join_nl (want_lines p) in
  let nd' := match nd with Some d => d | None => n_digits_of (startline + part_n_lines p) end in
  let part_lines0 := srclines src_text in
  let part_lines1 := if f_linenos f then add_line_numbers part_lines0 (startline + line_offset p) nd' else part_lines0 in
  let n_spaces1 := if f_linenos f then S nd' else O in
  let '(part_lines2, n_spaces2) :=
    match f_partno f with
    | Some k => (map (fun l => PARTNO_OPEN ++ decimal k ++ PARTNO_CLOSE ++ l) part_lines1, (n_spaces1 + 5)%nat)
    | None => (part_lines1, n_spaces1)
    end in
  let wl := if f_want f then map (fun l => repeat_char SP n_spaces2 ++ l) (srclines want_text) else [] in
  (part_lines2, wl).

Definition format_part (p : part) (f : fmt) (startline : nat) (nd : option nat) : str :=
  let '(src, wl) := format_part_pieces p f startline nd in
  match wl with
  | [] => join_nl src
  | _ => join_nl src ++ [NL] ++ join_nl wl
  end.

(* DocTest.format_src(linenos, want, offset_linenos, prefix); lineno = DocTest.lineno *)
Definition format_src (parts : list part) (linenos want offset_linenos prefix partnos : bool) (lineno : nat) : str :=
  let startline := if linenos && offset_linenos then lineno else 1%nat in
  let n_lines := fold_left (fun a p => (a + part_n_lines p)%nat) parts O in
  let nd := if linenos then Some (n_digits_of (startline + n_lines)) else None in
  join_nl (map (fun ip => format_part (snd ip)
                            (mkFmt linenos want prefix (if partnos then Some (fst ip) else None)) startline nd)
               (combine (seq 0 (length parts)) parts)).

(* ---------- the dump command ---------- *)
Definition IMPORT_STAR : str := [32;105;109;112;111;114;116;32;42].          (* " import *" *)
Definition WANT_HDR : str := [35;32;100;111;99;116;101;115;116;32;119;97;110;116;58].   (* "# doctest want:" *)
Definition HASH_SP : str := [35;32].
Definition FOUR : str := [32;32;32;32].
Definition QQQ : str := [34;34;34].
Definition ELLIPSIS_BODY : str := [46;46;46].

Definition no_star (l : str) : bool := negb (contains IMPORT_STAR l).

(* body_part of one part: format_part(linenos=False, want=False, prefix=False) on the filtered lines,
   then the want as comments *)
Definition dump_part (p : part) : str :=
  let ex := filter no_star (exec_lines p) in
  let body := join_nl (srclines (join_nl ex)) in
  match want_lines p with
  | [] => body
  | wl => body ++ [NL] ++ WANT_HDR ++ [NL] ++ indent_text HASH_SP (join_nl wl)
  end.

Record dump_example := mkDump {
  de_func_name : str;             (* 'test_' + modname + '_' + callname, dots replaced *)
  de_node : str;
  de_header : list str;           (* global_exec lines + the `from mod import names` line (pyflakes oracle) *)
  de_parts : list part
}.

Definition DEF_ : str := [100;101;102;32].                 (* "def " *)
Definition PARENS_COLON : str := [40;41;58].               (* "():" *)
Definition CONVERTED : str := [99;111;110;118;101;114;116;101;100;32;102;114;111;109;32].   (* "converted from " *)

Definition dump_function (e : dump_example) : str :=
  let body_lines := match de_parts e with [] => [ELLIPSIS_BODY] | ps => map dump_part ps end in
  let body := join_nl ([QQQ; CONVERTED ++ de_node e; QQQ] ++ de_header e ++ body_lines) in
  DEF_ ++ de_func_name e ++ PARENS_COLON ++ [NL] ++ indent_text FOUR body.

(* module_text = '\n\n\n'.join(functions) *)
Definition dump_module (es : list dump_example) : str := join [NL; NL; NL] (map dump_function es).
