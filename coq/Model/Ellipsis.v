(* Ellipsis.v — model of checker._ellipsis_match (checker.py:258-338),
   including the re.split(r'\s*\.\.\.\s*', want) that produces the pieces. *)
From XD Require Export Model.Base.
Open Scope N_scope.

Definition DOT : char := 46.
Definition marker : str := [DOT; DOT; DOT].

(* re.split(r'\s*\.\.\.\s*', s): leftmost matches, left to right.
   State of the scanner while walking s:
     piece_rev  committed characters of the current piece (reversed)
     pend_rev   the whitespace run directly before the cursor (reversed); it
                belongs to the separator if dots follow, else to the piece
     skip       how many characters of an already recognised "..." remain
     eat        true while inside the trailing \s* of a separator *)
Fixpoint split_go (s : str) (piece_rev pend_rev : str) (skip : nat) (eat : bool)
  : list str :=
  match s with
  | [] => [rev (pend_rev ++ piece_rev)]
  | c :: s' =>
      match skip with
      | S k => split_go s' piece_rev pend_rev k eat
      | O =>
          if starts_with marker s then
            rev piece_rev :: split_go s' [] [] 2 true
          else if is_space c then
            if eat then split_go s' piece_rev pend_rev 0 true
            else split_go s' piece_rev (c :: pend_rev) 0 false
          else split_go s' (c :: pend_rev ++ piece_rev) [] 0 false
      end
  end.

Definition split_ell (s : str) : list str := split_go s [] [] 0 false.

(* the loop `for w in ws: startpos = got.find(w, startpos, endpos) ...`
   expressed on the region got[startpos:endpos] *)
Fixpoint scan (ws : list str) (region : str) : bool :=
  match ws with
  | [] => true
  | w :: ws' =>
      match find_sub w region with
      | None => false
      | Some i => scan ws' (skipn (i + length w) region)
      end
  end.

Definition ellipsis_match (got want : str) : bool :=
  if negb (contains marker want) then eqb_str want got
  else
    let ws := split_ell want in
    match ws with
    | [] => false                                   (* assert len(ws) >= 2 *)
    | w0 :: rest0 =>
        (* exact match possibly needed at the start *)
        let '(ok1, startpos, ws1) :=
          if nonempty w0
          then if starts_with w0 got then (true, length w0, rest0) else (false, O, ws)
          else (true, O, ws) in
        if negb ok1 then false else
        match last_opt ws1 with
        | None => false                             (* unreachable: len(ws) >= 2 *)
        | Some wl =>
            let '(ok2, endpos, ws2) :=
              if nonempty wl
              then if ends_with wl got
                   then (true, (length got - length wl)%nat, removelast ws1)
                   else (false, O, ws1)
              else (true, length got, ws1) in
            if negb ok2 then false else
            if Nat.ltb endpos startpos then false else
            scan ws2 (slice startpos endpos got)
        end
    end.
