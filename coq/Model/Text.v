(* Text.v — textwrap.dedent (CPython 3.12), utils.codeblock, utils.indent, and the
   composition extract_exc_want = _EXCEPTION_RE.search(codeblock(want)). *)
From XD Require Export Model.Base Model.Checker.
Open Scope N_scope.

Definition is_sptab (c : char) : bool := (c =? SP) || (c =? TAB).

(* _whitespace_only_re.sub('', text): a line made only of blanks/tabs becomes empty *)
Definition blank_ws_only (l : str) : str :=
  if nonempty l && all_b is_sptab l then [] else l.

(* _leading_whitespace_re.findall: the leading [ \t]* of every line that has a
   character other than blank, tab (and newline) *)
Definition leading_ws (l : str) : option str :=
  match drop_while is_sptab l with
  | [] => None
  | _ => Some (take_while is_sptab l)
  end.

Fixpoint common_prefix (a b : str) : str :=
  match a, b with
  | x :: a', y :: b' => if x =? y then x :: common_prefix a' b' else []
  | _, _ => []
  end.

(* the margin loop of dedent *)
Definition margin_step (margin : option str) (indent : str) : option str :=
  match margin with
  | None => Some indent
  | Some m =>
      if starts_with m indent then Some m
      else if starts_with indent m then Some indent
      else Some (common_prefix m indent)
  end.

Fixpoint somes_str (l : list (option str)) : list str :=
  match l with [] => [] | Some x :: l' => x :: somes_str l' | None :: l' => somes_str l' end.

Definition dedent (text : str) : str :=
  let lines := map blank_ws_only (split_on NL text) in
  let margin := fold_left margin_step (somes_str (map leading_ws lines)) None in
  match margin with
  | Some (m0 :: m') =>
      let m := m0 :: m' in
      join_nl (map (fun l => if starts_with m l then skipn (length m) l else l) lines)
  | _ => join_nl lines
  end.

Definition is_nl (c : char) : bool := c =? NL.
(* utils.codeblock(text) = textwrap.dedent(text).strip('\n') *)
Definition codeblock (text : str) : str := strip_by is_nl (dedent text).

(* checker.extract_exc_want *)
Definition extract_exc_want (want : str) : option str := extract_exc_want_cb (codeblock want).

(* checker.check_exception on the raw want *)
Definition check_exception (fl : flags) (exc_got want : str) : option bool :=
  check_exception_cb fl exc_got (codeblock want).

(* utils.indent(text, prefix) = prefix + text.replace('\n', '\n' + prefix) *)
Definition indent_text (prefix text : str) : str :=
  prefix ++ join ([NL] ++ prefix) (split_on NL text).
