(* StdOutput.v — model of CPython's doctest.OutputChecker.check_output(want, got, optionflags) (Lib/doctest.py), the
   comparison the STANDARD doctest module makes for every example.  Like StdDoctest.v it is not code of /repo: it is the
   reference that property C20 compares xdoctest with; the correspondence check runs it against the interpreter's own
   doctest.OutputChecker on ASCII texts (the _toAscii step in front of the comparison is the identity there).

       if got == want: return True
       if not (optionflags & DONT_ACCEPT_TRUE_FOR_1):
           if (got, want) == ("True\n", "1\n"): return True
           if (got, want) == ("False\n", "0\n"): return True
       if not (optionflags & DONT_ACCEPT_BLANKLINE):
           want = re.sub(r'(?m)^%s\s*?$' % re.escape(BLANKLINE_MARKER), '', want)
           got = re.sub(r'(?m)^[^\S\n]+$', '', got)
           if got == want: return True
       if optionflags & NORMALIZE_WHITESPACE:
           got = ' '.join(got.split()); want = ' '.join(want.split())
           if got == want: return True
       if optionflags & ELLIPSIS:
           if _ellipsis_match(want, got): return True
       return False

   Only the two flags a '# doctest:' directive of the property's grammar can switch on are parameters (e = ELLIPSIS,
   n = NORMALIZE_WHITESPACE); DONT_ACCEPT_TRUE_FOR_1 and DONT_ACCEPT_BLANKLINE are off, as with "no extra option flags".

   The two regular expressions work line by line ((?m): ^ and $ are the positions next to a newline):
     - a want line that is the marker followed by white space only becomes empty (the lazy \s*? stops at the first
       position where $ holds and cannot cross a newline because $ holds in front of it);
     - a got line that consists of one or more white-space characters becomes empty. *)
From XD Require Export Model.Base Model.Ellipsis Model.Checker Model.StdDoctest.
Open Scope N_scope.

Definition is_marker_line (l : str) : bool :=
  starts_with BLANKLINE l && forallb is_space (skipn 11 l).
Definition std_rm_blank (want : str) : str :=
  join_nl (map (fun l => if is_marker_line l then [] else l) (split_on NL want)).

Definition ws_only_line (l : str) : bool := nonempty l && forallb is_space l.
Definition std_blank_got (got : str) : str :=
  join_nl (map (fun l => if ws_only_line l then [] else l) (split_on NL got)).

Definition TRUE_NL : str := [84;114;117;101;10].      (* "True\n" *)
Definition FALSE_NL : str := [70;97;108;115;101;10].  (* "False\n" *)
Definition ONE_NL : str := [49;10].                   (* "1\n" *)
Definition ZERO_NL : str := [48;10].                  (* "0\n" *)

Definition true_for_1 (want got : str) : bool :=
  (eqb_str got TRUE_NL && eqb_str want ONE_NL) || (eqb_str got FALSE_NL && eqb_str want ZERO_NL).

Definition std_check_output (e n : bool) (want got : str) : bool :=
  if eqb_str got want then true
  else if true_for_1 want got then true
  else
    let want1 := std_rm_blank want in
    let got1 := std_blank_got got in
    if eqb_str got1 want1 then true
    else
      let got2 := if n then collapse_ws got1 else got1 in
      let want2 := if n then collapse_ws want1 else want1 in
      if n && eqb_str got2 want2 then true
      else if e then std_ellipsis_match want2 got2 else false.
