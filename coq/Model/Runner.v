(* Runner.v — model of runner.doctest_module (gathering of examples, lines 283-298),
   runner._run_examples (the loop and its tallies, 622-711), __main__.main's exit
   status, and plugin.XDoctestItem.runtest's verdict.  What running one doctest
   does is the run-loop model (RunLoop.run) or, for the runner loop, an oracle. *)
From XD Require Export Model.Base Model.Parser Model.Checker Model.Text Model.Directive Model.RunLoop.
Open Scope N_scope.

(* ---------- collected doctests as the runner sees them ---------- *)
Record example := mkExample {
  ex_callname : str;
  ex_unique : str;              (* callname + ':' + str(num) *)
  ex_disabled : bool            (* is_disabled(pytest=False): one of the five comment patterns *)
}.

Inductive command := C_all | C_dump | C_list | C_name (s : str).

(* command in example.valid_testnames *)
Definition names (s : str) (e : example) : bool := eqb_str s (ex_callname e) || eqb_str s (ex_unique e).

(* runner.py:283-289 (the zero-argument fallback for an unmatched name is outside the model) *)
Definition gather (cmd : command) (examples : list example) : list example :=
  match cmd with
  | C_all | C_dump => filter (fun e => negb (ex_disabled e)) examples
  | C_name s => filter (names s) examples
  | C_list => []
  end.

(* `list` prints example.cmdline for every collected example (disabled ones too) *)
Definition listed (examples : list example) : list str := map ex_unique examples.

(* ---------- _run_examples ---------- *)
Inductive run_out :=
| RO_summary (sm : summary)     (* example.run(on_error='return') returned *)
| RO_raised                     (* an Exception escaped run: re-raised, the whole run aborts *)
| RO_interrupt.                 (* KeyboardInterrupt: the loop stops, tallies are still reported *)

Inductive loop_end := LE_done | LE_abort | LE_interrupted.

Fixpoint run_loop (outs : list run_out) : list summary * loop_end :=
  match outs with
  | [] => ([], LE_done)
  | RO_summary sm :: r => let '(l, e) := run_loop r in (sm :: l, e)
  | RO_raised :: _ => ([], LE_abort)
  | RO_interrupt :: _ => ([], LE_interrupted)
  end.

Definition count_b (f : summary -> bool) (l : list summary) : nat := length (filter f l).

Record run_summary := mkRunSummary {
  n_total : nat; n_passed : nat; n_failed : nat; n_skipped : nat;
  failed_idx : list nat          (* positions (in the enabled list) appended to `failed` *)
}.

(* the `failed` list: summaries that are neither skipped nor passed, by position *)
Fixpoint failed_positions (l : list summary) (i : nat) : list nat :=
  match l with
  | [] => []
  | sm :: r => if s_skipped sm then failed_positions r (S i)
               else if s_passed sm then failed_positions r (S i)
               else i :: failed_positions r (S i)
  end.

Definition run_examples (outs : list run_out) : option run_summary :=
  match run_loop outs with
  | (_, LE_abort) => None
  | (l, _) => Some (mkRunSummary (length outs) (count_b s_passed l) (count_b s_failed l)
                                 (count_b s_skipped l) (failed_positions l 0))
  end.

(* __main__.main: return 1 if n_failed > 0 else 0 *)
Definition exit_status (rs : run_summary) : nat := if Nat.ltb 0 (n_failed rs) then 1%nat else 0%nat.

(* ---------- verdicts of the two front ends over one run-loop model ---------- *)
Inductive verdict := V_passed | V_failed | V_skipped.

Definition verdict_of_summary (sm : summary) : verdict :=
  if s_failed sm then V_failed else if s_skipped sm then V_skipped else V_passed.

(* native runner: run(on_error='return'), mode native; None = something escaped *)
Definition native_verdict (r : run_result) : option verdict :=
  match r with
  | R_summary sm _ => Some (verdict_of_summary sm)
  | _ => None
  end.

(* plugin.XDoctestItem.runtest: run(on_error='raise'), mode pytest, then anything_ran() *)
Definition pytest_verdict (r : run_result) : option verdict :=
  match r with
  | R_raised _ _ => Some V_failed
  | R_no_frame _ => Some V_failed                      (* any escaping exception fails the item *)
  | R_pytest_skip _ => Some V_skipped
  | R_summary sm st => Some (if s_failed sm then V_failed       (* not reachable with on_error='raise' *)
                             else if anything_ran st then V_passed else V_skipped)
  | R_base _ | R_need _ => None
  end.

(* ---------- one collected doctest as each front end reports it ---------- *)
Inductive report := Rep_omitted | Rep_verdict (v : verdict) | Rep_escaped.

(* native `all`: force-disabled doctests are not run at all *)
Definition native_item (disabled : bool) (r : run_result) : report :=
  if disabled then Rep_omitted
  else match native_verdict r with Some v => Rep_verdict v | None => Rep_escaped end.

(* pytest: force-disabled doctests (is_disabled(pytest=True)) are reported skipped *)
Definition pytest_item (disabled_pytest : bool) (r : run_result) : report :=
  if disabled_pytest then Rep_verdict V_skipped
  else match pytest_verdict r with Some v => Rep_verdict v | None => Rep_escaped end.
