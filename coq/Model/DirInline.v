(* DirInline.v — the decision "inline or block" that Directive.extract(text) makes for every directive found in the text of
   one statement (src/xdoctest/directive.py, since fix F31):

       inline = not all(line.strip().startswith('#') for line in text.splitlines() if line.strip())

   i.e. the directives of a statement are INLINE iff some line of the statement holds anything but a comment; empty lines
   (bare prompts used as spacing, an empty continuation line) are not code.  The comments themselves are found by the
   tokenizer (an oracle of Model/Parser.v); this file models only the classification. *)
From XD Require Export Model.Base.
Open Scope N_scope.

Definition HASH : char := 35.
Definition comment_line (l : str) : bool := starts_with [HASH] (strip l).
Definition blank_line (l : str) : bool := match strip l with [] => true | _ => false end.

Definition extract_inline (text : str) : bool :=
  negb (forallb comment_line (filter (fun l => negb (blank_line l)) (splitlines text))).

(* the rule before fix F31 (kept for the refutation theorem: it is what the seeded changes at this site are compared with) *)
Definition extract_inline_before_F31 (text : str) : bool :=
  negb (forallb comment_line (splitlines text)).
