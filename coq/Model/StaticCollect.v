(* StaticCollect.v — model of static_analysis.TopLevelVisitor (which callables of a module source are
   collected, under which names) over an abstract syntax tree, and of static_analysis.package_modpaths
   (which files of a package tree are collected) over an abstract directory tree. *)
From XD Require Export Model.Base.
Open Scope N_scope.

(* ---------- the module's syntax tree, as much of it as the visitor looks at ---------- *)
Inductive nkind :=
| NK_Func            (* ast.FunctionDef / ast.AsyncFunctionDef *)
| NK_Class           (* ast.ClassDef *)
| NK_IfMain          (* `if __name__ == '__main__':` exactly as visit_If tests it; its children are the
                        statements of the ELSE branch only (the guarded block is never visited) *)
| NK_Other.          (* anything else: generic_visit descends into its children *)

Inductive snode :=
| SNode (k : nkind) (name : str)
        (hidden : bool)          (* a decorator is an ast.Attribute whose attr is 'setter' or 'deleter' *)
        (doc : option nat)       (* identity of the docstring, None = no docstring *)
        (children : list snode).

Definition calldefs := list (str * option nat).      (* OrderedDict callname -> docstring *)

(* OrderedDict item assignment: a repeated key keeps its position and takes the new value *)
Fixpoint od_set (k : str) (v : option nat) (d : calldefs) : calldefs :=
  match d with
  | [] => [(k, v)]
  | (k', v') :: d' => if eqb_str k k' then (k, v) :: d' else (k', v') :: od_set k v d'
  end.

Definition DOT : char := 46.
Definition callname_of (cls : option str) (name : str) : str :=
  match cls with None => name | Some c => c ++ [DOT] ++ name end.

(* NodeVisitor.visit on one node; cls = self._current_classname *)
Fixpoint visit (cls : option str) (n : snode) (acc : calldefs) : calldefs :=
  match n with
  | SNode k name hidden doc children =>
      let visit_all (c : option str) :=
        (fix go (l : list snode) (a : calldefs) : calldefs :=
           match l with [] => a | x :: r => go r (visit c x a) end) children in
      match k with
      | NK_Func => if hidden then acc else od_set (callname_of cls name) doc acc      (* no generic_visit *)
      | NK_Class =>
          match cls with
          | None => visit_all (Some name) (od_set name doc acc)
          | Some _ => acc                                                           (* nested class: ignored *)
          end
      | NK_IfMain => visit_all cls acc
      | NK_Other => visit_all cls acc
      end
  end.

Fixpoint visit_list (cls : option str) (l : list snode) (acc : calldefs) : calldefs :=
  match l with [] => acc | x :: r => visit_list cls r (visit cls x acc) end.

Definition DOC_KEY : str := [95;95;100;111;99;95;95].        (* __doc__ *)

(* visit_Module: the module docstring (if truthy) under '__doc__', then the body *)
Definition visit_module (moddoc : option nat) (body : list snode) : calldefs :=
  visit_list None body (match moddoc with Some d => [(DOC_KEY, Some d)] | None => [] end).

(* ---------- package_modpaths(pkgpath, with_pkg=True) over a directory tree ---------- *)
Inductive dtree :=
| DFile (name : str)
| DDir (name : str) (children : list dtree).

Definition INIT_PY : str := [95;95;105;110;105;116;95;95;46;112;121].
Definition DOT_PY : str := [46;112;121].

Definition is_file_named (nm : str) (t : dtree) : bool :=
  match t with DFile n => eqb_str n nm | DDir _ _ => false end.
Definition has_init (children : list dtree) : bool := any_b (is_file_named INIT_PY) children.

Definition dname (t : dtree) : str := match t with DFile n => n | DDir n _ => n end.

Definition mod_files (d : list str) (children : list dtree) : list (list str) :=
  flat_map (fun t => match t with
                     | DFile n => if ends_with DOT_PY n && negb (eqb_str n INIT_PY) then [d ++ [n]] else []
                     | DDir _ _ => []
                     end) children.
Definition sub_inits (d : list str) (children : list dtree) : list (list str) :=
  flat_map (fun t => match t with
                     | DDir n ch => if has_init ch then [d ++ [n; INIT_PY]] else []
                     | DFile _ => []
                     end) children.

(* os.walk at the directory t whose own path is d: the module files of this package (not __init__.py),
   the __init__.py of each sub-package, then the sub-directories top-down; a directory without
   __init__.py is not descended into *)
Fixpoint walk (d : list str) (t : dtree) : list (list str) :=
  match t with
  | DFile _ => []
  | DDir _ children =>
      if has_init children then
        mod_files d children ++ sub_inits d children ++
        (fix go (l : list dtree) : list (list str) :=
           match l with
           | [] => []
           | x :: r => walk (d ++ [dname x]) x ++ go r
           end) children
      else []
  end.

(* package_modpaths(pkgpath, with_pkg=True) for a directory pkgpath = d *)
Definition package_modpaths (d : list str) (t : dtree) : list (list str) :=
  match t with
  | DFile _ => [d]
  | DDir _ children => (if has_init children then [d ++ [INIT_PY]] else []) ++ walk d t
  end.
