(* Base.v — strings as lists of code points and the Python str operations the
   models need.  Executable definitions only (no proofs): the model must still
   run when a proof breaks.  Proofs about these live in Proofs/BaseFacts.v. *)
From Coq Require Export List NArith ZArith Bool Arith Lia.
Export ListNotations.
Open Scope N_scope.

Definition char := N.
Definition str := list N.

(* ---------- character classes (Python 3.12 unicode tables) ---------- *)

(* str.isspace() == re "\s" on str patterns; exact for all of Unicode
   (compared exhaustively over 0..0x10FFFF by the harness). *)
Definition is_space (c : char) : bool :=
  ((9 <=? c) && (c <=? 13)) || ((28 <=? c) && (c <=? 32)) ||
  (c =? 133) || (c =? 160) || (c =? 5760) ||
  ((8192 <=? c) && (c <=? 8202)) || (c =? 8232) || (c =? 8233) ||
  (c =? 8239) || (c =? 8287) || (c =? 12288).

(* str.splitlines() boundaries *)
Definition is_linebreak (c : char) : bool :=
  ((10 <=? c) && (c <=? 13)) || ((28 <=? c) && (c <=? 30)) ||
  (c =? 133) || (c =? 8232) || (c =? 8233).

Definition is_digit (c : char) : bool := (48 <=? c) && (c <=? 57).
Definition is_upper (c : char) : bool := (65 <=? c) && (c <=? 90).
Definition is_lower (c : char) : bool := (97 <=? c) && (c <=? 122).
Definition is_alpha (c : char) : bool := is_upper c || is_lower c.

(* re "\w" (UNICODE): exact for code points 0..255 only (alphabet of fidelity):
   [0-9A-Za-z_] plus the Latin-1 alnum: aa b2 b3 b5 b9 ba bc bd be c0-d6 d8-f6 f8-ff *)
Definition is_word (c : char) : bool :=
  is_digit c || is_alpha c || (c =? 95) ||
  (c =? 170) || (c =? 178) || (c =? 179) || (c =? 181) || (c =? 185) || (c =? 186) ||
  ((188 <=? c) && (c <=? 190)) ||
  ((192 <=? c) && (c <=? 214)) || ((216 <=? c) && (c <=? 246)) ||
  ((248 <=? c) && (c <=? 255)).

Definition NL : char := 10.
Definition SP : char := 32.
Definition CR : char := 13.
Definition TAB : char := 9.

(* ---------- equality ---------- *)

Fixpoint eqb_str (a b : str) : bool :=
  match a, b with
  | [], [] => true
  | x :: a', y :: b' => (x =? y) && eqb_str a' b'
  | _, _ => false
  end.

Fixpoint eqb_list {A} (eqb : A -> A -> bool) (a b : list A) : bool :=
  match a, b with
  | [], [] => true
  | x :: a', y :: b' => eqb x y && eqb_list eqb a' b'
  | _, _ => false
  end.

Definition nonempty {A} (l : list A) : bool :=
  match l with [] => false | _ => true end.

Definition is_empty {A} (l : list A) : bool :=
  match l with [] => true | _ => false end.

(* ---------- prefix / suffix / search ---------- *)

Fixpoint starts_with (p s : str) : bool :=
  match p, s with
  | [], _ => true
  | a :: p', b :: s' => (a =? b) && starts_with p' s'
  | _ :: _, [] => false
  end.

Definition ends_with (p s : str) : bool := starts_with (rev p) (rev s).

(* str.find(w) on the whole list: least i with w at i *)
Fixpoint find_sub (w s : str) : option nat :=
  if starts_with w s then Some O
  else match s with
       | [] => None
       | _ :: s' => match find_sub w s' with
                    | Some i => Some (S i)
                    | None => None
                    end
       end.

Definition contains (w s : str) : bool :=
  match find_sub w s with Some _ => true | None => false end.

(* s.find(c) for a single character *)
Fixpoint find_char (c : char) (s : str) : option nat :=
  match s with
  | [] => None
  | x :: s' => if x =? c then Some O
               else match find_char c s' with Some i => Some (S i) | None => None end
  end.

(* last index of c in s *)
Fixpoint rfind_char_aux (c : char) (s : str) (i : nat) (best : option nat) : option nat :=
  match s with
  | [] => best
  | x :: s' => rfind_char_aux c s' (S i) (if x =? c then Some i else best)
  end.
Definition rfind_char (c : char) (s : str) : option nat := rfind_char_aux c s O None.

(* ---------- stripping ---------- *)

Fixpoint drop_while (f : char -> bool) (s : str) : str :=
  match s with
  | [] => []
  | c :: s' => if f c then drop_while f s' else s
  end.

Fixpoint take_while (f : char -> bool) (s : str) : str :=
  match s with
  | [] => []
  | c :: s' => if f c then c :: take_while f s' else []
  end.

Definition lstrip (s : str) : str := drop_while is_space s.
Definition rstrip (s : str) : str := rev (drop_while is_space (rev s)).
Definition strip (s : str) : str := lstrip (rstrip s).

Definition rstrip_by (f : char -> bool) (s : str) : str := rev (drop_while f (rev s)).
Definition strip_by (f : char -> bool) (s : str) : str := drop_while f (rstrip_by f s).

(* ---------- splitting / joining ---------- *)

(* s.split('\n') : always at least one piece *)
Fixpoint split_on (c : char) (s : str) : list str :=
  match s with
  | [] => [[]]
  | x :: s' =>
      if x =? c then [] :: split_on c s'
      else match split_on c s' with
           | [] => [[x]]        (* unreachable *)
           | p :: ps => (x :: p) :: ps
           end
  end.

Fixpoint join (sep : str) (ps : list str) : str :=
  match ps with
  | [] => []
  | [p] => p
  | p :: ps' => p ++ sep ++ join sep ps'
  end.

Definition join_nl (ps : list str) : str := join [NL] ps.

(* s.split() : whitespace separated words, no empties *)
Fixpoint words_aux (s : str) (cur_rev : str) : list str :=
  match s with
  | [] => match cur_rev with [] => [] | _ => [rev cur_rev] end
  | c :: s' =>
      if is_space c
      then match cur_rev with [] => words_aux s' [] | _ => rev cur_rev :: words_aux s' [] end
      else words_aux s' (c :: cur_rev)
  end.
Definition words (s : str) : list str := words_aux s [].

(* s.splitlines(keepends=True); CR LF is one break *)
Definition flush_rev (cur_rev : str) : list str :=
  match cur_rev with [] => [] | _ => [rev cur_rev] end.

Fixpoint splitlines_keep_aux (s : str) (cur_rev : str) : list str :=
  match s with
  | [] => flush_rev cur_rev
  | c :: s' =>
      if c =? CR then
        match s' with
        | d :: s'' => if d =? NL
                      then rev (d :: c :: cur_rev) :: splitlines_keep_aux s'' []
                      else rev (c :: cur_rev) :: splitlines_keep_aux s' []
        | [] => [rev (c :: cur_rev)]
        end
      else if is_linebreak c then rev (c :: cur_rev) :: splitlines_keep_aux s' []
      else splitlines_keep_aux s' (c :: cur_rev)
  end.
Definition splitlines_keep (s : str) : list str := splitlines_keep_aux s [].

(* drop the line terminator of a kept line *)
Definition chomp (l : str) : str :=
  match rev l with
  | a :: b :: r => if (a =? NL) && (b =? CR) then rev r
                   else if is_linebreak a then rev (b :: r) else l
  | [a] => if is_linebreak a then [] else l
  | [] => []
  end.
Definition splitlines (s : str) : list str := map chomp (splitlines_keep s).

(* the lines of a docstring as parser._splitlines cuts them since fix F28: re.split('\r\n|\r|\n') with a final empty piece
   dropped - like str.splitlines(), but broken at newlines and carriage returns ONLY (a form feed, a vertical tab or a unicode
   separator is a character of its line, as it is for the tokenizer and in the file) *)
Definition is_srcbreak (c : char) : bool := (c =? NL) || (c =? CR).

Fixpoint srclines_keep_aux (s : str) (cur_rev : str) : list str :=
  match s with
  | [] => flush_rev cur_rev
  | c :: s' =>
      if c =? CR then
        match s' with
        | d :: s'' => if d =? NL
                      then rev (d :: c :: cur_rev) :: srclines_keep_aux s'' []
                      else rev (c :: cur_rev) :: srclines_keep_aux s' []
        | [] => [rev (c :: cur_rev)]
        end
      else if is_srcbreak c then rev (c :: cur_rev) :: srclines_keep_aux s' []
      else srclines_keep_aux s' (c :: cur_rev)
  end.
Definition srclines_keep (s : str) : list str := srclines_keep_aux s [].

Definition src_chomp (l : str) : str :=
  match rev l with
  | a :: b :: r => if (a =? NL) && (b =? CR) then rev r
                   else if is_srcbreak a then rev (b :: r) else l
  | [a] => if is_srcbreak a then [] else l
  | [] => []
  end.
Definition srclines (s : str) : list str := map src_chomp (srclines_keep s).

(* ---------- misc list helpers ---------- *)

Definition last_opt {A} (l : list A) : option A :=
  match rev l with [] => None | x :: _ => Some x end.

Definition lastn {A} (n : nat) (l : list A) : list A := skipn (length l - n) l.

Fixpoint repeat_char (c : char) (n : nat) : str :=
  match n with O => [] | S k => c :: repeat_char c k end.

Fixpoint all_b {A} (f : A -> bool) (l : list A) : bool :=
  match l with [] => true | x :: l' => f x && all_b f l' end.

Fixpoint any_b {A} (f : A -> bool) (l : list A) : bool :=
  match l with [] => false | x :: l' => f x || any_b f l' end.

(* python slice l[a:b] for 0 <= a, b *)
Definition slice {A} (a b : nat) (l : list A) : list A := firstn (b - a) (skipn a l).

(* ASCII literal helper: strings are written as lists of N in the models; the
   harness never depends on notation. *)
