(* Report.v — model of DocTest.repr_failure (doctest_example.py) up to and including the TRACEBACK heading, uncoloured:
   the reason line, the two location lines, and the breakdown of the parts into passed / failed / remaining.
   What follows the heading (the formatted traceback or the got/want difference) is produced by traceback / difflib
   and is outside the model.  Executable definitions only. *)
From XD Require Export Model.RunLoop Model.Format.
Open Scope N_scope.

Definition REASON : str := [42;32;82;69;65;83;79;78;58;32]%N.    (* '* REASON: ' *)
Definition DEBUG_INFO : str := [32;68;69;66;85;71;32;73;78;70;79]%N.    (* ' DEBUG INFO' *)
Definition XDOC_OPEN : str := [32;32;88;68;111;99;32;34]%N.    (* '  XDoc ''' *)
Definition LINE_MID : str := [34;44;32;108;105;110;101;32]%N.    (* ''', line ' *)
Definition WRT_DOCTEST : str := [32;60;45;32;119;114;116;32;100;111;99;116;101;115;116]%N.    (* ' <- wrt doctest' *)
Definition FILE_OPEN : str := [32;32;70;105;108;101;32;34]%N.    (* '  File ''' *)
Definition WRT_FILE : str := [32;60;45;32;119;114;116;32;115;111;117;114;99;101;32;102;105;108;101]%N.    (* ' <- wrt source file' *)
Definition PART_BREAKDOWN : str := [32;80;65;82;84;32;66;82;69;65;75;68;79;87;78]%N.    (* ' PART BREAKDOWN' *)
Definition PASSED_PARTS : str := [80;97;115;115;101;100;32;80;97;114;116;115;58]%N.    (* 'Passed Parts:' *)
Definition FAILED_PART : str := [70;97;105;108;101;100;32;80;97;114;116;58]%N.    (* 'Failed Part:' *)
Definition REMAINING_PARTS : str := [82;101;109;97;105;110;105;110;103;32;80;97;114;116;115;58]%N.    (* 'Remaining Parts:' *)
Definition TRACEBACK_HDR : str := [32;84;82;65;67;69;66;65;67;75]%N.    (* ' TRACEBACK' *)
Definition SIX : str := [32;32;32;32;32;32]%N.    (* '      ' *)
Definition COMMA : str := [44]%N.    (* ',' *)

(* r1_strip_nl *)
Definition strip_one_nl (t : str) : str := if ends_with [NL] t then removelast t else t.
(* self.logged_stdout.get(partx, '') *)
Definition logged_get (lg : list (nat * str)) (i : nat) : str :=
  match lookup_nat i lg with Some t => t | None => [] end.

(* the texts of format_parts(linenos, want, offset_linenos, prefix) with the partnos option *)
Definition part_texts (parts : list part) (linenos want offset_linenos prefix partnos : bool) (lineno : nat) : list str :=
  let startline := if linenos && offset_linenos then lineno else 1%nat in
  let n_lines := fold_left (fun a p => (a + part_n_lines p)%nat) parts O in
  let nd := if linenos then Some (n_digits_of (startline + n_lines)) else None in
  map (fun ip => format_part (snd ip) (mkFmt linenos want prefix (if partnos then Some (fst ip) else None)) startline nd)
      (combine (seq 0 (length parts)) parts).

(* what one executed part contributes: its numbered source, then what it wrote (if anything) *)
Definition bd_entry (lg : list (nat * str)) (i : nat) (text : str) : list str :=
  let out := strip_one_nl (logged_get lg i) in
  indent_text FOUR text :: (if nonempty out then [indent_text SIX out] else []).

(* the loop that sorts the parts into [before; failed; after]; t is `tindex` *)
Fixpoint bd_go (its : list (nat * str)) (skipped : list nat) (failed : option nat) (lg : list (nat * str)) (t : nat)
  : list str * list str * list str :=
  match its with
  | [] => ([], [], [])
  | (i, text) :: rest =>
      if mem_nat i skipped then bd_go rest skipped failed lg t
      else
        let isf := match failed with Some j => Nat.eqb i j | None => false end in
        let t1 := if isf then S t else t in
        let t2 := if isf then S t1 else t1 in
        let '(a, b, c) := bd_go rest skipped failed lg t2 in
        let here := bd_entry lg i text in
        match t1 with
        | O => (here ++ a, b, c)
        | S O => (a, here ++ b, c)
        | _ => (a, b, here ++ c)
        end
  end.

Definition failed_index (failed : option (option nat * failure)) : option nat :=
  match failed with Some (Some i, _) => Some i | _ => None end.

(* the lines of repr_failure from '* REASON' to the TRACEBACK heading.
   exname = type(exception).__name__; node = DocTest.node; fpath = the file (or '<modpath?>'); block_prefix = 'DOCTEST' / 'ZERO-ARG';
   offs / partnos = the offset_linenos / partnos options; tb = failed_tb_lineno *)
Definition repr_failure_head (exname node fpath block_prefix : str) (doc_lineno : nat) (ps : list part) (st : rstate)
           (tb : nat) (offs partnos : bool) : option (list str) :=
  match failed_line_offset ps st tb with
  | None => None
  | Some fo =>
      let texts := part_texts ps true false offs true partnos doc_lineno in
      let '(before, failp, after) :=
        bd_go (combine (seq 0 (length texts)) texts) (r_skipped st) (failed_index (r_failed st)) (r_logged st) O in
      Some ([REASON ++ exname;
             block_prefix ++ DEBUG_INFO;
             XDOC_OPEN ++ node ++ LINE_MID ++ decimal (fo + 1) ++ WRT_DOCTEST;
             FILE_OPEN ++ fpath ++ LINE_MID ++ decimal (doc_lineno + fo) ++ COMMA ++ WRT_FILE;
             block_prefix ++ PART_BREAKDOWN]
            ++ (match before with [] => [] | _ => PASSED_PARTS :: before end)
            ++ (match failp with [] => [] | _ => FAILED_PART :: failp end)
            ++ (match after with [] => [] | _ => REMAINING_PARTS :: after end)
            ++ [block_prefix ++ TRACEBACK_HDR])
  end.

(* the same from the bare bookkeeping (what the correspondence check feeds in) *)
Definition report_state (skipped : list nat) (logged : list (nat * str)) (failed : option (option nat * failure)) : rstate :=
  mkR (rs_init []) [] skipped [] [] logged failed false E_break.
Definition repr_failure_head_of (exname node fpath block_prefix : str) (doc_lineno : nat) (ps : list part)
           (skipped : list nat) (logged : list (nat * str)) (failed : option (option nat * failure))
           (tb : nat) (offs partnos : bool) : option (list str) :=
  repr_failure_head exname node fpath block_prefix doc_lineno ps (report_state skipped logged failed) tb offs partnos.
