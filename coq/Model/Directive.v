(* Directive.v — model of directive.py: Directive.effects, RuntimeState
   (__init__, __getitem__, update, set_report_style) and the run loop's skip test.
   The runtime state is two association lists (persistent + inline overlay),
   exactly as the two dicts of the code.  Executable definitions only. *)
From XD Require Export Model.Base Model.Parser Model.Checker.
Open Scope N_scope.

(* ---------- values held by the state dicts ---------- *)
Inductive value := VBool (b : bool) | VSet (s : list str).

Definition dict := list (str * value).

Fixpoint dget (k : str) (d : dict) : option value :=
  match d with
  | [] => None
  | (k', v) :: d' => if eqb_str k k' then Some v else dget k d'
  end.

(* d[k] = v : replace in place if present, else append (dict insertion order) *)
Fixpoint dset (k : str) (v : value) (d : dict) : dict :=
  match d with
  | [] => [(k, v)]
  | (k', v') :: d' => if eqb_str k k' then (k, v) :: d' else (k', v') :: dset k v d'
  end.

Definition dhas (k : str) (d : dict) : bool := match dget k d with Some _ => true | None => false end.

(* ---------- key names ---------- *)
Definition K_REQUIRES : str := [82;69;81;85;73;82;69;83].
Definition K_SKIP : str := [83;75;73;80].
Definition K_ELLIPSIS : str := [69;76;76;73;80;83;73;83].
Definition K_NORMALIZE_WHITESPACE : str := [78;79;82;77;65;76;73;90;69;95;87;72;73;84;69;83;80;65;67;69].
Definition K_IGNORE_WHITESPACE : str := [73;71;78;79;82;69;95;87;72;73;84;69;83;80;65;67;69].
Definition K_NORMALIZE_REPR : str := [78;79;82;77;65;76;73;90;69;95;82;69;80;82].
Definition K_DONT_ACCEPT_BLANKLINE : str := [68;79;78;84;95;65;67;67;69;80;84;95;66;76;65;78;75;76;73;78;69].
Definition K_IGNORE_EXCEPTION_DETAIL : str := [73;71;78;79;82;69;95;69;88;67;69;80;84;73;79;78;95;68;69;84;65;73;76].
Definition K_IGNORE_WANT : str := [73;71;78;79;82;69;95;87;65;78;84].
Definition K_REPORT_ : str := [82;69;80;79;82;84;95].
Definition K_REPORT_CDIFF : str := K_REPORT_ ++ [67;68;73;70;70].
Definition K_REPORT_NDIFF : str := K_REPORT_ ++ [78;68;73;70;70].
Definition K_REPORT_UDIFF : str := K_REPORT_ ++ [85;68;73;70;70].

(* directive.DEFAULT_RUNTIME_STATE, in its dict order *)
Definition DEFAULT_RUNTIME_STATE : dict :=
  [ (K_DONT_ACCEPT_BLANKLINE, VBool false);
    (K_ELLIPSIS, VBool true);
    (K_IGNORE_WHITESPACE, VBool false);
    (K_IGNORE_EXCEPTION_DETAIL, VBool false);
    (K_NORMALIZE_WHITESPACE, VBool true);
    (K_IGNORE_WANT, VBool false);
    (K_NORMALIZE_REPR, VBool true);
    (K_REPORT_CDIFF, VBool false);
    (K_REPORT_NDIFF, VBool false);
    (K_REPORT_UDIFF, VBool true);
    (K_SKIP, VBool false);
    (K_REQUIRES, VSet []) ].

Record runstate := mkRS { rs_global : dict; rs_inline : dict }.

(* RuntimeState(default_state): deepcopy of the defaults, then dict.update *)
Definition rs_init (default_state : dict) : runstate :=
  mkRS (fold_left (fun d kv => dset (fst kv) (snd kv) d) default_state DEFAULT_RUNTIME_STATE) [].

(* __getitem__ : None = KeyError *)
Definition rs_get (rs : runstate) (k : str) : option value :=
  if dhas k (rs_global rs) then
    match dget k (rs_inline rs) with
    | Some v => Some v
    | None => dget k (rs_global rs)
    end
  else None.

(* set_report_style(choice) on the persistent state: all REPORT_* off, REPORT_<choice> on *)
Definition set_report_style (d : dict) (key : str) : dict :=
  dset key (VBool true)
       (map (fun kv => if starts_with K_REPORT_ (fst kv) then (fst kv, VBool false) else kv) d).

(* ---------- effects ---------- *)
Inductive action := A_noop | A_assign | A_set_add | A_set_remove | A_set_report_style.
Record effect := mkEffect { e_action : action; e_key : str; e_val : value }.

(* requires_met : _is_requires_satisfied(arg); Err = it raised *)
Definition effects (requires_met : str -> res bool) (d : directive) : res (list effect) :=
  if eqb_str (d_name d) K_REQUIRES then
    map_res (fun arg =>
               do ok <- requires_met arg;
               Ok (mkEffect (if ok then A_noop
                             else if d_positive d then A_set_add else A_set_remove)
                            K_REQUIRES (VSet [arg])))
            (d_args d)
  else if starts_with K_REPORT_ (d_name d) then
    Ok [mkEffect (if d_positive d then A_noop else A_set_report_style) (d_name d) (VBool false)]
  else Ok [mkEffect A_assign (d_name d) (VBool (d_positive d))].

Fixpoint set_add (x : str) (s : list str) : list str :=
  match s with
  | [] => [x]
  | y :: s' => if eqb_str x y then s else y :: set_add x s'
  end.
Fixpoint set_remove (x : str) (s : list str) : list str :=
  match s with
  | [] => []
  | y :: s' => if eqb_str x y then s' else y :: set_remove x s'
  end.

Inductive uerr := U_KeyError | U_AttributeError | U_Requires.   (* what update can raise *)
Inductive ures (A : Type) := UOk (a : A) | UErr (e : uerr) | UNeed (q : query).
Arguments UOk {A} a.
Arguments UErr {A} e.
Arguments UNeed {A} q.

Definition apply_effect (inline : bool) (rs : runstate) (e : effect) : ures runstate :=
  match e_action e with
  | A_noop => UOk rs
  | A_set_report_style =>
      (* key.replace('REPORT_', '') then 'REPORT_' + choice.upper(): the key itself for the
         upper-case names the parser produces; always the persistent state *)
      UOk (mkRS (set_report_style (rs_global rs) (e_key e)) (rs_inline rs))
  | A_assign =>
      if inline then UOk (mkRS (rs_global rs) (dset (e_key e) (e_val e) (rs_inline rs)))
      else UOk (mkRS (dset (e_key e) (e_val e) (rs_global rs)) (rs_inline rs))
  | A_set_add | A_set_remove =>
      let arg := match e_val e with VSet (a :: _) => a | _ => [] end in
      let op := match e_action e with A_set_add => set_add arg | _ => set_remove arg end in
      if inline then
        (* the overlay of a set starts as a copy of the persistent set *)
        match (if dhas (e_key e) (rs_inline rs) then UOk (rs_inline rs)
               else match dget (e_key e) (rs_global rs) with
                    | Some (VSet s) => UOk (dset (e_key e) (VSet s) (rs_inline rs))
                    | Some (VBool _) => UErr U_AttributeError       (* set(True) -> TypeError *)
                    | None => UErr U_KeyError
                    end) with
        | UOk ovl =>
            match dget (e_key e) ovl with
            | Some (VSet s) => UOk (mkRS (rs_global rs) (dset (e_key e) (VSet (op s)) ovl))
            | Some (VBool _) => UErr U_AttributeError
            | None => UErr U_KeyError
            end
        | UErr x => UErr x
        | UNeed q => UNeed q
        end
      else
        match dget (e_key e) (rs_global rs) with
        | Some (VSet s) => UOk (mkRS (dset (e_key e) (VSet (op s)) (rs_global rs)) (rs_inline rs))
        | Some (VBool _) => UErr U_AttributeError
        | None => UErr U_KeyError
        end
  end.

Fixpoint apply_effects (inline : bool) (rs : runstate) (es : list effect) : ures runstate :=
  match es with
  | [] => UOk rs
  | e :: es' => match apply_effect inline rs e with
                | UOk rs' => apply_effects inline rs' es'
                | x => x
                end
  end.

(* RuntimeState.update(directives) *)
Fixpoint update_go (requires_met : str -> res bool) (rs : runstate) (ds : list directive) : ures runstate :=
  match ds with
  | [] => UOk rs
  | d :: ds' =>
      match effects requires_met d with
      | Err (E_Need q) => UNeed q
      | Err _ => UErr U_Requires
      | Ok es =>
          match apply_effects (d_inline d) rs es with
          | UOk rs' => update_go requires_met rs' ds'
          | x => x
          end
      end
  end.
Definition rs_update (requires_met : str -> res bool) (rs : runstate) (ds : list directive) : ures runstate :=
  update_go requires_met (mkRS (rs_global rs) []) ds.

(* ---------- what the run loop and the checker read ---------- *)
Definition truthy (v : option value) : bool :=
  match v with
  | Some (VBool b) => b
  | Some (VSet s) => nonempty s
  | None => false
  end.
Definition rs_flag (rs : runstate) (k : str) : bool := truthy (rs_get rs k).

(* runstate['SKIP'] or len(runstate['REQUIRES']) > 0 *)
Definition rs_skips (rs : runstate) : bool :=
  rs_flag rs K_SKIP ||
  match rs_get rs K_REQUIRES with Some (VSet s) => nonempty s | _ => false end.

Definition flags_of (rs : runstate) : flags :=
  mkFlags (rs_flag rs K_ELLIPSIS) (rs_flag rs K_NORMALIZE_WHITESPACE) (rs_flag rs K_IGNORE_WHITESPACE)
          (rs_flag rs K_NORMALIZE_REPR) (rs_flag rs K_DONT_ACCEPT_BLANKLINE)
          (rs_flag rs K_IGNORE_EXCEPTION_DETAIL) (rs_flag rs K_IGNORE_WANT).
