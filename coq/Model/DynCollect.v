(* DynCollect.v — model of dynamic_analysis.parse_dynamic_calldefs / iter_module_doctestables on the
   module that results from executing the syntax tree of Model/StaticCollect.v: module-level definitions
   bind names in the module dict (a later binding replaces the object, so the members of a replaced class
   are gone), definitions in a class body bind names in that class's dict.  The flat key space is the one
   collection uses: 'func', 'Class', 'Class.method'. *)
From XD Require Export Model.Base Model.StaticCollect.
Open Scope N_scope.

Definition member_of (name : str) (key : str) : bool := starts_with (name ++ [DOT]) key.

(* the object bound to `name` is replaced: whatever was collected as its members is no longer reachable *)
Definition drop_members (name : str) (acc : calldefs) : calldefs :=
  filter (fun kv => negb (member_of name (fst kv))) acc.

Definition dyn_bind (name : str) (doc : option nat) (acc : calldefs) : calldefs :=
  od_set name doc (drop_members name acc).

(* executing the module body, then iter_module_doctestables over the resulting dicts *)
Fixpoint dyn (cls : option str) (n : snode) (acc : calldefs) : calldefs :=
  match n with
  | SNode k name hidden doc children =>
      let dyn_all (c : option str) :=
        (fix go (l : list snode) (a : calldefs) : calldefs :=
           match l with [] => a | x :: r => go r (dyn c x a) end) children in
      match k with
      | NK_Func =>
          if hidden then acc          (* x.setter / x.deleter rebuild the property around the same getter *)
          else match cls with
               | None => dyn_bind name doc acc
               | Some c => od_set (callname_of cls name) doc acc
               end
      | NK_Class =>
          match cls with
          | None => dyn_all (Some name) (dyn_bind name doc acc)
          | Some _ => acc                (* a class object in a class dict is not a doctestable *)
          end
      | NK_IfMain => dyn_all cls acc     (* the else branch: what runs on import *)
      | NK_Other => dyn_all cls acc      (* every branch that holds a definition is taken (Ordinary) *)
      end
  end.

Fixpoint dyn_list (cls : option str) (l : list snode) (acc : calldefs) : calldefs :=
  match l with [] => acc | x :: r => dyn_list cls r (dyn cls x acc) end.

Definition dyn_module (moddoc : option nat) (body : list snode) : calldefs :=
  dyn_list None body (match moddoc with Some d => [(DOC_KEY, Some d)] | None => [] end).

(* the module-level names a node binds, in order *)
Fixpoint binds (n : snode) : list str :=
  match n with
  | SNode k name hidden doc children =>
      let binds_all := (fix go (l : list snode) : list str :=
                          match l with [] => [] | x :: r => binds x ++ go r end) children in
      match k with
      | NK_Func => if hidden then [] else [name]
      | NK_Class => [name]
      | NK_IfMain | NK_Other => binds_all
      end
  end.
Fixpoint binds_list (l : list snode) : list str :=
  match l with [] => [] | x :: r => binds x ++ binds_list r end.
