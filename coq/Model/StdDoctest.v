(* StdDoctest.v — model of CPython's doctest._ellipsis_match(want, got) (Lib/doctest.py), the matcher the
   STANDARD doctest module uses under ELLIPSIS.  It is not code of /repo: it is the reference that property C20
   compares xdoctest with; the correspondence check runs it against the interpreter's own doctest module.

       if ELLIPSIS_MARKER not in want: return want == got
       ws = want.split(ELLIPSIS_MARKER)
       startpos, endpos = 0, len(got)
       w = ws[0]
       if w:  if got.startswith(w): startpos = len(w); del ws[0]   else: return False
       w = ws[-1]
       if w:  if got.endswith(w): endpos -= len(w); del ws[-1]     else: return False
       if startpos > endpos: return False
       for w in ws:
           startpos = got.find(w, startpos, endpos)
           if startpos < 0: return False
           startpos += len(w)
       return True

   The only difference from xdoctest's checker._ellipsis_match is the split: str.split('...') here,
   re.split(r'\s*\.\.\.\s*') there. *)
From XD Require Export Model.Base Model.Ellipsis.
Open Scope N_scope.

(* str.split('...'): leftmost non-overlapping occurrences, left to right *)
Fixpoint std_go (s piece_rev : str) (skip : nat) : list str :=
  match s with
  | [] => [rev piece_rev]
  | c :: s' =>
      match skip with
      | S k => std_go s' piece_rev k
      | O => if starts_with marker s then rev piece_rev :: std_go s' [] 2
             else std_go s' (c :: piece_rev) 0
      end
  end.
Definition split_std (s : str) : list str := std_go s [] 0.

(* the body shared by both matchers once the want is cut into pieces *)
Definition match_pieces (ws : list str) (got : str) : bool :=
    match ws with
    | [] => false
    | w0 :: rest0 =>
        let '(ok1, startpos, ws1) :=
          if nonempty w0
          then if starts_with w0 got then (true, length w0, rest0) else (false, O, ws)
          else (true, O, ws) in
        if negb ok1 then false else
        match last_opt ws1 with
        | None => false
        | Some wl =>
            let '(ok2, endpos, ws2) :=
              if nonempty wl
              then if ends_with wl got
                   then (true, (length got - length wl)%nat, removelast ws1)
                   else (false, O, ws1)
              else (true, length got, ws1) in
            if negb ok2 then false else
            if Nat.ltb endpos startpos then false else
            scan ws2 (slice startpos endpos got)
        end
    end.

Definition std_ellipsis_match (want got : str) : bool :=
  if negb (contains marker want) then eqb_str want got
  else match_pieces (split_std want) got.
