(* RunLoop.v — model of DocTest.run (doctest_example.py:685-997), DoctestPart.check,
   DoctestPart.has_any_code / want, _post_run, anything_ran, failed_line_offset.
   What executing a part does (stdout text, value, exception) is an oracle indexed
   by the part's position.  Executable definitions only. *)
From XD Require Export Model.Base Model.Parser Model.Checker Model.Text Model.Directive.
Open Scope N_scope.

(* ---------- DoctestPart helpers ---------- *)
Definition is_comment_or_blank (line : str) : bool :=
  let s := strip line in is_empty s || starts_with [HASH] s.
Definition has_any_code (p : part) : bool := negb (all_b is_comment_or_blank (exec_lines p)).
Definition part_want (p : part) : option str :=
  match want_lines p with [] => None | ls => Some (join_nl ls) end.

(* ---------- DoctestPart.check: the want against every trailing sequence ---------- *)
(* candidates in the order tried: the last 1, 2, ... elements of unmatched ++ [got] joined *)
Fixpoint trailing_candidates_rev (rev_gots : list str) (acc : str) : list str :=
  match rev_gots with
  | [] => []
  | g :: rest => (g ++ acc) :: trailing_candidates_rev rest (g ++ acc)
  end.
Definition trailing_candidates (unmatched : list str) (got : str) : list str :=
  trailing_candidates_rev (rev (unmatched ++ [got])) [].

(* GW_gotwant on a candidate means "try the next one"; anything else ends the loop *)
Fixpoint check_candidates (fl : flags) (want : str) (ev : got_eval) (cands : list str) : gw_result :=
  match cands with
  | [] => GW_gotwant
  | c :: rest =>
      match check_got_vs_want fl want c ev with
      | GW_gotwant => check_candidates fl want ev rest
      | r => r
      end
  end.
Definition part_check (fl : flags) (want : str) (unmatched : list str) (got : str) (ev : got_eval) : gw_result :=
  check_candidates fl want ev (trailing_candidates unmatched got).

(* ---------- what running one part does (oracle) ---------- *)
Inductive outcome :=
| O_ok (out : str) (ev : got_eval)                      (* ran to the end; ev only for eval mode *)
| O_raise (out : str) (exc_last : str) (has_frame : bool) (* an Exception; format_exception_only(..)[-1];
                                                           does the traceback hold a frame of the doctest *)
| O_exit (out : str)                                    (* ExitTestException / pytest Skipped *)
| O_compile_error                                       (* compile() of the part raises *)
| O_existing_loop                                       (* top-level await inside a running loop *)
| O_base (out : str).                                   (* SystemExit / KeyboardInterrupt *)

Inductive failure :=
| F_directive | F_import | F_compile | F_gotwant | F_extract_repr | F_exception | F_existing_loop.

Inductive on_error := OE_return | OE_raise.

Record config := mkConfig {
  c_on_error : on_error;
  c_pytest_mode : bool;
  c_default_state : dict;
  c_report_key : str;              (* 'REPORT_' + reportchoice.upper() *)
  c_import_ok : bool               (* oracle: _import_module() succeeds *)
}.

Inductive run_end :=
| E_running                         (* loop still going (internal) *)
| E_break                           (* loop left by `break` (failure recorded or graceful exit) *)
| E_import_return                   (* early `return self._post_run()` after an import failure *)
| E_raise (f : failure)             (* on_error='raise': the exception propagates *)
| E_base                            (* a BaseException propagates out of run *)
| E_no_frame                        (* ValueError('Could not clean traceback') escapes *)
| E_update_need (q : query).        (* executable model: oracle entry missing *)

Record rstate := mkR {
  r_rs : runstate;
  r_unmatched : list str;
  r_skipped : list nat;
  r_executed : list nat;            (* parts whose code was handed to exec/eval *)
  r_checked : list nat;             (* parts whose want was compared *)
  r_logged : list (nat * str);      (* logged_stdout *)
  r_failed : option (option nat * failure);   (* failed_part (None = '<IMPORT>') and kind *)
  r_did_import : bool;
  r_end : run_end
}.

Definition set_end (s : rstate) (e : run_end) : rstate :=
  mkR (r_rs s) (r_unmatched s) (r_skipped s) (r_executed s) (r_checked s) (r_logged s) (r_failed s) (r_did_import s) e.

Definition fail_at (cfg : config) (s : rstate) (i : option nat) (f : failure) : rstate :=
  mkR (r_rs s) (r_unmatched s) (r_skipped s) (r_executed s) (r_checked s) (r_logged s)
      (Some (i, f)) (r_did_import s)
      (match c_on_error cfg with OE_raise => E_raise f | OE_return => E_break end).

(* part.directives (may raise for lazily extracted ones) then RuntimeState.update *)
Definition part_update (requires_met : str -> res bool) (rs : runstate) (p : part) : ures runstate :=
  if p_dirs_raise p then UErr U_Requires else rs_update requires_met rs (p_directives p).

(* one iteration of the loop over parts *)
Definition step (requires_met : str -> res bool) (cfg : config) (oc : nat -> outcome)
           (s : rstate) (i : nat) (p : part) : rstate :=
  match r_end s with
  | E_running =>
      match part_update requires_met (r_rs s) p with
      | UNeed q => set_end s (E_update_need q)
      | UErr _ => fail_at cfg s (Some i) F_directive
      | UOk rs' =>
          let s1 := mkR rs' (r_unmatched s) (r_skipped s) (r_executed s) (r_checked s) (r_logged s)
                        (r_failed s) (r_did_import s) E_running in
          if rs_skips rs' || negb (has_any_code p) then
            mkR rs' (r_unmatched s) (r_skipped s ++ [i]) (r_executed s) (r_checked s) (r_logged s)
                (r_failed s) (r_did_import s) E_running
          else if negb (r_did_import s) && negb (c_import_ok cfg) then
            (* '<IMPORT>' failure: raise, or return the summary at once *)
            mkR rs' (r_unmatched s) (r_skipped s) (r_executed s) (r_checked s) (r_logged s)
                (Some (None, F_import)) false
                (match c_on_error cfg with OE_raise => E_raise F_import | OE_return => E_import_return end)
          else
            let s2 := mkR rs' (r_unmatched s) (r_skipped s) (r_executed s) (r_checked s) (r_logged s)
                          (r_failed s) true E_running in
            let fl := flags_of rs' in
            let log (s : rstate) (out : str) :=
              mkR (r_rs s) (r_unmatched s) (r_skipped s) (r_executed s ++ [i]) (r_checked s)
                  (r_logged s ++ [(i, out)]) (r_failed s) (r_did_import s) (r_end s) in
            match oc i with
            | O_compile_error =>
                let s3 := mkR (r_rs s2) (r_unmatched s2) (r_skipped s2) (r_executed s2) (r_checked s2)
                              (r_logged s2 ++ [(i, [])]) (r_failed s2) true E_running in
                fail_at cfg s3 (Some i) F_compile
            | O_existing_loop => fail_at cfg (log s2 []) (Some i) F_existing_loop
            | O_base out => set_end (log s2 out) E_base
            | O_exit out => set_end (log s2 out) E_break
            | O_ok out ev =>
                let s3 := log s2 out in
                match part_want p with
                | None =>
                    mkR (r_rs s3) (r_unmatched s3 ++ [out]) (r_skipped s3) (r_executed s3) (r_checked s3)
                        (r_logged s3) (r_failed s3) true E_running
                | Some want =>
                    if IGNORE_WANT fl then
                      mkR (r_rs s3) [] (r_skipped s3) (r_executed s3) (r_checked s3)
                          (r_logged s3) (r_failed s3) true E_running
                    else
                      let s4 := mkR (r_rs s3) (r_unmatched s3) (r_skipped s3) (r_executed s3)
                                    (r_checked s3 ++ [i]) (r_logged s3) (r_failed s3) true E_running in
                      match part_check fl want (r_unmatched s3) out ev with
                      | GW_ok =>
                          mkR (r_rs s4) [] (r_skipped s4) (r_executed s4) (r_checked s4)
                              (r_logged s4) (r_failed s4) true E_running
                      | GW_gotwant => fail_at cfg s4 (Some i) F_gotwant
                      | GW_extract_repr => fail_at cfg s4 (Some i) F_extract_repr
                      | GW_repr_escapes => fail_at cfg s4 (Some i) F_exception
                      end
                end
            | O_raise out exc_last has_frame =>
                let s3 := log s2 out in
                let as_exception :=
                  if has_frame then fail_at cfg s3 (Some i) F_exception
                  else set_end s3 E_no_frame in
                match part_want p with
                | None => as_exception
                | Some want =>
                    match check_exception fl exc_last want with
                    | None => as_exception                     (* bare `raise`: not a traceback want *)
                    | Some true =>                             (* the expected exception: go on; like every passing check it
                                                                  ends the window of unmatched output (fix F25) *)
                        mkR (r_rs s3) [] (r_skipped s3) (r_executed s3) (r_checked s3)
                            (r_logged s3) (r_failed s3) (r_did_import s3) (r_end s3)
                    | Some false => fail_at cfg s3 (Some i) F_gotwant
                    end
                end
            end
      end
  | _ => s
  end.

Fixpoint run_parts (requires_met : str -> res bool) (cfg : config) (oc : nat -> outcome)
         (s : rstate) (i : nat) (ps : list part) : rstate :=
  match ps with
  | [] => s
  | p :: ps' => run_parts requires_met cfg oc (step requires_met cfg oc s i p) (S i) ps'
  end.

Definition init_state (cfg : config) : rstate :=
  let rs0 := rs_init (c_default_state cfg) in
  let rs1 := mkRS (set_report_style (rs_global rs0) (c_report_key cfg)) (rs_inline rs0) in
  mkR rs1 [] [] [] [] [] None false E_running.

(* ---------- what run() hands back ---------- *)
Record summary := mkSummary { s_passed : bool; s_failed : bool; s_skipped : bool }.

Inductive run_result :=
| R_summary (sm : summary) (st : rstate)     (* run returned *)
| R_raised (f : failure) (st : rstate)       (* the failure's exception propagates (on_error='raise') *)
| R_base (st : rstate)                       (* SystemExit / KeyboardInterrupt propagates *)
| R_no_frame (st : rstate)                   (* ValueError from the traceback search escapes *)
| R_pytest_skip (st : rstate)                (* pytest.skip() because every part was skipped *)
| R_need (q : query).

Definition post_run (nparts : nat) (st : rstate) : summary :=
  let skipped := Nat.eqb (length (r_skipped st)) nparts in
  let failed := match r_failed st with Some _ => true | None => false end in
  mkSummary (negb failed && negb skipped) failed skipped.

Definition run (requires_met : str -> res bool) (cfg : config) (oc : nat -> outcome) (ps : list part)
  : run_result :=
  let st := run_parts requires_met cfg oc (init_state cfg) 0 ps in
  match r_end st with
  | E_update_need q => R_need q
  | E_raise f => R_raised f st
  | E_base => R_base st
  | E_no_frame => R_no_frame st
  | E_import_return => R_summary (post_run (length ps) st) st
  | E_running | E_break =>
      if Nat.eqb (length (r_skipped st)) (length ps) && c_pytest_mode cfg
      then R_pytest_skip st
      else R_summary (post_run (length ps) st) st
  end.

(* anything_ran(): some part logged stdout *)
Definition anything_ran (st : rstate) : bool := nonempty (r_logged st).

(* ---------- failed_line_offset / failed_lineno ---------- *)
(* tb_lineno: the line (1-based, inside the failing part) of the doctest frame found in the
   traceback, or the SyntaxError's lineno for a compile failure (oracle) *)
Definition failed_line_offset (ps : list part) (st : rstate) (tb_lineno : nat) : option nat :=
  match r_failed st with
  | None => None
  | Some (None, _) => Some O                                 (* '<IMPORT>' *)
  | Some (Some i, f) =>
      match nth_error ps i with
      | None => None
      | Some p =>
          let off := line_offset p in
          let n_exec := length (exec_lines p) in
          Some (match f with
                | F_extract_repr | F_existing_loop => off + n_exec - 1
                | F_gotwant => off + n_exec + 1 - 1
                | F_directive => off + 1 - 1                  (* failed_tb_lineno = 1 *)
                | _ => off + tb_lineno - 1
                end)%nat
      end
  end.
Definition failed_lineno (doc_lineno : nat) (ps : list part) (st : rstate) (tb_lineno : nat) : option nat :=
  match failed_line_offset ps st tb_lineno with
  | Some o => Some (doc_lineno + o)%nat
  | None => None
  end.
