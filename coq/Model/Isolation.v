(* Isolation.v — aliasing model of the directive state across runs in one process.
   The module-level directive.DEFAULT_RUNTIME_STATE holds a mutable set (REQUIRES); every
   RuntimeState must work on its own copy.  Sets live in an explicit heap so that "copy" and
   "alias" are different terms; what is proved is that the default cell is never written, for
   every history of runs (C11).  The per-run behaviour given a state is Model/Directive.v. *)
From XD Require Export Model.Base Model.Parser Model.Directive.
Open Scope N_scope.

Definition cell := nat.
Definition heap := list (list str).                 (* cell id = position; contents = the set *)

Inductive hvalue := HBool (b : bool) | HSet (c : cell).
Definition hdict := list (str * hvalue).

Definition hread (h : heap) (c : cell) : list str := nth c h [].
Fixpoint hwrite (h : heap) (c : cell) (v : list str) : heap :=
  match h, c with
  | [], _ => []
  | _ :: h', O => v :: h'
  | x :: h', S k => x :: hwrite h' k v
  end.
Definition halloc (h : heap) (v : list str) : heap * cell := (h ++ [v], length h).

(* copy.deepcopy of a state dict: every set gets a fresh cell *)
Fixpoint deepcopy (h : heap) (d : hdict) : heap * hdict :=
  match d with
  | [] => (h, [])
  | (k, HBool b) :: r => let '(h', r') := deepcopy h r in (h', (k, HBool b) :: r')
  | (k, HSet c) :: r =>
      let '(h1, c') := halloc h (hread h c) in
      let '(h2, r') := deepcopy h1 r in (h2, (k, HSet c') :: r')
  end.

Fixpoint hget (k : str) (d : hdict) : option hvalue :=
  match d with
  | [] => None
  | (k', v) :: d' => if eqb_str k k' then Some v else hget k d'
  end.
Fixpoint hset (k : str) (v : hvalue) (d : hdict) : hdict :=
  match d with
  | [] => [(k, v)]
  | (k', v') :: d' => if eqb_str k k' then (k, v) :: d' else (k', v') :: hset k v d'
  end.

Record hstate := mkHS { hs_global : hdict; hs_inline : hdict }.

(* RuntimeState(default_state): deepcopy(DEFAULT_RUNTIME_STATE) then dict.update(default_state)
   (default_state holds booleans: what --options can express) *)
Definition hs_init (h : heap) (defaults : hdict) (default_state : list (str * bool)) : heap * hstate :=
  let '(h', g) := deepcopy h defaults in
  (h', mkHS (fold_left (fun d kv => hset (fst kv) (HBool (snd kv)) d) default_state g) []).

(* one effect of RuntimeState.update on the heap (assign / set.add / set.remove; noop and
   report-style effects do not touch sets) *)
Inductive heffect :=
| HE_assign (inline : bool) (key : str) (b : bool)
| HE_set (inline : bool) (add : bool) (key : str) (arg : str).

Definition set_op (add : bool) (arg : str) (s : list str) : list str :=
  if add then set_add arg s else set_remove arg s.

(* None = the update raises (KeyError / AttributeError) *)
Definition happly (h : heap) (st : hstate) (e : heffect) : option (heap * hstate) :=
  match e with
  | HE_assign true key b => Some (h, mkHS (hs_global st) (hset key (HBool b) (hs_inline st)))
  | HE_assign false key b => Some (h, mkHS (hset key (HBool b) (hs_global st)) (hs_inline st))
  | HE_set false add key arg =>
      match hget key (hs_global st) with
      | Some (HSet c) => Some (hwrite h c (set_op add arg (hread h c)), st)        (* state[key].add(value) in place *)
      | _ => None
      end
  | HE_set true add key arg =>
      (* the overlay of a set starts as a NEW set holding the persistent one's elements *)
      let seeded :=
        match hget key (hs_inline st) with
        | Some v => Some (h, hs_inline st, v)
        | None =>
            match hget key (hs_global st) with
            | Some (HSet c) => let '(h', c') := halloc h (hread h c) in
                               Some (h', hset key (HSet c') (hs_inline st), HSet c')
            | _ => None
            end
        end in
      match seeded with
      | Some (h', ovl, HSet c) => Some (hwrite h' c (set_op add arg (hread h' c)), mkHS (hs_global st) ovl)
      | _ => None
      end
  end.

(* update(directives): the overlay is cleared, then the effects are applied in order *)
Fixpoint happly_all (h : heap) (st : hstate) (es : list heffect) : option (heap * hstate) :=
  match es with
  | [] => Some (h, st)
  | e :: r => match happly h st e with
              | Some (h', st') => happly_all h' st' r
              | None => None
              end
  end.
Definition hs_update (h : heap) (st : hstate) (es : list heffect) : option (heap * hstate) :=
  happly_all h (mkHS (hs_global st) []) es.

(* one run of a doctest: a fresh RuntimeState, then one update per part (stopping at the first that raises) *)
Fixpoint hs_updates (h : heap) (st : hstate) (parts : list (list heffect)) : heap :=
  match parts with
  | [] => h
  | es :: r => match hs_update h st es with
               | Some (h', st') => hs_updates h' st' r
               | None => h
               end
  end.
Definition run_directives (h : heap) (defaults : hdict) (default_state : list (str * bool))
           (parts : list (list heffect)) : heap :=
  let '(h', st) := hs_init h defaults default_state in hs_updates h' st parts.

(* a history: several runs, one after the other, in one process *)
Definition history := list (list (str * bool) * list (list heffect)).
Definition exec_history (h : heap) (defaults : hdict) (hist : history) : heap :=
  fold_left (fun h r => run_directives h defaults (fst r) (snd r)) hist h.
