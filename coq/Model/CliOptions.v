(* CliOptions.v — DoctestConfig._populate_from_cli (src/xdoctest/doctest_example.py): the default options of a run as the command
   line gives them.  `--options=+SKIP,-ELLIPSIS` (native runner) / `--xdoctest-options=...` (pytest plugin) is split at commas, each
   piece is parsed by parse_directive_optstr into a name and a sign (that parser is xdoctest's own and is not modelled here: the
   pieces enter as already parsed pairs), and

       default_runtime_state = {}
       for optpart in directive_optstr.split(','):
           directive = parse_directive_optstr(optpart)
           ...
           default_runtime_state[directive.name] = directive.positive

   i.e. a dict filled in list order, a later mention of a name replacing the earlier value in place. *)
From XD Require Export Model.Base Model.Directive.
Open Scope N_scope.

Definition populate_from_cli (opts : list (str * bool)) : dict :=
  fold_left (fun d o => dset (fst o) (VBool (snd o)) d) opts [].
