(* Lit.v — ASCII string literals for examples: "abc"%string -> list of code points *)
From Coq Require Import String Ascii.
From XD Require Import Model.Base.
Definition lit (x : string) : str := map N_of_ascii (list_ascii_of_string x).
Notation "'S' x" := (lit x%string) (at level 0, x at level 0, only parsing).
