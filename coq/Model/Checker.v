(* Checker.v — model of checker.py: normalize (its steps in code order),
   _check_match, check_output, check_got_vs_want, extract_exc_want,
   _strip_exception_details, check_exception; util_str.strip_ansi;
   remove_blankline_marker.  Executable definitions only. *)
From XD Require Export Model.Base Model.Ellipsis.
Open Scope N_scope.

(* ---------- runtime flags that the checker reads ---------- *)
Record flags := mkFlags {
  ELLIPSIS : bool;
  NORMALIZE_WHITESPACE : bool;
  IGNORE_WHITESPACE : bool;
  NORMALIZE_REPR : bool;
  DONT_ACCEPT_BLANKLINE : bool;
  IGNORE_EXCEPTION_DETAIL : bool;
  IGNORE_WANT : bool
}.

(* directive.DEFAULT_RUNTIME_STATE *)
Definition default_flags : flags :=
  mkFlags true true false true false false false.

(* every leniency off, blank-line marker not accepted *)
Definition strict_flags : flags :=
  mkFlags false false false false true false false.

(* ---------- utils.strip_ansi ----------
   re.sub(r'(\x9B|\x1B\[)[0-?]*[ -/]*[@-~]', '', text, IGNORECASE)
   The three classes are pairwise disjoint, so greedy matching never needs to
   give characters back.  State: None = outside a sequence;
   Some (phase, held_rev): inside a candidate sequence whose characters so far
   are held (reversed) and are emitted again if the candidate fails. *)
Definition ESC : char := 27.
Definition CSI : char := 155.
Definition LBRACK : char := 91.
Definition is_param (c : char) : bool := (48 <=? c) && (c <=? 63).
Definition is_inter (c : char) : bool := (32 <=? c) && (c <=? 47).
Definition is_final (c : char) : bool := (64 <=? c) && (c <=? 126).

(* length of the match of [0-?]*[ -/]*[@-~] at the head of s, if any *)
Fixpoint ansi_tail_inter (s : str) (n : nat) : option nat :=
  match s with
  | [] => None
  | c :: s' => if is_inter c then ansi_tail_inter s' (S n)
               else if is_final c then Some (S n) else None
  end.
Fixpoint ansi_tail (s : str) (n : nat) : option nat :=
  match s with
  | [] => None
  | c :: s' => if is_param c then ansi_tail s' (S n)
               else ansi_tail_inter s n
  end.

(* skip = number of characters still to delete (already recognised sequence) *)
Fixpoint strip_ansi_go (s : str) (skip : nat) : str :=
  match s with
  | [] => []
  | c :: s' =>
      match skip with
      | S k => strip_ansi_go s' k
      | O =>
          if c =? CSI then
            match ansi_tail s' 0 with
            | Some n => strip_ansi_go s' n
            | None => c :: strip_ansi_go s' 0
            end
          else if c =? ESC then
            match s' with
            | d :: s'' =>
                if d =? LBRACK then
                  match ansi_tail s'' 0 with
                  | Some n => strip_ansi_go s' (S n)
                  | None => c :: strip_ansi_go s' 0
                  end
                else c :: strip_ansi_go s' 0
            | [] => [c]
            end
          else c :: strip_ansi_go s' 0
      end
  end.
Definition strip_ansi (s : str) : str := strip_ansi_go s 0.

(* ---------- remove_prefixes ----------
   re.sub( (\W|^)[uU]([rR]?[quote]) , \1\2, text)  and the same with [bB];
   quote = single or double quote character *)
Definition QUOTE1 : char := 39.
Definition QUOTE2 : char := 34.
Definition is_quote (c : char) : bool := (c =? QUOTE1) || (c =? QUOTE2).
Definition is_rR (c : char) : bool := (c =? 114) || (c =? 82).
Definition is_uU (c : char) : bool := (c =? 117) || (c =? 85).
Definition is_bB (c : char) : bool := (c =? 98) || (c =? 66).

(* length of the match of [rR]?[quote] at the head of s *)
Definition pref_tail (s : str) : option nat :=
  match s with
  | q :: rest =>
      if is_quote q then Some 1%nat
      else if is_rR q then
        match rest with
        | q2 :: _ => if is_quote q2 then Some 2%nat else None
        | [] => None
        end
      else None
  | [] => None
  end.

(* drop: delete the next character; copy: emit that many characters verbatim
   (they belong to the match just made, the scan resumes after them) *)
Fixpoint rm_prefix_go (isp : char -> bool) (s : str) (at_start drop : bool) (copy : nat) : str :=
  match s with
  | [] => []
  | c :: s' =>
      if drop then rm_prefix_go isp s' false false copy
      else match copy with
           | S k => c :: rm_prefix_go isp s' false false k
           | O =>
               let start_match :=
                 if at_start && isp c then pref_tail s' else None in
               match start_match with
               | Some n => rm_prefix_go isp s' false false n
               | None =>
                   let mid_match :=
                     if negb (is_word c) then
                       match s' with
                       | u :: s'' => if isp u then pref_tail s'' else None
                       | [] => None
                       end
                     else None in
                   match mid_match with
                   | Some n => c :: rm_prefix_go isp s' false true n
                   | None => c :: rm_prefix_go isp s' false false 0
                   end
               end
           end
  end.
Definition rm_prefix (isp : char -> bool) (s : str) : str := rm_prefix_go isp s true false 0.

(* ---------- remove_blankline_marker ---------- *)
Definition BLANKLINE : str := [60;66;76;65;78;75;76;73;78;69;62].   (* <BLANKLINE> *)

(* skip: characters still to delete; eat_nl: delete one following newline if present *)
Fixpoint rm_blankline_go (s : str) (skip : nat) (eat_nl : bool) : str :=
  match s with
  | [] => []
  | c :: s' =>
      match skip with
      | S k => rm_blankline_go s' k eat_nl
      | O =>
          if eat_nl && (c =? NL) then rm_blankline_go s' 0 false
          else if starts_with BLANKLINE s then
            NL :: rm_blankline_go s' 10 true
          else if (c =? NL) && starts_with BLANKLINE s' then
            NL :: rm_blankline_go s' 11 false
          else c :: rm_blankline_go s' 0 false
      end
  end.
Definition rm_blankline (s : str) : str := rm_blankline_go s 0 false.

(* ---------- re.sub( [ \t]*$ , empty, text, MULTILINE) ---------- *)
Definition is_blank (c : char) : bool := (c =? SP) || (c =? TAB).
Fixpoint rm_trailing_go (s : str) (pend_rev : str) : str :=
  match s with
  | [] => []                                        (* pending blanks dropped at end of text *)
  | c :: s' =>
      if is_blank c then rm_trailing_go s' (c :: pend_rev)
      else if c =? NL then c :: rm_trailing_go s' []  (* pending blanks dropped before newline *)
      else rev pend_rev ++ c :: rm_trailing_go s' []
  end.
Definition rm_trailing_ws (s : str) : str := rm_trailing_go s [].

(* ---------- invisible lines: those ending in a bare carriage return ---------- *)
Definition ends_with_cr (l : str) : bool :=
  match rev l with c :: _ => c =? CR | [] => false end.
Definition drop_cr_lines (s : str) : str :=
  concat (filter (fun l => negb (ends_with_cr l)) (splitlines_keep s)).

(* ---------- whitespace normalisation ---------- *)
Definition collapse_ws (s : str) : str := join [SP] (words s).
Definition delete_ws (s : str) : str := filter (fun c => negb (is_space c)) s.

(* ---------- _check_match ---------- *)
Definition check_match (fl : flags) (got want : str) : bool :=
  if eqb_str got want then true
  else if ELLIPSIS fl then ellipsis_match got want
  else false.

(* norm_repr(a, b): drop a's surrounding quotes if that makes it match b *)
Definition strip_outer (a : str) : str := removelast (tl a).      (* a[1:-1] *)
Definition quoted_by (q : char) (a : str) : bool :=
  starts_with [q] a && ends_with [q] a.
Definition norm_repr (fl : flags) (a b : str) : str :=
  if check_match fl a b then a
  else if quoted_by QUOTE2 a && check_match fl (strip_outer a) b then strip_outer a
  else if quoted_by QUOTE1 a && check_match fl (strip_outer a) b then strip_outer a
  else a.

(* the part of normalize that does not look at the other text *)
Definition base_got (s : str) : str :=
  drop_cr_lines (rstrip (rm_trailing_ws (rm_prefix is_bB (rm_prefix is_uU (strip_ansi s))))).
Definition base_want (fl : flags) (s : str) : str :=
  let s1 := rm_prefix is_bB (rm_prefix is_uU (strip_ansi s)) in
  let s2 := if DONT_ACCEPT_BLANKLINE fl then s1 else rm_blankline s1 in
  drop_cr_lines (rstrip (rm_trailing_ws s2)).
Definition ws_norm (fl : flags) (s : str) : str :=
  let s1 := if NORMALIZE_WHITESPACE fl || IGNORE_WHITESPACE fl then collapse_ws s else s in
  if IGNORE_WHITESPACE fl then delete_ws s1 else s1.

Definition normalize (fl : flags) (got want : str) : str * str :=
  let g := ws_norm fl (base_got got) in
  let w := ws_norm fl (base_want fl want) in
  if NORMALIZE_REPR fl then
    let g' := norm_repr fl g w in
    let w' := norm_repr fl w g' in
    (g', w')
  else (g, w).

Definition check_output (fl : flags) (got want : str) : bool :=
  if is_empty want then true
  else if eqb_str got want then true
  else let '(g, w) := normalize fl got want in check_match fl g w.

(* ---------- exceptions ---------- *)

(* _strip_exception_details *)
Definition COLON : char := 58.
Definition strip_exception_details (msg : str) : str :=
  let end1 := match find_char NL msg with Some i => i | None => length msg end in
  let end2 := match find_char COLON (firstn end1 msg) with Some i => i | None => end1 end in
  let start := match rfind_char DOT (firstn end2 msg) with Some i => S i | None => O end in
  slice start end2 msg.

(* utils.codeblock = textwrap.dedent(text).strip('\n') -- dedent is modelled in Text.v;
   extract_exc_want takes the already dedented/stripped text here and the
   composition is made in Text.v. *)
Definition TB_HDR1 : str :=   (* Traceback (most recent call last): *)
  [84;114;97;99;101;98;97;99;107;32;40;109;111;115;116;32;114;101;99;101;110;116;32;99;97;108;108;32;108;97;115;116;41;58].
Definition TB_HDR2 : str :=   (* Traceback (innermost last): *)
  [84;114;97;99;101;98;97;99;107;32;40;105;110;110;101;114;109;111;115;116;32;108;97;115;116;41;58].

(* after the header: \s* then $ (MULTILINE: end of text or before a newline).
   \s* is greedy but may give back; the shortest/longest choice only matters
   for where `stack` starts, not for whether and where `msg` is found, except
   that `^` for msg must come at or after the position where \s*$ ended.
   exc_after_hdr s = Some msg when, from the text s following the header,
   a position p exists with: s[:p] all whitespace, (p = |s| or s[p] = '\n'),
   and a line start q >= p (q = 0 is not a line start here unless p = 0 and
   the header itself started a line ... q > p or s[q-1] = '\n') with s[q] a
   word character; the leftmost such q for the leftmost valid p is taken
   (non-greedy stack); msg = s[q:]. *)
Fixpoint first_word_linestart (s : str) (prev_nl : bool) : option str :=
  match s with
  | [] => None
  | c :: s' =>
      if prev_nl && is_word c then Some s
      else first_word_linestart s' (c =? NL)
  end.

(* skip the \s* run, remembering whether a valid `$` position was passed *)
Fixpoint exc_after_hdr (s : str) : option str :=
  match s with
  | [] => None                                   (* $ holds at the end, but no msg can follow *)
  | c :: s' =>
      if c =? NL then
        (* `$` holds right before this newline: the \s* may stop here (or anywhere
           later while whitespace continues); msg must start at a line start after it.
           Every later stopping point only removes candidate line starts, so the
           earliest stop finds the leftmost msg. *)
        first_word_linestart s' true
      else if is_space c then exc_after_hdr s'
      else None
  end.

Fixpoint find_tb_header (s : str) (linestart : bool) : option str :=
  match s with
  | [] => None
  | c :: s' =>
      let here :=
        if linestart then
          if starts_with TB_HDR1 s then exc_after_hdr (skipn (length TB_HDR1) s)
          else if starts_with TB_HDR2 s then exc_after_hdr (skipn (length TB_HDR2) s)
          else None
        else None in
      match here with
      | Some m => Some m
      | None => find_tb_header s' (c =? NL)
      end
  end.

(* extract_exc_want on the text already passed through utils.codeblock *)
Definition extract_exc_want_cb (want_cb : str) : option str := find_tb_header want_cb true.

(* check_exception: None = the bare `raise` (the live exception propagates);
   Some b = returned flag / GotWantException *)
Definition check_exception_cb (fl : flags) (exc_got : str) (want_cb : str) : option bool :=
  match extract_exc_want_cb want_cb with
  | None => None
  | Some exc_want =>
      if check_output fl exc_got exc_want then Some true
      else if IGNORE_EXCEPTION_DETAIL fl then
        Some (check_output fl (strip_exception_details exc_got) (strip_exception_details exc_want))
      else Some false
  end.

(* ---------- check_got_vs_want ---------- *)
Inductive got_eval :=
| NotEvaled
| EvalRepr (r : str)          (* the value and its repr *)
| EvalReprRaises.             (* repr(value) raises *)

Inductive gw_result := GW_ok | GW_gotwant | GW_extract_repr | GW_repr_escapes.

Definition check_got_vs_want (fl : flags) (want got_stdout : str) (ev : got_eval) : gw_result :=
  match ev with
  | NotEvaled => if check_output fl got_stdout want then GW_ok else GW_gotwant
  | EvalRepr r =>
      if is_empty got_stdout then (if check_output fl r want then GW_ok else GW_gotwant)
      else if check_output fl got_stdout want then GW_ok
      else if check_output fl r want then GW_ok else GW_gotwant
  | EvalReprRaises =>
      if is_empty got_stdout then GW_extract_repr
      else if check_output fl got_stdout want then GW_ok
      else GW_extract_repr      (* the fallback repr() is guarded too since fix F9 (71c069e);
                                   GW_repr_escapes is no longer produced by the model *)
  end.
