(* FS.v — model of utils.util_import: _syspath_modname_to_modpath (file-system part:
   check_dpath, _isvalid), normalize_modpath, split_modpath, modpath_to_modname, over an
   abstract file system.  A path is the list of its components below the file-system
   root; a module name is the list of its dot-separated parts.  Egg-links, editable-install
   finders and extension-module suffixes are outside the model (the harness creates none). *)
From XD Require Export Model.Base.
Open Scope N_scope.

Definition name := str.
Definition path := list name.

Inductive kind := K_none | K_file | K_dir.
Definition fsys := path -> kind.

Definition exists_ (fs : fsys) (p : path) : bool := match fs p with K_none => false | _ => true end.
Definition isfile (fs : fsys) (p : path) : bool := match fs p with K_file => true | _ => false end.
Definition isdir (fs : fsys) (p : path) : bool := match fs p with K_dir => true | _ => false end.

Definition INIT : name := [95;95;105;110;105;116;95;95;46;112;121].      (* __init__.py *)
Definition MAIN : name := [95;95;109;97;105;110;95;95;46;112;121].       (* __main__.py *)
Definition DOTPY : str := [46;112;121].                                  (* .py *)

(* _isvalid(modpath, base): every directory strictly between base and the module has an __init__.py
   (d = base, parts = the components of the module below base) *)
Fixpoint isvalid (fs : fsys) (d : path) (parts : list name) : bool :=
  match parts with
  | [] => true
  | [_] => true
  | n :: rest => exists_ fs (d ++ [n; INIT]) && isvalid fs (d ++ [n]) rest
  end.

Definition with_py (parts : list name) : list name :=
  removelast parts ++ [last parts [] ++ DOTPY].

(* check_dpath(dpath): the package directory has precedence over the .py file *)
Definition check_dpath (fs : fsys) (d : path) (parts : list name) : option path :=
  match parts with
  | [] => None
  | _ =>
      let mp := d ++ parts in
      if exists_ fs mp && isfile fs (mp ++ [INIT]) && isvalid fs d parts then Some mp
      else
        let fp := d ++ with_py parts in
        if isfile fs fp && isvalid fs d parts then Some fp else None
  end.

(* the loop over the search path: the first root in which the name resolves *)
Fixpoint syspath_modname_to_modpath (fs : fsys) (roots : list path) (parts : list name) : option path :=
  match roots with
  | [] => None
  | d :: rest => match check_dpath fs d parts with
                 | Some p => Some p
                 | None => syspath_modname_to_modpath fs rest parts
                 end
  end.

Definition basename (p : path) : name := last p [].
Definition dirname (p : path) : path := removelast p.

(* normalize_modpath(modpath, hide_init, hide_main) *)
Definition normalize_modpath (fs : fsys) (hide_init hide_main : bool) (p : path) : path :=
  let '(p1, hm) :=
    if hide_init then
      (if eqb_str (basename p) INIT then (dirname p, true) else (p, hide_main))
    else
      (if exists_ fs (p ++ [INIT]) then (p ++ [INIT], hide_main) else (p, hide_main)) in
  if hm then
    if eqb_str (basename p1) MAIN && exists_ fs (dirname p1 ++ [INIT]) then dirname p1 else p1
  else p1.

(* modname_to_modpath(modname, hide_init=True, hide_main=False, sys_path=roots) *)
Definition modname_to_modpath (fs : fsys) (roots : list path) (parts : list name) : option path :=
  match syspath_modname_to_modpath fs roots parts with
  | Some p => Some (normalize_modpath fs true false p)
  | None => None
  end.

(* split_modpath: climb while the directory holds an __init__.py.
   rdpath = the directory, reversed (innermost first).  None = the climb never stops
   (the file-system root itself holds an __init__.py: os.path.split('/') = ('/', '')). *)
Fixpoint climb (fs : fsys) (rdpath : list name) (rel : list name) : option (path * list name) :=
  if exists_ fs (rev rdpath ++ [INIT]) then
    match rdpath with
    | [] => None
    | dname :: up => climb fs up (dname :: rel)
    end
  else Some (rev rdpath, rel).

Definition split_modpath (fs : fsys) (p : path) : option (path * list name) :=
  match rev p with
  | [] => climb fs [] [[]]
  | fname :: rd => climb fs rd [fname]
  end.

Definition strip_py (n : name) : name :=
  if ends_with DOTPY n then firstn (length n - 3) n else n.

(* modpath_to_modname(modpath, hide_init=True, hide_main=False), for names without dots *)
Definition modpath_to_modname (fs : fsys) (p : path) : option (list name) :=
  match split_modpath fs (normalize_modpath fs true false p) with
  | Some (_, rel) => Some (removelast rel ++ [strip_py (last rel [])])
  | None => None
  end.

(* ---------- executable instantiation: a finite tree ---------- *)
Fixpoint eqb_path (a b : path) : bool :=
  match a, b with
  | [], [] => true
  | x :: a', y :: b' => eqb_str x y && eqb_path a' b'
  | _, _ => false
  end.
Fixpoint fs_of_list (l : list (path * bool)) (p : path) : kind :=     (* bool: is a directory *)
  match l with
  | [] => K_none
  | (q, isd) :: r => if eqb_path p q then (if isd then K_dir else K_file) else fs_of_list r p
  end.
