(* Proc.v — process-global state touched by running a doctest: sys.stdout (CaptureStdout),
   the warnings filter state (warnings.catch_warnings bracket) and sys.path (PythonPathContext),
   with the placement of these brackets in DocTest.run and _custom_import_modpath.
   What a doctest body does is an arbitrary finite sequence of operations on these globals. *)
From XD Require Export Model.Base.
Open Scope N_scope.

(* ---------- sys.path and PythonPathContext ---------- *)
Fixpoint insert_at {A} (i : nat) (x : A) (l : list A) : list A :=     (* list.insert(i, x), 0 <= i *)
  match i, l with
  | O, _ => x :: l
  | S k, [] => [x]                                                    (* past the end: append *)
  | S k, y :: l' => y :: insert_at k x l'
  end.

Fixpoint remove_at {A} (i : nat) (l : list A) : list A :=             (* list.pop(i), i < len *)
  match i, l with
  | _, [] => []
  | O, _ :: l' => l'
  | S k, y :: l' => y :: remove_at k l'
  end.

Fixpoint index_of (d : str) (l : list str) : option nat :=            (* list.index(d) *)
  match l with
  | [] => None
  | y :: l' => if eqb_str d y then Some O
               else match index_of d l' with Some i => Some (S i) | None => None end
  end.

(* __enter__: a negative index counts from the end (index = len + index + 1); the
   model covers -(len+1) <= index, which includes the two values the code base uses (0 and -1) *)
Definition ppc_index (len : nat) (index : Z) : nat :=
  if (index <? 0)%Z then Z.to_nat (Z.of_nat len + index + 1)%Z else Z.to_nat index.

Definition ppc_enter (path : list str) (d : str) (index : Z) : list str * nat :=
  let i := ppc_index (length path) index in (insert_at i d path, i).

Inductive ppc_result :=
| PPC_ok (path : list str)           (* __exit__ returned; the new sys.path *)
| PPC_runtime_error                  (* 'Expected dpath was not in sys.path' (sys.path untouched) *)
| PPC_index_error.                   (* sys.path[self.index] on a list that became shorter (sys.path untouched) *)

Definition ppc_exit (path : list str) (d : str) (i : nat) : ppc_result :=
  if Nat.leb (length path) i then PPC_index_error
  else
    match nth_error path i with
    | Some x =>
        if eqb_str x d then PPC_ok (remove_at i path)
        else match index_of d path with
             | Some r => PPC_ok (remove_at r path)
             | None => PPC_runtime_error
             end
    | None => PPC_index_error
    end.

(* ---------- stdout capture and the warnings bracket ---------- *)
Definition obj := nat.                       (* identity of a Python object *)

Record proc := mkProc {
  p_stdout : obj;
  p_stderr : obj;
  p_filters : obj;                           (* the state of warnings.filters (a value, compared by equality) *)
  p_showwarning : obj;
  p_cap_text : str                           (* everything written to the capture stream so far *)
}.

(* what doctest code may do to the globals while it runs *)
Inductive op :=
| Write (s : str)                            (* print: goes to whatever sys.stdout is *)
| SetStdout (v : obj)
| SetFilters (f : obj)                       (* warnings.simplefilter / filterwarnings *)
| SetShowwarning (w : obj).

Definition CAP : obj := 1%nat.               (* the TeeStringIO of the run's CaptureStdout *)

Definition do_op (s : proc) (o : op) : proc :=
  match o with
  | Write t => if Nat.eqb (p_stdout s) CAP
               then mkProc (p_stdout s) (p_stderr s) (p_filters s) (p_showwarning s) (p_cap_text s ++ t)
               else s
  | SetStdout v => mkProc v (p_stderr s) (p_filters s) (p_showwarning s) (p_cap_text s)
  | SetFilters f => mkProc (p_stdout s) (p_stderr s) f (p_showwarning s) (p_cap_text s)
  | SetShowwarning w => mkProc (p_stdout s) (p_stderr s) (p_filters s) w (p_cap_text s)
  end.

Definition do_ops (s : proc) (ops : list op) : proc := fold_left do_op ops s.

Definition set_stdout (s : proc) (v : obj) : proc :=
  mkProc v (p_stderr s) (p_filters s) (p_showwarning s) (p_cap_text s).

(* `with cap:` around one part: start (sys.stdout = cap), the body, then __exit__ = log_part
   (the text since the previous log_part) and stop (sys.stdout = orig), on every way out of the body *)
Definition with_cap (orig : obj) (pos : nat) (s : proc) (body : list op) : proc * str * nat :=
  let s1 := set_stdout s CAP in
  let s2 := do_ops s1 body in
  let text := skipn pos (p_cap_text s2) in
  (set_stdout s2 orig, text, length (p_cap_text s2)).

(* DocTest.run: cap = CaptureStdout() reads sys.stdout once; `with warnings.catch_warnings(record=True)`
   around the loop saves and restores the filter state and showwarning; every executed part runs inside
   `with cap:`.  bodies = the operations of the parts that are executed, in order; how the run ends
   (returns, raises, SystemExit propagating) does not matter: every bracket is a `with`. *)
Fixpoint run_parts_proc (orig : obj) (pos : nat) (s : proc) (bodies : list (list op)) (logged : list str)
  : proc * list str :=
  match bodies with
  | [] => (s, logged)
  | b :: rest =>
      let '(s', text, pos') := with_cap orig pos s b in
      run_parts_proc orig pos' s' rest (logged ++ [text])
  end.

Definition RECORDING : obj := 2%nat.         (* the showwarning installed by catch_warnings(record=True) *)

Definition run_proc (s : proc) (bodies : list (list op)) : proc * list str :=
  let orig := p_stdout s in
  let saved_filters := p_filters s in
  let saved_show := p_showwarning s in
  let s0 := mkProc (p_stdout s) (p_stderr s) (p_filters s) RECORDING [] in
  let '(s1, logged) := run_parts_proc orig 0 s0 bodies [] in
  (mkProc (p_stdout s1) (p_stderr s1) saved_filters saved_show (p_cap_text s1), logged).
