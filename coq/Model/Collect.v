(* Collect.v — model of core.parse_docstr_examples and its three styles
   (parse_google_docstr_examples, parse_freeform_docstr_examples with asone=True,
   parse_auto_docstr_examples), as generators that yield examples and may then raise.
   What the google splitter finds and whether a block / the docstring parses are oracles
   (answered by docscrape_google.split_google_docblocks and DoctestParser.parse). *)
From XD Require Export Model.Base.
Open Scope N_scope.

(* the exception classes parse_docstr_examples distinguishes *)
Inductive pexn := PX_parse | PX_malformed | PX_other.

(* a generator run to exhaustion: what it yielded, and the exception that ended it, if any *)
Record gen (A : Type) := mkGen { g_items : list A; g_raise : option pexn }.
Arguments mkGen {A} _ _.
Arguments g_items {A} _.
Arguments g_raise {A} _.

(* an example as collection sees it: per-docstring index and first line (relative to the docstring's lineno) *)
Record ex_info := mkEx { e_num : nat; e_lineno_off : nat }.

(* ---------- google style ---------- *)
Record gblock := mkGBlock {
  gb_is_example : bool;          (* tag starts with Example / Doctest / Script / Benchmark *)
  gb_offset : nat;               (* line offset of the tag inside the docstring *)
  gb_parse : option pexn         (* eager DocTest._parse(): None = parses *)
}.

Fixpoint google_go (bs : list gblock) (num : nat) : gen ex_info :=
  match bs with
  | [] => mkGen [] None
  | b :: r =>
      match gb_parse b with
      | Some e => mkGen [] (Some e)                 (* raised before this example is yielded *)
      | None => let g := google_go r (S num) in
                mkGen (mkEx num (gb_offset b + 1) :: g_items g) (g_raise g)
      end
  end.

(* split = None: split_google_docblocks raised MalformedDocstr *)
Definition google_examples (split : option (list gblock)) : gen ex_info :=
  match split with
  | None => mkGen [] (Some PX_malformed)
  | Some bs => google_go (filter gb_is_example bs) 0
  end.

(* ---------- freeform style (asone=True) ---------- *)
Inductive fitem :=
| FText (nlines : nat) (skip_header : bool)    (* a text part: part.count('\n')+1 lines; does it end with
                                                  one of the special skip patterns (Ignore:, Script:, ...) *)
| FPart (nlines : nat).                        (* a doctest part: part.n_lines *)

(* the loop over all_parts: (curr_offset, number of parts kept) *)
Fixpoint freeform_go (items : list fitem) (prev_skip : bool) (ignoring : bool) (kept : nat) (off : nat)
  : nat * nat :=
  match items with
  | [] => (off, kept)
  | FText n sk :: r =>
      freeform_go r sk false kept (if Nat.eqb kept 0 then off + n else off)%nat
  | FPart n :: r =>
      if ignoring || prev_skip
      then freeform_go r false true kept (if Nat.eqb kept 0 then off + n else off)%nat
      else freeform_go r false ignoring (S kept) off
  end.

(* parsed = inl e: DoctestParser.parse raised; inr items: the parts *)
Definition freeform_examples (parsed : pexn + list fitem) : gen ex_info :=
  match parsed with
  | inl e => mkGen [] (Some e)
  | inr items =>
      let '(off, kept) := freeform_go items false false 0 0 in
      if Nat.eqb kept 0 then mkGen [] None else mkGen [mkEx 0 off] None
  end.

(* ---------- auto style ---------- *)
(* google first; its exception is swallowed when nothing was found yet; freeform iff nothing was found *)
Definition auto_examples (g f : gen ex_info) : gen ex_info :=
  match g_items g with
  | [] => f
  | _ => g
  end.

Inductive style := S_google | S_freeform | S_auto.

Definition style_examples (st : style) (split : option (list gblock)) (parsed : pexn + list fitem) : gen ex_info :=
  match st with
  | S_google => google_examples split
  | S_freeform => freeform_examples parsed
  | S_auto => auto_examples (google_examples split) (freeform_examples parsed)
  end.

(* ---------- parse_docstr_examples: the containment wrapper ---------- *)
Record contained := mkContained {
  c_examples : list ex_info;
  c_warned : bool;               (* warnings.warn was called *)
  c_propagates : bool            (* the exception is re-raised (anything but the two parse errors) *)
}.

Definition contain (g : gen ex_info) : contained :=
  match g_raise g with
  | None => mkContained (g_items g) false false
  | Some PX_other => mkContained (g_items g) true true
  | Some _ => mkContained (g_items g) true false
  end.

(* collection over the docstrings of a module: each docstring on its own *)
Definition collect_module (st : style) (docs : list (option (list gblock) * (pexn + list fitem)))
  : list contained :=
  map (fun d => contain (style_examples st (fst d) (snd d))) docs.
