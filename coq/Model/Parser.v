(* Parser.v — model of xdoctest/parser.py: DoctestParser.parse and its helpers
   (_min_indentation, _label_docsrc_lines with _complete_source flattened into
   the same line-by-line machine, _group_labeled_lines, _package_groups,
   _package_chunk, _locate_ps1_linenos).  The CPython tokenizer / ast and the
   directive extractor enter as oracles.  Executable definitions only. *)
From XD Require Export Model.Base.
Open Scope N_scope.

(* ---------- results with the exceptions the parser can meet ---------- *)
Inductive query :=
| Q_bal (ls : list str)      (* outcome of tokenize.generate_tokens over these (non-empty) lines *)
| Q_ast (ls : list str)      (* static.six_axt_parse('\n'.join(ls)).body *)
| Q_semi (ls : list str)     (* any(';' OP token) over the non-empty lines *)
| Q_dirs (ls : list str).    (* list(Directive.extract('\n'.join(ls))) *)

Inductive perr :=
| E_Incomplete               (* exceptions.IncompleteParseError *)
| E_Syntax                   (* SyntaxError raised by the parser itself (bad indentation) *)
| E_Assertion                (* an assert of the parser *)
| E_Index                    (* IndexError *)
| E_Oracle                   (* any exception raised by tokenizer / ast / directive extraction *)
| E_Need (q : query).        (* executable model only: oracle table has no entry *)

Inductive res (A : Type) := Ok (a : A) | Err (e : perr).
Arguments Ok {A} a.
Arguments Err {A} e.

Definition bind {A B} (r : res A) (f : A -> res B) : res B :=
  match r with Ok a => f a | Err e => Err e end.
Notation "'do' x <- r ; k" := (bind r (fun x => k)) (at level 200, x ident, r at level 100, k at level 200).

(* ---------- directives as data ---------- *)
Record directive := mkDirective {
  d_name : str;             (* upper-cased command name *)
  d_positive : bool;
  d_args : list str;
  d_inline : bool
}.

(* one top-level statement of the ast: node.lineno - 1, the line of its first
   decorator (decorator_list[0].lineno - 1) if it has any, and whether it is an ast.Expr *)
Record stmt := mkStmt { st_lineno : nat; st_deco : option nat; st_is_expr : bool }.
(* "a decorated statement begins at its first decorator" *)
Definition st_line (s : stmt) : nat :=
  match st_deco s with Some d => d | None => st_lineno s end.

(* what CPython's tokenizer says about a list of (non-empty) lines *)
Inductive tok_outcome :=
| T_ok                (* tokenizes to the end *)
| T_eof_multiline     (* TokenError whose message starts with '(unexpected )EOF in multi-line' *)
| T_unindent          (* IndentationError 'unindent does not match any outer indentation' *)
| T_error.            (* any other exception *)

Record oracles := mkOracles {
  o_tok : list str -> res tok_outcome;
  o_ast : list str -> res (list stmt);
  o_semi : list str -> res bool;
  o_dirs : list str -> res (list directive)
}.

(* static.is_balanced_statement(lines, only_tokens=True): only non-empty lines are
   tokenized; an unterminated construct means "not balanced yet", any other
   tokenizer error propagates *)
Definition is_balanced (tok : list str -> res tok_outcome) (lines : list str) : res bool :=
  do t <- tok (filter nonempty lines);
  match t with
  | T_ok => Ok true
  | T_eof_multiline | T_unindent => Ok false
  | T_error => Err E_Oracle
  end.
Definition o_bal (o : oracles) : list str -> res bool := is_balanced (o_tok o).

(* ---------- str.expandtabs() (tab size 8) ---------- *)
Fixpoint expandtabs_go (s : str) (col : nat) : str :=
  match s with
  | [] => []
  | c :: s' =>
      if c =? TAB then repeat_char SP (8 - Nat.modulo col 8) ++ expandtabs_go s' 0
      else if (c =? NL) || (c =? CR) then c :: expandtabs_go s' 0
      else c :: expandtabs_go s' (Nat.modulo (S col) 8)
  end.
Definition expandtabs (s : str) : str := expandtabs_go s 0.

(* ---------- INDENT_RE: leading spaces followed by a non-whitespace character, on one line ---------- *)
Definition is_sp (c : char) : bool := c =? SP.
(* Some n: the line starts with n spaces followed by a non-whitespace character *)
Definition indent_match (line : str) : option nat :=
  match drop_while is_sp line with
  | [] => None
  | c :: _ => if is_space c then None else Some (length (take_while is_sp line))
  end.
Definition line_indent (line : str) : nat :=
  match indent_match line with Some n => n | None => O end.

(* _min_indentation: INDENT_RE.findall over the '\n'-separated lines *)
Fixpoint min_list (l : list nat) : option nat :=
  match l with
  | [] => None
  | x :: l' => match min_list l' with None => Some x | Some m => Some (Nat.min x m) end
  end.
Fixpoint somes {A} (l : list (option A)) : list A :=
  match l with [] => [] | Some x :: l' => x :: somes l' | None :: l' => somes l' end.
Definition min_indentation (s : str) : nat :=
  match min_list (somes (map indent_match (split_on NL s))) with Some m => m | None => O end.

(* the text the three phases work on *)
Definition normalize_docstring (s : str) : str :=
  let s1 := expandtabs s in
  let m := min_indentation s1 in
  if Nat.ltb 0 m then join_nl (map (skipn m) (srclines s1)) else s1.

(* ---------- labels ---------- *)
Inductive label := TEXT | DSRC | DCNT | WANT.
Definition label_eqb (a b : label) : bool :=
  match a, b with TEXT, TEXT | DSRC, DSRC | DCNT, DCNT | WANT, WANT => true | _, _ => false end.
Definition is_src (l : label) : bool := match l with DSRC | DCNT => true | _ => false end.

Definition PS1 : str := [62;62;62].      (* >>> *)
Definition PS2 : str := [46;46;46].      (* ... *)
Definition PS1sp : str := [62;62;62;32].
Definition PS2sp : str := [46;46;46;32].
Definition QQQ1 : str := [39;39;39].
Definition QQQ2 : str := [34;34;34].

(* _hasprefix(line, (p,)) : line == p or line.startswith(p + ' ') *)
Definition hasprefix (p line : str) : bool := eqb_str line p || starts_with (p ++ [SP]) line.

(* prefix.strip() in {'>>>', '...'} / {'>>>', '...', ''} *)
Definition prefix_ok (norm : str) : bool :=
  let p := strip (firstn 4 norm) in eqb_str p PS1 || eqb_str p PS2.
Definition prefix_ok_or_empty (norm : str) : bool :=
  let p := strip (firstn 4 norm) in eqb_str p PS1 || eqb_str p PS2 || is_empty p.

Definition has_triple_quote (parts : list str) : bool :=
  any_b (fun s => contains QQQ1 s || contains QQQ2 s) parts.

(* ---------- _label_docsrc_lines ----------
   One structural recursion over the lines.  comp = Some (source_parts, cur)
   means _complete_source is in the middle of a statement: the next line is
   consumed by it, whatever it looks like. *)
Record lstate := mkL {
  l_prev : label;
  l_indent : nat;
  l_comp : option (list str * label)
}.

Definition transition (prev : label) (state_indent : nat) (line : str) : label :=
  let strip_line := strip line in
  let li := line_indent line in
  let norm := skipn state_indent line in
  match prev with
  | TEXT => if hasprefix PS1 strip_line then DSRC else TEXT
  | WANT =>
      if is_empty strip_line then TEXT
      else if hasprefix PS1 strip_line then DSRC
      else if Nat.ltb li state_indent then TEXT
      else WANT
  | DSRC | DCNT =>
      if is_empty strip_line || Nat.ltb li state_indent then TEXT
      else if hasprefix PS1 norm || hasprefix PS2 norm then
        if eqb_str strip_line PS2 then
          (match prev with DCNT => DCNT | _ => WANT end)
        else if hasprefix PS2 norm then DCNT else DSRC
      else WANT
  end.

Definition cons_res {A} (x : A) (r : res (list A)) : res (list A) :=
  match r with Ok l => Ok (x :: l) | Err e => Err e end.

Fixpoint label_go (bal : list str -> res bool) (lines : list str) (st : lstate)
  : res (list (label * str)) :=
  match lines with
  | [] => match l_comp st with Some _ => Err E_Incomplete | None => Ok [] end
  | line :: rest =>
      match l_comp st with
      | Some (parts, cur) =>
          let ind := l_indent st in
          let norm := skipn ind line in
          let suffix := skipn 4 norm in
          (* the line taken by _complete_source *)
          let step (line' norm' suffix' : str) :=
            let parts' := parts ++ [suffix'] in
            let cur' := if hasprefix PS2 norm' then DCNT else cur in
            match bal parts' with
            | Err e => Err e
            | Ok true => cons_res (cur', line') (label_go bal rest (mkL cur' ind None))
            | Ok false => cons_res (cur', line') (label_go bal rest (mkL cur' ind (Some (parts', cur'))))
            end in
          if prefix_ok_or_empty norm then step line norm suffix
          else if has_triple_quote parts then
            step (firstn ind line ++ PS2sp ++ norm) (PS2sp ++ norm) (PS2sp ++ norm)
          else Err E_Syntax
      | None =>
          let prev := l_prev st in
          let curr := transition prev (l_indent st) line in
          let ind :=
            if label_eqb prev curr then l_indent st
            else match curr with
                 | TEXT => O
                 | DSRC | DCNT => line_indent line
                 | WANT => l_indent st
                 end in
          if is_src curr then
            let norm := skipn ind line in
            if negb (prefix_ok norm) then Err E_Assertion
            else
              let cur' := if hasprefix PS2 norm then DCNT else curr in
              let parts := [skipn 4 norm] in
              match bal parts with
              | Err e => Err e
              | Ok true => cons_res (cur', line) (label_go bal rest (mkL cur' ind None))
              | Ok false => cons_res (cur', line) (label_go bal rest (mkL cur' ind (Some (parts, cur'))))
              end
          else cons_res (curr, line) (label_go bal rest (mkL curr ind None))
      end
  end.

Definition label_lines (bal : list str -> res bool) (s : str) : res (list (label * str)) :=
  label_go bal (srclines s) (mkL TEXT O None).

(* ---------- _group_labeled_lines ---------- *)

(* pass 1: group by label; an old-style "dsrc followed by dcnt" pair starts its own group *)
Definition olabel_eqb (a b : option label) : bool :=
  match a, b with
  | None, None => true
  | Some x, Some y => label_eqb x y
  | _, _ => false
  end.
Definition is_lab (l : label) (o : option label) : bool := olabel_eqb (Some l) o.

(* returns the groups in order; state/current are the open group (reversed lines) *)
Fixpoint pass1 (left : option label) (items : list (label * str))
         (state : option label) (current_rev : list (label * str))
  : list (label * list (label * str)) :=
  match items with
  | [] => match current_rev, state with
          | [], _ => []
          | _, Some s => [(s, rev current_rev)]
          | _, None => []
          end
  | mid :: rest =>
      let right := match rest with r :: _ => Some (fst r) | [] => None end in
      let m := fst mid in
      let newgrp :=
        (negb (olabel_eqb left (Some m)) || (label_eqb m DSRC && is_lab DCNT right))
        && negb (is_lab DSRC left && label_eqb m DCNT) in
      if newgrp then
        match state with
        | Some s => (s, rev current_rev) :: pass1 (Some m) rest (Some m) [mid]
        | None => pass1 (Some m) rest (Some m) [mid]
        end
      else pass1 (Some m) rest state (mid :: current_rev)
  end.

(* pass 2: merge consecutive groups of the same label unless a want follows *)
Fixpoint pass2 (left : option label) (groups : list (label * list (label * str)))
         (state : option label) (current : list (label * str))
  : list (label * list (label * str)) :=
  match groups with
  | [] => match current, state with
          | [], _ => []
          | _, Some s => [(s, current)]
          | _, None => []
          end
  | mid :: rest =>
      let right := match rest with r :: _ => Some (fst r) | [] => None end in
      let m := fst mid in
      if olabel_eqb left (Some m) && negb (is_lab WANT right) then
        pass2 (Some m) rest state (current ++ snd mid)
      else
        match state, left with
        | Some _, Some l => (l, current) :: pass2 (Some m) rest (Some m) (snd mid)
        | _, _ => pass2 (Some m) rest (Some m) (snd mid)
        end
  end.

(* pass 3 *)
Inductive chunk :=
| TextChunk (lines : list str)
| CodeChunk (src : list str) (want : list str).

Fixpoint pass3 (groups : list (label * list (label * str))) (prev_source : option (list str))
  : res (list chunk) :=
  let flush := match prev_source with Some p => [CodeChunk p []] | None => [] end in
  match groups with
  | [] => match prev_source with
          | Some [] => Ok []                       (* `if prev_source:` is false for [] *)
          | Some p => Ok [CodeChunk p []]
          | None => Ok []
          end
  | (state, group) :: rest =>
      let block := map snd group in
      match state with
      | TEXT => do r <- pass3 rest None; Ok (flush ++ TextChunk block :: r)
      | WANT =>
          match prev_source with
          | None => Err E_Assertion               (* assert prev_source is not None, 'impossible' *)
          | Some p => do r <- pass3 rest None; Ok (CodeChunk p block :: r)
          end
      | DSRC | DCNT => do r <- pass3 rest (Some block); Ok (flush ++ r)
      end
  end.

Definition group_lines (ll : list (label * str)) : res (list chunk) :=
  pass3 (pass2 None (pass1 None ll None []) None []) None.

(* ---------- parts ---------- *)
Inductive cmode := M_exec | M_eval | M_single.

Record part := mkPart {
  exec_lines : list str;
  want_lines : list str;          (* [] = no want *)
  line_offset : nat;
  orig_lines : list str;
  p_directives : list directive;
  compile_mode : cmode;
  p_dirs_raise : bool             (* the directives are extracted lazily (part without a PS1 statement)
                                     and that extraction raises: seen only when the part is run *)
}.

Inductive item := IText (t : str) | IPart (p : part).

(* ---------- _locate_ps1_linenos ---------- *)

(* balanced_intervals: from the bottom, the shortest balanced slices.
   a is kept as a Z-like option: None stands for a = -1. *)
(* python lines[a:b] with a = -1 *)
Definition slice_neg1 {A} (b : nat) (l : list A) : list A :=
  let n := length l in
  match n with
  | O => []
  | S k => slice k b l
  end.

(* inner `while not bal(lines[a:b]) and a >= 0: a -= 1`, a counted down on fuel = a+1 *)
Fixpoint find_start (bal : list str -> res bool) (lines : list str) (b : nat) (a1 : nat)
  : res (option nat) :=
  (* a1 = a + 1 *)
  match a1 with
  | O => (* a = -1: the condition still evaluates bal(lines[-1:b]) once *)
      do ignored <- bal (slice_neg1 b lines); Ok None
  | S a =>
      do ok <- bal (slice a b lines);
      if ok then Ok (Some a) else find_start bal lines b a
  end.

(* outer loop on fuel (b strictly decreases) *)
Fixpoint intervals_go (bal : list str -> res bool) (lines : list str) (fuel b a1 : nat)
  : res (list (nat * nat)) :=
  match fuel with
  | O => Ok []                       (* unreachable: fuel = length lines + 1 *)
  | S f =>
      if Nat.eqb b 0 then Ok []
      else
        do r <- find_start bal lines b a1;
        match r with
        | None => Err E_Incomplete
        | Some a => do more <- intervals_go bal lines f a a; Ok ((a, b) :: more)
        end
  end.
(* result is in bottom-up order; the code reverses it, but only the set of starts is used *)
Definition balanced_intervals (bal : list str -> res bool) (lines : list str) : res (list (nat * nat)) :=
  intervals_go bal lines (S (length lines)) (length lines) (length lines).

Definition HASH : char := 35.
Definition HACKSTMT : str := [95;46;95;32;61;32;78;111;110;101].     (* _._ = None *)

Fixpoint mem_nat (x : nat) (l : list nat) : bool :=
  match l with [] => false | y :: l' => Nat.eqb x y || mem_nat x l' end.

Fixpoint hack_comments (lines : list str) (starts : list nat) (i : nat) : list str :=
  match lines with
  | [] => []
  | l :: ls =>
      (if mem_nat i starts && starts_with [HASH] l then HACKSTMT else l)
        :: hack_comments ls starts (S i)
  end.

Fixpoint insert_sorted (x : nat) (l : list nat) : list nat :=
  match l with
  | [] => [x]
  | y :: l' => if Nat.ltb x y then x :: l
               else if Nat.eqb x y then l
               else y :: insert_sorted x l'
  end.
Definition sort_uniq (l : list nat) : list nat := fold_right insert_sorted [] l.

Fixpoint index_filter {A} (f : A -> bool) (l : list A) (i : nat) : list nat :=
  match l with
  | [] => []
  | x :: l' => if f x then i :: index_filter f l' (S i) else index_filter f l' (S i)
  end.

Definition locate_ps1 (o : oracles) (source_lines : list str) : res (list nat * cmode) :=
  let exec0 := map (skipn 4) source_lines in
  do ivs <- balanced_intervals (o_bal o) exec0;
  let exec1 := hack_comments exec0 (map fst ivs) 0 in
  do stmts <- o_ast o exec1;
  let ps2 := index_filter (fun p => negb (eqb_str (firstn 4 p) PS1sp)) source_lines 0 in
  let ps1 := filter (fun x => negb (mem_nat x ps2)) (sort_uniq (map st_line stmts)) in
  let mode0 :=
    match last_opt stmts with
    | Some s => if st_is_expr s then M_eval else M_exec
    | None => M_exec
    end in
  let mode1 :=
    match source_lines with
    | first :: (_ :: _) as more =>
        if starts_with PS1sp first && all_b (hasprefix PS2) (tl source_lines) then M_single else mode0
    | _ => mode0
    end in
  match mode1 with
  | M_eval =>
      (* only the final statement is evaluated: the semicolon scan covers its lines only
         (since fix F13, 'fix: only a semicolon in the final statement forces single mode') *)
      let final_start := match last_opt ps1 with Some x => x | None => O end in
      do semi <- o_semi o (skipn final_start exec1);
      Ok (ps1, if semi then M_single else M_eval)
  | m => Ok (ps1, m)
  end.

(* ---------- _package_chunk ---------- *)

(* for s1, s2 in zip(ps1, ps1[1:] + [None]) : the directives of each PS1 group *)
Fixpoint ps1_directives (o : oracles) (exec_lines : list str) (ps1 : list nat)
  : res (list (nat * list directive) * list nat) :=     (* (ps1_to_directive, break_linenos) *)
  match ps1 with
  | [] => Ok ([], [])
  | s1 :: rest =>
      let lines := match rest with
                   | s2 :: _ => slice s1 s2 exec_lines
                   | [] => skipn s1 exec_lines
                   end in
      do ds <- o_dirs o lines;
      do r <- ps1_directives o exec_lines rest;
      let '(tab, brk) := r in
      match ds with
      | [] => Ok (tab, brk)
      | d0 :: _ =>
          let brk' := s1 :: (if d_inline d0 then match rest with s2 :: _ => [s2] | [] => [] end else []) ++ brk in
          Ok ((s1, ds) :: tab, brk')
      end
  end.

Fixpoint lookup_nat {A} (k : nat) (tab : list (nat * A)) : option A :=
  match tab with
  | [] => None
  | (k', v) :: t => if Nat.eqb k k' then Some v else lookup_nat k t
  end.

Definition slice_to {A} (s1 : nat) (s2 : option nat) (l : list A) : list A :=
  match s2 with Some b => slice s1 b l | None => skipn s1 l end.

Definition slice_example (exec_all src_all : list str) (tab : list (nat * list directive))
           (o : oracles) (lineno s1 : nat) (s2 : option nat) (want : list str) (mode : cmode)
  : res part :=
  let ex := slice_to s1 s2 exec_all in
  (* directives=None means "extract lazily from the part's own source": an exception of that
     extraction is not raised while parsing but when part.directives is first read *)
  match lookup_nat s1 tab with
  | Some ds => Ok (mkPart ex want (lineno + s1) (slice_to s1 s2 src_all) ds mode false)
  | None =>
      match o_dirs o ex with
      | Ok ds => Ok (mkPart ex want (lineno + s1) (slice_to s1 s2 src_all) ds mode false)
      | Err (E_Need q) => Err (E_Need q)
      | Err _ => Ok (mkPart ex want (lineno + s1) (slice_to s1 s2 src_all) [] mode true)
      end
  end.

(* zip(break_linenos, break_linenos[1:]) *)
Fixpoint consecutive_pairs (l : list nat) : list (nat * nat) :=
  match l with
  | a :: ((b :: _) as l') => (a, b) :: consecutive_pairs l'
  | _ => []
  end.

Fixpoint map_res {A B} (f : A -> res B) (l : list A) : res (list B) :=
  match l with
  | [] => Ok []
  | x :: l' => do y <- f x; do ys <- map_res f l'; Ok (y :: ys)
  end.

Definition package_chunk (o : oracles) (raw_src raw_want : list str) (lineno : nat) : res (list part) :=
  match raw_src with
  | [] => Err E_Index                                   (* raw_source_lines[0] *)
  | first :: _ =>
      let li := line_indent first in
      let src := map (skipn li) raw_src in
      let want := map (skipn li) raw_want in
      let exec_all := map (skipn 4) src in
      do loc <- locate_ps1 o src;
      let '(ps1, mode_hint) := loc in
      do tb <- ps1_directives o exec_all ps1;
      let '(tab, brk) := tb in
      let mk := slice_example exec_all src tab o lineno in
      (* directive-forced breaks *)
      let brk' := match brk with [] => [] | _ => sort_uniq (O :: brk) end in
      do parts1 <- map_res (fun ab => mk (fst ab) (Some (snd ab)) [] M_exec) (consecutive_pairs brk');
      let s1a := match consecutive_pairs brk' with
                 | [] => O
                 | _ => match last_opt brk' with Some x => x | None => O end
                 end in
      (* the final expression gets its own part when a want follows *)
      let wants_eval := nonempty want && match mode_hint with M_exec => false | _ => true end in
      do split <-
        (if wants_eval then
           match last_opt ps1 with
           | None => Err E_Index                          (* ps1_linenos[-1] on an empty list *)
           | Some s2 =>
               if Nat.eqb s2 s1a then Ok ([], s1a)
               else do p <- mk s1a (Some s2) [] M_exec; Ok ([p], s2)
           end
         else Ok ([], s1a));
      let '(parts2, s1b) := split in
      let final_mode := if nonempty want then mode_hint else M_exec in
      do lastp <- mk s1b None want final_mode;
      Ok (parts1 ++ parts2 ++ [lastp])
  end.

(* the same with DoctestParser(simulate_repl=True): every statement a part of its own; the lines in front of the first
   statement belong to the first part *)
Definition package_chunk_repl (o : oracles) (raw_src raw_want : list str) (lineno : nat) : res (list part) :=
  match raw_src with
  | [] => Err E_Index
  | first :: _ =>
      let li := line_indent first in
      let src := map (skipn li) raw_src in
      let want := map (skipn li) raw_want in
      let exec_all := map (skipn 4) src in
      do loc <- locate_ps1 o src;
      let '(ps1, mode_hint) := loc in
      do tb <- ps1_directives o exec_all ps1;
      let '(tab, brk) := tb in
      let mk := slice_example exec_all src tab o lineno in
      let bs := O :: tl ps1 in                              (* repl_linenos = [0] + ps1_linenos[1:] *)
      do parts1 <- map_res (fun ab => mk (fst ab) (Some (snd ab)) [] M_exec) (consecutive_pairs bs);
      let final_mode := if nonempty want then mode_hint else M_exec in
      do lastp <- mk (last bs O) None want final_mode;
      Ok (parts1 ++ [lastp])
  end.

(* ---------- _package_groups ---------- *)
Fixpoint package_groups (o : oracles) (chunks : list chunk) (lineno : nat) : res (list item) :=
  match chunks with
  | [] => Ok []
  | TextChunk ls :: rest =>
      do r <- package_groups o rest (lineno + length ls);
      Ok (IText (join_nl ls) :: r)
  | CodeChunk s w :: rest =>
      do ps <- package_chunk o s w lineno;
      do r <- package_groups o rest (lineno + length s + length w);
      Ok (map IPart ps ++ r)
  end.

Fixpoint package_groups_repl (o : oracles) (chunks : list chunk) (lineno : nat) : res (list item) :=
  match chunks with
  | [] => Ok []
  | TextChunk ls :: rest =>
      do r <- package_groups_repl o rest (lineno + length ls);
      Ok (IText (join_nl ls) :: r)
  | CodeChunk s w :: rest =>
      do ps <- package_chunk_repl o s w lineno;
      do r <- package_groups_repl o rest (lineno + length s + length w);
      Ok (map IPart ps ++ r)
  end.

(* ---------- DoctestParser.parse ---------- *)
Inductive failpoint := FP_label | FP_group | FP_package.
Inductive parse_result :=
| Parsed (items : list item)
| ParseError (fp : failpoint) (e : perr)     (* exceptions.DoctestParseError wrapping e *)
| NeedOracle (q : query).                    (* executable model only *)

Definition wrap (fp : failpoint) (e : perr) : parse_result :=
  match e with E_Need q => NeedOracle q | _ => ParseError fp e end.

Definition parse (o : oracles) (s : str) : parse_result :=
  let s1 := normalize_docstring s in
  match label_lines (o_bal o) s1 with
  | Err e => wrap FP_label e
  | Ok ll =>
      match group_lines ll with
      | Err e => wrap FP_group e
      | Ok gs =>
          match package_groups o gs 0 with
          | Err e => wrap FP_package e
          | Ok items => Parsed items
          end
      end
  end.

(* DoctestParser(simulate_repl=True).parse *)
Definition parse_repl (o : oracles) (s : str) : parse_result :=
  let s1 := normalize_docstring s in
  match label_lines (o_bal o) s1 with
  | Err e => wrap FP_label e
  | Ok ll =>
      match group_lines ll with
      | Err e => wrap FP_group e
      | Ok gs =>
          match package_groups_repl o gs 0 with
          | Err e => wrap FP_package e
          | Ok items => Parsed items
          end
      end
  end.

(* ---------- oracle tables (executable instantiation) ---------- *)
Fixpoint lookup_q {A} (k : list str) (tab : list (list str * A)) : option A :=
  match tab with
  | [] => None
  | (k', v) :: t => if eqb_list eqb_str k k' then Some v else lookup_q k t
  end.

Record otables := mkTables {
  t_tok : list (list str * option tok_outcome);       (* None = unused; errors are T_error *)
  t_ast : list (list str * option (list stmt));
  t_semi : list (list str * option bool);
  t_dirs : list (list str * option (list directive))
}.

Definition from_table {A} (mkq : list str -> query) (tab : list (list str * option A)) (k : list str) : res A :=
  match lookup_q k tab with
  | None => Err (E_Need (mkq k))
  | Some None => Err E_Oracle
  | Some (Some v) => Ok v
  end.

Definition oracles_of_tables (t : otables) : oracles :=
  mkOracles (from_table Q_bal (t_tok t)) (from_table Q_ast (t_ast t))
            (from_table Q_semi (t_semi t)) (from_table Q_dirs (t_dirs t)).
