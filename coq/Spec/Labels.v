(* Labels.v — the INTENDED labelling of a docstring assembled from blocks: prose is text, the prompt-prefixed
   lines of a statement (and the lines needed to complete it) are source, the non-blank lines that follow are
   the want.  (C13, second sentence.)  The docstrings covered are the well-formed ones: inside one example all
   lines share one indentation; an example that directly follows source lines has their indentation (the other
   case is known finding F8a/F8b); prose after an example starts with a blank line. *)
From XD Require Import Model.Base Model.Parser.
Open Scope N_scope.

Definition spaces (n : nat) : str := repeat SP n.

(* a continuation line of a statement: '... code' or '>>> code' *)
Record cline := mkCL { cl_ps2 : bool; cl_code : str }.
Record stmtb := mkStmtB { sb_code : str; sb_more : list cline }.
Definition prompt (ps2 : bool) : str := if ps2 then PS2sp else PS1sp.
Definition cline_text (ind : nat) (c : cline) : str := spaces ind ++ prompt (cl_ps2 c) ++ cl_code c.
Definition stmt_lines (ind : nat) (s : stmtb) : list str :=
  (spaces ind ++ PS1sp ++ sb_code s) :: map (cline_text ind) (sb_more s).

(* a '...' line is a continuation line and so is everything after it in the same statement *)
Fixpoint more_labels (cur : label) (cs : list cline) : list label :=
  match cs with
  | [] => []
  | c :: r => let cur' := if cl_ps2 c then DCNT else cur in cur' :: more_labels cur' r
  end.
Definition stmt_labels (s : stmtb) : list label := DSRC :: more_labels DSRC (sb_more s).
Definition last_label (cur : label) (cs : list cline) : label := last (more_labels cur cs) cur.

(* the code of the statement, line by line, as the tokenizer oracle sees it *)
Definition codes (s : stmtb) : list str := sb_code s :: map cl_code (sb_more s).
(* the oracle says "complete" exactly at the statement's last line *)
Definition BalOK (bal : list str -> res bool) (s : stmtb) : Prop :=
  (forall k, (0 < k < length (codes s))%nat -> bal (firstn k (codes s)) = Ok false) /\ bal (codes s) = Ok true.

(* a want line (without its indentation): starts with a non-blank character, is not a prompt line *)
Definition WantLine (w : str) : Prop :=
  (exists c r, w = c :: r /\ is_space c = false) /\
  hasprefix PS1 (strip w) = false /\ hasprefix PS1 w = false /\ hasprefix PS2 w = false.

Record example := mkEx { ex_ind : nat; ex_stmts : list stmtb; ex_want : list str }.
Definition ex_lines (e : example) : list str :=
  concat (map (stmt_lines (ex_ind e)) (ex_stmts e)) ++ map (fun w => spaces (ex_ind e) ++ w) (ex_want e).
Definition ex_labels (e : example) : list label :=
  concat (map stmt_labels (ex_stmts e)) ++ map (fun _ => WANT) (ex_want e).

Inductive block := BProse (ls : list str) | BEx (e : example).
Definition ProseLine (p : str) : Prop := hasprefix PS1 (strip p) = false.

Definition block_lines (b : block) : list str := match b with BProse ls => ls | BEx e => ex_lines e end.
Definition block_labels (b : block) : list label :=
  match b with BProse ls => map (fun _ => TEXT) ls | BEx e => ex_labels e end.
Definition intended (bs : list block) : list (label * str) :=
  combine (concat (map block_labels bs)) (concat (map block_lines bs)).

(* the labeller's state after a block *)
Definition last_stmt_label (e : example) : label :=
  match rev (ex_stmts e) with [] => DSRC | s :: _ => last_label DSRC (sb_more s) end.
Definition after_block (prev : label) (pind : nat) (b : block) : label * nat :=
  match b with
  | BProse [] => (prev, pind)
  | BProse _ => (TEXT, match prev with TEXT => pind | _ => O end)
  | BEx e => match ex_want e with [] => (last_stmt_label e, ex_ind e) | _ => (WANT, ex_ind e) end
  end.

(* when may block b follow a state (prev, pind) *)
Definition ok_after (bal : list str -> res bool) (prev : label) (pind : nat) (b : block) : Prop :=
  match b with
  | BProse ls => Forall ProseLine ls /\
                 (prev <> TEXT -> match ls with [] => True | l :: _ => strip l = [] end)
  | BEx e => ex_stmts e <> [] /\ Forall (BalOK bal) (ex_stmts e) /\ Forall WantLine (ex_want e) /\
             (is_src prev = true -> ex_ind e = pind)
  end.

Inductive Chain (bal : list str -> res bool) : label -> nat -> list block -> Prop :=
| Chain_nil prev pind : Chain bal prev pind []
| Chain_cons prev pind b rest :
    ok_after bal prev pind b ->
    Chain bal (fst (after_block prev pind b)) (snd (after_block prev pind b)) rest ->
    Chain bal prev pind (b :: rest).
