(* ImportResolve.v — what the interpreter's regular (pre-PEP-420) import resolution finds
   for a dotted name under one search root: a part resolves to the directory d/part if that is
   a regular package (directory with __init__.py), else - for the last part - to d/part.py if that
   file exists; only a package can have children; a directory without __init__.py is "nothing there". *)
From XD Require Import Model.Base Model.FS.

Definition is_package (fs : fsys) (p : path) : bool := isdir fs p && isfile fs (p ++ [INIT]).

Fixpoint resolve (fs : fsys) (d : path) (parts : list name) : option path :=
  match parts with
  | [] => None
  | [n] => if is_package fs (d ++ [n]) then Some (d ++ [n])
           else if isfile fs (d ++ [n ++ DOTPY]) then Some (d ++ [n ++ DOTPY]) else None
  | n :: rest => if is_package fs (d ++ [n]) then resolve fs (d ++ [n]) rest else None
  end.

Fixpoint resolve_roots (fs : fsys) (roots : list path) (parts : list name) : option path :=
  match roots with
  | [] => None
  | d :: r => match resolve fs d parts with Some p => Some p | None => resolve_roots fs r parts end
  end.

(* a file system: an entry exists only inside a directory, and nothing called __init__.py is a directory *)
Record WFfs (fs : fsys) : Prop := mkWFfs {
  wf_parent : forall p n, fs (p ++ [n]) <> K_none -> fs p = K_dir;
  wf_init_file : forall p, fs (p ++ [INIT]) <> K_dir
}.
