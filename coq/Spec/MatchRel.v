(* MatchRel.v — the documented got/want relation, stated as a relation. *)
From XD Require Import Model.Base Model.Ellipsis Model.Checker Spec.EllipsisSpec.

(* the two texts as they are compared: each normalised on its own
   (ANSI codes, string-prefix letters, <BLANKLINE> unless disabled, trailing
   blanks, trailing whitespace, CR-terminated lines; whitespace collapsed under
   NORMALIZE_WHITESPACE / IGNORE_WHITESPACE and deleted under IGNORE_WHITESPACE) *)
Definition NGot (fl : flags) (got : str) : str := ws_norm fl (base_got got).
Definition NWant (fl : flags) (want : str) : str := ws_norm fl (base_want fl want).

(* the core comparison: equality, or the wildcard relation when ELLIPSIS is on *)
Definition Core (fl : flags) (g w : str) : Prop :=
  g = w \/ (ELLIPSIS fl = true /\ EllMatch g w).

(* surrounding quotes are ignorable only under NORMALIZE_REPR: one pair of outer
   quotes of g may be dropped if that makes the core comparison succeed where it
   did not before, then the same for w against the (possibly unquoted) g *)
Definition Unquote (fl : flags) (a b a' : str) : Prop :=
  (Core fl a b /\ a' = a) \/
  (~ Core fl a b /\
     ((quoted_by QUOTE2 a = true /\ Core fl (strip_outer a) b /\ a' = strip_outer a) \/
      (~ (quoted_by QUOTE2 a = true /\ Core fl (strip_outer a) b) /\
         quoted_by QUOTE1 a = true /\ Core fl (strip_outer a) b /\ a' = strip_outer a) \/
      (~ (quoted_by QUOTE2 a = true /\ Core fl (strip_outer a) b) /\
       ~ (quoted_by QUOTE1 a = true /\ Core fl (strip_outer a) b) /\ a' = a))).

Definition MatchRel (fl : flags) (got want : str) : Prop :=
  want = [] \/ got = want \/
  (if NORMALIZE_REPR fl
   then exists g' w', Unquote fl (NGot fl got) (NWant fl want) g' /\
                      Unquote fl (NWant fl want) g' w' /\ Core fl g' w'
   else Core fl (NGot fl got) (NWant fl want)).

(* the leniencies that can be switched on *)
Inductive leniency := L_ELLIPSIS | L_NORMALIZE_WHITESPACE | L_IGNORE_WHITESPACE | L_NORMALIZE_REPR.

Definition set_len (f : leniency) (fl : flags) : flags :=
  match f with
  | L_ELLIPSIS => mkFlags true (NORMALIZE_WHITESPACE fl) (IGNORE_WHITESPACE fl) (NORMALIZE_REPR fl)
                          (DONT_ACCEPT_BLANKLINE fl) (IGNORE_EXCEPTION_DETAIL fl) (IGNORE_WANT fl)
  | L_NORMALIZE_WHITESPACE => mkFlags (ELLIPSIS fl) true (IGNORE_WHITESPACE fl) (NORMALIZE_REPR fl)
                          (DONT_ACCEPT_BLANKLINE fl) (IGNORE_EXCEPTION_DETAIL fl) (IGNORE_WANT fl)
  | L_IGNORE_WHITESPACE => mkFlags (ELLIPSIS fl) (NORMALIZE_WHITESPACE fl) true (NORMALIZE_REPR fl)
                          (DONT_ACCEPT_BLANKLINE fl) (IGNORE_EXCEPTION_DETAIL fl) (IGNORE_WANT fl)
  | L_NORMALIZE_REPR => mkFlags (ELLIPSIS fl) (NORMALIZE_WHITESPACE fl) (IGNORE_WHITESPACE fl) true
                          (DONT_ACCEPT_BLANKLINE fl) (IGNORE_EXCEPTION_DETAIL fl) (IGNORE_WANT fl)
  end.

(* the condition under which "switching a leniency on never turns a match into a
   mismatch" is proved; outside it the unchanged code refutes the clause (finding F7) *)
Definition MonoGuard (fl : flags) (f : leniency) : Prop :=
  match f with
  | L_ELLIPSIS => NORMALIZE_REPR fl = false
  | L_NORMALIZE_WHITESPACE | L_IGNORE_WHITESPACE => ELLIPSIS fl = false /\ NORMALIZE_REPR fl = false
  | L_NORMALIZE_REPR => ELLIPSIS fl = false
  end.

Definition nonws (s : str) : str := filter (fun c => negb (is_space c)) s.
