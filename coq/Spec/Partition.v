(* Partition.v — what "parsing partitions the docstring" means. *)
From XD Require Import Model.Base Model.Parser.

(* a labelled line is the docstring line itself, or that line with the display
   prefix "... " inserted at the source indentation (the triple-quote hack) *)
Definition SameLineUpToHack (out : label * str) (line : str) : Prop :=
  snd out = line \/ exists ind, snd out = firstn ind line ++ PS2sp ++ skipn ind line.

Definition chunk_lines (c : chunk) : list str :=
  match c with TextChunk ls => ls | CodeChunk s w => s ++ w end.
Definition flatten_chunks (cs : list chunk) : list str := concat (map chunk_lines cs).

(* every want line is preceded by a source, continuation or want line *)
Fixpoint LabelsOK (prev : label) (ls : list label) : Prop :=
  match ls with
  | [] => True
  | l :: ls' => (l = WANT -> prev <> TEXT) /\ LabelsOK l ls'
  end.

(* ---------- a chunk is tiled by its parts ---------- *)

(* python's zip(bs, bs[1:]) slices followed by the open slice from the last boundary *)
Definition tiles {A} (bs : list nat) (l : list A) : list (list A) :=
  map (fun ab => slice (fst ab) (snd ab) l) (consecutive_pairs bs) ++ [skipn (last bs O) l].

(* strictly ascending boundaries starting at 0 *)
Fixpoint Ascending (bs : list nat) : Prop :=
  match bs with
  | a :: ((b :: _) as t) => (a < b)%nat /\ Ascending t
  | _ => True
  end.

(* the parts made from one source/want chunk that starts at docstring line `lineno`:
   there are boundaries 0 = b0 < b1 < ... < bk into the (dedented) source lines such that part j
   holds exactly the lines [bj, bj+1) -- both the prompted and the de-prompted ones --, starts at
   line lineno + bj, and only the last part carries the want *)
Definition PartsTile (lineno : nat) (src want : list str) (ps : list part) : Prop :=
  exists bs, hd_error bs = Some O /\ Ascending bs /\
    map orig_lines ps = tiles bs src /\
    map exec_lines ps = tiles bs (map (skipn 4) src) /\
    map line_offset ps = map (Nat.add lineno) bs /\
    map want_lines ps = repeat [] (length bs - 1) ++ [want].

Definition dedent_chunk (raw : list str) : list str :=
  match raw with [] => [] | first :: _ => map (skipn (line_indent first)) raw end.
Definition dedent_want (raw_src raw_want : list str) : list str :=
  match raw_src with [] => raw_want | first :: _ => map (skipn (line_indent first)) raw_want end.

(* the items made from the chunks: every chunk becomes one text item or the parts that tile it,
   in order, each starting at the docstring line where the chunk starts *)
Inductive Tiled : nat -> list chunk -> list item -> Prop :=
| Tiled_nil n : Tiled n [] []
| Tiled_text n ls rest r :
    Tiled (n + length ls) rest r -> Tiled n (TextChunk ls :: rest) (IText (join_nl ls) :: r)
| Tiled_code n s w rest ps r :
    PartsTile n (dedent_chunk s) (dedent_want s w) ps ->
    Tiled (n + length s + length w) rest r ->
    Tiled n (CodeChunk s w :: rest) (map IPart ps ++ r).

(* ---------- each part records the index of its first line ---------- *)

(* parts laid out back to back from line n to line e: each starts where the previous one's source lines end *)
Fixpoint Consecutive (n : nat) (ps : list part) (e : nat) : Prop :=
  match ps with
  | [] => e = n
  | p :: r => line_offset p = n /\ Consecutive (n + length (orig_lines p)) r e
  end.

(* the items of a docstring laid out over its chunks: a chunk that starts at docstring line n becomes one text
   item, or parts that cover its source lines back to back starting at n (the want lines follow the last part) *)
Inductive LaidOut : nat -> list chunk -> list item -> Prop :=
| LaidOut_nil n : LaidOut n [] []
| LaidOut_text n ls rest r :
    LaidOut (n + length ls) rest r -> LaidOut n (TextChunk ls :: rest) (IText (join_nl ls) :: r)
| LaidOut_code n s w rest ps r :
    Consecutive n ps (n + length s) ->
    LaidOut (n + length s + length w) rest r ->
    LaidOut n (CodeChunk s w :: rest) (map IPart ps ++ r).

(* what is assumed of the ast oracle for this: a statement starts on a line of the source it was given *)
Definition AstInRange (o : oracles) : Prop :=
  forall lines stmts, o_ast o lines = Ok stmts -> forall s, In s stmts -> (st_line s < length lines)%nat.
