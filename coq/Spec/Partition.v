(* Partition.v — what "parsing partitions the docstring" means. *)
From XD Require Import Model.Base Model.Parser.

(* a labelled line is the docstring line itself, or that line with the display
   prefix "... " inserted at the source indentation (the triple-quote hack) *)
Definition SameLineUpToHack (out : label * str) (line : str) : Prop :=
  snd out = line \/ exists ind, snd out = firstn ind line ++ PS2sp ++ skipn ind line.

Definition chunk_lines (c : chunk) : list str :=
  match c with TextChunk ls => ls | CodeChunk s w => s ++ w end.
Definition flatten_chunks (cs : list chunk) : list str := concat (map chunk_lines cs).

(* every want line is preceded by a source, continuation or want line *)
Fixpoint LabelsOK (prev : label) (ls : list label) : Prop :=
  match ls with
  | [] => True
  | l :: ls' => (l = WANT -> prev <> TEXT) /\ LabelsOK l ls'
  end.
