(* EllipsisSpec.v — what "'...' is a wildcard" means, independent of the scan. *)
From XD Require Import Model.Base Model.Ellipsis.

(* the literal pieces occur in order inside g, separated (and surrounded) by
   arbitrary text; they cannot overlap because each one is consumed from g *)
Inductive InOrder : list str -> str -> Prop :=
| io_nil  g          : InOrder [] g
| io_cons p ps g1 g2 : InOrder ps g2 -> InOrder (p :: ps) (g1 ++ p ++ g2).

(* want = w0 (sep) m1 (sep) ... (sep) wl, where each separator is \s*...\s* :
   got must be w0 ++ rest ++ wl with the middle pieces in order inside rest.
   w0 = [] (resp. wl = []) is exactly "want begins (ends) with a separator",
   i.e. unanchored at that end. *)
Definition EllMatch (got want : str) : Prop :=
  if contains marker want then
    exists w0 mids wl rest,
      split_ell want = w0 :: mids ++ [wl] /\
      got = w0 ++ rest ++ wl /\
      InOrder mids rest
  else got = want.

(* the separators of the split *)
Definition IsEllSep (s : str) : Prop :=
  exists a b, s = a ++ marker ++ b /\ forallb is_space a = true /\ forallb is_space b = true.

Fixpoint interleave (pieces seps : list str) : str :=
  match pieces, seps with
  | p :: ps, s :: ss => p ++ s ++ interleave ps ss
  | p :: _, [] => p
  | [], _ => []
  end.
