(* Scoping.v — the documented scoping of directives, as a small abstract machine.
   The abstract state is what decides execution: SKIP and the set of unmet
   REQUIRES conditions.  A directive list attached to one statement is either a
   block directive (own line) or inline (end of a statement). *)
From XD Require Import Model.Base Model.Parser Model.Directive.

Record astate := mkA { a_skip : bool; a_pend : list str }.

Fixpoint a_requires (met : str -> bool) (positive : bool) (args : list str) (pend : list str) : list str :=
  match args with
  | [] => pend
  | x :: r => a_requires met positive r
                (if met x then pend else if positive then set_add x pend else set_remove x pend)
  end.

Definition a_apply (met : str -> bool) (a : astate) (d : directive) : astate :=
  if eqb_str (d_name d) K_SKIP then mkA (d_positive d) (a_pend a)
  else if eqb_str (d_name d) K_REQUIRES then mkA (a_skip a) (a_requires met (d_positive d) (d_args d) (a_pend a))
  else a.

Definition a_runs (a : astate) : bool := negb (a_skip a) && is_empty (a_pend a).

Definition is_inline (ds : list directive) : bool :=
  match ds with d :: _ => d_inline d | [] => false end.

(* one statement (part) carrying the directives ds: it runs iff, with its directives applied,
   SKIP is off and nothing is pending; block directives persist, inline ones are dropped *)
Definition a_part (met : str -> bool) (a : astate) (ds : list directive) : astate * bool :=
  let a' := fold_left (a_apply met) ds a in
  (if is_inline ds then a else a', a_runs a').

Fixpoint a_run (met : str -> bool) (a : astate) (parts : list (list directive)) : list bool :=
  match parts with
  | [] => []
  | ds :: r => let '(a', runs) := a_part met a ds in runs :: a_run met a' r
  end.

(* the model's side: RuntimeState.update before each part, then the skip test *)
Fixpoint m_run (met : str -> bool) (rs : runstate) (parts : list (list directive)) : option (list bool) :=
  match parts with
  | [] => Some []
  | ds :: r =>
      match rs_update (fun x => Ok (met x)) rs ds with
      | UOk rs' => match m_run met rs' r with
                   | Some l => Some (negb (rs_skips rs') :: l)
                   | None => None
                   end
      | _ => None                 (* update raised *)
      end
  end.

(* all directives of one statement are block, or all are inline (Directive.extract decides
   `inline` once per statement) *)
Definition Uniform (ds : list directive) : Prop :=
  forall d, In d ds -> d_inline d = is_inline ds.

(* the directives the property quantifies over: everything but the REPORT_* family *)
Definition Scoped (d : directive) : Prop := starts_with K_REPORT_ (d_name d) = false.
