(* C09 — Every failure is recorded and rendered; one bad doctest never aborts the run.
   Model: Model/RunLoop.v (the exception ladder of DocTest.run with every raising site as an
   oracle outcome: directive update, pre-import, compile, exec/eval, check, traceback search),
   Model/Runner.v (_run_examples). *)
From XD Require Import Model.Base Model.Parser Model.Checker Model.Text Model.Directive Model.RunLoop Model.Runner
  Model.Format Model.Report Proofs.RunDecide Proofs.RunProofs Proofs.RunEscape Proofs.RunnerProofs Proofs.ReportProofs.

(* whatever the parts do (wrong output, exception, compile-only error, raising repr, import failure,
   malformed directive, running event loop), at whatever position, a run asked to return errors
   returns a summary, and the summary is marked failed iff a failure was recorded *)
Theorem C09_return_never_raises : forall requires_met cfg oc,
  c_on_error cfg = OE_return -> HasDoctestFrame oc -> NoBaseException oc -> OracleTotal requires_met ->
  forall ps, c_pytest_mode cfg = false ->
  exists sm st, run requires_met cfg oc ps = R_summary sm st /\ (s_failed sm = true <-> r_failed st <> None).
Proof. exact return_never_raises. Qed.
Print Assumptions C09_return_never_raises.

(* every failure kind is recorded as a failure of the part where it happened *)
Theorem C09_compile_error_recorded : forall requires_met cfg oc s i p rs',
  Ready requires_met cfg s p rs' -> oc i = O_compile_error ->
  fails_with (step requires_met cfg oc s i p) i F_compile.
Proof. exact step_compile_error. Qed.
Print Assumptions C09_compile_error_recorded.

Theorem C09_directive_error_recorded : forall requires_met cfg oc s i p e,
  r_end s = E_running -> part_update requires_met (r_rs s) p = UErr e ->
  fails_with (step requires_met cfg oc s i p) i F_directive.
Proof. exact step_directive_error. Qed.
Print Assumptions C09_directive_error_recorded.

Theorem C09_exception_recorded : forall requires_met cfg oc s i p rs' out last,
  Ready requires_met cfg s p rs' -> oc i = O_raise out last true -> part_want p = None ->
  fails_with (step requires_met cfg oc s i p) i F_exception.
Proof. exact step_raise_no_want. Qed.
Print Assumptions C09_exception_recorded.

(* the failing line is defined for every recorded failure: the traceback line inside the part, the
   first want line for a got/want error, the part's last source line for a raising repr / running loop,
   the doctest's first line for an import failure *)
Theorem C09_failed_line_defined : forall ps st tb j f, r_failed st = Some (j, f) ->
  (j = None -> failed_line_offset ps st tb = Some O) /\
  (forall i p, j = Some i -> nth_error ps i = Some p ->
     exists o, failed_line_offset ps st tb = Some o /\
       match f with
       | F_gotwant => o = (line_offset p + length (exec_lines p))%nat
       | F_extract_repr | F_existing_loop => o = (line_offset p + length (exec_lines p) - 1)%nat
       | F_directive => o = line_offset p
       | _ => o = (line_offset p + tb - 1)%nat
       end).
Proof. exact failed_line_defined. Qed.
Print Assumptions C09_failed_line_defined.

(* when every run returns (previous theorem), every doctest of the module is run and reported, in order *)
Theorem C09_others_still_run : forall outs, AllReturn outs ->
  exists rs, run_examples outs = Some rs /\ n_total rs = length outs /\
             length (summaries_of outs) = length outs /\
             forall i, nth_error outs i = option_map RO_summary (nth_error (summaries_of outs) i).
Proof. exact others_still_run. Qed.
Print Assumptions C09_others_still_run.

(* the native loop aborts only if some run lets an exception escape *)
Theorem C09_abort_iff_escape : forall outs, run_examples outs = None <->
  exists k, nth_error outs k = Some RO_raised /\ forall j, (j < k)%nat -> exists sm, nth_error outs j = Some (RO_summary sm).
Proof. exact abort_iff_escape. Qed.
Print Assumptions C09_abort_iff_escape.

(* ---------- the rendering clause (Model/Report.v: DocTest.repr_failure up to the TRACEBACK heading) ---------- *)
(* every recorded failure can be rendered *)
Theorem C09_report_exists : forall exname node fpath pfx doc_lineno ps st tb offs partnos j f,
  r_failed st = Some (j, f) -> (forall i, j = Some i -> nth_error ps i <> None) ->
  exists lines, repr_failure_head exname node fpath pfx doc_lineno ps st tb offs partnos = Some lines.
Proof. exact report_exists. Qed.
Print Assumptions C09_report_exists.
(* ... and the report names the exception type (first line) and the failing line, in the doctest and in the file *)
Theorem C09_report_names_type_and_line : forall exname node fpath pfx doc_lineno ps st tb offs partnos lines,
  repr_failure_head exname node fpath pfx doc_lineno ps st tb offs partnos = Some lines ->
  exists fo, failed_line_offset ps st tb = Some fo /\
    failed_lineno doc_lineno ps st tb = Some (doc_lineno + fo)%nat /\
    nth_error lines 0 = Some (REASON ++ exname) /\
    nth_error lines 2 = Some (XDOC_OPEN ++ node ++ LINE_MID ++ decimal (fo + 1) ++ WRT_DOCTEST) /\
    nth_error lines 3 = Some (FILE_OPEN ++ fpath ++ LINE_MID ++ decimal (doc_lineno + fo) ++ COMMA ++ WRT_FILE) /\
    last lines [] = pfx ++ TRACEBACK_HDR.
Proof. exact report_lines. Qed.
Print Assumptions C09_report_names_type_and_line.
(* the part breakdown: every executed part once and in order -- the ones before the failing part under "Passed Parts", the
   failing part alone under "Failed Part", the rest under "Remaining Parts"; skipped parts are left out *)
Theorem C09_breakdown_of_report : forall (texts : list str) j text sk lg,
  nth_error texts j = Some text -> mem_nat j sk = false ->
  bd_go (combine (seq 0 (length texts)) texts) sk (Some j) lg 0 =
  (entries lg sk (combine (seq 0 j) (firstn j texts)), bd_entry lg j text,
   entries lg sk (combine (seq (S j) (length texts - S j)) (skipn (S j) texts))).
Proof. exact breakdown_of_report. Qed.
Print Assumptions C09_breakdown_of_report.
Theorem C09_breakdown_no_failed_part : forall its sk lg failed,
  (forall j, failed = Some j -> Forall (fun it => fst it <> j) its) ->
  bd_go its sk failed lg 0 = (entries lg sk its, [], []).
Proof. exact breakdown_no_failed_part. Qed.
Print Assumptions C09_breakdown_no_failed_part.
