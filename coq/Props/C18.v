(* C18 — Displayed doctest source is faithful and re-parses to the same doctest.
   Model: Model/Format.v (DoctestPart.format_part, DocTest.format_src, utils.add_line_numbers).
   PARTIAL for the re-parse clause: that parsing the displayed text yields the same executable lines, wants and
   modes is checked on the implementation for every generated doctest (it needs the tokenizer); what is proved is
   that the displayed lines ARE the parsed lines, and what every displayed number is. *)
From XD Require Import Model.Base Model.Parser Model.Text Model.Format Spec.Partition Spec.Labels Proofs.FormatProofs Proofs.FormatTrailing Proofs.GroupLocal Proofs.Reparse.

(* without colours or numbers, with or without prompts and wants: each source line and each want line of each part,
   once and in order (for parts whose lines hold no line-break characters) *)
Theorem C18_format_lines : forall parts want prefix offset lineno,
  parts <> [] -> Forall CleanPart parts -> Forall (SrcNonEmpty prefix) parts ->
  split_on NL (format_src parts false want offset prefix false lineno) = concat (map (shown want prefix) parts).
Proof. exact format_src_plain. Qed.
Print Assumptions C18_format_lines.

Theorem C18_format_part_plain : forall p want prefix startline nd, CleanPart p ->
  format_part_pieces p (mkFmt false want prefix None) startline nd =
  ((if prefix then orig_lines p else exec_lines p), (if want then want_lines p else [])).
Proof. exact format_part_plain. Qed.
Print Assumptions C18_format_part_plain.

(* with line numbers: the k-th displayed source line of a part is `<number> <line>` with
   number = startline + line_offset + k; want lines carry no number and are indented by its width *)
Theorem C18_linenos : forall (p : part) (want prefix : bool) (startline nd k : nat) (l : str), CleanPart p ->
  nth_error (if prefix then orig_lines p else exec_lines p) k = Some l ->
  let '(src, wl) := format_part_pieces p (mkFmt true want prefix None) startline (Some nd) in
  nth_error src k = Some (pad_left nd (decimal (startline + line_offset p + k)) ++ [SP] ++ l) /\
  length src = length (if prefix then orig_lines p else exec_lines p) /\
  wl = (if want then map (fun w => repeat_char SP (S nd) ++ w) (want_lines p) else []).
Proof. exact format_part_numbers. Qed.
Print Assumptions C18_linenos.

(* when the offsets are the positions of the parts' first lines (C13), that number minus startline is the
   position of the line in the doctest: startline = 1 gives doctest-relative numbers, startline = DocTest.lineno
   (the file line of the doctest's first line, C08) gives file line numbers *)
Theorem C18_linenos_are_positions : forall parts base j p k,
  OffsetsArePositions base parts -> nth_error parts j = Some p -> (k < length (orig_lines p))%nat ->
  (line_offset p + k = base + length (concat (map all_lines (firstn j parts))) + k)%nat /\
  nth_error (concat (map all_lines parts)) (line_offset p + k - base) = nth_error (orig_lines p) k.
Proof. exact number_is_position. Qed.
Print Assumptions C18_linenos_are_positions.

(* str.splitlines of the joined lines gives the lines back (what format_part relies on) *)
Theorem C18_splitlines_join : forall ls, Forall (fun l => Clean l /\ l <> []) ls -> splitlines (join_nl ls) = ls.
Proof. exact splitlines_join. Qed.
Print Assumptions C18_splitlines_join.

(* ... and so does the parser's own splitter (newlines and carriage returns only, since fix F28), which the re-parse relies on *)
Theorem C18_srclines_join : forall ls, Forall (fun l => Clean l /\ l <> []) ls -> srclines (join_nl ls) = ls.
Proof. exact srclines_join. Qed.
Print Assumptions C18_srclines_join.

(* lines that may be EMPTY (an empty line inside a bracket, the bare '...' that closes a block in front of the output): the
   splitter gives every line back except an empty LAST one, and so does the display of a part *)
Theorem C18_srclines_join_all : forall ls, Forall Clean ls -> srclines (join_nl ls) = drop_last_empty ls.
Proof. exact srclines_join_all. Qed.
Print Assumptions C18_srclines_join_all.

Theorem C18_format_part_lines_all : forall p want prefix startline nd, BreakFreePart p ->
  format_part_pieces p (mkFmt false want prefix None) startline nd =
  (drop_last_empty (if prefix then orig_lines p else exec_lines p), (if want then drop_last_empty (want_lines p) else [])).
Proof. exact format_part_plain_all. Qed.
Print Assumptions C18_format_part_lines_all.

(* with prompts every line carries its prompt, so nothing is lost, also behind a bare terminator ... *)
Theorem C18_format_part_prompted_complete : forall p want startline nd, BreakFreePart p ->
  Forall (fun l : str => l <> []) (orig_lines p) -> Forall (fun l : str => l <> []) (want_lines p) ->
  format_part_pieces p (mkFmt false want true None) startline nd = (orig_lines p, (if want then want_lines p else [])).
Proof. exact format_part_prompted_complete. Qed.
Print Assumptions C18_format_part_prompted_complete.

(* ... without prompts exactly the terminator's empty line is not shown (the check's `shown_source`) *)
Theorem C18_format_part_promptless_terminator : forall p body want startline nd, BreakFreePart p -> body <> [] ->
  exec_lines p = body ++ [[]] ->
  fst (format_part_pieces p (mkFmt false want false None) startline nd) = body.
Proof. exact format_part_promptless_terminator. Qed.
Print Assumptions C18_format_part_promptless_terminator.

Theorem C18_terminated_part_example :
  BreakFreePart demo_terminated_part /\
  (format_part_pieces demo_terminated_part (mkFmt false true true None) 1 None =
    (orig_lines demo_terminated_part, [[122%N]])) /\
  (format_part_pieces demo_terminated_part (mkFmt false true false None) 1 None =
    ([[105;102;32;120;58]; [32;32;32;32;121]]%N, [[122%N]])).
Proof. exact demo_terminated_display. Qed.
Print Assumptions C18_terminated_part_example.

(* the display in terms of the DOCSTRING (prose included): with prompts and wants, without colours or numbers, it is the
   docstring's source and want lines chunk by chunk, each chunk de-indented by the indentation of its first line,
   prose left out -- for every tokenizer oracle and every ast oracle that reports statement starts inside the source *)
Theorem C18_display_is_docstring : forall o s items off lineno,
  AstInRange o -> parse o s = Parsed items -> Forall ShownOK (parts_of items) ->
  exists (ll : list (label * str)) gs,
    length ll = length (srclines (normalize_docstring s)) /\
    Forall2 SameLineUpToHack ll (srclines (normalize_docstring s)) /\
    flatten_chunks gs = map snd ll /\
    format_src (parts_of items) false true off true false lineno = join_nl (concat (map chunk_shown gs)).
Proof. exact display_is_docstring. Qed.
Print Assumptions C18_display_is_docstring.
(* the re-parse clause, PARTIAL: for a docstring made of well-formed examples (Spec/Labels.v) at one indentation and no
   prose between them, parsing the displayed text yields the very same items (executable lines, wants, modes, offsets).
   Missing: docstrings with prose (removing the prose may merge neighbouring want-less examples into one chunk, which
   only a compositional ast oracle keeps apart) -- those are checked on the implementation per generated doctest *)
Theorem C18_reparse_partial : forall o ind exs s items off lineno,
  AstInRange o -> exs <> [] -> Forall (fun e => ex_ind e = ind) exs ->
  Chain (o_bal o) TEXT O (map BEx exs) ->
  srclines (normalize_docstring s) = exs_lines exs ->
  Forall LineOK (exs_lines (map ex0 exs)) ->
  parse o s = Parsed items ->
  format_src (parts_of items) false true off true false lineno = join_nl (exs_lines (map ex0 exs)) /\
  parse o (format_src (parts_of items) false true off true false lineno) = Parsed items.
Proof. exact reparse_displayed. Qed.
Print Assumptions C18_reparse_partial.
(* the same with prose BEFORE and AFTER the run of examples (the usual docstring: summary, examples, closing remarks; the
   examples may be indented): the display is the examples' lines, and parsing it again yields the same parts, each with
   its line offset counted from the first displayed line.  Still missing: prose BETWEEN examples *)
Theorem C18_reparse_prose_around_partial : forall o ind exs p0 p1 s items off lineno,
  AstInRange o -> exs <> [] -> Forall (fun e => ex_ind e = ind) exs ->
  Chain (o_bal o) TEXT O (BProse p0 :: map BEx exs ++ [BProse p1]) ->
  srclines (normalize_docstring s) = concat (map block_lines (BProse p0 :: map BEx exs ++ [BProse p1])) ->
  Forall LineOK (exs_lines (map ex0 exs)) ->
  parse o s = Parsed items ->
  format_src (parts_of items) false true off true false lineno = join_nl (exs_lines (map ex0 exs)) /\
  exists items', parse o (format_src (parts_of items) false true off true false lineno) = Parsed items' /\
                 parts_of items = map (shift (length p0)) (parts_of items').
Proof. exact reparse_prose_around. Qed.
Print Assumptions C18_reparse_prose_around_partial.
(* prose ANYWHERE (sections of prose followed by a run of examples at one indentation, closing prose), provided every run that
   is followed by another run ends with an example that has a want: the display is the examples' lines, and parsing it again
   yields the same parts up to the lines they start on (executable lines, prompted lines, wants, directives, modes).
   Still outside: a want-less example directly followed by prose and then more examples -- there the re-parse merges two
   chunks, and only a compositional ast oracle keeps their statements apart (tested on the implementation) *)
Theorem C18_reparse_sections_partial : forall o secs pend s items off lineno,
  AstInRange o -> secs <> [] ->
  Forall (fun sec => s_exs sec <> [] /\ Forall (fun e => ex_ind e = s_ind sec) (s_exs sec)) secs ->
  WantEndsS secs ->
  Chain (o_bal o) TEXT O (doc_blocks secs pend) ->
  srclines (normalize_docstring s) = concat (map block_lines (doc_blocks secs pend)) ->
  Forall LineOK (exs_lines (map ex0 (all_exs secs))) ->
  parse o s = Parsed items ->
  format_src (parts_of items) false true off true false lineno = join_nl (exs_lines (map ex0 (all_exs secs))) /\
  exists items', parse o (format_src (parts_of items) false true off true false lineno) = Parsed items' /\
                 map unoffset (parts_of items) = map unoffset (parts_of items').
Proof. exact reparse_sections. Qed.
Print Assumptions C18_reparse_sections_partial.
(* grouping and packaging look at labels and de-indented lines only (what the re-parse rests on) *)
Theorem C18_grouping_ignores_text_of_lines : forall g ll,
  group_lines (map (on_snd g) ll) = res_map (map (chunk_map g)) (group_lines ll).
Proof. exact group_lines_map. Qed.
Print Assumptions C18_grouping_ignores_text_of_lines.
Theorem C18_packaging_ignores_indentation : forall o ind src want n, Forall (IndLine ind) src ->
  package_chunk o (map (skipn ind) src) (map (skipn ind) want) n = package_chunk o src want n.
Proof. exact package_chunk_dedent. Qed.
Print Assumptions C18_packaging_ignores_indentation.
(* ... and at the line a chunk starts on only to number its parts *)
Theorem C18_packaging_offsets_relative : forall o s w k n,
  package_chunk o s w (k + n) = GroupLocal.res_map (map (shift k)) (package_chunk o s w n).
Proof. exact package_chunk_shift. Qed.
Print Assumptions C18_packaging_offsets_relative.
