(* C03 — Exceptions are never swallowed; only a matching expected traceback passes.
   Model: the O_raise arm of RunLoop.step with Checker.check_exception / extract_exc_want. *)
From XD Require Import Model.Base Model.Parser Model.Checker Model.Text Model.Directive Model.RunLoop
  Proofs.RunWant Proofs.RunDecide Proofs.RunProofs.

(* no want: the doctest fails with that exception, at that part *)
Theorem C03_no_want_fails : forall requires_met cfg oc s i p rs' out last,
  Ready requires_met cfg s p rs' -> oc i = O_raise out last true -> part_want p = None ->
  fails_with (step requires_met cfg oc s i p) i F_exception.
Proof. exact step_raise_no_want. Qed.
Print Assumptions C03_no_want_fails.

(* a want that is not a traceback block never hides an exception *)
Theorem C03_nontraceback_fails : forall requires_met cfg oc s i p rs' out last want,
  Ready requires_met cfg s p rs' -> oc i = O_raise out last true -> part_want p = Some want ->
  extract_exc_want want = None ->
  fails_with (step requires_met cfg oc s i p) i F_exception.
Proof. exact step_raise_non_traceback. Qed.
Print Assumptions C03_nontraceback_fails.

(* a traceback want: the run goes on (nothing recorded, following parts still run) iff the final
   line matches under the active flags, or - with IGNORE_EXCEPTION_DETAIL - the type does;
   otherwise the doctest fails with a got/want error (not with the raised exception) *)
Theorem C03_traceback_iff : forall requires_met cfg oc s i p rs' out last hf want msg,
  Ready requires_met cfg s p rs' -> oc i = O_raise out last hf -> part_want p = Some want ->
  extract_exc_want want = Some msg ->
  let s' := step requires_met cfg oc s i p in
  (ExcMatches (flags_of rs') last msg ->
     r_end s' = E_running /\ r_failed s' = r_failed s /\ r_executed s' = r_executed s ++ [i] /\
     r_unmatched s' = []) /\            (* like every passing check, it ends the window of unmatched output (fix F25) *)
  (~ ExcMatches (flags_of rs') last msg -> fails_with s' i F_gotwant).
Proof. exact step_raise_traceback. Qed.
Print Assumptions C03_traceback_iff.

Theorem C03_exception_match_spec : forall fl last want msg,
  extract_exc_want want = Some msg ->
  (check_exception fl last want = Some true <-> ExcMatches fl last msg) /\
  (check_exception fl last want = Some false <-> ~ ExcMatches fl last msg).
Proof. exact check_exception_spec. Qed.
Print Assumptions C03_exception_match_spec.

(* a traceback want on code that does not raise gets no special treatment: it is compared
   like any other want (and therefore fails unless the output looks like the traceback) *)
Theorem C03_no_raise_traceback_want : forall requires_met cfg oc s i p rs' out ev want,
  Ready requires_met cfg s p rs' -> oc i = O_ok out ev -> part_want p = Some want ->
  IGNORE_WANT (flags_of rs') = false ->
  let s' := step requires_met cfg oc s i p in
  r_executed s' = r_executed s ++ [i] /\ r_checked s' = r_checked s ++ [i] /\
  match part_check (flags_of rs') want (r_unmatched s) out ev with
  | GW_ok => r_end s' = E_running /\ r_failed s' = r_failed s /\ r_unmatched s' = []
  | GW_gotwant => r_failed s' = Some (Some i, F_gotwant) /\ r_end s' <> E_running
  | GW_extract_repr => r_failed s' = Some (Some i, F_extract_repr) /\ r_end s' <> E_running
  | GW_repr_escapes => r_failed s' = Some (Some i, F_exception) /\ r_end s' <> E_running
  end.
Proof. exact step_want. Qed.
Print Assumptions C03_no_raise_traceback_want.

(* after an expected exception the following parts are still visited: while the loop is
   running every earlier part has been executed or skipped, and a failure stops it *)
Theorem C03_fail_stop : forall requires_met cfg oc ps i f,
  let st := run_parts requires_met cfg oc (init_state cfg) 0 ps in
  r_failed st = Some (Some i, f) ->
  (i < length ps)%nat /\
  (forall j, In j (r_executed st) \/ In j (r_skipped st) -> (j <= i)%nat) /\
  (forall j, (j < i)%nat -> In j (r_executed st) \/ In j (r_skipped st)).
Proof. exact fail_stop. Qed.
Print Assumptions C03_fail_stop.

Theorem C03_no_failure_all_visited : forall requires_met cfg oc ps,
  let st := run_parts requires_met cfg oc (init_state cfg) 0 ps in
  r_end st = E_running ->
  r_failed st = None /\ forall j, (j < length ps)%nat -> In j (r_executed st) \/ In j (r_skipped st).
Proof. exact running_all_visited. Qed.
Print Assumptions C03_no_failure_all_visited.
