(* C04 — Directive scoping: block persists, inline is local, skipped code never runs.
   Model: Model/Directive.v (RuntimeState, Directive.effects) and the skip test of Model/RunLoop.v.
   Spec: Spec/Scoping.v (abstract machine over SKIP and the set of unmet REQUIRES). *)
From XD Require Import Model.Base Model.Parser Model.Checker Model.Text Model.Directive Model.RunLoop
  Spec.Scoping Proofs.DirectiveProofs Proofs.RunDecide Model.DirInline Proofs.FormatProofs Proofs.FormatTrailing Proofs.DirInlineProofs Model.CliOptions Proofs.CliOptionsProofs.

(* which statements run, for EVERY sequence of directive lists (block or inline; SKIP, REQUIRES met/unmet
   with any arguments, any other flag), from every well-formed state and for every REQUIRES oracle:
   exactly what the abstract machine says -- and RuntimeState.update never raises *)
Theorem C04_scoping : forall met parts rs,
  WF rs -> Forall Uniform parts -> Forall (fun ds => forall d, In d ds -> Scoped d) parts ->
  m_run met rs parts = Some (a_run met (gview rs) parts).
Proof. exact scoping_refines. Qed.
Print Assumptions C04_scoping.

(* one update: persistent part and skip test *)
Theorem C04_update_refines : forall met rs ds,
  WF rs -> Uniform ds -> (forall d, In d ds -> Scoped d) ->
  exists rs', rs_update (fun x => Ok (met x)) rs ds = UOk rs' /\ WF rs' /\
              gview rs' = fst (a_part met (gview rs) ds) /\
              negb (rs_skips rs') = snd (a_part met (gview rs) ds).
Proof. exact rs_update_refines. Qed.
Print Assumptions C04_update_refines.

(* an inline directive leaves the persistent state untouched (all of it, not only SKIP/REQUIRES) *)
Theorem C04_inline_leaves_persistent : forall met rs ds rs',
  WF rs -> is_inline ds = true -> Uniform ds -> (forall d, In d ds -> Scoped d) ->
  rs_update (fun x => Ok (met x)) rs ds = UOk rs' -> rs_global rs' = rs_global rs.
Proof. exact inline_leaves_persistent. Qed.
Print Assumptions C04_inline_leaves_persistent.

(* ... and its overlay is dropped by the next update, whatever it was *)
Theorem C04_overlay_is_dropped : forall requires_met g i1 i2 ds,
  rs_update requires_met (mkRS g i1) ds = rs_update requires_met (mkRS g i2) ds.
Proof. exact overlay_is_dropped. Qed.
Print Assumptions C04_overlay_is_dropped.

(* default options (boolean flags) behave like a leading block directive *)
Theorem C04_defaults_as_leading_block : forall requires_met d, BoolDefaults d ->
  (forall k v, In (k, v) d -> starts_with K_REPORT_ k = false) ->
  rs_update requires_met (rs_init []) (dirs_of_defaults d) = UOk (rs_init d).
Proof. exact defaults_as_block. Qed.
Print Assumptions C04_defaults_as_leading_block.

(* the state every run starts from is well formed (non-vacuity of WF) *)
Theorem C04_initial_state_wf : forall d, BoolDefaults d -> WF (rs_init d).
Proof. exact WF_init. Qed.
Print Assumptions C04_initial_state_wf.

(* a skipped statement has no effect at all: not executed, nothing logged or buffered, its want not compared *)
Theorem C04_skipped_no_effect : forall requires_met cfg oc s i p rs',
  r_end s = E_running -> part_update requires_met (r_rs s) p = UOk rs' ->
  rs_skips rs' || negb (has_any_code p) = true ->
  let s' := step requires_met cfg oc s i p in
  r_skipped s' = r_skipped s ++ [i] /\ r_executed s' = r_executed s /\ r_checked s' = r_checked s /\
  r_logged s' = r_logged s /\ r_unmatched s' = r_unmatched s /\ r_failed s' = r_failed s /\
  r_end s' = E_running.
Proof. exact step_skipped. Qed.
Print Assumptions C04_skipped_no_effect.

(* non-vacuity: block +SKIP, statement, inline -SKIP statement, statement, block -SKIP, statement *)
Example C04_example :
  let skip b inl := mkDirective K_SKIP b [] inl in
  a_run (fun _ => false) (mkA false [])
        [[skip true false]; []; [skip false true]; []; [skip false false]; []]
  = [false; false; true; false; true; true].
Proof. reflexivity. Qed.

(* which directives ARE block and which inline (Model/DirInline.v: Directive.extract's classification, since fix F31): inline
   iff some line of the statement is neither empty nor a comment ... *)
Theorem C04_inline_iff_code : forall text,
  extract_inline text = true <->
  exists l, In l (splitlines text) /\ blank_line l = false /\ comment_line l = false.
Proof. exact extract_inline_iff. Qed.
Print Assumptions C04_inline_iff_code.

(* ... so a statement made of comments and empty lines only (a directive on a prompt line of its own, with any spacing of empty
   prompt lines around it) gives block directives, and a statement with a line of code gives inline ones *)
Theorem C04_comment_only_statement_is_block : forall ls,
  Forall Clean ls -> Forall (fun l => blank_line l = true \/ comment_line l = true) ls ->
  extract_inline (join_nl ls) = false.
Proof. exact comment_only_statement_is_block. Qed.
Print Assumptions C04_comment_only_statement_is_block.

Theorem C04_statement_with_code_is_inline : forall ls l,
  Forall Clean ls -> In l ls -> blank_line l = false -> comment_line l = false ->
  extract_inline (join_nl ls) = true.
Proof. exact statement_with_code_is_inline. Qed.
Print Assumptions C04_statement_with_code_is_inline.

Theorem C04_block_directive_with_spacing : forall c m n, Clean c -> comment_line c = true ->
  extract_inline (join_nl (repeat [] m ++ [c] ++ repeat [] n)) = false.
Proof. exact block_directive_with_spacing. Qed.
Print Assumptions C04_block_directive_with_spacing.

(* the rule before fix F31 classified '# xdoctest: +SKIP' followed by two empty lines, or preceded by one, as inline (finding F31);
   the same witnesses show that the hypotheses above are satisfiable *)
Theorem C04_block_with_spacing_refuted_before_F31 :
  extract_inline_before_F31 (join_nl [demo_directive_comment; []; []]) = true /\
  extract_inline_before_F31 (join_nl [[]; demo_directive_comment]) = true /\
  extract_inline (join_nl [demo_directive_comment; []; []]) = false /\
  extract_inline (join_nl [[]; demo_directive_comment]) = false /\
  Clean demo_directive_comment /\ comment_line demo_directive_comment = true.
Proof. exact block_with_spacing_refuted_before_F31. Qed.
Print Assumptions C04_block_with_spacing_refuted_before_F31.

(* the default options as the command line gives them (Model/CliOptions.v: DoctestConfig._populate_from_cli on the parsed pieces of
   `--options=a,b,c`): the value of a name is the sign of its last mention ... *)
Theorem C04_cli_defaults_last_mention : forall opts k,
  dget k (populate_from_cli opts) = match last_mention k opts with Some b => Some (VBool b) | None => None end.
Proof. exact populate_get. Qed.
Print Assumptions C04_cli_defaults_last_mention.

(* ... so when no name is given twice EVERY option of the list is a default option of the run, with its own sign, and nothing else is;
   the result is a dict of boolean defaults, which C04_defaults_as_leading_block turns into "a leading block directive" *)
Theorem C04_cli_defaults_hold_every_option : forall opts, NoDup (map fst opts) ->
  forall k b, In (k, b) opts -> dget k (populate_from_cli opts) = Some (VBool b).
Proof. exact populate_holds_every_option. Qed.
Print Assumptions C04_cli_defaults_hold_every_option.

Theorem C04_cli_defaults_hold_nothing_else : forall opts k,
  (forall b, ~ In (k, b) opts) -> dget k (populate_from_cli opts) = None.
Proof. exact populate_holds_nothing_else. Qed.
Print Assumptions C04_cli_defaults_hold_nothing_else.

Theorem C04_cli_defaults_are_bool_defaults : forall opts,
  (forall b, ~ In (K_REQUIRES, b) opts) -> BoolDefaults (populate_from_cli opts).
Proof. exact populate_bool_defaults. Qed.
Print Assumptions C04_cli_defaults_are_bool_defaults.

Theorem C04_cli_defaults_example :
  let opts := [(K_SKIP, true); (K_IGNORE_WHITESPACE, true); (K_ELLIPSIS, false)] in
  NoDup (map fst opts) /\ (forall b, ~ In (K_REQUIRES, b) opts) /\
  populate_from_cli opts = [(K_SKIP, VBool true); (K_IGNORE_WHITESPACE, VBool true); (K_ELLIPSIS, VBool false)].
Proof. exact populate_example. Qed.
Print Assumptions C04_cli_defaults_example.
