(* C20 — Backwards compatible: what passes under the standard doctest module passes here.
   PARTIAL, with the full statement REFUTED on the unchanged tree: five classes of doctests pass under the
   standard module and not here (known findings F6, F6b, F6c, F6d, F6e; each re-evaluated on the real code every
   run).  What is proved is the part that holds: whatever the standard module accepts by EXACT comparison of
   the example's own output, of the echoed value, or of an expected traceback's final line, xdoctest accepts
   under every flag setting; the standard module itself is used as an executable oracle by the harness. *)
From XD Require Import Model.Base Model.Ellipsis Model.Checker Model.Text Model.Parser Model.Directive Model.RunLoop
  Proofs.RunWant Proofs.RunDecide Proofs.CompatProofs Model.StdDoctest Proofs.StdEllipsisProofs
  Model.StdOutput Proofs.StdOutputProofs Spec.EllipsisSpec Proofs.EllCollapse Proofs.StdOutputFull.

Theorem C20_exact_output_accepted : forall fl got want, got = want -> check_output fl got want = true.
Proof. exact exact_output_accepted. Qed.
Print Assumptions C20_exact_output_accepted.

(* a want equal to the output of its own example passes, whatever the earlier examples printed *)
Theorem C20_exact_want_passes : forall fl want um got ev, ReprSafe ev -> got = want ->
  part_check fl want um got ev = GW_ok.
Proof. exact exact_want_passes. Qed.
Print Assumptions C20_exact_want_passes.

(* the echoed value of an expression example is accepted against its repr *)
Theorem C20_echoed_value_passes : forall fl r, r <> [] -> check_got_vs_want fl r [] (EvalRepr r) = GW_ok.
Proof. exact echoed_value_passes. Qed.
Print Assumptions C20_echoed_value_passes.

(* an expected traceback whose final line is the raised exception's final line passes *)
Theorem C20_exact_traceback_passes : forall fl last want, extract_exc_want want = Some last ->
  check_exception fl last want = Some true.
Proof. exact exact_traceback_passes. Qed.
Print Assumptions C20_exact_traceback_passes.

(* the full statement is false of the faithful model: finding F6 *)
Theorem C20_compat_refuted_F6 :
  part_check default_flags f6_want [] f6_stdout (EvalRepr f6_repr) = GW_gotwant.
Proof. exact compat_refuted_F6. Qed.
Print Assumptions C20_compat_refuted_F6.

(* ELLIPSIS: whatever the standard module's wildcard matcher (doctest._ellipsis_match, modelled in
   Model/StdDoctest.v and run against the interpreter's own doctest module by the harness) accepts, xdoctest's
   matcher accepts -- for all texts, any number of markers *)
Theorem C20_std_ellipsis_accepted : forall want got,
  std_ellipsis_match want got = true -> ellipsis_match got want = true.
Proof. exact std_ellipsis_implies_xdoctest. Qed.
Print Assumptions C20_std_ellipsis_accepted.

(* the two matchers cut the want at the same markers; xdoctest's pieces are the standard ones with text shaved
   off next to the markers (the relation the proof rests on) *)
Theorem C20_splits_related : forall s, PRel [] (split_std s) (split_ell s).
Proof. exact split_std_ell_related. Qed.
Print Assumptions C20_splits_related.

(* the converse does not hold (xdoctest is the more permissive one): got 'axb' against want 'a ... b' *)
Theorem C20_xdoctest_accepts_more :
  ellipsis_match [97;120;98]%N [97;32;46;46;46;32;98]%N = true /\
  std_ellipsis_match [97;32;46;46;46;32;98]%N [97;120;98]%N = false.
Proof. exact xdoctest_accepts_more. Qed.
Print Assumptions C20_xdoctest_accepts_more.

(* ... but the whole comparison is not: finding F6f -- the standard matcher accepts the got b'abc' for the want b... , xdoctest's
   check_output (default state, ELLIPSIS on) removes the string-prefix letter from the got only and rejects *)
Theorem C20_compat_refuted_F6f :
  std_ellipsis_match f6f_want f6f_got = true /\ check_output default_flags f6f_got f6f_want = false.
Proof. exact compat_refuted_F6f. Qed.
Print Assumptions C20_compat_refuted_F6f.

(* ---- the whole comparison of the standard OutputChecker (Model/StdOutput.v: exact, True-for-1, <BLANKLINE> rewriting,
   NORMALIZE_WHITESPACE, ELLIPSIS; tied to CPython's doctest.OutputChecker by correspondence) implies check_output in
   xdoctest's default state, for every flag setting a '# doctest:' directive can produce (e = ELLIPSIS, n =
   NORMALIZE_WHITESPACE).  The want is given by its lines (each the marker, or free of the marker text);
   Plain = no colour codes, no string-prefix letters in front of quotes, no carriage returns.  Every hypothesis is
   needed: F6d, F6f, F6g, F6h, F6i below are the witnesses on which the unchanged code is stricter. *)
Theorem C20_std_output_accepted : forall e n ls got,
  ls <> [] -> Forall LineOK ls -> Plain got -> Plain (join_nl ls) ->
  contains BLANKLINE got = false ->
  true_for_1 (join_nl ls ++ [NL]) got = false ->
  (e = true -> contains marker got = false) ->
  std_check_output e n (join_nl ls ++ [NL]) got = true ->
  check_output default_flags got (join_nl ls) = true.
Proof. exact std_output_accepted. Qed.
Print Assumptions C20_std_output_accepted.

(* ... lifted to the comparison the run loop makes for one example (RunLoop.part_check; um = output of earlier examples that no
   want has consumed yet): an example that is not an expression or whose value is None, compared by what it wrote, ... *)
Theorem C20_std_statement_example_passes : forall e n ls um out,
  ls <> [] -> Forall LineOK ls -> Plain out -> Plain (join_nl ls) ->
  contains BLANKLINE out = false ->
  true_for_1 (join_nl ls ++ [NL]) out = false ->
  (e = true -> contains marker out = false) ->
  std_check_output e n (join_nl ls ++ [NL]) out = true ->
  part_check default_flags (join_nl ls) um out NotEvaled = GW_ok.
Proof. exact std_statement_example_passes. Qed.
Print Assumptions C20_std_statement_example_passes.

(* ... and an expression example that writes nothing: the standard module compares repr(value) + newline, xdoctest the repr.
   (An expression example that BOTH writes and has a value is finding F6.) *)
Theorem C20_std_expression_example_passes : forall e n ls um r,
  ls <> [] -> Forall LineOK ls -> Plain r -> Plain (join_nl ls) ->
  contains BLANKLINE (r ++ [NL]) = false ->
  true_for_1 (join_nl ls ++ [NL]) (r ++ [NL]) = false ->
  (e = true -> contains marker (r ++ [NL]) = false) ->
  std_check_output e n (join_nl ls ++ [NL]) (r ++ [NL]) = true ->
  part_check default_flags (join_nl ls) um [] (EvalRepr r) = GW_ok.
Proof. exact std_expression_example_passes. Qed.
Print Assumptions C20_std_expression_example_passes.

(* ... and a raising example with an expected traceback (the block's final text against the last line of the formatted exception) *)
Theorem C20_std_traceback_example_passes : forall e n ls last want,
  extract_exc_want want = Some (join_nl ls) ->
  ls <> [] -> Forall LineOK ls -> Plain last -> Plain (join_nl ls) ->
  contains BLANKLINE last = false ->
  true_for_1 (join_nl ls ++ [NL]) last = false ->
  (e = true -> contains marker last = false) ->
  std_check_output e n (join_nl ls ++ [NL]) last = true ->
  check_exception default_flags last want = Some true.
Proof. exact std_traceback_example_passes. Qed.
Print Assumptions C20_std_traceback_example_passes.

(* the lemma behind the ELLIPSIS-only case: the wildcard relation survives ' '.join(text.split()) on both texts *)
Theorem C20_ellmatch_collapse : forall g w, EllMatch g w -> EllMatch (collapse_ws g) (collapse_ws w).
Proof. exact ellmatch_collapse. Qed.
Print Assumptions C20_ellmatch_collapse.

(* ... and re.split(r'\s*\.\.\.\s*') commutes with it, piece by piece *)
Theorem C20_split_collapse : forall w, split_ell (collapse_ws w) = map collapse_ws (split_ell w).
Proof. intros w. rewrite cgo_collapse, split_ell_C. apply map_ext. intros a. symmetry. apply cgo_collapse. Qed.
Print Assumptions C20_split_collapse.

(* the hypotheses are satisfiable under ELLIPSIS alone, where the plain comparison fails *)
Theorem C20_std_output_ellipsis_example :
  demo2_want_lines <> [] /\ Forall LineOK demo2_want_lines /\ Plain demo2_got /\ Plain (join_nl demo2_want_lines) /\
  contains BLANKLINE demo2_got = false /\ true_for_1 (join_nl demo2_want_lines ++ [NL]) demo2_got = false /\
  contains marker demo2_got = false /\
  std_check_output true false (join_nl demo2_want_lines ++ [NL]) demo2_got = true /\
  std_check_output false false (join_nl demo2_want_lines ++ [NL]) demo2_got = false.
Proof. exact demo_std_output_ellipsis_hyps. Qed.
Print Assumptions C20_std_output_ellipsis_example.

(* the hypotheses are satisfiable with a marker line and differing blanks, past the identity shortcut *)
Theorem C20_std_output_hyps_example :
  demo_want_lines <> [] /\ Forall LineOK demo_want_lines /\ Plain demo_got /\ Plain (join_nl demo_want_lines) /\
  contains BLANKLINE demo_got = false /\ true_for_1 (join_nl demo_want_lines ++ [NL]) demo_got = false /\
  std_check_output false false (join_nl demo_want_lines ++ [NL]) demo_got = true /\
  eqb_str demo_got (join_nl demo_want_lines ++ [NL]) = false.
Proof. exact demo_std_output_hyps. Qed.
Print Assumptions C20_std_output_hyps_example.

(* the hypotheses cannot be dropped: the unchanged code is stricter than the standard module on these texts *)
Theorem C20_compat_refuted_F6d :
  std_check_output false false (f6d_want ++ [NL]) f6d_got = true /\ check_output default_flags f6d_got f6d_want = false.
Proof. exact compat_refuted_F6d. Qed.
Print Assumptions C20_compat_refuted_F6d.
Theorem C20_compat_refuted_F6g :
  std_check_output false false (f6g_want ++ [NL]) f6g_got = true /\ check_output default_flags f6g_got f6g_want = false.
Proof. exact compat_refuted_F6g. Qed.
Print Assumptions C20_compat_refuted_F6g.
Theorem C20_compat_refuted_F6h :
  std_check_output true false (f6h_want ++ [NL]) f6h_got = true /\ check_output default_flags f6h_got f6h_want = false.
Proof. exact compat_refuted_F6h. Qed.
Print Assumptions C20_compat_refuted_F6h.
Theorem C20_compat_refuted_F6i :
  std_check_output true false (f6i_want ++ [NL]) f6i_got = true /\ check_output default_flags f6i_got f6i_want = false.
Proof. exact compat_refuted_F6i. Qed.
Print Assumptions C20_compat_refuted_F6i.
