(* C11 — Runs are isolated: a doctest behaves the same whatever ran before it.
   Model: Model/Isolation.v - the directive state with its mutable REQUIRES set in an explicit heap
   (RuntimeState.__init__'s deepcopy, update's in-place set.add / set.remove, the inline overlay's copy),
   over arbitrary histories of runs in one process.  PARTIAL: what is proved is the aliasing discipline of the
   directive state (the part that is xdoctest's logic); that exec() with a copied namespace dict does not write
   the module and that each DocTest owns its namespace is runtime behaviour, checked on the implementation. *)
From XD Require Import Model.Base Model.Parser Model.Directive Model.Isolation Proofs.IsolationProofs.

(* for EVERY history of runs (any order, repetitions, any default options, any directives incl. ones that make
   update raise) every heap cell that existed before - in particular the REQUIRES set of the process-wide
   DEFAULT_RUNTIME_STATE - is left exactly as it was *)
Theorem C11_defaults_never_written : forall hist h defaults,
  firstn (length h) (exec_history h defaults hist) = h.
Proof. exact defaults_never_written. Qed.
Print Assumptions C11_defaults_never_written.

Theorem C11_default_contents_stable : forall hist h defaults c,
  (c < length h)%nat -> hread (exec_history h defaults hist) c = hread h c.
Proof. exact default_contents_stable. Qed.
Print Assumptions C11_default_contents_stable.

(* one run *)
Theorem C11_run_preserves_heap : forall h defaults ds parts,
  firstn (length h) (run_directives h defaults ds parts) = h.
Proof. exact run_preserves_heap. Qed.
Print Assumptions C11_run_preserves_heap.

(* a fresh RuntimeState references only cells allocated for it (no alias into the defaults) *)
Theorem C11_fresh_state_owns_its_sets : forall h defaults ds h' st,
  hs_init h defaults ds = (h', st) -> firstn (length h) h' = h /\ Owns (length h) h' st.
Proof. exact hs_init_owns. Qed.
Print Assumptions C11_fresh_state_owns_its_sets.

(* every effect of update keeps the state inside its own cells and everything older untouched;
   the inline overlay of a set is a new cell, never the persistent one *)
Theorem C11_update_stays_in_own_cells : forall n h st e h' st',
  Owns n h st -> happly h st e = Some (h', st') -> firstn n h' = firstn n h /\ Owns n h' st'.
Proof. exact happly_owns. Qed.
Print Assumptions C11_update_stays_in_own_cells.

(* non-vacuity: a block +REQUIRES(x) in one run does not show in the defaults the next run copies *)
Example C11_example :
  let defaults := [(K_SKIP, HBool false); (K_REQUIRES, HSet 0%nat)] in
  let h0 := [[]] in
  let h1 := run_directives h0 defaults [] [[HE_set false true K_REQUIRES [120%N]]] in
  hread h1 0%nat = [] /\ hread h1 1%nat = [[120%N]].
Proof. vm_compute. split; reflexivity. Qed.
