(* C11 — Runs are isolated: a doctest behaves the same whatever ran before it.
   Model: Model/Isolation.v - the directive state with its mutable REQUIRES set in an explicit heap
   (RuntimeState.__init__'s deepcopy, update's in-place set.add / set.remove, the inline overlay's copy),
   over arbitrary histories of runs in one process.  PARTIAL: what is proved is the aliasing discipline of the
   directive state (the part that is xdoctest's logic); that exec() with a copied namespace dict does not write
   the module and that each DocTest owns its namespace is runtime behaviour, checked on the implementation. *)
From XD Require Import Model.Base Model.Parser Model.Directive Model.Isolation Proofs.IsolationProofs Proofs.IsolationRefine.

(* for EVERY history of runs (any order, repetitions, any default options, any directives incl. ones that make
   update raise) every heap cell that existed before - in particular the REQUIRES set of the process-wide
   DEFAULT_RUNTIME_STATE - is left exactly as it was *)
Theorem C11_defaults_never_written : forall hist h defaults,
  firstn (length h) (exec_history h defaults hist) = h.
Proof. exact defaults_never_written. Qed.
Print Assumptions C11_defaults_never_written.

Theorem C11_default_contents_stable : forall hist h defaults c,
  (c < length h)%nat -> hread (exec_history h defaults hist) c = hread h c.
Proof. exact default_contents_stable. Qed.
Print Assumptions C11_default_contents_stable.

(* one run *)
Theorem C11_run_preserves_heap : forall h defaults ds parts,
  firstn (length h) (run_directives h defaults ds parts) = h.
Proof. exact run_preserves_heap. Qed.
Print Assumptions C11_run_preserves_heap.

(* a fresh RuntimeState references only cells allocated for it (no alias into the defaults) *)
Theorem C11_fresh_state_owns_its_sets : forall h defaults ds h' st,
  hs_init h defaults ds = (h', st) -> firstn (length h) h' = h /\ Owns (length h) h' st.
Proof. exact hs_init_owns. Qed.
Print Assumptions C11_fresh_state_owns_its_sets.

(* every effect of update keeps the state inside its own cells and everything older untouched;
   the inline overlay of a set is a new cell, never the persistent one *)
Theorem C11_update_stays_in_own_cells : forall n h st e h' st',
  Owns n h st -> happly h st e = Some (h', st') -> firstn n h' = firstn n h /\ Owns n h' st'.
Proof. exact happly_owns. Qed.
Print Assumptions C11_update_stays_in_own_cells.

(* non-vacuity: a block +REQUIRES(x) in one run does not show in the defaults the next run copies *)
Example C11_example :
  let defaults := [(K_SKIP, HBool false); (K_REQUIRES, HSet 0%nat)] in
  let h0 := [[]] in
  let h1 := run_directives h0 defaults [] [[HE_set false true K_REQUIRES [120%N]]] in
  hread h1 0%nat = [] /\ hread h1 1%nat = [[120%N]].
Proof. vm_compute. split; reflexivity. Qed.

(* refinement: read through the heap, every effect of update computes exactly the state the pure RuntimeState
   model (Model/Directive.v, the one C04 is proved about) computes -- or both raise --, and keeps the state's
   set cells pairwise distinct: sharing is never observable *)
Theorem C11_heap_refines_pure_state : forall h st e, Sep h st ->
  match happly h st e with
  | Some (h', st') => apply_effect (inline_of e) (abs h st) (effect_of e) = UOk (abs h' st') /\ Sep h' st'
  | None => exists x, apply_effect (inline_of e) (abs h st) (effect_of e) = UErr x
  end.
Proof. exact happly_refines. Qed.
Print Assumptions C11_heap_refines_pure_state.

(* the directive states a run goes through are the same after ANY history of earlier runs in the process
   (any number of doctests, any order, repetitions, any options, any directives, raising updates included)
   as in a fresh process *)
Theorem C11_directive_states_independent_of_history : forall hist h defaults ds parts,
  (forall c, In c (cells defaults) -> (c < length h)%nat) ->
  run_trace (exec_history h defaults hist) defaults ds parts = run_trace h defaults ds parts.
Proof. exact run_trace_independent_of_history. Qed.
Print Assumptions C11_directive_states_independent_of_history.

(* and they are the pure model's states started from rs_init *)
Theorem C11_directive_states_are_the_pure_models : forall hist h defaults ds parts,
  (forall c, In c (cells defaults) -> (c < length h)%nat) ->
  abs_dict h defaults = DEFAULT_RUNTIME_STATE ->
  run_trace (exec_history h defaults hist) defaults ds parts = p_trace (rs_init (bools ds)) parts.
Proof. exact run_trace_is_rs_init. Qed.
Print Assumptions C11_directive_states_are_the_pure_models.

(* the hypotheses are met by the real defaults (eleven flags, the REQUIRES set in cell 0); a run that leaves an
   unmet REQUIRES and SKIP switched on does not change what the next run goes through *)
Theorem C11_refinement_hypotheses_satisfiable :
  abs_dict [[]] demo_defaults = DEFAULT_RUNTIME_STATE /\
  (forall c, In c (cells demo_defaults) -> (c < length ([[]] : heap))%nat) /\
  let dirty := [([], [[HE_set false true K_REQUIRES [120%N]; HE_assign false K_SKIP true]])] in
  run_trace (exec_history [[]] demo_defaults dirty) demo_defaults [] [[HE_set true true K_REQUIRES [121%N]]]
  = run_trace [[]] demo_defaults [] [[HE_set true true K_REQUIRES [121%N]]].
Proof. exact demo_defaults_ok. Qed.
Print Assumptions C11_refinement_hypotheses_satisfiable.
