(* C06 — Ellipsis is a true wildcard.  Property theorems only; proofs are in Proofs/. *)
From Coq Require Import String.
From XD Require Import Model.Base Model.Lit Model.Ellipsis Model.Checker Spec.EllipsisSpec Proofs.BaseFacts Proofs.EllipsisProofs.

(* the matcher of checker._ellipsis_match accepts exactly the declarative relation *)
Theorem C06_ellipsis_iff :
  forall got want, ellipsis_match got want = true <-> EllMatch got want.
Proof. exact ellipsis_match_iff. Qed.
Print Assumptions C06_ellipsis_iff.

(* the greedy leftmost scan is complete and sound for "pieces in order, no overlap" *)
Theorem C06_scan_iff :
  forall pieces region, scan pieces region = true <-> InOrder pieces region.
Proof. exact scan_iff. Qed.
Print Assumptions C06_scan_iff.

(* a want containing the marker always splits into at least a first and a last piece
   (the code's `assert len(ws) >= 2` can never fire) *)
Theorem C06_split_shape :
  forall want, contains marker want = true ->
  exists w0 mids wl, split_ell want = w0 :: mids ++ [wl].
Proof. exact split_ell_shape. Qed.
Print Assumptions C06_split_shape.

(* with ELLIPSIS disabled the comparison of the normalised texts is plain equality:
   '...' has no special meaning *)
Theorem C06_disabled_is_plain :
  forall fl got want, ELLIPSIS fl = false -> check_match fl got want = eqb_str got want.
Proof. intros fl got want H. unfold check_match. rewrite H. destruct (eqb_str got want); reflexivity. Qed.
Print Assumptions C06_disabled_is_plain.

(* without a marker in the want, enabling ELLIPSIS changes nothing *)
Theorem C06_no_marker_is_plain :
  forall got want, contains marker want = false -> ellipsis_match got want = eqb_str want got.
Proof. intros got want H. unfold ellipsis_match. rewrite H. reflexivity. Qed.
Print Assumptions C06_no_marker_is_plain.

(* non-vacuity: the relation holds / fails on the docstring's own examples *)
Example C06_ex_pos : EllMatch (S "best=3.4s ave=4.5s") (S "best=...s ave=...s").
Proof. apply C06_ellipsis_iff. vm_compute. reflexivity. Qed.
Example C06_ex_neg : ~ EllMatch (S "aaa") (S "aa...aa").
Proof. intro H. apply C06_ellipsis_iff in H. vm_compute in H. discriminate. Qed.
Example C06_ex_overlap : ~ EllMatch (S "ab") (S "a...b...b").
Proof. intro H. apply C06_ellipsis_iff in H. vm_compute in H. discriminate. Qed.
