(* C10 — Native runner tallies and exit status agree with the per-doctest outcomes.
   Model: Model/Runner.v (gathering, _run_examples, __main__.main). *)
From XD Require Import Model.Base Model.Parser Model.Checker Model.Text Model.Directive Model.RunLoop Model.Runner
  Proofs.RunProofs Proofs.RunnerProofs.

(* the numbers of passed, failed and skipped doctests add up to the number run *)
Theorem C10_tallies_add_up : forall outs rs, run_examples outs = Some rs -> AllReturn outs ->
  Forall ExactlyOne (summaries_of outs) ->
  (n_passed rs + n_failed rs + n_skipped rs = n_total rs)%nat /\ n_total rs = length outs.
Proof. exact tallies_add_up. Qed.
Print Assumptions C10_tallies_add_up.

(* ... where every summary is exactly one of passed / failed / skipped (C02, for every run) *)
Theorem C10_summaries_exactly_one : forall requires_met cfg oc ps sm st,
  run requires_met cfg oc ps = R_summary sm st -> ExactlyOne sm.
Proof. exact summary_exactly_one. Qed.
Print Assumptions C10_summaries_exactly_one.

(* the failed list is exactly the positions of the doctests that failed, in order *)
Theorem C10_failed_list_exact : forall outs rs, run_examples outs = Some rs -> AllReturn outs ->
  Forall ExactlyOne (summaries_of outs) ->
  failed_idx rs = positions s_failed (summaries_of outs) 0 /\ length (failed_idx rs) = n_failed rs.
Proof. exact failed_list_exact. Qed.
Print Assumptions C10_failed_list_exact.

Theorem C10_positions_spec : forall f l i j, In j (positions f l i) <->
  exists sm, nth_error l (j - i) = Some sm /\ f sm = true /\ (i <= j)%nat.
Proof. exact positions_in. Qed.
Print Assumptions C10_positions_spec.

(* the command exits 1 if and only if at least one doctest failed, and 0 otherwise *)
Theorem C10_exit_status : forall outs rs, run_examples outs = Some rs -> AllReturn outs ->
  (exit_status rs = 1%nat <-> exists sm, In sm (summaries_of outs) /\ s_failed sm = true) /\
  (exit_status rs = 0%nat \/ exit_status rs = 1%nat).
Proof. exact exit_status_iff. Qed.
Print Assumptions C10_exit_status.

(* `all` runs every collected doctest that is not force-disabled, once, in order *)
Theorem C10_gather_all : forall examples e,
  In e (gather C_all examples) <-> In e examples /\ ex_disabled e = false.
Proof. exact gather_all_spec. Qed.
Print Assumptions C10_gather_all.

Theorem C10_gather_all_once : forall examples, NoDup (map ex_unique examples) ->
  NoDup (map ex_unique (gather C_all examples)) /\
  gather C_all examples = filter (fun e => negb (ex_disabled e)) examples.
Proof. exact gather_all_once. Qed.
Print Assumptions C10_gather_all_once.

(* naming a single doctest runs exactly that one even if it is force-disabled *)
Theorem C10_gather_one : forall examples e0,
  NoDup (map ex_unique examples) -> In e0 examples ->
  (forall e, In e examples -> ex_callname e <> ex_unique e0) ->
  gather (C_name (ex_unique e0)) examples = [e0].
Proof. exact gather_one. Qed.
Print Assumptions C10_gather_one.

(* `list` names every collected doctest *)
Theorem C10_list_names_all : forall examples,
  listed examples = map ex_unique examples /\ length (listed examples) = length examples.
Proof. exact list_names_all. Qed.
Print Assumptions C10_list_names_all.
