(* C05 — Output matching equals the documented relation for every flag combination. *)
From XD Require Import Model.Base Model.Ellipsis Model.Checker Spec.EllipsisSpec Spec.MatchRel
  Proofs.CheckerProofs Proofs.CheckerRefuted Proofs.MonotoneNW.

(* the verdict of check_output is exactly the documented relation, for all texts and all flags *)
Theorem C05_relation :
  forall fl got want, check_output fl got want = true <-> MatchRel fl got want.
Proof. exact check_output_iff. Qed.
Print Assumptions C05_relation.

(* identical texts always match *)
Theorem C05_identical : forall fl t, check_output fl t t = true.
Proof. exact check_output_identical. Qed.
Print Assumptions C05_identical.

(* with every leniency off the comparison is exact up to the base normalisation
   (ANSI codes, prefix letters, trailing blanks/whitespace, CR lines, and <BLANKLINE> iff accepted) *)
Theorem C05_strict_exact :
  forall fl got want, all_off fl -> want <> [] ->
  (check_output fl got want = true <-> got = want \/ base_got got = base_want fl want).
Proof. exact check_output_strict. Qed.
Print Assumptions C05_strict_exact.

(* switching a leniency on never turns a match into a mismatch -- under MonoGuard *)
Theorem C05_monotone_partial :
  forall fl f got want, MonoGuard fl f ->
  check_output fl got want = true -> check_output (set_len f fl) got want = true.
Proof. exact check_output_monotone. Qed.
Print Assumptions C05_monotone_partial.

(* ... for NORMALIZE_WHITESPACE the guard on ELLIPSIS is not needed: the wildcard relation survives the collapsing of
   white space (Proofs/EllCollapse.v).  Only NORMALIZE_REPR has to be off (F7c shows that this cannot be dropped) *)
Theorem C05_monotone_normalize_whitespace :
  forall fl got want, NORMALIZE_REPR fl = false ->
  check_output fl got want = true -> check_output (set_len L_NORMALIZE_WHITESPACE fl) got want = true.
Proof. exact check_output_monotone_nw. Qed.
Print Assumptions C05_monotone_normalize_whitespace.

(* non-vacuous: a match that exists only through the wildcard, blanks that the collapsing changes on both sides *)
Theorem C05_monotone_normalize_whitespace_example :
  let fl := mkFlags true false false false false false false in
  let got := [97;32;32;98;32;120;10;99]%N in
  let want := [97;32;32;98;32;46;46;46;10;99]%N in
  check_output fl got want = true /\ eqb_str got want = false /\
  check_output (set_len L_NORMALIZE_WHITESPACE fl) got want = true.
Proof. exact monotone_nw_example. Qed.
Print Assumptions C05_monotone_normalize_whitespace_example.

(* ... and is FALSE of the faithful model outside MonoGuard: three witnesses (finding F7) *)
Theorem C05_monotone_refuted_IW :
  exists fl got want, check_output fl got want = true /\
                      check_output (set_len L_IGNORE_WHITESPACE fl) got want = false.
Proof. eexists _, _, _. exact monotone_refuted_ignore_whitespace. Qed.
Print Assumptions C05_monotone_refuted_IW.

Theorem C05_monotone_refuted_ELLIPSIS :
  exists fl got want, check_output fl got want = true /\
                      check_output (set_len L_ELLIPSIS fl) got want = false.
Proof. eexists _, _, _. exact monotone_refuted_ellipsis. Qed.
Print Assumptions C05_monotone_refuted_ELLIPSIS.

Theorem C05_monotone_refuted_NW :
  exists fl got want, check_output fl got want = true /\
                      check_output (set_len L_NORMALIZE_WHITESPACE fl) got want = false.
Proof. eexists _, _, _. exact monotone_refuted_normalize_whitespace. Qed.
Print Assumptions C05_monotone_refuted_NW.

(* texts whose normal forms differ in a non-whitespace character never match a want without wildcards *)
Theorem C05_nonws_differs :
  forall fl got want, want <> [] -> got <> want -> NORMALIZE_REPR fl = false ->
  (ELLIPSIS fl = false \/ contains marker (NWant fl want) = false) ->
  nonws (NGot fl got) <> nonws (NWant fl want) ->
  check_output fl got want = false.
Proof. exact check_output_nonws. Qed.
Print Assumptions C05_nonws_differs.

(* IGNORE_WHITESPACE deletes all whitespace: the collapse before it is redundant *)
Theorem C05_collapse_then_delete : forall s, delete_ws (collapse_ws s) = delete_ws s.
Proof. exact collapse_delete. Qed.
Print Assumptions C05_collapse_then_delete.

(* non-vacuity *)
Example C05_ex_guard : MonoGuard default_flags L_IGNORE_WHITESPACE -> False.
Proof. intros [H _]. discriminate. Qed.
Example C05_ex_guard_ok : MonoGuard strict_flags L_NORMALIZE_WHITESPACE.
Proof. split; reflexivity. Qed.
Example C05_ex_alloff : all_off strict_flags.
Proof. repeat split. Qed.
