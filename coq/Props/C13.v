(* C13 — Parsing partitions the docstring: each line is text, source or want, once. *)
From XD Require Import Model.Base Model.Parser Spec.Partition Proofs.ParserProofs.

(* the labeller emits exactly one labelled line per docstring line, in order, each
   identical to the input line up to the display prefix inserted by the triple-quote
   hack -- for EVERY behaviour of the tokenizer oracle (also one that raises) *)
Theorem C13_label_partition :
  forall bal s ll, label_lines bal s = Ok ll ->
  length ll = length (splitlines s) /\ Forall2 SameLineUpToHack ll (splitlines s).
Proof. exact label_lines_partition. Qed.
Print Assumptions C13_label_partition.

(* the same, from any state of the labeller (what the induction really shows) *)
Theorem C13_label_partition_any_state :
  forall bal lines st ll, label_go bal lines st = Ok ll ->
  length ll = length lines /\ Forall2 SameLineUpToHack ll lines.
Proof. intros bal lines st ll. apply label_go_partition. Qed.
Print Assumptions C13_label_partition_any_state.

(* grouping keeps every labelled line, once, in order *)
Theorem C13_group_partition :
  forall ll gs, group_lines ll = Ok gs -> flatten_chunks gs = map snd ll.
Proof. exact group_lines_partition. Qed.
Print Assumptions C13_group_partition.

(* the three passes separately *)
Theorem C13_pass1_keeps_lines :
  forall items, concat (map snd (pass1 None items None [])) = items.
Proof. intros items. apply (pass1_lines items None None []). intros _. split; reflexivity. Qed.
Print Assumptions C13_pass1_keeps_lines.

Theorem C13_pass2_keeps_lines :
  forall groups, concat (map snd (pass2 None groups None [])) = concat (map snd groups).
Proof.
  intros groups. apply (pass2_lines groups None None []); [intros _; split; reflexivity | reflexivity].
Qed.
Print Assumptions C13_pass2_keeps_lines.
