(* C13 — Parsing partitions the docstring: each line is text, source or want, once. *)
From XD Require Import Model.Base Model.Parser Spec.Partition Spec.Labels Proofs.ParserProofs Proofs.ChunkProofs Proofs.ReplProofs Proofs.GroupLocal Proofs.LabelProofs.

(* the labeller emits exactly one labelled line per docstring line, in order, each
   identical to the input line up to the display prefix inserted by the triple-quote
   hack -- for EVERY behaviour of the tokenizer oracle (also one that raises) *)
Theorem C13_label_partition :
  forall bal s ll, label_lines bal s = Ok ll ->
  length ll = length (srclines s) /\ Forall2 SameLineUpToHack ll (srclines s).
Proof. exact label_lines_partition. Qed.
Print Assumptions C13_label_partition.

(* the same, from any state of the labeller (what the induction really shows) *)
Theorem C13_label_partition_any_state :
  forall bal lines st ll, label_go bal lines st = Ok ll ->
  length ll = length lines /\ Forall2 SameLineUpToHack ll lines.
Proof. intros bal lines st ll. apply label_go_partition. Qed.
Print Assumptions C13_label_partition_any_state.

(* grouping keeps every labelled line, once, in order *)
Theorem C13_group_partition :
  forall ll gs, group_lines ll = Ok gs -> flatten_chunks gs = map snd ll.
Proof. exact group_lines_partition. Qed.
Print Assumptions C13_group_partition.

(* the three passes separately *)
Theorem C13_pass1_keeps_lines :
  forall items, concat (map snd (pass1 None items None [])) = items.
Proof. intros items. apply (pass1_lines items None None []). intros _. split; reflexivity. Qed.
Print Assumptions C13_pass1_keeps_lines.

Theorem C13_pass2_keeps_lines :
  forall groups, concat (map snd (pass2 None groups None [])) = concat (map snd groups).
Proof.
  intros groups. apply (pass2_lines groups None None []); [intros _; split; reflexivity | reflexivity].
Qed.
Print Assumptions C13_pass2_keeps_lines.

(* the parts made from one source/want chunk tile its source lines: ascending boundaries from 0, part j holds
   the lines between boundary j and j+1 (prompted and de-prompted alike), starts at the chunk's line + boundary j,
   and only the last part carries the want -- for EVERY answer of the tokenizer, ast and directive oracles *)
Theorem C13_parts_tile_chunk : forall o raw_src raw_want lineno ps,
  package_chunk o raw_src raw_want lineno = Ok ps ->
  PartsTile lineno (dedent_chunk raw_src) (dedent_want raw_src raw_want) ps.
Proof. exact package_chunk_tiles. Qed.
Print Assumptions C13_parts_tile_chunk.

(* hence: source lines, executable lines and want lines of a chunk are the concatenation of its parts', in order *)
Theorem C13_chunk_partition : forall o raw_src raw_want lineno ps,
  package_chunk o raw_src raw_want lineno = Ok ps ->
  concat (map orig_lines ps) = dedent_chunk raw_src /\
  concat (map exec_lines ps) = map (skipn 4) (dedent_chunk raw_src) /\
  concat (map want_lines ps) = dedent_want raw_src raw_want.
Proof. exact package_chunk_partition. Qed.
Print Assumptions C13_chunk_partition.

(* a boundary list that starts at 0 and ascends really tiles: no line lost, duplicated or reordered *)
Theorem C13_tiles_cover : forall (l : list str) bs,
  hd_error bs = Some O -> Ascending bs -> concat (tiles bs l) = l.
Proof. exact (@tiles_concat str). Qed.
Print Assumptions C13_tiles_cover.

(* end to end: whenever parsing succeeds, docstring lines -> labelled lines -> chunks -> items is a partition
   at every stage, and every chunk becomes one text item or the parts that tile it, at the right line *)
Theorem C13_parse_partition : forall o s items,
  parse o s = Parsed items ->
  exists ll gs,
    length ll = length (srclines (normalize_docstring s)) /\
    Forall2 SameLineUpToHack ll (srclines (normalize_docstring s)) /\
    flatten_chunks gs = map snd ll /\
    Tiled 0 gs items.
Proof. exact parse_partition. Qed.
Print Assumptions C13_parse_partition.

(* "each part records the index of its first line": the parts of a chunk that starts at docstring line n lie back
   to back from n to n + (number of source lines), provided the ast oracle reports statements on lines of the
   source it was given (AstInRange; CPython's ast does) *)
Theorem C13_offsets_are_line_indices : forall o raw_src raw_want lineno ps,
  AstInRange o -> package_chunk o raw_src raw_want lineno = Ok ps ->
  Consecutive lineno ps (lineno + length raw_src).
Proof. exact package_chunk_consecutive. Qed.
Print Assumptions C13_offsets_are_line_indices.

(* end to end: the items are laid out over the labelled lines (one per docstring line) chunk after chunk, each
   part's line offset being the position of its first line *)
Theorem C13_parse_offsets : forall o s items,
  AstInRange o -> parse o s = Parsed items ->
  exists (ll : list (label * str)) gs,
    length ll = length (srclines (normalize_docstring s)) /\
    flatten_chunks gs = map snd ll /\
    LaidOut 0 gs items.
Proof. exact parse_offsets. Qed.
Print Assumptions C13_parse_offsets.

(* non-vacuity: an in-range oracle exists, and on a two-statement chunk with a want it yields two parts at
   consecutive lines, the want on the second *)
Theorem C13_hypotheses_satisfiable :
  AstInRange demo_oracle /\
  exists p1 p2, package_chunk demo_oracle demo_src demo_want 7 = Ok [p1; p2] /\
    line_offset p1 = 7%nat /\ line_offset p2 = 8%nat /\ want_lines p1 = [] /\ want_lines p2 = demo_want /\
    Consecutive 7 [p1; p2] 9.
Proof. exact (conj demo_oracle_in_range demo_chunk_two_parts). Qed.
Print Assumptions C13_hypotheses_satisfiable.

(* the second sentence of the property, for well-formed docstrings (Spec/Labels.v): a docstring assembled from
   blocks -- prose; examples whose lines share one indentation, made of statements (a '>>> ' line plus the '... ' /
   '>>> ' lines the tokenizer oracle needs to see the statement complete) followed by non-blank want lines; prose
   after an example starting with a blank line; an example directly behind source lines having their indentation --
   is labelled exactly as intended: prose is text, statement lines are source (continuation lines from the first
   '...' line on), the lines that follow are the want.  The excluded layouts are the known findings F8a/F8b. *)
Theorem C13_labels_as_intended : forall bal bs s,
  srclines s = concat (map block_lines bs) -> Chain bal TEXT O bs ->
  label_lines bal s = Ok (intended bs).
Proof. exact labels_as_intended. Qed.
Print Assumptions C13_labels_as_intended.

(* from any state of the labeller a chain of blocks may follow *)
Theorem C13_labels_as_intended_from : forall bal bs prev pind, Chain bal prev pind bs ->
  label_go bal (concat (map block_lines bs)) (mkL prev pind None) = Ok (intended bs).
Proof. exact labels_as_intended_from. Qed.
Print Assumptions C13_labels_as_intended_from.

(* non-vacuity: prose, an example with a two-line statement, a one-line statement and a want, prose again, under an
   oracle that calls a statement complete when its brackets are closed *)
Theorem C13_labels_example :
  map fst (intended demo_blocks) = [TEXT; TEXT; DSRC; DCNT; DSRC; WANT; TEXT; TEXT] /\
  label_go demo_bal (concat (map block_lines demo_blocks)) (mkL TEXT O None) = Ok (intended demo_blocks).
Proof. exact demo_labels. Qed.
Print Assumptions C13_labels_example.

(* the chunks follow the labels: the labelled lines, in order, are cut into chunks each of which is a run of text lines,
   or a non-empty run of source/continuation lines followed by a (possibly empty) run of want lines -- so "the lines
   labelled want are the want of the source lines before them" holds for every labelling *)
Theorem C13_chunks_follow_labels : forall ll gs, group_lines ll = Ok gs ->
  exists lcs, gs = map forget lcs /\ concat (map litems lcs) = ll /\ Forall LChunkOK lcs.
Proof. exact group_lines_labelled. Qed.
Print Assumptions C13_chunks_follow_labels.
(* grouping is local: where the kind of line changes (text / source / want) and the next line is not a want, the chunks
   of the whole are the chunks of what is above followed by the chunks of what is below *)
Theorem C13_grouping_local : forall A (yi : label * str) B' d,
  A <> [] -> class_of (fst (last A d)) <> class_of (fst yi) -> fst yi <> WANT ->
  group_lines (A ++ yi :: B') = both (group_lines A) (group_lines (yi :: B')).
Proof. exact group_lines_app. Qed.
Print Assumptions C13_grouping_local.
(* a run of text lines is one text chunk *)
Theorem C13_text_run_one_chunk : forall (t : label * str) T, AllClass KText (t :: T) ->
  group_lines (t :: T) = Ok [TextChunk (map snd (t :: T))].
Proof. exact group_lines_text. Qed.
Print Assumptions C13_text_run_one_chunk.

(* the parser's other mode, DoctestParser(simulate_repl=True) (every statement a part of its own): the parts of a chunk tile
   its lines just the same (boundaries: 0 and the statement starts after the first), and the docstring is partitioned *)
Theorem C13_repl_chunk_tiles : forall o raw_src raw_want lineno ps,
  package_chunk_repl o raw_src raw_want lineno = Ok ps ->
  PartsTile lineno (dedent_chunk raw_src) (dedent_want raw_src raw_want) ps.
Proof. exact package_chunk_repl_tiles. Qed.
Print Assumptions C13_repl_chunk_tiles.
Theorem C13_repl_partition : forall o s items,
  parse_repl o s = Parsed items ->
  exists ll gs,
    length ll = length (srclines (normalize_docstring s)) /\
    Forall2 SameLineUpToHack ll (srclines (normalize_docstring s)) /\
    flatten_chunks gs = map snd ll /\
    Tiled 0 gs items.
Proof. exact parse_repl_partition. Qed.
Print Assumptions C13_repl_partition.
