(* C16 — Static and dynamic analysis find the same doctests.
   Model: Model/StaticCollect.v (TopLevelVisitor) and Model/DynCollect.v (iter_module_doctestables over the
   module that executing the same syntax tree produces: module-level definitions bind names in the module
   dict - a later binding replaces the object together with its members -, definitions in a class body bind
   names in the class dict).  PARTIAL: Python's evaluation of def/class statements is replaced by that
   abstract evaluation (validated against real imports by the harness only); doctest source is a function of
   the docstring alone (C13/C14), so equal docstrings give equal doctests for every style. *)
From XD Require Import Model.Base Model.StaticCollect Model.DynCollect Proofs.StaticProofs Proofs.DynProofs.

(* for every module whose module-level definitions carry dot-free names bound once (definitions inside
   if / try / with / loops and in the else branch of the main guard included; async functions, properties with
   setters/deleters, static and class methods, nested definitions): the two analyses yield exactly the same
   callables, under the same identifiers, in the same order, with the same docstrings *)
Theorem C16_same_callables_and_docstrings : forall moddoc body,
  BoundNoDotList body -> NoDup (binds_list body) ->
  dyn_module moddoc body = visit_module moddoc body.
Proof. exact static_dynamic_agree. Qed.
Print Assumptions C16_same_callables_and_docstrings.

(* the same under the weaker hypothesis that only CLASS names are not bound again: functions may be defined
   twice (conditional redefinition, overload stubs followed by the implementation) or be replaced by a class
   later; both analyses then report the last definition, once *)
Theorem C16_same_with_redefinitions : forall moddoc body,
  BoundNoDotList body -> NoClassRebind (tbinds_list body) ->
  dyn_module moddoc body = visit_module moddoc body.
Proof. exact static_dynamic_agree_rebind. Qed.
Print Assumptions C16_same_with_redefinitions.

(* that hypothesis is met by a module that defines f twice and replaces the function g by a class g *)
Theorem C16_redefinition_example :
  let F := [102%N] in let G := [103%N] in
  let body := [SNode NK_Func F false (Some 1%nat) []; SNode NK_Func G false None [];
               SNode NK_Other [] false None [SNode NK_Func F false (Some 2%nat) []];
               SNode NK_Class G false (Some 3%nat) [SNode NK_Func F false (Some 4%nat) []]] in
  NoClassRebind (tbinds_list body) /\ ~ NoDup (binds_list body) /\
  visit_module None body = [(F, Some 2%nat); (G, Some 3%nat); (G ++ [DOT] ++ F, Some 4%nat)].
Proof. exact redefinition_allowed. Qed.
Print Assumptions C16_redefinition_example.

(* inside a class body the two traversals coincide unconditionally *)
Theorem C16_class_members_agree : forall n c acc, dyn (Some c) n acc = visit (Some c) n acc.
Proof. exact dyn_in_class. Qed.
Print Assumptions C16_class_members_agree.

(* the hypothesis is needed: rebinding a class name makes static analysis keep the members of the replaced
   class while dynamic analysis cannot see them (outside "defined by ordinary def/class statements once") *)
Theorem C16_rebinding_differs :
  exists body, map fst (visit_module None body) <> map fst (dyn_module None body).
Proof.
  exists [SNode NK_Class [65%N] false None [SNode NK_Func [109%N] false (Some 1%nat) []];
          SNode NK_Class [65%N] false None [SNode NK_Func [110%N] false (Some 2%nat) []]].
  vm_compute. discriminate.
Qed.
Print Assumptions C16_rebinding_differs.
