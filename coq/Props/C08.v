(* C08 — Reported line numbers point at the real lines of the source file.
   Model: Model/Lines.v (docstring-start workaround, google block offsets, google / freeform doctest line
   numbers) + Model/RunLoop.v (failed_line_offset / failed_lineno) + Model/Parser.v (part offsets, C13).
   The ast supplies end_lineno and the docstring value, the traceback supplies the doctest-frame line: oracles. *)
From XD Require Import Model.Base Model.Parser Model.Collect Model.Lines Model.RunLoop
  Proofs.LinesProofs Proofs.RunEscape Spec.Partition Proofs.ChunkProofs.

(* a triple-quoted docstring literal (either quote style, optional r/u prefix) opening on line s and closing on
   line e, every newline of its value being a physical line break: the reported start is s *)
Theorem C08_docstring_start : forall (s e : nat) q ends starts,
  (s <= e)%nat -> ends q = true -> (q = T_double3 -> ends T_single3 = false) ->
  starts (Z.of_nat s) q = true ->
  find_docstr_start e (e - s) ends starts = Z.of_nat s.
Proof. exact docstr_start_triple. Qed.
Print Assumptions C08_docstring_start.

Theorem C08_docstring_start_one_line : forall e n ends starts,
  ends T_single3 = false -> ends T_double3 = false -> find_docstr_start e n ends starts = Z.of_nat e.
Proof. exact docstr_start_single. Qed.
Print Assumptions C08_docstring_start_one_line.

(* google: the groups tile the docstring, so the offset of a block is the position of its tag line ... *)
Theorem C08_google_offsets_are_positions : forall ids, Tiles 0 (google_group_offsets ids) (length ids).
Proof. exact google_offsets_are_positions. Qed.
Print Assumptions C08_google_offsets_are_positions.

Theorem C08_tiles_nth : forall a rs b, Tiles a rs b -> forall i o l, nth_error rs i = Some (o, l) ->
  (a <= o)%nat /\ (o + l <= b)%nat /\ o = (a + fold_left (fun acc ol => acc + snd ol) (firstn i rs) 0)%nat.
Proof. exact Tiles_nth. Qed.
Print Assumptions C08_tiles_nth.

(* ... and the example starts on the line after it *)
Theorem C08_google_example_line : forall doclineno offset,
  google_example_lineno doclineno offset = (doclineno + (offset + 1))%nat.
Proof. exact google_example_line. Qed.
Print Assumptions C08_google_example_line.

(* freeform: the doctest starts as many lines below the docstring's first line as the text parts (and
   skipped blocks) in front of its first part hold *)
Theorem C08_freeform_lineno : forall doclineno pre n rest,
  (forall it, In it pre -> match it with FText _ sk => sk = false | FPart _ => False end) ->
  freeform_example_lineno doclineno (pre ++ FPart n :: rest) =
  Some (doclineno + fold_left (fun a it => a + match it with FText k _ => k | FPart k => k end) pre 0)%nat.
Proof. exact freeform_lineno_spec. Qed.
Print Assumptions C08_freeform_lineno.

(* the failing line: DocTest.lineno plus the offset of the failing line inside the doctest, which is the
   traceback line inside the failing part / the first want line / the last source line (C09_failed_line_defined) *)
Theorem C08_failed_lineno : forall doc_lineno ps st tb o,
  failed_line_offset ps st tb = Some o -> failed_lineno doc_lineno ps st tb = Some (doc_lineno + o)%nat.
Proof. exact failed_lineno_is_sum. Qed.
Print Assumptions C08_failed_lineno.

Theorem C08_failed_line_offset : forall ps st tb j f, r_failed st = Some (j, f) ->
  (j = None -> failed_line_offset ps st tb = Some O) /\
  (forall i p, j = Some i -> nth_error ps i = Some p ->
     exists o, failed_line_offset ps st tb = Some o /\
       match f with
       | F_gotwant => o = (line_offset p + length (exec_lines p))%nat
       | F_extract_repr | F_existing_loop => o = (line_offset p + length (exec_lines p) - 1)%nat
       | F_directive => o = line_offset p
       | _ => o = (line_offset p + tb - 1)%nat
       end).
Proof. exact failed_line_defined. Qed.
Print Assumptions C08_failed_line_offset.

(* part positions: the parts of a source chunk that begins at docstring line n lie back to back from n on, each
   line offset being the index of the part's first line (ast oracle in range: statements start on lines of the
   source handed to it) -- this is the `line_offset p` that the failing-line arithmetic above adds to *)
Theorem C08_part_offsets : forall o raw_src raw_want lineno ps,
  AstInRange o -> package_chunk o raw_src raw_want lineno = Ok ps ->
  Consecutive lineno ps (lineno + length raw_src).
Proof. exact package_chunk_consecutive. Qed.
Print Assumptions C08_part_offsets.
