(* C15 — pytest plugin and native runner give the same verdict for every doctest.
   Model: the two verdict functions of Model/Runner.v over ONE run-loop model (Model/RunLoop.v):
   native = run(on_error='return', mode native) + _post_run; pytest = run(on_error='raise', mode pytest)
   + pytest.skip() when every part was skipped + anything_ran(). *)
From XD Require Import Model.Base Model.Parser Model.Checker Model.Text Model.Directive Model.RunLoop Model.Runner
  Proofs.RunProofs Proofs.RunEscape Proofs.RunnerProofs Proofs.VerdictProofs.

(* for every doctest (every list of parts) and every behaviour of its parts, both front ends reach a
   verdict and it is the same one *)
Theorem C15_same_verdict : forall requires_met oc cfgN cfgP,
  c_on_error cfgN = OE_return -> c_on_error cfgP = OE_raise ->
  c_pytest_mode cfgN = false -> c_pytest_mode cfgP = true ->
  c_import_ok cfgN = c_import_ok cfgP -> c_default_state cfgN = c_default_state cfgP ->
  c_report_key cfgN = c_report_key cfgP ->
  HasDoctestFrame oc -> NoBaseException oc -> OracleTotal requires_met ->
  forall ps, exists v, native_verdict (run requires_met cfgN oc ps) = Some v /\
                       pytest_verdict (run requires_met cfgP oc ps) = Some v.
Proof. exact same_verdict. Qed.
Print Assumptions C15_same_verdict.

(* as reported: the only difference is a force-disabled doctest (skipped in pytest, omitted natively);
   the hypothesis excludes the pattern that disables under pytest only ('# pytest.skip') *)
Theorem C15_same_report : forall requires_met oc cfgN cfgP,
  c_on_error cfgN = OE_return -> c_on_error cfgP = OE_raise ->
  c_pytest_mode cfgN = false -> c_pytest_mode cfgP = true ->
  c_import_ok cfgN = c_import_ok cfgP -> c_default_state cfgN = c_default_state cfgP ->
  c_report_key cfgN = c_report_key cfgP ->
  HasDoctestFrame oc -> NoBaseException oc -> OracleTotal requires_met ->
  forall ps disabled,
    let n := native_item disabled (run requires_met cfgN oc ps) in
    let p := pytest_item disabled (run requires_met cfgP oc ps) in
    (disabled = true -> n = Rep_omitted /\ p = Rep_verdict V_skipped) /\
    (disabled = false -> exists v, n = Rep_verdict v /\ p = Rep_verdict v).
Proof.
  intros requires_met oc cfgN cfgP H1 H2 H3 H4 H5 H6 H7 H8 H9 H10 ps disabled n p. subst n p.
  unfold native_item, pytest_item. split.
  - intros ->. split; reflexivity.
  - intros ->. destruct (same_verdict requires_met oc cfgN cfgP H1 H2 H3 H4 H5 H6 H7 H8 H9 H10 ps) as (v & A & B).
    rewrite A, B. exists v. split; reflexivity.
Qed.
Print Assumptions C15_same_report.

(* the two "nothing ran" tests coincide: nothing logged <-> every part skipped *)
Theorem C15_anything_ran_iff_not_all_skipped : forall requires_met oc cfgN,
  c_on_error cfgN = OE_return -> HasDoctestFrame oc -> NoBaseException oc -> OracleTotal requires_met ->
  forall ps, let st := run_parts requires_met cfgN oc (init_state cfgN) 0 ps in
  r_failed st = None -> ps <> [] ->
  (anything_ran st = false <-> length (r_skipped st) = length ps).
Proof. exact anything_ran_iff_not_all_skipped. Qed.
Print Assumptions C15_anything_ran_iff_not_all_skipped.

(* the native command exits non-zero exactly when some doctest failed (pytest's own exit rule is pytest's) *)
Theorem C15_native_exit : forall outs rs, run_examples outs = Some rs -> AllReturn outs ->
  (exit_status rs = 1%nat <-> exists sm, In sm (summaries_of outs) /\ s_failed sm = true) /\
  (exit_status rs = 0%nat \/ exit_status rs = 1%nat).
Proof. exact exit_status_iff. Qed.
Print Assumptions C15_native_exit.
