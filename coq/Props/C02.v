(* C02 — Got/want verdicts are exact: no false pass, no false fail.
   Model: Model/RunLoop.v (DocTest.run, DoctestPart.check, _post_run) over Model/Checker.v;
   what executing a part prints/returns/raises is an oracle (every oracle is covered). *)
From XD Require Import Model.Base Model.Parser Model.Checker Model.Text Model.Directive Model.RunLoop
  Proofs.RunWant Proofs.RunDecide Proofs.RunProofs.

(* the texts a want is compared with are exactly: for every k, the last k outputs produced
   since the previous want followed by the part's own output, joined *)
Theorem C02_candidates : forall um got c,
  In c (trailing_candidates um got) <-> Candidate um got c.
Proof. exact candidates_spec. Qed.
Print Assumptions C02_candidates.

(* a want is satisfied iff some such trailing portion, or the repr of the value, matches *)
Theorem C02_want_iff : forall fl want um got ev, ReprSafe ev ->
  (part_check fl want um got ev = GW_ok <-> exists c, Candidate um got c /\ CandOK fl want ev c).
Proof. exact part_check_ok_iff. Qed.
Print Assumptions C02_want_iff.

(* a mismatch verdict means that NO trailing portion of the output matches and the repr does not *)
Theorem C02_mismatch_means_nothing_matches : forall fl want um got ev,
  part_check fl want um got ev = GW_gotwant ->
  (forall c, Candidate um got c -> c <> [] -> check_output fl c want = false) /\
  (forall r, ev = EvalRepr r -> check_output fl r want = false).
Proof. exact part_check_gotwant_none_matches. Qed.
Print Assumptions C02_mismatch_means_nothing_matches.

(* code without a want never fails because of what it prints or returns; its output is buffered *)
Theorem C02_no_want_never_fails : forall requires_met cfg oc s i p rs' out ev,
  Ready requires_met cfg s p rs' -> oc i = O_ok out ev -> part_want p = None ->
  let s' := step requires_met cfg oc s i p in
  r_end s' = E_running /\ r_failed s' = r_failed s /\
  r_unmatched s' = r_unmatched s ++ [out] /\ r_executed s' = r_executed s ++ [i] /\
  r_checked s' = r_checked s /\ r_logged s' = r_logged s ++ [(i, out)].
Proof. exact step_no_want. Qed.
Print Assumptions C02_no_want_never_fails.

(* an executed part with a want: the loop goes on (buffer cleared) iff the want is satisfied,
   otherwise the doctest fails with a got/want error attributed to that part *)
Theorem C02_want_decides : forall requires_met cfg oc s i p rs' out ev want,
  Ready requires_met cfg s p rs' -> oc i = O_ok out ev -> part_want p = Some want ->
  IGNORE_WANT (flags_of rs') = false -> ReprSafe ev ->
  let s' := step requires_met cfg oc s i p in
  ((exists c, Candidate (r_unmatched s) out c /\ CandOK (flags_of rs') want ev c) ->
     r_end s' = E_running /\ r_failed s' = r_failed s /\ r_unmatched s' = []) /\
  (~ (exists c, Candidate (r_unmatched s) out c /\ CandOK (flags_of rs') want ev c) ->
     r_failed s' = Some (Some i, F_gotwant) /\ r_end s' <> E_running).
Proof. exact step_want_iff. Qed.
Print Assumptions C02_want_decides.

(* fail-stop: every part before the failing one was visited, none after it *)
Theorem C02_fail_stop : forall requires_met cfg oc ps i f,
  let st := run_parts requires_met cfg oc (init_state cfg) 0 ps in
  r_failed st = Some (Some i, f) ->
  (i < length ps)%nat /\
  (forall j, In j (r_executed st) \/ In j (r_skipped st) -> (j <= i)%nat) /\
  (forall j, (j < i)%nat -> In j (r_executed st) \/ In j (r_skipped st)).
Proof. exact fail_stop. Qed.
Print Assumptions C02_fail_stop.

(* passed / failed / skipped are mutually exclusive and exhaustive *)
Theorem C02_exactly_one : forall requires_met cfg oc ps sm st,
  run requires_met cfg oc ps = R_summary sm st ->
  (s_passed sm = true /\ s_failed sm = false /\ s_skipped sm = false) \/
  (s_passed sm = false /\ s_failed sm = true /\ s_skipped sm = false) \/
  (s_passed sm = false /\ s_failed sm = false /\ s_skipped sm = true).
Proof. exact summary_exactly_one. Qed.
Print Assumptions C02_exactly_one.

(* a doctest passes exactly when no failure was recorded and not every part was skipped *)
Theorem C02_pass_iff : forall requires_met cfg oc ps sm st,
  run requires_met cfg oc ps = R_summary sm st ->
  (s_passed sm = true <-> r_failed st = None /\ length (r_skipped st) <> length ps).
Proof. exact summary_pass_iff. Qed.
Print Assumptions C02_pass_iff.

(* a doctest in which nothing ran is never reported as passed *)
Theorem C02_passed_means_something_ran : forall requires_met cfg oc ps sm st,
  run requires_met cfg oc ps = R_summary sm st -> s_passed sm = true -> r_executed st <> [].
Proof. exact passed_means_something_ran. Qed.
Print Assumptions C02_passed_means_something_ran.
