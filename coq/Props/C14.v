(* C14 — Malformed docstrings are contained: bad syntax never crashes collection.
   Model: Model/Parser.v (DoctestParser.parse with the tokenizer / ast / directive oracles, which may
   raise) and Model/Collect.v (core.parse_docstr_examples and its three styles as generators). *)
From XD Require Import Model.Base Model.Parser Model.Collect Proofs.ContainProofs Proofs.CollectProofs.

(* parsing arbitrary text returns parts or raises the library's own parse error, never another
   exception: for EVERY answer of the oracles, raising ones included; the only other answer of the
   executable model ("oracle entry missing") does not occur when the oracles answer *)
Theorem C14_parse_contained : forall o,
  (forall l, NN (o_tok o l)) -> (forall l, NN (o_ast o l)) -> (forall l, NN (o_semi o l)) -> (forall l, NN (o_dirs o l)) ->
  forall s, (exists items, parse o s = Parsed items) \/
            (exists fp e, parse o s = ParseError fp e /\ forall q, e <> E_Need q).
Proof. exact parse_contained. Qed.
Print Assumptions C14_parse_contained.

(* termination of the model is structural (Coq's guard checker); the one fuelled loop, balanced_intervals,
   starts with fuel = number of lines + 1 *)
Theorem C14_intervals_fuel : forall bal lines,
  balanced_intervals bal lines = intervals_go bal lines (S (length lines)) (length lines) (length lines).
Proof. reflexivity. Qed.
Print Assumptions C14_intervals_fuel.

(* extracting examples never propagates when the producers raise only the parser's errors *)
Theorem C14_examples_contained : forall st split parsed, OnlyParseErrors split parsed ->
  c_propagates (contain (style_examples st split parsed)) = false.
Proof. exact examples_contained. Qed.
Print Assumptions C14_examples_contained.

(* broken syntax produces a warning ... *)
Theorem C14_warned_iff_failed : forall g, c_warned (contain g) = true <-> g_raise g <> None.
Proof. exact warned_iff_failed. Qed.
Print Assumptions C14_warned_iff_failed.

(* ... and no example for that docstring (freeform) / for the broken block and every later one (google) *)
Theorem C14_freeform_broken_no_example : forall e,
  g_items (freeform_examples (inl e)) = [] /\ g_raise (freeform_examples (inl e)) = Some e.
Proof. exact freeform_broken_no_example. Qed.
Print Assumptions C14_freeform_broken_no_example.

Theorem C14_google_blocks : forall bs,
  let ex := filter gb_is_example bs in
  g_items (google_examples (Some bs)) = number_from 0 (good_prefix ex) /\
  map e_num (g_items (google_examples (Some bs))) = seq 0 (length (good_prefix ex)) /\
  (forall b, In b (good_prefix ex) -> gb_parse b = None /\ gb_is_example b = true /\ In b bs) /\
  (g_raise (google_examples (Some bs)) = None <-> good_prefix ex = ex).
Proof. exact google_examples_spec. Qed.
Print Assumptions C14_google_blocks.

(* the other docstrings of the same module are unaffected *)
Theorem C14_others_unaffected : forall st a d b,
  collect_module st (a ++ d :: b) =
  collect_module st a ++ contain (style_examples st (fst d) (snd d)) :: collect_module st b.
Proof. exact collect_module_local. Qed.
Print Assumptions C14_others_unaffected.
