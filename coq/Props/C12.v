(* C12 — Process-global state is restored after every outcome.
   Model: Model/Proc.v (CaptureStdout, the warnings.catch_warnings bracket and PythonPathContext with their
   placement in DocTest.run / _custom_import_modpath); a doctest body is ANY finite sequence of writes and of
   replacements of sys.stdout / the warnings filter state / showwarning; every bracket is a `with`, so how the
   body ends (normally, Exception, SystemExit/KeyboardInterrupt propagating) does not change what __exit__ does. *)
From XD Require Import Model.Base Model.Proc Proofs.ProcProofs.

(* after a run: sys.stdout and sys.stderr are the original objects, warning filters and showwarning unchanged,
   whatever the executed parts did, for any number of parts *)
Theorem C12_run_restores : forall s bodies,
  let s' := fst (run_proc s bodies) in
  p_stdout s' = p_stdout s /\ p_stderr s' = p_stderr s /\
  p_filters s' = p_filters s /\ p_showwarning s' = p_showwarning s.
Proof. exact run_restores. Qed.
Print Assumptions C12_run_restores.

(* one `with cap:` block puts the original stdout back *)
Theorem C12_capture_restores : forall orig pos s body,
  let '(s', _, _) := with_cap orig pos s body in p_stdout s' = orig /\ p_stderr s' = p_stderr s.
Proof. exact with_cap_restores. Qed.
Print Assumptions C12_capture_restores.

(* PythonPathContext around a body that leaves sys.path alone restores sys.path exactly, for every
   admissible index (0, -1 and every other in range) *)
Theorem C12_path_context : forall path d index,
  (- Z.of_nat (length path) - 1 <= index <= Z.of_nat (length path))%Z ->
  let '(path', i) := ppc_enter path d index in ppc_exit path' d i = PPC_ok path.
Proof. exact path_context. Qed.
Print Assumptions C12_path_context.

(* if the body changed sys.path, exit removes exactly one occurrence of the temporary entry (the one at the
   remembered index if still there, else the first), RuntimeError iff it is gone, IndexError iff the list is shorter *)
Theorem C12_path_recovery : forall path' d i,
  match ppc_exit path' d i with
  | PPC_ok p'' => exists j, nth_error path' j = Some d /\ p'' = remove_at j path' /\
                            (nth_error path' i = Some d -> j = i) /\
                            (nth_error path' i <> Some d -> forall k, (k < j)%nat -> nth_error path' k <> Some d)
  | PPC_runtime_error => ~ In d path' /\ (i < length path')%nat
  | PPC_index_error => (length path' <= i)%nat
  end.
Proof. exact path_recovery. Qed.
Print Assumptions C12_path_recovery.

(* non-vacuity: index -1 appends, and a body that rotates sys.path is still undone *)
Example C12_example :
  let p := [[97%N]; [98%N]] in let d := [100%N] in
  ppc_enter p d (-1) = ([[97%N]; [98%N]; [100%N]], 2%nat) /\
  ppc_exit [[98%N]; [100%N]; [97%N]] d 2 = PPC_ok [[98%N]; [97%N]].
Proof. vm_compute. split; reflexivity. Qed.
