(* C01 — Doctest code runs exactly as written: each statement once, in order.
   PARTIAL: the slicing into statements, the visiting order, the single run loop and the capture bookkeeping
   are proved over the models; that CPython's compile/exec/eval/asyncio.run of a slice behaves like the same
   statements inside the whole program (one namespace dict threaded through all parts) is runtime behaviour and
   is checked on the implementation against a plain exec of the de-prompted source. *)
From XD Require Import Model.Base Model.Parser Model.Checker Model.Text Model.Directive Model.RunLoop Model.Proc
  Proofs.RunProofs Proofs.C01Proofs Proofs.ProcProofs Proofs.ChunkProofs Spec.Partition Proofs.Reparse Proofs.SourceRun.

(* the parts handed to exec form a strictly increasing sequence of positions: every part at most once, in
   source order, for every behaviour of the parts; likewise the skipped ones *)
Theorem C01_each_once_in_order : forall requires_met cfg oc ps,
  let st := run_parts requires_met cfg oc (init_state cfg) 0 ps in
  Increasing (r_executed st) /\ Increasing (r_skipped st) /\
  (forall j, In j (r_executed st) -> (j < length ps)%nat).
Proof. exact executed_once_in_order. Qed.
Print Assumptions C01_each_once_in_order.

(* while nothing fails, every part is visited (executed or skipped by a directive / for having no code) *)
Theorem C01_all_visited : forall requires_met cfg oc ps,
  let st := run_parts requires_met cfg oc (init_state cfg) 0 ps in
  r_end st = E_running ->
  r_failed st = None /\ forall j, (j < length ps)%nat -> In j (r_executed st) \/ In j (r_skipped st).
Proof. exact running_all_visited. Qed.
Print Assumptions C01_all_visited.

(* statement starts: exactly the lines where the ast starts a statement (first decorator included) and that carry
   the primary prompt; a line with the '...' prompt or no prompt never starts a part *)
Theorem C01_ps1_are_statement_starts : forall o src ps1 mode, locate_ps1 o src = Ok (ps1, mode) ->
  exists stmts, (forall x, In x ps1 <->
                   (exists s, In s stmts /\ st_line s = x) /\
                   (forall l, nth_error src x = Some l -> eqb_str (firstn 4 l) PS1sp = true)).
Proof. exact ps1_are_statement_starts. Qed.
Print Assumptions C01_ps1_are_statement_starts.

(* the stdout recorded for each part is exactly what that part wrote while it ran: nothing lost, duplicated
   or attributed to another part, whatever the parts do to sys.stdout *)
Theorem C01_capture_exact : forall s bodies,
  snd (run_proc s bodies) = map captured bodies /\
  concat (snd (run_proc s bodies)) = p_cap_text (fst (run_proc s bodies)).
Proof. exact capture_exact. Qed.
Print Assumptions C01_capture_exact.

(* tabs: expansion is the first step of parsing and is idempotent, so a docstring whose indentation is written
   with tabs parses exactly like its expanded form, for every oracle *)
Theorem C01_tab_expansion : forall o s, parse o (expandtabs s) = parse o s.
Proof. exact parse_tab_expansion. Qed.
Print Assumptions C01_tab_expansion.

(* slicing: the executable lines of the parts of a chunk are the chunk's de-prompted source lines, each line in
   exactly one part and in the original order -- whatever the tokenizer, ast and directive oracles answer *)
Theorem C01_parts_partition_source : forall o raw_src raw_want lineno ps,
  package_chunk o raw_src raw_want lineno = Ok ps ->
  concat (map exec_lines ps) = map (skipn 4) (dedent_chunk raw_src).
Proof. exact package_chunk_exec_partition. Qed.
Print Assumptions C01_parts_partition_source.

(* while nothing fails, the parts handed to exec are exactly the parts that were not skipped (by a directive, or for holding
   no code), each once and in source order -- for every behaviour of the parts and of the REQUIRES oracle *)
Theorem C01_executed_are_the_unskipped : forall requires_met cfg oc ps,
  let st := run_parts requires_met cfg oc (init_state cfg) 0 ps in
  r_end st = E_running -> r_executed st = unskipped (r_skipped st) (length ps).
Proof. exact executed_are_the_unskipped. Qed.
Print Assumptions C01_executed_are_the_unskipped.
(* end to end over the two models (parser and run loop): for a parsed docstring in which nothing is skipped and nothing
   fails, the parts handed to exec are all the parts in order, and the lines they hold are the de-prompted source lines of
   the docstring's chunks, each once, in order -- for every tokenizer / ast / directive oracle and every part behaviour *)
Theorem C01_executed_is_source : forall requires_met cfg oc o s items,
  parse o s = Parsed items ->
  let ps := parts_of items in
  let st := run_parts requires_met cfg oc (init_state cfg) 0 ps in
  r_end st = E_running -> r_skipped st = [] ->
  exists (ll : list (label * str)) gs,
    length ll = length (srclines (normalize_docstring s)) /\
    Forall2 SameLineUpToHack ll (srclines (normalize_docstring s)) /\
    flatten_chunks gs = map snd ll /\
    r_executed st = seq 0 (length ps) /\
    concat (map exec_lines ps) = concat (map chunk_exec gs).
Proof. exact executed_is_source. Qed.
Print Assumptions C01_executed_is_source.
