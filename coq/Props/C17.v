(* C17 — Module name <-> path resolution agrees with Python's import system.
   Model: Model/FS.v (util_import: check_dpath/_isvalid, the sys.path loop, normalize_modpath,
   split_modpath, modpath_to_modname) over an abstract file system.  Spec: Spec/ImportResolve.v. *)
From XD Require Import Model.Base Model.FS Spec.ImportResolve Proofs.FSProofs.

(* resolving a dotted name under a root finds exactly what the regular import resolution finds (and
   nothing when it finds nothing), for every tree and every name, of any depth *)
Theorem C17_resolve_iff : forall fs, WFfs fs -> forall parts d,
  check_dpath fs d parts = resolve fs d parts.
Proof. exact check_dpath_resolve. Qed.
Print Assumptions C17_resolve_iff.

Theorem C17_syspath_resolve : forall fs, WFfs fs -> forall roots parts,
  syspath_modname_to_modpath fs roots parts = resolve_roots fs roots parts.
Proof. exact syspath_resolve. Qed.
Print Assumptions C17_syspath_resolve.

(* with several roots the first one in which the name resolves wins *)
Theorem C17_first_root_wins : forall fs, WFfs fs -> forall roots1 d roots2 parts p,
  (forall r, In r roots1 -> resolve fs r parts = None) -> resolve fs d parts = Some p ->
  syspath_modname_to_modpath fs (roots1 ++ d :: roots2) parts = Some p.
Proof. exact first_root_wins. Qed.
Print Assumptions C17_first_root_wins.

(* converting the found path back gives the same dotted name (the search root must not itself be a package) *)
Theorem C17_roundtrip : forall fs, WFfs fs -> forall root parts p,
  resolve fs root parts = Some p -> exists_ fs (root ++ [INIT]) = false -> PlainNames parts ->
  modpath_to_modname fs p = Some parts.
Proof. exact roundtrip. Qed.
Print Assumptions C17_roundtrip.

(* splitting a module path: the two pieces join back to the path, the directory holds no __init__.py,
   and (when every directory in between is a package) it is the expected base *)
Theorem C17_split_joins : forall fs p d r, p <> [] -> split_modpath fs p = Some (d, r) -> d ++ r = p.
Proof. exact split_modpath_joins. Qed.
Print Assumptions C17_split_joins.

Theorem C17_split_spec : forall fs base mids fname,
  (forall k, (0 < k <= length mids)%nat -> exists_ fs ((base ++ firstn k mids) ++ [INIT]) = true) ->
  exists_ fs (base ++ [INIT]) = false ->
  split_modpath fs (base ++ mids ++ [fname]) = Some (base, mids ++ [fname]).
Proof. exact split_modpath_spec. Qed.
Print Assumptions C17_split_spec.

(* non-vacuity: a tree with a package a (with __init__.py), a/b.py, a plain directory c with c/d.py *)
Example C17_example :
  let A := [97%N] in let B := [98%N] in let C := [99%N] in let D := [100%N] in
  let fs := fs_of_list [([A], true); ([A; INIT], false); ([A; B ++ DOTPY], false);
                        ([C], true); ([C; D ++ DOTPY], false)] in
  check_dpath fs [] [A; B] = Some [A; B ++ DOTPY] /\
  check_dpath fs [] [C; D] = None /\
  modpath_to_modname fs [A; B ++ DOTPY] = Some [A; B] /\
  split_modpath fs [C; D ++ DOTPY] = Some ([C], [D ++ DOTPY]).
Proof. vm_compute. repeat split. Qed.
