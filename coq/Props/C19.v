(* C19 — The dump command emits valid Python holding every doctest statement in order.
   Model: runner._convert_to_test_module in Model/Format.v.  PARTIAL: syntactic validity of the emitted text
   needs a Python grammar; it is checked on the implementation (ast.parse of the real output, one FunctionDef
   per doctest, statement-by-statement comparison).  What is proved is the structure of the text. *)
From XD Require Import Model.Base Model.Parser Model.Text Model.Format Proofs.FormatProofs.

(* one function per doctest, joined by two blank lines *)
Theorem C19_one_function_each : forall es,
  dump_module es = join [NL; NL; NL] (map dump_function es) /\ length (map dump_function es) = length es.
Proof. exact dump_module_functions. Qed.
Print Assumptions C19_one_function_each.

(* a function is its `def` header followed by the body, every line of which starts with four blanks *)
Theorem C19_block_indented : forall e,
  NoNL (DEF_ ++ de_func_name e ++ PARENS_COLON) ->
  let body_lines := match de_parts e with [] => [ELLIPSIS_BODY] | ps => map dump_part ps end in
  let body := join_nl ([QQQ; CONVERTED ++ de_node e; QQQ] ++ de_header e ++ body_lines) in
  split_on NL (dump_function e) =
  (DEF_ ++ de_func_name e ++ PARENS_COLON) :: map (fun l => FOUR ++ l) (split_on NL body).
Proof. exact dump_function_lines. Qed.
Print Assumptions C19_block_indented.

(* the body of a part: its de-prompted source lines in original order, star-import lines removed,
   then the want preserved as comments *)
Theorem C19_body_lines : forall p, CleanPart p -> filter no_star (exec_lines p) <> [] ->
  split_on NL (dump_part p) = dump_part_lines p.
Proof. exact dump_part_spec. Qed.
Print Assumptions C19_body_lines.

(* nothing the doctest executed is lost or re-ordered across parts *)
Theorem C19_order_preserved : forall ps,
  concat (map (fun p => filter no_star (exec_lines p)) ps) = filter no_star (concat (map exec_lines ps)).
Proof. exact dump_order_preserved. Qed.
Print Assumptions C19_order_preserved.

Theorem C19_indent_lines : forall pfx text, NoNL pfx ->
  split_on NL (indent_text pfx text) = map (fun l => pfx ++ l) (split_on NL text).
Proof. exact indent_text_lines. Qed.
Print Assumptions C19_indent_lines.
