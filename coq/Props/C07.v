(* C07 — Collection is exact: every documented callable yields its doctests once.
   Model: Model/StaticCollect.v (TopLevelVisitor over the module's syntax tree; package_modpaths over a directory
   tree) and Model/Collect.v (which examples a docstring yields under each style). *)
From XD Require Import Model.Base Model.StaticCollect Model.Collect Proofs.StaticProofs Proofs.CollectProofs.

(* a name is collected iff it is the module docstring or a visible definition: a function / async function /
   class among the module's statements (through any chain of non-definition nodes other than the main guard), or
   a function among the statements of such a class - named `func`, `Class`, `Class.method` *)
Theorem C07_collect_sound_complete : forall moddoc body nm,
  In nm (map fst (visit_module moddoc body)) <->
  (nm = DOC_KEY /\ moddoc <> None) \/ exists d, ModVisible body nm d.
Proof. exact collect_sound_complete. Qed.
Print Assumptions C07_collect_sound_complete.

(* each collected callable appears under exactly one key *)
Theorem C07_keys_unique : forall moddoc body, NoDup (map fst (visit_module moddoc body)).
Proof. exact collect_keys_unique. Qed.
Print Assumptions C07_keys_unique.

(* the docstring stored under a key is that of a visible definition with that name *)
Theorem C07_docstring_of_visible : forall n cls acc nm d,
  In (nm, d) (visit cls n acc) -> In (nm, d) acc \/ Visible cls n nm d.
Proof. exact visit_entries. Qed.
Print Assumptions C07_docstring_of_visible.

(* nothing else: property setters/deleters, classes nested in a class (the block guarded by the main guard is
   not part of the tree at all: the node holds its else branch only) ... *)
Theorem C07_not_collected : forall cls n nm d, Visible cls n nm d ->
  match n with
  | SNode NK_Func _ hidden _ _ => hidden = false
  | SNode NK_Class _ _ _ _ => cls = None
  | _ => True
  end.
Proof. exact not_collected. Qed.
Print Assumptions C07_not_collected.

(* ... and nothing nested inside a function *)
Theorem C07_nested_in_function_invisible : forall cls name hidden doc ch nm' d',
  Visible cls (SNode NK_Func name hidden doc ch) nm' d' -> nm' = callname_of cls name /\ d' = doc /\ hidden = false.
Proof. exact nested_in_function_invisible. Qed.
Print Assumptions C07_nested_in_function_invisible.

(* styles: google = one doctest per Example/Doctest block in order, indexed 0,1,..; freeform at most one per
   docstring; auto = google blocks when present, freeform otherwise *)
Theorem C07_google_blocks : forall bs,
  let ex := filter gb_is_example bs in
  g_items (google_examples (Some bs)) = number_from 0 (good_prefix ex) /\
  map e_num (g_items (google_examples (Some bs))) = seq 0 (length (good_prefix ex)) /\
  (forall b, In b (good_prefix ex) -> gb_parse b = None /\ gb_is_example b = true /\ In b bs) /\
  (g_raise (google_examples (Some bs)) = None <-> good_prefix ex = ex).
Proof. exact google_examples_spec. Qed.
Print Assumptions C07_google_blocks.

Theorem C07_freeform_one : forall parsed, (length (g_items (freeform_examples parsed)) <= 1)%nat.
Proof. exact freeform_at_most_one. Qed.
Print Assumptions C07_freeform_one.

Theorem C07_auto : forall g f, auto_examples g f = if is_empty (g_items g) then f else g.
Proof. exact auto_spec. Qed.
Print Assumptions C07_auto.

(* the package walk: exactly the module files of every directory all of whose ancestors down from the package
   directory hold an __init__.py, plus the __init__.py of each such sub-package; nothing outside the package *)
Theorem C07_package_walk : forall t d p, In p (walk d t) <-> InPkg d t p.
Proof. exact walk_spec. Qed.
Print Assumptions C07_package_walk.

Theorem C07_walk_inside : forall t d p, InPkg d t p -> exists rest, p = d ++ rest /\ rest <> [].
Proof. exact walk_inside. Qed.
Print Assumptions C07_walk_inside.
