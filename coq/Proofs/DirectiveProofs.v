(* DirectiveProofs.v — RuntimeState.update refines the abstract scoping machine. *)
From XD Require Import Model.Base Model.Parser Model.Checker Model.Directive Spec.Scoping Proofs.BaseFacts.
Open Scope N_scope.
Ltac ssplit := repeat match goal with |- _ /\ _ => split end.

(* ---------- association lists ---------- *)
Lemma dget_dset_same k v d : dget k (dset k v d) = Some v.
Proof.
  induction d as [|[k' v'] d IH]; simpl.
  - rewrite eqb_str_refl. reflexivity.
  - destruct (eqb_str k k') eqn:E; simpl.
    + rewrite eqb_str_refl. reflexivity.
    + rewrite E. exact IH.
Qed.

Lemma dget_dset_other k k' v d : k <> k' -> dget k' (dset k v d) = dget k' d.
Proof.
  intros N. induction d as [|[k2 v2] d IH]; simpl.
  - destruct (eqb_str k' k) eqn:E; [apply eqb_str_spec in E; congruence | reflexivity].
  - destruct (eqb_str k k2) eqn:E; simpl.
    + apply eqb_str_spec in E. subst k2.
      destruct (eqb_str k' k) eqn:E2; [apply eqb_str_spec in E2; congruence | reflexivity].
    + destruct (eqb_str k' k2); [reflexivity | exact IH].
Qed.

Lemma dhas_dset_same k v d : dhas k (dset k v d) = true.
Proof. unfold dhas. rewrite dget_dset_same. reflexivity. Qed.

(* ---------- the view of a runtime state ---------- *)
Definition eff (rs : runstate) (k : str) : option value :=
  match dget k (rs_inline rs) with Some v => Some v | None => dget k (rs_global rs) end.

Definition req_of (v : option value) : list str := match v with Some (VSet s) => s | _ => [] end.

Definition view (rs : runstate) : astate := mkA (truthy (eff rs K_SKIP)) (req_of (eff rs K_REQUIRES)).
Definition gview (rs : runstate) : astate :=
  mkA (truthy (dget K_SKIP (rs_global rs))) (req_of (dget K_REQUIRES (rs_global rs))).

Record WF (rs : runstate) : Prop := mkWF {
  wf_skip_g : exists b, dget K_SKIP (rs_global rs) = Some (VBool b);
  wf_req_g : exists s, dget K_REQUIRES (rs_global rs) = Some (VSet s);
  wf_skip_i : forall v, dget K_SKIP (rs_inline rs) = Some v -> exists b, v = VBool b;
  wf_req_i : forall v, dget K_REQUIRES (rs_inline rs) = Some v -> exists s, v = VSet s
}.

Lemma skip_ne_req : K_SKIP <> K_REQUIRES. Proof. discriminate. Qed.

Lemma rs_get_eff rs k : dhas k (rs_global rs) = true -> rs_get rs k = eff rs k.
Proof. unfold rs_get, eff. intros ->. reflexivity. Qed.

Lemma rs_skips_view rs : WF rs -> negb (rs_skips rs) = a_runs (view rs).
Proof.
  intros W. destruct (wf_skip_g _ W) as [b Hb]. destruct (wf_req_g _ W) as [s Hs].
  unfold rs_skips, rs_flag, a_runs, view. simpl.
  rewrite !rs_get_eff by (unfold dhas; rewrite ?Hb, ?Hs; reflexivity).
  destruct (eff rs K_REQUIRES) as [[bb|ss]|] eqn:E.
  - exfalso. unfold eff in E. destruct (dget K_REQUIRES (rs_inline rs)) eqn:I.
    + inversion E; subst. destruct (wf_req_i _ W _ I) as [x Hx]. discriminate.
    + rewrite Hs in E. discriminate.
  - simpl. destruct ss; destruct (truthy (eff rs K_SKIP)); reflexivity.
  - exfalso. unfold eff in E. destruct (dget K_REQUIRES (rs_inline rs)); [discriminate|]. rewrite Hs in E. discriminate.
Qed.

(* default options that are boolean flags (what --options can express for flags) keep the state well formed *)
Definition BoolDefaults (ds : dict) : Prop :=
  forall k v, In (k, v) ds -> k <> K_REQUIRES /\ exists b, v = VBool b.

Lemma fold_defaults_wf ds : BoolDefaults ds -> forall d0,
  (exists b, dget K_SKIP d0 = Some (VBool b)) -> (exists s, dget K_REQUIRES d0 = Some (VSet s)) ->
  (exists b, dget K_SKIP (fold_left (fun d kv => dset (fst kv) (snd kv) d) ds d0) = Some (VBool b)) /\
  (exists s, dget K_REQUIRES (fold_left (fun d kv => dset (fst kv) (snd kv) d) ds d0) = Some (VSet s)).
Proof.
  induction ds as [|[k v] ds IH]; intros H d0 A B; simpl; [tauto|].
  apply IH.
  - intros k' v' Hin. apply (H k' v'). right. exact Hin.
  - destruct (H k v (or_introl eq_refl)) as [_ [b ->]]. simpl.
    destruct (eqb_str k K_SKIP) eqn:E.
    + apply eqb_str_spec in E. subst k. exists b. apply dget_dset_same.
    + apply eqb_str_false in E. rewrite dget_dset_other by exact E. exact A.
  - destruct (H k v (or_introl eq_refl)) as [N [b ->]]. simpl.
    rewrite dget_dset_other by exact N. exact B.
Qed.

Lemma WF_init ds : BoolDefaults ds -> WF (rs_init ds).
Proof.
  intros H. unfold rs_init.
  destruct (fold_defaults_wf ds H DEFAULT_RUNTIME_STATE) as [A B].
  - exists false. reflexivity.
  - exists []. reflexivity.
  - constructor; simpl; try assumption; intros v Hv; discriminate.
Qed.

Section Refine.
Variable met : str -> bool.
Notation met' := (fun x : str => @Ok bool (met x)).

Lemma map_res_ok {A B} (f : A -> res B) (g : A -> B) l :
  (forall x, f x = Ok (g x)) -> map_res f l = Ok (map g l).
Proof. intros H. induction l as [|x r IH]; simpl; [reflexivity|]. rewrite H, IH. reflexivity. Qed.

(* ----- block directives: the persistent state follows the abstract machine ----- *)
Lemma requires_block (positive : bool) (args : list str) : forall rs, WF rs -> rs_inline rs = [] ->
  exists rs', apply_effects false rs
                (map (fun arg => mkEffect (if met arg then A_noop else if positive then A_set_add else A_set_remove)
                                          K_REQUIRES (VSet [arg])) args) = UOk rs' /\
              WF rs' /\ rs_inline rs' = [] /\
              dget K_SKIP (rs_global rs') = dget K_SKIP (rs_global rs) /\
              req_of (dget K_REQUIRES (rs_global rs')) =
                a_requires met positive args (req_of (dget K_REQUIRES (rs_global rs))).
Proof.
  induction args as [|x r IH]; intros rs W I; simpl.
  - exists rs. ssplit; try assumption; reflexivity.
  - destruct (wf_req_g _ W) as [s Hs]. destruct (wf_skip_g _ W) as [b Hb].
    destruct (met x) eqn:M; simpl.
    + destruct (IH rs W I) as (rs' & A & B & C & D & E). exists rs'. ssplit; assumption.
    + assert (STEP : forall op, exists rs1,
                 rs1 = mkRS (dset K_REQUIRES (VSet (op s)) (rs_global rs)) (rs_inline rs) /\
                 WF rs1 /\ rs_inline rs1 = [] /\ dget K_SKIP (rs_global rs1) = dget K_SKIP (rs_global rs) /\
                 req_of (dget K_REQUIRES (rs_global rs1)) = op s).
      { intros op. eexists. split; [reflexivity|]. simpl. ssplit.
        - constructor; simpl.
          + exists b. rewrite dget_dset_other by (intro X; symmetry in X; exact (skip_ne_req X)). exact Hb.
          + exists (op s). apply dget_dset_same.
          + apply (wf_skip_i _ W).
          + apply (wf_req_i _ W).
        - exact I.
        - apply dget_dset_other. intro X; symmetry in X; exact (skip_ne_req X).
        - rewrite dget_dset_same. reflexivity. }
      destruct positive; unfold apply_effect; simpl; rewrite Hs.
      * destruct (STEP (set_add x)) as (rs1 & -> & W1 & I1 & S1 & R1).
        destruct (IH _ W1 I1) as (rs' & A & B & C & D & E). exists rs'.
        ssplit; try assumption.
        -- rewrite D. exact S1.
        -- rewrite E, R1. try rewrite Hs. reflexivity.
      * destruct (STEP (set_remove x)) as (rs1 & -> & W1 & I1 & S1 & R1).
        destruct (IH _ W1 I1) as (rs' & A & B & C & D & E). exists rs'.
        ssplit; try assumption.
        -- rewrite D. exact S1.
        -- rewrite E, R1. try rewrite Hs. reflexivity.
Qed.

Lemma gview_eq rs b s :
  dget K_SKIP (rs_global rs) = Some (VBool b) -> dget K_REQUIRES (rs_global rs) = Some (VSet s) ->
  gview rs = mkA b s.
Proof. intros A B. unfold gview. rewrite A, B. reflexivity. Qed.

Lemma block_one d rs : WF rs -> rs_inline rs = [] -> d_inline d = false -> Scoped d ->
  exists es rs', effects met' d = Ok es /\ apply_effects false rs es = UOk rs' /\
                 WF rs' /\ rs_inline rs' = [] /\ gview rs' = a_apply met (gview rs) d.
Proof.
  intros W I Hin Sc. destruct (wf_req_g _ W) as [s Hs]. destruct (wf_skip_g _ W) as [b Hb].
  unfold effects, a_apply.
  destruct (eqb_str (d_name d) K_REQUIRES) eqn:ER.
  - assert (ES : eqb_str (d_name d) K_SKIP = false).
    { apply eqb_str_false. apply eqb_str_spec in ER. rewrite ER. intro X. symmetry in X. exact (skip_ne_req X). }
    rewrite ES.
    rewrite (map_res_ok _ (fun arg => mkEffect (if met arg then A_noop else if d_positive d then A_set_add else A_set_remove)
                                               K_REQUIRES (VSet [arg]))) by (intros; reflexivity).
    destruct (requires_block (d_positive d) (d_args d) rs W I) as (rs' & A & B & C & D & E).
    eexists. exists rs'. split; [reflexivity|]. split; [exact A|]. split; [exact B|]. split; [exact C|].
    unfold gview. rewrite D, E. reflexivity.
  - unfold Scoped in Sc. rewrite Sc.
    eexists. eexists. split; [reflexivity|]. simpl. unfold apply_effect. simpl.
    split; [reflexivity|].
    apply eqb_str_false in ER.
    destruct (eqb_str (d_name d) K_SKIP) eqn:ES.
    + apply eqb_str_spec in ES. rewrite ES. split; [|split; [exact I|]].
      * constructor; simpl.
        -- exists (d_positive d). apply dget_dset_same.
        -- exists s. rewrite dget_dset_other by exact skip_ne_req. exact Hs.
        -- apply (wf_skip_i _ W).
        -- apply (wf_req_i _ W).
      * unfold gview. simpl. rewrite dget_dset_same. rewrite dget_dset_other by exact skip_ne_req. reflexivity.
    + apply eqb_str_false in ES. split; [|split; [exact I|]].
      * constructor; simpl.
        -- exists b. rewrite dget_dset_other by exact ES. exact Hb.
        -- exists s. rewrite dget_dset_other by exact ER. exact Hs.
        -- apply (wf_skip_i _ W).
        -- apply (wf_req_i _ W).
      * unfold gview. simpl. rewrite !dget_dset_other by assumption. reflexivity.
Qed.

Lemma update_go_block ds : forall rs, WF rs -> rs_inline rs = [] ->
  (forall d, In d ds -> d_inline d = false /\ Scoped d) ->
  exists rs', update_go met' rs ds = UOk rs' /\ WF rs' /\ rs_inline rs' = [] /\
              gview rs' = fold_left (a_apply met) ds (gview rs).
Proof.
  induction ds as [|d ds IH]; intros rs W I H; simpl.
  - exists rs. ssplit; try assumption; reflexivity.
  - destruct (H d (or_introl eq_refl)) as [Hin Sc].
    destruct (block_one d rs W I Hin Sc) as (es & rs1 & E & A & W1 & I1 & G1).
    rewrite E. rewrite Hin. rewrite A.
    destruct (IH rs1 W1 I1) as (rs' & U & W' & I' & G').
    { intros d' Hd'. apply H. right. exact Hd'. }
    exists rs'. ssplit; try assumption. rewrite G', G1. reflexivity.
Qed.

(* ----- inline directives: only the overlay changes, and it follows the same machine ----- *)
Lemma eff_inline_set rs k v k' :
  eff (mkRS (rs_global rs) (dset k v (rs_inline rs))) k' =
  if eqb_str k' k then Some v else eff rs k'.
Proof.
  unfold eff. simpl. destruct (eqb_str k' k) eqn:E.
  - apply eqb_str_spec in E. subst k'. rewrite dget_dset_same. reflexivity.
  - apply eqb_str_false in E. rewrite dget_dset_other by congruence. reflexivity.
Qed.

Lemma WF_inline_set rs k v :
  WF rs -> (k = K_SKIP -> exists b, v = VBool b) -> (k = K_REQUIRES -> exists s, v = VSet s) ->
  WF (mkRS (rs_global rs) (dset k v (rs_inline rs))).
Proof.
  intros W HS HR. constructor; simpl.
  - apply (wf_skip_g _ W).
  - apply (wf_req_g _ W).
  - intros v' H. destruct (eqb_str k K_SKIP) eqn:E.
    + apply eqb_str_spec in E. subst k. rewrite dget_dset_same in H. inversion H; subst. apply HS. reflexivity.
    + apply eqb_str_false in E. rewrite dget_dset_other in H by exact E. apply (wf_skip_i _ W _ H).
  - intros v' H. destruct (eqb_str k K_REQUIRES) eqn:E.
    + apply eqb_str_spec in E. subst k. rewrite dget_dset_same in H. inversion H; subst. apply HR. reflexivity.
    + apply eqb_str_false in E. rewrite dget_dset_other in H by exact E. apply (wf_req_i _ W _ H).
Qed.

Lemma eff_req_set rs : WF rs -> exists s, eff rs K_REQUIRES = Some (VSet s).
Proof.
  intros W. unfold eff. destruct (dget K_REQUIRES (rs_inline rs)) eqn:I.
  - destruct (wf_req_i _ W _ I) as [s ->]. exists s. reflexivity.
  - apply (wf_req_g _ W).
Qed.

(* one set.add / set.remove on the overlay *)
Lemma inline_set_step rs (op : list str -> list str) (act : action) x :
  WF rs -> (act = A_set_add \/ act = A_set_remove) ->
  (forall s, (match act with A_set_add => set_add x | _ => set_remove x end) s = op s) ->
  exists rs1, apply_effect true rs (mkEffect act K_REQUIRES (VSet [x])) = UOk rs1 /\
              WF rs1 /\ rs_global rs1 = rs_global rs /\ eff rs1 K_SKIP = eff rs K_SKIP /\
              req_of (eff rs1 K_REQUIRES) = op (req_of (eff rs K_REQUIRES)).
Proof.
  intros W Hact Hop. destruct (eff_req_set rs W) as [s0 Hs0]. destruct (wf_req_g _ W) as [sg Hg].
  assert (G : exists ovl, (if dhas K_REQUIRES (rs_inline rs) then @UOk dict (rs_inline rs)
                           else match dget K_REQUIRES (rs_global rs) with
                                | Some (VSet s) => UOk (dset K_REQUIRES (VSet s) (rs_inline rs))
                                | Some (VBool _) => UErr U_AttributeError
                                | None => UErr U_KeyError
                                end) = UOk ovl /\ dget K_REQUIRES ovl = Some (VSet s0) /\
                          dget K_SKIP ovl = dget K_SKIP (rs_inline rs)).
  { unfold dhas. unfold eff in Hs0. destruct (dget K_REQUIRES (rs_inline rs)) eqn:I.
    - exists (rs_inline rs). inversion Hs0; subst. ssplit; [reflexivity | exact I | reflexivity].
    - rewrite Hg. rewrite Hg in Hs0. inversion Hs0; subst. eexists. ssplit; [reflexivity | apply dget_dset_same |].
      apply dget_dset_other. intro X; symmetry in X; exact (skip_ne_req X). }
  destruct G as (ovl & G1 & G2 & G3).
  exists (mkRS (rs_global rs) (dset K_REQUIRES (VSet (op s0)) ovl)).
  split.
  - unfold apply_effect. destruct Hact as [-> | ->]; cbn [e_action e_key e_val];
      rewrite G1, G2; rewrite <- Hop; reflexivity.
  - split.
    + constructor; simpl.
      * apply (wf_skip_g _ W).
      * apply (wf_req_g _ W).
      * intros v H. rewrite dget_dset_other in H by (intro X; symmetry in X; exact (skip_ne_req X)).
        rewrite G3 in H. apply (wf_skip_i _ W _ H).
      * intros v H. rewrite dget_dset_same in H. inversion H. eexists. reflexivity.
    + ssplit.
      * reflexivity.
      * unfold eff. simpl. rewrite dget_dset_other by (intro X; symmetry in X; exact (skip_ne_req X)).
        rewrite G3. reflexivity.
      * unfold eff at 1. simpl. rewrite dget_dset_same. simpl. rewrite Hs0. reflexivity.
Qed.

Lemma requires_inline (positive : bool) (args : list str) : forall rs, WF rs ->
  exists rs', apply_effects true rs
                (map (fun arg => mkEffect (if met arg then A_noop else if positive then A_set_add else A_set_remove)
                                          K_REQUIRES (VSet [arg])) args) = UOk rs' /\
              WF rs' /\ rs_global rs' = rs_global rs /\ eff rs' K_SKIP = eff rs K_SKIP /\
              req_of (eff rs' K_REQUIRES) = a_requires met positive args (req_of (eff rs K_REQUIRES)).
Proof.
  induction args as [|x r IH]; intros rs W; cbn [map apply_effects a_requires].
  - exists rs. ssplit; try assumption; reflexivity.
  - destruct (met x) eqn:M.
    + cbn [apply_effect e_action]. destruct (IH rs W) as (rs' & A & B & C & D & E). exists rs'. ssplit; assumption.
    + destruct positive.
      * destruct (inline_set_step rs (set_add x) A_set_add x W (or_introl eq_refl) (fun s => eq_refl))
          as (rs1 & S1 & W1 & G1 & K1 & R1).
        rewrite S1. destruct (IH rs1 W1) as (rs' & A & B & C & D & E). exists rs'.
        ssplit; try assumption; try congruence; rewrite E, R1; reflexivity.
      * destruct (inline_set_step rs (set_remove x) A_set_remove x W (or_intror eq_refl) (fun s => eq_refl))
          as (rs1 & S1 & W1 & G1 & K1 & R1).
        rewrite S1. destruct (IH rs1 W1) as (rs' & A & B & C & D & E). exists rs'.
        ssplit; try assumption; try congruence; rewrite E, R1; reflexivity.
Qed.

Lemma inline_one d rs : WF rs -> d_inline d = true -> Scoped d ->
  exists es rs', effects met' d = Ok es /\ apply_effects true rs es = UOk rs' /\
                 WF rs' /\ rs_global rs' = rs_global rs /\ view rs' = a_apply met (view rs) d.
Proof.
  intros W Hin Sc. unfold effects, a_apply.
  destruct (eqb_str (d_name d) K_REQUIRES) eqn:ER.
  - assert (ES : eqb_str (d_name d) K_SKIP = false).
    { apply eqb_str_false. apply eqb_str_spec in ER. rewrite ER. intro X. symmetry in X. exact (skip_ne_req X). }
    rewrite ES.
    rewrite (map_res_ok _ (fun arg => mkEffect (if met arg then A_noop else if d_positive d then A_set_add else A_set_remove)
                                               K_REQUIRES (VSet [arg]))) by (intros; reflexivity).
    destruct (requires_inline (d_positive d) (d_args d) rs W) as (rs' & A & B & C & D & E).
    eexists. exists rs'. split; [reflexivity|]. split; [exact A|]. split; [exact B|]. split; [exact C|].
    unfold view. rewrite D, E. reflexivity.
  - unfold Scoped in Sc. rewrite Sc.
    eexists. eexists. split; [reflexivity|]. cbn [apply_effects apply_effect e_action e_key e_val].
    split; [reflexivity|].
    apply eqb_str_false in ER.
    split; [|split; [reflexivity|]].
    + apply WF_inline_set; [exact W | intros _; eexists; reflexivity | intros X; contradiction].
    + unfold view. rewrite !eff_inline_set.
      destruct (eqb_str (d_name d) K_SKIP) eqn:ES.
      * apply eqb_str_spec in ES. rewrite ES.
        rewrite eqb_str_refl.
        assert (X : eqb_str K_REQUIRES K_SKIP = false) by reflexivity. rewrite X. reflexivity.
      * apply eqb_str_false in ES.
        assert (X1 : eqb_str K_SKIP (d_name d) = false) by (apply eqb_str_false; congruence).
        assert (X2 : eqb_str K_REQUIRES (d_name d) = false) by (apply eqb_str_false; congruence).
        rewrite X1, X2. reflexivity.
Qed.

Lemma update_go_inline ds : forall rs, WF rs ->
  (forall d, In d ds -> d_inline d = true /\ Scoped d) ->
  exists rs', update_go met' rs ds = UOk rs' /\ WF rs' /\ rs_global rs' = rs_global rs /\
              view rs' = fold_left (a_apply met) ds (view rs).
Proof.
  induction ds as [|d ds IH]; intros rs W H; simpl.
  - exists rs. ssplit; try assumption; reflexivity.
  - destruct (H d (or_introl eq_refl)) as [Hin Sc].
    destruct (inline_one d rs W Hin Sc) as (es & rs1 & E & A & W1 & G1 & V1).
    rewrite E. rewrite Hin. rewrite A.
    destruct (IH rs1 W1) as (rs' & U & W' & G' & V').
    { intros d' Hd'. apply H. right. exact Hd'. }
    exists rs'. ssplit; try assumption; try congruence; rewrite V', V1; reflexivity.
Qed.

(* ----- RuntimeState.update for one statement's directives ----- *)
Lemma view_no_overlay g : view (mkRS g []) = gview (mkRS g []).
Proof. reflexivity. Qed.

Lemma WF_clear rs : WF rs -> WF (mkRS (rs_global rs) []).
Proof. intros W. constructor; simpl; [apply (wf_skip_g _ W) | apply (wf_req_g _ W) | discriminate | discriminate]. Qed.

Theorem rs_update_refines rs ds :
  WF rs -> Uniform ds -> (forall d, In d ds -> Scoped d) ->
  exists rs', rs_update met' rs ds = UOk rs' /\ WF rs' /\
              gview rs' = fst (a_part met (gview rs) ds) /\
              negb (rs_skips rs') = snd (a_part met (gview rs) ds).
Proof.
  intros W U Sc. unfold rs_update, a_part. pose proof (WF_clear rs W) as W0.
  destruct (is_inline ds) eqn:IL.
  - destruct (update_go_inline ds (mkRS (rs_global rs) []) W0) as (rs' & A & B & C & D).
    { intros d Hd. split; [rewrite (U d Hd); exact IL | apply Sc; exact Hd]. }
    exists rs'. ssplit; [exact A | exact B | |].
    + cbn [fst]. unfold gview. rewrite C. reflexivity.
    + cbn [snd]. rewrite rs_skips_view by exact B. rewrite D. reflexivity.
  - destruct (update_go_block ds (mkRS (rs_global rs) []) W0 eq_refl) as (rs' & A & B & C & D).
    { intros d Hd. split; [rewrite (U d Hd); exact IL | apply Sc; exact Hd]. }
    exists rs'. ssplit; [exact A | exact B | |].
    + cbn [fst]. rewrite D. reflexivity.
    + cbn [snd]. rewrite rs_skips_view by exact B.
      assert (V : view rs' = gview rs').
      { unfold view, gview, eff. rewrite C. reflexivity. }
      rewrite V, D. reflexivity.
Qed.

(* the whole sequence: which statements run is exactly what the abstract machine says,
   and update never raises *)
Theorem scoping_refines parts : forall rs,
  WF rs -> Forall Uniform parts -> Forall (fun ds => forall d, In d ds -> Scoped d) parts ->
  m_run met rs parts = Some (a_run met (gview rs) parts).
Proof.
  induction parts as [|ds r IH]; intros rs W FU FS; cbn [m_run a_run]; [reflexivity|].
  inversion FU; subst. inversion FS; subst.
  destruct (rs_update_refines rs ds W H1 H3) as (rs' & A & B & C & D).
  rewrite A. destruct (a_part met (gview rs) ds) as [a' runs] eqn:P. simpl in C, D.
  rewrite (IH rs' B H2 H4). rewrite C, D. reflexivity.
Qed.

(* an inline directive leaves the persistent state untouched *)
Theorem inline_leaves_persistent rs ds rs' :
  WF rs -> is_inline ds = true -> Uniform ds -> (forall d, In d ds -> Scoped d) ->
  rs_update met' rs ds = UOk rs' -> rs_global rs' = rs_global rs.
Proof.
  intros W IL U Sc H. unfold rs_update in H.
  destruct (update_go_inline ds (mkRS (rs_global rs) []) (WF_clear rs W)) as (rs1 & A & B & C & D).
  { intros d Hd. split; [rewrite (U d Hd); exact IL | apply Sc; exact Hd]. }
  rewrite A in H. inversion H; subst. exact C.
Qed.

End Refine.

(* whatever overlay the previous statement left is dropped by the next update *)
Theorem overlay_is_dropped requires_met g i1 i2 ds :
  rs_update requires_met (mkRS g i1) ds = rs_update requires_met (mkRS g i2) ds.
Proof. reflexivity. Qed.

(* default options behave like a leading block directive *)
Definition dirs_of_defaults (ds : dict) : list directive :=
  map (fun kv => mkDirective (fst kv) (match snd kv with VBool b => b | _ => true end) [] false) ds.

Lemma defaults_go requires_met d : BoolDefaults d ->
  (forall k v, In (k, v) d -> starts_with K_REPORT_ k = false) ->
  forall g, update_go requires_met (mkRS g []) (dirs_of_defaults d) =
            UOk (mkRS (fold_left (fun d kv => dset (fst kv) (snd kv) d) d g) []).
Proof.
  induction d as [|[k v] d IH]; intros HB HR g; [reflexivity|].
  destruct (HB k v (or_introl eq_refl)) as [N [b ->]].
  assert (E1 : eqb_str k K_REQUIRES = false) by (apply eqb_str_false; exact N).
  pose proof (HR k (VBool b) (or_introl eq_refl)) as E2.
  unfold dirs_of_defaults. cbn [map update_go fst snd]. unfold effects. cbn [d_name d_positive d_inline d_args].
  rewrite E1, E2. cbn [apply_effects apply_effect e_action e_key e_val rs_global rs_inline fold_left fst snd].
  apply IH.
  - intros k' v' H. apply (HB k' v'). right. exact H.
  - intros k' v' H. apply (HR k' v'). right. exact H.
Qed.

Theorem defaults_as_block requires_met d : BoolDefaults d ->
  (forall k v, In (k, v) d -> starts_with K_REPORT_ k = false) ->
  rs_update requires_met (rs_init []) (dirs_of_defaults d) = UOk (rs_init d).
Proof. intros HB HR. unfold rs_update, rs_init. simpl. apply defaults_go; assumption. Qed.
