(* RunWant.v — DoctestPart.check characterised: which texts a want is compared
   with (every non-empty suffix of the outputs produced since the previous want,
   joined), and when a want counts as satisfied. *)
From XD Require Import Model.Base Model.Parser Model.Checker Model.Text Model.Directive Model.RunLoop
  Proofs.BaseFacts.
Open Scope N_scope.

(* ---------- candidates = joined non-empty suffixes of the outputs ---------- *)

Lemma cands_rev_spec l : forall acc c,
  In c (trailing_candidates_rev l acc) <->
  exists k, (k < length l)%nat /\ c = concat (rev (firstn (S k) l)) ++ acc.
Proof.
  induction l as [|g l IH]; intros acc c; simpl.
  - split; [tauto | intros (k & H & _); lia].
  - rewrite IH. split.
    + intros [H | (k & Hk & H)].
      * exists O. split; [lia|]. subst c. simpl. rewrite app_nil_r. reflexivity.
      * exists (S k). split; [lia|]. subst c.
        change (firstn (S (S k)) (g :: l)) with (g :: firstn (S k) l).
        simpl rev. rewrite concat_app. simpl. rewrite app_nil_r, <- app_assoc. reflexivity.
    + intros (k & Hk & H). destruct k as [|k].
      * left. subst c. simpl. rewrite app_nil_r. reflexivity.
      * right. exists k. split; [lia|]. subst c.
        change (firstn (S (S k)) (g :: l)) with (g :: firstn (S k) l).
        simpl rev. rewrite concat_app. simpl. rewrite app_nil_r, <- app_assoc. reflexivity.
Qed.

(* the texts a want is compared with: for every k <= |unmatched|, the last k
   unmatched outputs followed by the part's own output, joined *)
Definition Candidate (unmatched : list str) (got c : str) : Prop :=
  exists k, (k <= length unmatched)%nat /\ c = concat (skipn k (unmatched ++ [got])).

Lemma candidates_spec um got c :
  In c (trailing_candidates um got) <-> Candidate um got c.
Proof.
  unfold trailing_candidates, Candidate. rewrite cands_rev_spec.
  set (L := um ++ [got]). assert (HL : length L = S (length um)) by (unfold L; rewrite app_length; simpl; lia).
  rewrite rev_length, HL. split.
  - intros (k & Hk & H). exists (length um - k)%nat. split; [lia|].
    subst c. rewrite app_nil_r, firstn_rev, rev_involutive, HL.
    replace (S (length um) - S k)%nat with (length um - k)%nat by lia. reflexivity.
  - intros (k & Hk & H). exists (length um - k)%nat. split; [lia|].
    subst c. rewrite app_nil_r, firstn_rev, rev_involutive, HL.
    replace (S (length um) - S (length um - k))%nat with k by lia. reflexivity.
Qed.

(* the whole accumulated output and the part's own output are always candidates *)
Lemma candidate_all um got : Candidate um got (concat (um ++ [got])).
Proof. exists O. split; [lia | reflexivity]. Qed.
Lemma candidate_last um got : Candidate um got got.
Proof.
  exists (length um). split; [lia|]. rewrite skipn_app, skipn_all, Nat.sub_diag. simpl.
  rewrite app_nil_r. reflexivity.
Qed.

(* ---------- when one candidate satisfies the want ---------- *)
Definition CandOK (fl : flags) (want : str) (ev : got_eval) (c : str) : Prop :=
  match ev with
  | NotEvaled => check_output fl c want = true
  | EvalRepr r =>
      (c <> [] /\ check_output fl c want = true) \/ check_output fl r want = true
  | EvalReprRaises => c <> [] /\ check_output fl c want = true
  end.

Lemma gvw_ok_iff fl want c ev :
  check_got_vs_want fl want c ev = GW_ok <-> CandOK fl want ev c.
Proof.
  unfold check_got_vs_want, CandOK. destruct ev as [|r|].
  - destruct (check_output fl c want); split; congruence.
  - destruct c as [|x c]; cbn [is_empty].
    + destruct (check_output fl r want).
      * split; [intros _; right; reflexivity | reflexivity].
      * split; [discriminate | intros [[H _]|H]; [contradiction H; reflexivity | discriminate]].
    + destruct (check_output fl (x :: c) want).
      * split; [intros _; left; split; [discriminate | reflexivity] | reflexivity].
      * destruct (check_output fl r want).
        -- split; [intros _; right; reflexivity | reflexivity].
        -- split; [discriminate | intros [[_ H]|H]; discriminate].
  - destruct c as [|x c]; cbn [is_empty].
    + split; [discriminate | intros [H _]; contradiction H; reflexivity].
    + destruct (check_output fl (x :: c) want).
      * split; [intros _; split; [discriminate | reflexivity] | reflexivity].
      * split; [discriminate | intros [_ H]; discriminate].
Qed.

(* the loop stops at the first candidate whose verdict is not "got/want mismatch" *)
Lemma check_candidates_ok fl want ev cands :
  check_candidates fl want ev cands = GW_ok ->
  exists c, In c cands /\ check_got_vs_want fl want c ev = GW_ok.
Proof.
  induction cands as [|c cs IH]; simpl; [discriminate|].
  destruct (check_got_vs_want fl want c ev) eqn:E; try discriminate.
  - intros _. exists c. split; [left; reflexivity | exact E].
  - intros H. destruct (IH H) as (c' & Hin & Hc). exists c'. split; [right; exact Hin | exact Hc].
Qed.

Lemma check_candidates_gotwant fl want ev cands :
  check_candidates fl want ev cands = GW_gotwant <->
  forall c, In c cands -> check_got_vs_want fl want c ev = GW_gotwant.
Proof.
  induction cands as [|c cs IH]; simpl.
  - split; [intros _ c [] | reflexivity].
  - destruct (check_got_vs_want fl want c ev) eqn:E.
    + split; [discriminate | intros H; specialize (H c (or_introl eq_refl)); congruence].
    + rewrite IH. split.
      * intros H c' [<-|Hin]; [exact E | apply H; exact Hin].
      * intros H c' Hin. apply H. right. exact Hin.
    + split; [discriminate | intros H; specialize (H c (or_introl eq_refl)); congruence].
    + split; [discriminate | intros H; specialize (H c (or_introl eq_refl)); congruence].
Qed.

(* a value whose repr raises ends the comparison with an error at the first
   candidate that does not match; with a printable value (or none) the verdict
   is OK exactly when some candidate satisfies the want *)
Definition ReprSafe (ev : got_eval) : Prop := ev <> EvalReprRaises.

Lemma gvw_safe fl want c ev : ReprSafe ev ->
  check_got_vs_want fl want c ev = GW_ok \/ check_got_vs_want fl want c ev = GW_gotwant.
Proof.
  unfold ReprSafe, check_got_vs_want. destruct ev as [|r|]; [| |congruence]; intros _.
  - destruct (check_output fl c want); tauto.
  - destruct (is_empty c); destruct (check_output fl r want); destruct (check_output fl c want); tauto.
Qed.

Theorem part_check_ok_iff fl want um got ev : ReprSafe ev ->
  (part_check fl want um got ev = GW_ok <->
   exists c, Candidate um got c /\ CandOK fl want ev c).
Proof.
  intros Hs. unfold part_check. split.
  - intros H. destruct (check_candidates_ok _ _ _ _ H) as (c & Hin & Hc).
    exists c. split; [apply candidates_spec; exact Hin | apply gvw_ok_iff; exact Hc].
  - intros (c & Hc & Hok). apply candidates_spec in Hc. apply gvw_ok_iff in Hok.
    assert (G : forall cands, In c cands -> check_candidates fl want ev cands = GW_ok).
    { induction cands as [|c' cs IH]; simpl; [tauto|]. intros [->|Hin].
      - rewrite Hok. reflexivity.
      - destruct (gvw_safe fl want c' ev Hs) as [E|E]; rewrite E; [reflexivity | apply IH; exact Hin]. }
    apply G. exact Hc.
Qed.

Theorem part_check_gotwant_iff fl want um got ev :
  (part_check fl want um got ev = GW_gotwant <->
   forall c, Candidate um got c -> check_got_vs_want fl want c ev = GW_gotwant).
Proof.
  unfold part_check. rewrite check_candidates_gotwant. split; intros H c Hc; apply H; apply candidates_spec; exact Hc.
Qed.

(* a mismatch verdict means: no trailing portion of the output and not the value's repr *)
Theorem part_check_gotwant_none_matches fl want um got ev :
  part_check fl want um got ev = GW_gotwant ->
  (forall c, Candidate um got c -> c <> [] -> check_output fl c want = false) /\
  (forall r, ev = EvalRepr r -> check_output fl r want = false).
Proof.
  intros H. rewrite part_check_gotwant_iff in H. split.
  - intros c Hc Hne. specialize (H c Hc). unfold check_got_vs_want in H.
    destruct c as [|x c]; [congruence|]. destruct ev as [|r|]; simpl in H.
    + destruct (check_output fl (x :: c) want); congruence.
    + destruct (check_output fl (x :: c) want); congruence.
    + destruct (check_output fl (x :: c) want); congruence.
  - intros r ->. specialize (H got (candidate_last um got)). unfold check_got_vs_want in H.
    destruct (is_empty got); destruct (check_output fl r want); try congruence.
    destruct (check_output fl got want); congruence.
Qed.
