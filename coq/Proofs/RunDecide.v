(* RunDecide.v — decision table of one iteration of the run loop: what a part
   that is executed does to the verdict, for every outcome of executing it. *)
From XD Require Import Model.Base Model.Parser Model.Checker Model.Text Model.Directive Model.RunLoop
  Proofs.BaseFacts Proofs.RunWant.
Open Scope N_scope.

Section Decide.
Variable requires_met : str -> res bool.
Variable cfg : config.
Variable oc : nat -> outcome.
Notation step' := (step requires_met cfg oc).

(* the part at position i is handed to compile/exec under the state rs' *)
Record Ready (s : rstate) (p : part) (rs' : runstate) : Prop := mkReady {
  rd_running : r_end s = E_running;
  rd_update : part_update requires_met (r_rs s) p = UOk rs';
  rd_enabled : rs_skips rs' || negb (has_any_code p) = false;
  rd_import : negb (r_did_import s) && negb (c_import_ok cfg) = false
}.

Ltac enter H :=
  let E := fresh "E" in let U := fresh "U" in let K := fresh "K" in let M := fresh "M" in
  destruct H as [E U K M]; unfold step; rewrite E, U, K, M.

(* --- code without a want never fails because of what it prints or returns --- *)
Lemma step_no_want s i p rs' out ev :
  Ready s p rs' -> oc i = O_ok out ev -> part_want p = None ->
  let s' := step' s i p in
  r_end s' = E_running /\ r_failed s' = r_failed s /\
  r_unmatched s' = r_unmatched s ++ [out] /\ r_executed s' = r_executed s ++ [i] /\
  r_checked s' = r_checked s /\ r_logged s' = r_logged s ++ [(i, out)].
Proof. intros H O W. enter H. rewrite O, W. simpl. repeat split. Qed.

(* --- a want on code that ran: OK iff some trailing portion / the repr matches --- *)
Lemma step_want s i p rs' out ev want :
  Ready s p rs' -> oc i = O_ok out ev -> part_want p = Some want ->
  IGNORE_WANT (flags_of rs') = false ->
  let s' := step' s i p in
  r_executed s' = r_executed s ++ [i] /\ r_checked s' = r_checked s ++ [i] /\
  match part_check (flags_of rs') want (r_unmatched s) out ev with
  | GW_ok => r_end s' = E_running /\ r_failed s' = r_failed s /\ r_unmatched s' = []
  | GW_gotwant => r_failed s' = Some (Some i, F_gotwant) /\ r_end s' <> E_running
  | GW_extract_repr => r_failed s' = Some (Some i, F_extract_repr) /\ r_end s' <> E_running
  | GW_repr_escapes => r_failed s' = Some (Some i, F_exception) /\ r_end s' <> E_running
  end.
Proof.
  intros H O W IW. enter H. rewrite O, W, IW. simpl.
  destruct (part_check (flags_of rs') want (r_unmatched s) out ev); unfold fail_at; simpl;
    repeat split; destruct (c_on_error cfg); discriminate.
Qed.

(* the same with the satisfied-want relation spelled out *)
Lemma step_want_iff s i p rs' out ev want :
  Ready s p rs' -> oc i = O_ok out ev -> part_want p = Some want ->
  IGNORE_WANT (flags_of rs') = false -> ReprSafe ev ->
  let s' := step' s i p in
  ((exists c, Candidate (r_unmatched s) out c /\ CandOK (flags_of rs') want ev c) ->
     r_end s' = E_running /\ r_failed s' = r_failed s /\ r_unmatched s' = []) /\
  (~ (exists c, Candidate (r_unmatched s) out c /\ CandOK (flags_of rs') want ev c) ->
     r_failed s' = Some (Some i, F_gotwant) /\ r_end s' <> E_running).
Proof.
  intros H O W IW Hs s'. destruct (step_want s i p rs' out ev want H O W IW) as (_ & _ & D).
  fold s' in D. pose proof (part_check_ok_iff (flags_of rs') want (r_unmatched s) out ev Hs) as Iff.
  destruct (part_check (flags_of rs') want (r_unmatched s) out ev) eqn:PC.
  - split; [intros _; exact D | intros N; exfalso; apply N; apply Iff; reflexivity].
  - split; [intros Y; apply Iff in Y; discriminate | intros _; exact D].
  - exfalso. (* not reachable with a safe repr *)
    unfold part_check in PC. clear - PC Hs.
    induction (trailing_candidates (r_unmatched s) out) as [|c cs IH]; simpl in PC; [discriminate|].
    destruct (gvw_safe (flags_of rs') want c ev Hs) as [E|E]; rewrite E in PC; [discriminate | auto].
  - exfalso. unfold part_check in PC. clear - PC Hs.
    induction (trailing_candidates (r_unmatched s) out) as [|c cs IH]; simpl in PC; [discriminate|].
    destruct (gvw_safe (flags_of rs') want c ev Hs) as [E|E]; rewrite E in PC; [discriminate | auto].
Qed.

(* IGNORE_WANT: the want is not compared at all *)
Lemma step_ignore_want s i p rs' out ev want :
  Ready s p rs' -> oc i = O_ok out ev -> part_want p = Some want ->
  IGNORE_WANT (flags_of rs') = true ->
  let s' := step' s i p in
  r_end s' = E_running /\ r_failed s' = r_failed s /\ r_checked s' = r_checked s /\ r_unmatched s' = [].
Proof. intros H O W IW. enter H. rewrite O, W, IW. simpl. repeat split. Qed.

(* --- exceptions --- *)
Definition fails_with (s' : rstate) (i : nat) (f : failure) : Prop :=
  r_failed s' = Some (Some i, f) /\ r_end s' <> E_running.

Lemma fail_at_fails s i f : fails_with (fail_at cfg s (Some i) f) i f.
Proof. unfold fails_with, fail_at; simpl. split; [reflexivity | destruct (c_on_error cfg); discriminate]. Qed.

(* no want: the doctest fails with that exception *)
Lemma step_raise_no_want s i p rs' out last :
  Ready s p rs' -> oc i = O_raise out last true -> part_want p = None ->
  fails_with (step' s i p) i F_exception.
Proof. intros H O W. enter H. rewrite O, W. apply fail_at_fails. Qed.

(* a want that is not a traceback block never hides the exception *)
Lemma step_raise_non_traceback s i p rs' out last want :
  Ready s p rs' -> oc i = O_raise out last true -> part_want p = Some want ->
  extract_exc_want want = None ->
  fails_with (step' s i p) i F_exception.
Proof.
  intros H O W X. enter H. rewrite O, W.
  unfold check_exception, check_exception_cb. unfold extract_exc_want in X. rewrite X.
  apply fail_at_fails.
Qed.

(* a traceback want: the loop goes on iff the final line matches (or, with
   IGNORE_EXCEPTION_DETAIL, the exception type does); otherwise a got/want failure *)
Definition ExcMatches (fl : flags) (last msg : str) : Prop :=
  check_output fl last msg = true \/
  (IGNORE_EXCEPTION_DETAIL fl = true /\
   check_output fl (strip_exception_details last) (strip_exception_details msg) = true).

Lemma check_exception_spec fl last want msg :
  extract_exc_want want = Some msg ->
  (check_exception fl last want = Some true <-> ExcMatches fl last msg) /\
  (check_exception fl last want = Some false <-> ~ ExcMatches fl last msg).
Proof using.
  clear requires_met cfg oc.
  intros X. unfold check_exception, check_exception_cb, ExcMatches. unfold extract_exc_want in X. rewrite X.
  destruct (check_output fl last msg);
    [| destruct (IGNORE_EXCEPTION_DETAIL fl);
       [destruct (check_output fl (strip_exception_details last) (strip_exception_details msg))|]];
    (split; split; intros; try reflexivity; try discriminate; intuition (try discriminate; try congruence)).
Qed.

Lemma step_raise_traceback s i p rs' out last hf want msg :
  Ready s p rs' -> oc i = O_raise out last hf -> part_want p = Some want ->
  extract_exc_want want = Some msg ->
  let s' := step' s i p in
  (ExcMatches (flags_of rs') last msg ->
     r_end s' = E_running /\ r_failed s' = r_failed s /\ r_executed s' = r_executed s ++ [i] /\
     r_unmatched s' = []) /\
  (~ ExcMatches (flags_of rs') last msg -> fails_with s' i F_gotwant).
Proof.
  intros H O W X s'. destruct (check_exception_spec (flags_of rs') last want msg X) as [[A1 A2] [B1 B2]].
  subst s'. enter H. rewrite O, W.
  destruct (check_exception (flags_of rs') last want) as [[|]|] eqn:CE.
  - split; [intros _; simpl; repeat split | intros N; exfalso; apply N; apply A1; reflexivity].
  - split; [intros Y; apply A2 in Y; discriminate | intros _; apply fail_at_fails].
  - exfalso. unfold check_exception, check_exception_cb in CE. unfold extract_exc_want in X. rewrite X in CE.
    destruct (check_output (flags_of rs') last msg); [discriminate|].
    destruct (IGNORE_EXCEPTION_DETAIL (flags_of rs')); discriminate.
Qed.

(* a traceback want on code that does not raise is an ordinary want (no special pass):
   this is step_want applied to that want. *)

(* compile errors, a running event loop and repr failures are failures of that part *)
Lemma step_compile_error s i p rs' :
  Ready s p rs' -> oc i = O_compile_error -> fails_with (step' s i p) i F_compile.
Proof. intros H O. enter H. rewrite O. apply fail_at_fails. Qed.

Lemma step_existing_loop s i p rs' :
  Ready s p rs' -> oc i = O_existing_loop -> fails_with (step' s i p) i F_existing_loop.
Proof. intros H O. enter H. rewrite O. apply fail_at_fails. Qed.

(* a directive that cannot be applied is a failure of that part *)
Lemma step_directive_error s i p e :
  r_end s = E_running -> part_update requires_met (r_rs s) p = UErr e ->
  fails_with (step' s i p) i F_directive.
Proof. intros E U. unfold step. rewrite E, U. apply fail_at_fails. Qed.

(* a skipped part has no effect at all: nothing executed, logged, compared or buffered *)
Lemma step_skipped s i p rs' :
  r_end s = E_running -> part_update requires_met (r_rs s) p = UOk rs' ->
  rs_skips rs' || negb (has_any_code p) = true ->
  let s' := step' s i p in
  r_skipped s' = r_skipped s ++ [i] /\ r_executed s' = r_executed s /\ r_checked s' = r_checked s /\
  r_logged s' = r_logged s /\ r_unmatched s' = r_unmatched s /\ r_failed s' = r_failed s /\
  r_end s' = E_running.
Proof. intros E U K. unfold step. rewrite E, U, K. simpl. repeat split. Qed.

(* with on_error = return no step ever raises *)
Lemma step_return_never_raises s i p :
  c_on_error cfg = OE_return -> (forall f, r_end s <> E_raise f) ->
  forall f, r_end (step' s i p) <> E_raise f.
Proof.
  intros OE Hs f. unfold step.
  destruct (r_end s) eqn:E; try (rewrite E; discriminate); try (rewrite E; apply Hs).
  unfold fail_at, set_end. rewrite OE.
  repeat match goal with
         | |- context [match ?x with _ => _ end] => destruct x eqn:?
         | |- context [if ?x then _ else _] => destruct x eqn:?
         end; simpl; discriminate.
Qed.

End Decide.
