(* WordsFacts.v — facts about str.split() (words) and ' '.join(s.split()) (collapse_ws), and about the steps of
   xdoctest's normalisation that only touch white space next to white space (or next to the end of the text):
   under NORMALIZE_WHITESPACE they do not change the words. *)
From XD Require Import Model.Base Model.Checker Proofs.BaseFacts.
From Coq Require Import Lia.
Open Scope N_scope.

(* ---------- words_aux: the accumulator, prefixes, separators ---------- *)
Definition flushw (cur : str) : list str := match cur with [] => [] | _ => [rev cur] end.

Lemma words_aux_nil cur : words_aux [] cur = flushw cur.
Proof. destruct cur; reflexivity. Qed.

Lemma words_aux_space c s cur : is_space c = true -> words_aux (c :: s) cur = flushw cur ++ words_aux s [].
Proof. intros H. cbn [words_aux]. rewrite H. destruct cur; reflexivity. Qed.

Lemma words_aux_char c s cur : is_space c = false -> words_aux (c :: s) cur = words_aux s (c :: cur).
Proof. intros H. cbn [words_aux]. rewrite H. reflexivity. Qed.

(* what a prefix does to the scan is independent of what follows *)
Lemma words_aux_prefix p : forall cur, exists pre cur', forall u, words_aux (p ++ u) cur = pre ++ words_aux u cur'.
Proof.
  induction p as [|c p IH]; intros cur.
  - exists [], cur. reflexivity.
  - destruct (is_space c) eqn:Hc.
    + destruct (IH []) as (pre & cur' & H). exists (flushw cur ++ pre), cur'. intros u.
      cbn [app]. rewrite words_aux_space by exact Hc. rewrite H, app_assoc. reflexivity.
    + destruct (IH (c :: cur)) as (pre & cur' & H). exists pre, cur'. intros u.
      cbn [app]. rewrite words_aux_char by exact Hc. apply H.
Qed.

Lemma words_aux_cong p u1 u2 cur :
  (forall cur', words_aux u1 cur' = words_aux u2 cur') -> words_aux (p ++ u1) cur = words_aux (p ++ u2) cur.
Proof. intros H. destruct (words_aux_prefix p cur) as (pre & cur' & E). rewrite !E, H. reflexivity. Qed.

(* a white-space character cuts the scan in two *)
Lemma words_aux_app_space x c y : forall cur, is_space c = true ->
  words_aux (x ++ c :: y) cur = words_aux x cur ++ words y.
Proof.
  induction x as [|a x IH]; intros cur Hc.
  - cbn [app]. rewrite words_aux_space by exact Hc. destruct cur; reflexivity.
  - cbn [app]. destruct (is_space a) eqn:Ha.
    + rewrite !words_aux_space by exact Ha. rewrite IH by exact Hc. rewrite app_assoc. reflexivity.
    + rewrite !words_aux_char by exact Ha. apply IH, Hc.
Qed.

Lemma words_app_space x c y : is_space c = true -> words (x ++ c :: y) = words x ++ words y.
Proof. apply words_aux_app_space. Qed.

(* trailing white space is invisible *)
Lemma words_aux_trailing t : forallb is_space t = true -> forall cur, words_aux t cur = flushw cur.
Proof.
  induction t as [|c t IH]; intros H cur.
  - apply words_aux_nil.
  - cbn [forallb] in H. apply andb_prop in H as [Hc Ht]. rewrite words_aux_space by exact Hc.
    rewrite IH by exact Ht. cbn. apply app_nil_r.
Qed.

Lemma words_aux_app_trailing a t cur : forallb is_space t = true -> words_aux (a ++ t) cur = words_aux a cur.
Proof.
  intros Ht. rewrite <- (app_nil_r a) at 2. apply words_aux_cong. intros cur'.
  rewrite words_aux_trailing by exact Ht. symmetry. apply words_aux_nil.
Qed.

Lemma words_app_trailing a t : forallb is_space t = true -> words (a ++ t) = words a.
Proof. apply words_aux_app_trailing. Qed.

Lemma words_all_space t : forallb is_space t = true -> words t = [].
Proof. intros H. unfold words. rewrite words_aux_trailing by exact H. reflexivity. Qed.

Lemma words_leading t y : forallb is_space t = true -> words (t ++ y) = words y.
Proof.
  induction t as [|c t IH]; intros H; [reflexivity|].
  cbn [forallb] in H. apply andb_prop in H as [Hc Ht]. cbn [app]. unfold words.
  rewrite words_aux_space by exact Hc. cbn. apply IH, Ht.
Qed.

(* x followed by nothing, or by text that starts with a white-space character *)
Definition WsStart (y : str) : Prop := y = [] \/ exists c y', y = c :: y' /\ is_space c = true.

Lemma words_app_wsstart x y : WsStart y -> words (x ++ y) = words x ++ words y.
Proof.
  intros [->|(c & y' & -> & Hc)].
  - rewrite app_nil_r. cbn. symmetry. apply app_nil_r.
  - rewrite words_app_space by exact Hc. f_equal. unfold words. rewrite words_aux_space by exact Hc. reflexivity.
Qed.

(* ---------- lines ---------- *)
Lemma NL_space : is_space NL = true. Proof. reflexivity. Qed.

Lemma words_join_nl ls : words (join_nl ls) = concat (map words ls).
Proof.
  induction ls as [|l ls IH]; [reflexivity|].
  destruct ls as [|m ls].
  - cbn. symmetry. apply app_nil_r.
  - change (join_nl (l :: m :: ls)) with (l ++ NL :: join_nl (m :: ls)).
    rewrite words_app_space by exact NL_space. rewrite IH. reflexivity.
Qed.

(* s.split('\n') and '\n'.join are inverse *)
Lemma join_split_nl s : join_nl (split_on NL s) = s.
Proof.
  induction s as [|x s IH]; [reflexivity|].
  cbn [split_on]. destruct (x =? NL) eqn:E.
  - apply N.eqb_eq in E. subst x. destruct (split_on NL s) as [|p ps] eqn:Es.
    + cbn in IH. subst s. discriminate Es.
    + change (join_nl ([] :: p :: ps)) with ([] ++ NL :: join_nl (p :: ps)). rewrite IH. reflexivity.
  - destruct (split_on NL s) as [|p ps] eqn:Es.
    + cbn in IH. subst s. discriminate Es.
    + destruct ps as [|q ps].
      * cbn in *. subst. reflexivity.
      * change (join_nl ((x :: p) :: q :: ps)) with ((x :: p) ++ NL :: join_nl (q :: ps)).
        change (join_nl (p :: q :: ps)) with (p ++ NL :: join_nl (q :: ps)) in IH. cbn [app]. rewrite IH. reflexivity.
Qed.

(* ---------- rstrip ---------- *)
Lemma take_drop_while (f : char -> bool) l : l = take_while f l ++ drop_while f l.
Proof. induction l as [|c l IH]; [reflexivity|]. cbn. destruct (f c); cbn; [f_equal; exact IH|reflexivity]. Qed.

Lemma take_while_all (f : char -> bool) l : forallb f (take_while f l) = true.
Proof. induction l as [|c l IH]; [reflexivity|]. cbn. destruct (f c) eqn:E; cbn; [rewrite E; exact IH|reflexivity]. Qed.

Lemma forallb_rev (f : char -> bool) l : forallb f (rev l) = forallb f l.
Proof.
  induction l as [|c l IH]; [reflexivity|]. cbn. rewrite forallb_app, IH. cbn. rewrite andb_true_r. apply andb_comm.
Qed.

Lemma rstrip_split s : exists t, s = rstrip s ++ t /\ forallb is_space t = true.
Proof.
  exists (rev (take_while is_space (rev s))). split.
  - unfold rstrip. rewrite <- rev_app_distr, <- take_drop_while, rev_involutive. reflexivity.
  - rewrite forallb_rev. apply take_while_all.
Qed.

Lemma words_rstrip s : words (rstrip s) = words s.
Proof. destruct (rstrip_split s) as (t & E & Ht). rewrite E at 2. symmetry. apply words_app_trailing, Ht. Qed.

Lemma in_rstrip c s : In c (rstrip s) -> In c s.
Proof. destruct (rstrip_split s) as (t & E & _). intros H. rewrite E. apply in_or_app. left. exact H. Qed.

(* ---------- trailing blanks of lines ---------- *)
Lemma blank_space c : is_blank c = true -> is_space c = true.
Proof.
  unfold is_blank, SP, TAB. intros H. apply orb_prop in H as [H|H]; apply N.eqb_eq in H; subst; reflexivity.
Qed.

Lemma words_aux_rm_trailing s : forall pend cur, forallb is_space pend = true ->
  words_aux (rm_trailing_go s pend) cur = words_aux (rev pend ++ s) cur.
Proof.
  induction s as [|c s IH]; intros pend cur Hp.
  - cbn [rm_trailing_go]. rewrite app_nil_r. rewrite (words_aux_trailing (rev pend)) by (rewrite forallb_rev; exact Hp).
    apply words_aux_nil.
  - cbn [rm_trailing_go]. destruct (is_blank c) eqn:Hb.
    + rewrite IH by (cbn; rewrite Hp, (blank_space _ Hb); reflexivity).
      cbn [rev]. rewrite <- app_assoc. reflexivity.
    + destruct (c =? NL) eqn:Hn.
      * apply N.eqb_eq in Hn. subst c. rewrite words_aux_space by exact NL_space.
        rewrite words_aux_app_space by exact NL_space.
        rewrite (words_aux_trailing (rev pend)) by (rewrite forallb_rev; exact Hp).
        rewrite (IH (@nil N) (@nil N)) by reflexivity. reflexivity.
      * apply words_aux_cong. intros cur'. destruct (is_space c) eqn:Hs.
        -- rewrite !words_aux_space by exact Hs. rewrite (IH (@nil N) (@nil N)) by reflexivity. reflexivity.
        -- rewrite !words_aux_char by exact Hs. exact (IH (@nil N) (c :: cur') eq_refl).
Qed.

Lemma words_rm_trailing_ws s : words (rm_trailing_ws s) = words s.
Proof. unfold words, rm_trailing_ws. rewrite words_aux_rm_trailing by reflexivity. reflexivity. Qed.

Lemma in_rm_trailing_go c s : forall pend, In c (rm_trailing_go s pend) -> In c (rev pend ++ s).
Proof.
  induction s as [|x s IH]; intros pend H.
  - destruct H.
  - cbn [rm_trailing_go] in H. destruct (is_blank x).
    + apply IH in H. cbn [rev] in H. rewrite <- app_assoc in H. exact H.
    + destruct (x =? NL).
      * destruct H as [H|H]; [subst; apply in_or_app; right; left; reflexivity|].
        apply IH in H. apply in_or_app. right. right. exact H.
      * apply in_app_or in H as [H|H]; [apply in_or_app; left; exact H|].
        destruct H as [H|H]; [subst; apply in_or_app; right; left; reflexivity|].
        apply IH in H. apply in_or_app. right. right. exact H.
Qed.

Lemma in_rm_trailing_ws c s : In c (rm_trailing_ws s) -> In c s.
Proof. intros H. apply in_rm_trailing_go in H. exact H. Qed.

(* ---------- lines that end in a bare carriage return ---------- *)
Lemma drop_cr_aux s : forall cur, ~ In CR s -> ~ In CR cur ->
  concat (filter (fun l => negb (ends_with_cr l)) (splitlines_keep_aux s cur)) = rev cur ++ s.
Proof.
  assert (K : forall l a, ~ In CR (a :: l) -> ends_with_cr (rev (a :: l)) = false).
  { intros l a H. unfold ends_with_cr. rewrite rev_involutive. apply N.eqb_neq. intros ->. apply H. left. reflexivity. }
  induction s as [|c s IH]; intros cur Hs Hc.
  - cbn [splitlines_keep_aux]. rewrite app_nil_r. destruct cur as [|a cur]; [reflexivity|].
    cbn [flush_rev filter]. rewrite K by exact Hc. cbn. apply app_nil_r.
  - cbn [splitlines_keep_aux]. assert (c <> CR) by (intros ->; apply Hs; left; reflexivity).
    assert (~ In CR s) by (intros ?; apply Hs; right; assumption).
    assert (~ In CR (c :: cur)) by (intros [?|?]; [congruence|contradiction]).
    destruct (c =? CR) eqn:E; [apply N.eqb_eq in E; contradiction|].
    destruct (is_linebreak c).
    + cbn [filter]. rewrite K by assumption. cbn [negb concat]. rewrite IH by (auto; intros []).
      cbn [rev]. rewrite <- !app_assoc. reflexivity.
    + rewrite IH by assumption. cbn [rev]. rewrite <- app_assoc. reflexivity.
Qed.

Lemma drop_cr_lines_id s : ~ In CR s -> drop_cr_lines s = s.
Proof. intros H. unfold drop_cr_lines, splitlines_keep. rewrite drop_cr_aux; auto. Qed.

(* ---------- ' '.join(s.split()) ---------- *)
Lemma collapse_words_eq a b : words a = words b -> collapse_ws a = collapse_ws b.
Proof. unfold collapse_ws. intros ->. reflexivity. Qed.
