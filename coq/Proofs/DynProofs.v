(* DynProofs.v — static and dynamic analysis find the same callables with the same docstrings
   on modules whose module-level names are bound once (C16). *)
From XD Require Import Model.Base Model.StaticCollect Model.DynCollect Proofs.BaseFacts Proofs.StaticProofs.
Open Scope N_scope.

Definition NoDot (s : str) : Prop := forall c, In c s -> (c =? DOT) = false.

(* two dot-free names followed by a dot: a prefix relation forces equality *)
Lemma prefix_dot_eq a : forall b rest, NoDot a -> NoDot b ->
  starts_with (a ++ [DOT]) (b ++ [DOT] ++ rest) = true -> a = b.
Proof.
  induction a as [|x a IH]; intros b rest Ha Hb H.
  - destruct b as [|y b]; [reflexivity|]. cbn [starts_with app] in H. apply andb_true_iff in H. destruct H as [H _].
    apply N.eqb_eq in H. subst y. specialize (Hb DOT (or_introl eq_refl)). rewrite N.eqb_refl in Hb. discriminate.
  - destruct b as [|y b]; cbn [starts_with app] in H.
    + apply andb_true_iff in H. destruct H as [H _]. apply N.eqb_eq in H. subst x.
      specialize (Ha DOT (or_introl eq_refl)). rewrite N.eqb_refl in Ha. discriminate.
    + apply andb_true_iff in H. destruct H as [H1 H2]. apply N.eqb_eq in H1. subst y. f_equal.
      apply (IH b rest); [intros c Hc; apply Ha; right; exact Hc | intros c Hc; apply Hb; right; exact Hc | exact H2].
Qed.

Lemma not_member_of_plain nm name : NoDot name -> member_of nm name = false.
Proof.
  intros H. unfold member_of. destruct (starts_with (nm ++ [DOT]) name) eqn:E; [|reflexivity]. exfalso.
  apply starts_with_spec in E. destruct E as [t E]. specialize (H DOT). rewrite E in H.
  rewrite N.eqb_refl in H. assert (X : true = false); [apply H; apply in_or_app; left; apply in_or_app; right; left; reflexivity | discriminate].
Qed.

Lemma NoDup_app_l {A} (a b : list A) : NoDup (a ++ b) -> NoDup a.
Proof. induction a as [|x a IH]; simpl; intros H; [constructor|]. inversion H; subst. constructor; [intro X; apply H2; apply in_or_app; left; exact X | apply IH; exact H3]. Qed.
Lemma NoDup_app_r {A} (a b : list A) : NoDup (a ++ b) -> NoDup b.
Proof. induction a as [|x a IH]; simpl; intros H; [exact H|]. inversion H; subst. apply IH. exact H3. Qed.

Definition Clean (name : str) (acc : calldefs) : Prop := forall kv, In kv acc -> member_of name (fst kv) = false.

Lemma drop_clean name acc : Clean name acc -> drop_members name acc = acc.
Proof.
  unfold drop_members. induction acc as [|kv acc IH]; intros H; simpl; [reflexivity|].
  rewrite (H kv (or_introl eq_refl)). simpl. rewrite IH; [reflexivity | intros x Hx; apply H; right; exact Hx].
Qed.

Lemma od_set_in k v d kv : In kv (od_set k v d) -> fst kv = k \/ In kv d.
Proof.
  induction d as [|[k2 v2] d IH]; simpl.
  - intros [<-|[]]. left. reflexivity.
  - destruct (eqb_str k k2); simpl; intros [<-|X]; auto. destruct (IH X); auto.
Qed.

(* inside a class body the two traversals are literally the same *)
Lemma dyn_in_class : forall n c acc, dyn (Some c) n acc = visit (Some c) n acc.
Proof.
  fix IH 1. intros [k name hidden doc children] c acc. destruct k; simpl; try reflexivity.
  - revert acc. induction children as [|x r IHl]; intros acc; [reflexivity|]. simpl. rewrite IH. apply IHl.
  - revert acc. induction children as [|x r IHl]; intros acc; [reflexivity|]. simpl. rewrite IH. apply IHl.
Qed.

(* every key added while traversing the body of class c is a member key of c *)
Lemma class_keys : forall n c acc kv, In kv (visit (Some c) n acc) ->
  In kv acc \/ exists m, fst kv = c ++ [DOT] ++ m.
Proof.
  fix IH 1. intros [k name hidden doc children] c acc kv. rewrite visit_unfold.
  assert (L : forall a, In kv (visit_list (Some c) children a) -> In kv a \/ exists m, fst kv = c ++ [DOT] ++ m).
  { induction children as [|x r IHl]; intros a; simpl; [intros H; left; exact H|].
    intros H. destruct (IHl _ H) as [X|X]; [|right; exact X]. exact (IH x c a kv X). }
  destruct k.
  - destruct hidden; [intros H; left; exact H|]. intros H. destruct (od_set_in _ _ _ _ H) as [X|X]; [right; exists name; exact X | left; exact X].
  - intros H; left; exact H.
  - apply L.
  - apply L.
Qed.

Lemma visit_list_class_keys c l : forall acc kv, In kv (visit_list (Some c) l acc) ->
  In kv acc \/ exists m, fst kv = c ++ [DOT] ++ m.
Proof.
  induction l as [|x r IH]; intros acc kv; simpl; [intros H; left; exact H|].
  intros H. destruct (IH _ _ H) as [X|X]; [|right; exact X]. exact (class_keys x c acc kv X).
Qed.

Lemma dyn_list_in_class c l : forall acc, dyn_list (Some c) l acc = visit_list (Some c) l acc.
Proof. induction l as [|x r IH]; intros acc; simpl; [reflexivity | rewrite dyn_in_class; apply IH]. Qed.

(* names of the module-level definitions of a tree are dot-free *)
Fixpoint BoundNoDot (n : snode) : Prop :=
  match n with
  | SNode k name hidden doc children =>
      match k with
      | NK_Func | NK_Class => NoDot name
      | _ => (fix go (l : list snode) : Prop := match l with [] => True | x :: r => BoundNoDot x /\ go r end) children
      end
  end.
Fixpoint BoundNoDotList (l : list snode) : Prop := match l with [] => True | x :: r => BoundNoDot x /\ BoundNoDotList r end.

Definition go_binds := fix go (l : list snode) : list str := match l with [] => [] | x :: r => binds x ++ go r end.
Lemma go_binds_eq l : go_binds l = binds_list l.
Proof. induction l as [|x r IH]; simpl; [reflexivity | rewrite IH; reflexivity]. Qed.

(* the module-level traversal: the dynamic result equals the static one, and the names not bound by the
   node keep having no collected members *)
Lemma dyn_eq_visit : forall n acc,
  BoundNoDot n -> NoDup (binds n) -> (forall nm, In nm (binds n) -> Clean nm acc) ->
  dyn None n acc = visit None n acc /\
  (forall nm', NoDot nm' -> ~ In nm' (binds n) -> Clean nm' acc -> Clean nm' (visit None n acc)).
Proof.
  fix IH 1. intros [k name hidden doc children] acc HB ND HC.
  assert (L : forall a, (fix go (l : list snode) : Prop := match l with [] => True | x :: r => BoundNoDot x /\ go r end) children ->
              NoDup (go_binds children) -> (forall nm, In nm (go_binds children) -> Clean nm a) ->
              dyn_list None children a = visit_list None children a /\
              (forall nm', NoDot nm' -> ~ In nm' (go_binds children) -> Clean nm' a -> Clean nm' (visit_list None children a))).
  { clear HB ND HC. induction children as [|x r IHl]; intros a HBl NDl HCl; [split; [reflexivity | intros nm' _ _ H; exact H]|].
    destruct HBl as [HBx HBr]. cbn [go_binds] in NDl, HCl. fold go_binds in NDl, HCl.
    pose proof (NoDup_app_l _ _ NDl) as NDx.
    pose proof (NoDup_app_r _ _ NDl) as NDr.
    destruct (IH x a HBx NDx (fun nm H => HCl nm (in_or_app _ _ _ (or_introl H)))) as [E P].
    assert (Dis : forall nm, In nm (go_binds r) -> ~ In nm (binds x)).
    { intros nm Hr Hx. clear - NDl Hr Hx. induction (binds x) as [|b bs IHb]; [contradiction|].
      simpl in NDl. inversion NDl; subst. destruct Hx as [->|Hx]; [apply H1; apply in_or_app; right; exact Hr | apply IHb; assumption]. }
    assert (HCr : forall nm, In nm (go_binds r) -> Clean nm (visit None x a)).
    { intros nm Hr. apply P; [| apply Dis; exact Hr | apply HCl; apply in_or_app; right; exact Hr].
      (* names bound later are dot-free *)
      clear - HBr Hr. revert Hr. induction r as [|y r IHr]; simpl; [contradiction|]. destruct HBr as [HBy HBr'].
      intros H. apply in_app_or in H. destruct H as [H|H]; [|apply IHr; assumption].
      clear - HBy H. revert nm H. revert HBy. generalize y. fix IHy 1. intros [k name hidden doc ch] HBy nm H.
      destruct k; simpl in *.
      - destruct hidden; [contradiction|]. destruct H as [<-|[]]. exact HBy.
      - destruct H as [<-|[]]. exact HBy.
      - revert HBy H. induction ch as [|z zs IHz]; simpl; [contradiction|]. intros [HBz HBzs] H.
        apply in_app_or in H. destruct H as [H|H]; [apply (IHy z HBz nm H) | apply IHz; assumption].
      - revert HBy H. induction ch as [|z zs IHz]; simpl; [contradiction|]. intros [HBz HBzs] H.
        apply in_app_or in H. destruct H as [H|H]; [apply (IHy z HBz nm H) | apply IHz; assumption]. }
    destruct (IHl (visit None x a) HBr NDr HCr) as [E2 P2].
    simpl. rewrite E. split; [exact E2|].
    intros nm' Hd Hn Hc. apply P2; [exact Hd | intro X; apply Hn; apply in_or_app; right; exact X |].
    apply P; [exact Hd | intro X; apply Hn; apply in_or_app; left; exact X | exact Hc]. }
  destruct k.
  - (* function *)
    simpl in HB, ND, HC. simpl. destruct hidden.
    + split; [reflexivity | intros nm' _ _ H; exact H].
    + unfold dyn_bind. rewrite drop_clean by (apply HC; left; reflexivity). split; [reflexivity|].
      intros nm' Hd Hn Hc kv Hkv. destruct (od_set_in _ _ _ _ Hkv) as [X|X]; [rewrite X; apply not_member_of_plain; exact HB | apply Hc; exact X].
  - (* class *)
    simpl in HB, ND, HC. rewrite visit_unfold. cbn [dyn]. 
    change ((fix go (l : list snode) (a : calldefs) : calldefs := match l with [] => a | x :: r => go r (dyn (Some name) x a) end) children)
      with (fun a => (fix go (l : list snode) (a : calldefs) : calldefs := match l with [] => a | x :: r => go r (dyn (Some name) x a) end) children a).
    assert (G : forall a, (fix go (l : list snode) (a : calldefs) : calldefs := match l with [] => a | x :: r => go r (dyn (Some name) x a) end) children a
                          = dyn_list (Some name) children a).
    { clear. induction children as [|x r IHl]; intros a; simpl; [reflexivity | apply IHl]. }
    cbv beta. rewrite G, dyn_list_in_class. unfold dyn_bind. rewrite drop_clean by (apply HC; left; reflexivity).
    split; [reflexivity|].
    intros nm' Hd Hn Hc kv Hkv. destruct (visit_list_class_keys _ _ _ _ Hkv) as [X|[m X]].
    + destruct (od_set_in _ _ _ _ X) as [Y|Y]; [rewrite Y; apply not_member_of_plain; exact HB | apply Hc; exact Y].
    + rewrite X. unfold member_of. destruct (starts_with (nm' ++ [DOT]) (name ++ [DOT] ++ m)) eqn:E; [|reflexivity].
      exfalso. apply Hn. left. symmetry. apply (prefix_dot_eq nm' name m Hd HB E).
  - (* main guard: its else branch *)
    rewrite visit_unfold. cbn [dyn]. cbn [BoundNoDot binds] in HB, ND, HC. fold go_binds in ND, HC.
    assert (G : forall a, (fix go (l : list snode) (a : calldefs) : calldefs := match l with [] => a | x :: r => go r (dyn None x a) end) children a
                          = dyn_list None children a).
    { clear. induction children as [|x r IHl]; intros a; simpl; [reflexivity | apply IHl]. }
    rewrite G. cbn [binds]. fold go_binds. apply L; assumption.
  - rewrite visit_unfold. cbn [dyn]. cbn [BoundNoDot binds] in HB, ND, HC. fold go_binds in ND, HC.
    assert (G : forall a, (fix go (l : list snode) (a : calldefs) : calldefs := match l with [] => a | x :: r => go r (dyn None x a) end) children a
                          = dyn_list None children a).
    { clear. induction children as [|x r IHl]; intros a; simpl; [reflexivity | apply IHl]. }
    rewrite G. cbn [binds]. fold go_binds. apply L; assumption.
Qed.

Lemma dyn_other_unfold name hidden doc children acc :
  dyn None (SNode NK_Other name hidden doc children) acc = dyn_list None children acc.
Proof.
  cbn [dyn]. revert acc. induction children as [|x r IHl]; intros a; simpl; [reflexivity | apply IHl].
Qed.

Lemma DOC_KEY_NoDot : NoDot DOC_KEY.
Proof. intros c H. unfold DOC_KEY in H. simpl in H. repeat (destruct H as [<-|H]; [reflexivity|]). contradiction. Qed.

Lemma BoundNoDot_other name hidden doc children :
  BoundNoDot (SNode NK_Other name hidden doc children) <-> BoundNoDotList children.
Proof. simpl. induction children as [|x r IH]; simpl; [tauto | rewrite IH; tauto]. Qed.

Lemma binds_other name hidden doc children : binds (SNode NK_Other name hidden doc children) = binds_list children.
Proof. simpl. induction children as [|x r IH]; simpl; [reflexivity | rewrite IH; reflexivity]. Qed.

(* for a module whose module-level definitions carry dot-free names bound once, collecting by importing the
   module yields exactly the callables, names and docstrings that collecting from the source yields *)
Theorem static_dynamic_agree moddoc body :
  BoundNoDotList body -> NoDup (binds_list body) ->
  dyn_module moddoc body = visit_module moddoc body.
Proof.
  intros HB ND. unfold dyn_module, visit_module.
  set (acc0 := match moddoc with Some d => [(DOC_KEY, Some d)] | None => [] end).
  pose proof (dyn_eq_visit (SNode NK_Other [] false None body) acc0) as H.
  rewrite dyn_other_unfold, visit_unfold in H. apply H.
  - apply BoundNoDot_other. exact HB.
  - rewrite binds_other. exact ND.
  - intros nm _ kv Hkv. unfold acc0 in Hkv. destruct moddoc; [|contradiction].
    destruct Hkv as [<-|[]]. apply not_member_of_plain. exact DOC_KEY_NoDot.
Qed.

(* ---------- the same under a weaker hypothesis: names may be bound again, as long as the name of a
   CLASS is not bound again afterwards (a redefined function, or a function later replaced by a class, is fine:
   both analyses report the last definition under the key's first position) ---------- *)

Fixpoint tbinds (n : snode) : list (bool * str) :=
  match n with
  | SNode k name hidden doc children =>
      let tb_all := (fix go (l : list snode) : list (bool * str) :=
                       match l with [] => [] | x :: r => tbinds x ++ go r end) children in
      match k with
      | NK_Func => if hidden then [] else [(false, name)]
      | NK_Class => [(true, name)]
      | NK_IfMain | NK_Other => tb_all
      end
  end.
Definition go_tbinds := fix go (l : list snode) : list (bool * str) := match l with [] => [] | x :: r => tbinds x ++ go r end.

Lemma binds_tbinds : forall n, binds n = map snd (tbinds n).
Proof.
  fix IH 1. intros [k name hidden doc children].
  assert (L : go_binds children = map snd (go_tbinds children)).
  { induction children as [|x r IHl]; [reflexivity|]. cbn [go_binds go_tbinds]. fold go_binds. fold go_tbinds.
    rewrite map_app, <- IHl, <- IH. reflexivity. }
  destruct k; cbn [binds tbinds]; try (destruct hidden; reflexivity); try reflexivity; exact L.
Qed.

Lemma go_binds_tbinds l : go_binds l = map snd (go_tbinds l).
Proof.
  induction l as [|x r IHl]; [reflexivity|]. cbn [go_binds go_tbinds]. fold go_binds. fold go_tbinds.
  rewrite map_app, <- IHl, <- binds_tbinds. reflexivity.
Qed.

(* once a class is bound under a name, that name is not bound again *)
Fixpoint NoClassRebind (l : list (bool * str)) : Prop :=
  match l with
  | [] => True
  | (c, nm) :: r => (c = true -> ~ In nm (map snd r)) /\ NoClassRebind r
  end.

Lemma NoClassRebind_app a b : NoClassRebind (a ++ b) ->
  NoClassRebind a /\ NoClassRebind b /\ (forall nm, In (true, nm) a -> ~ In nm (map snd b)).
Proof.
  induction a as [|[c nm] a IH]; simpl; intros H.
  - split; [exact I|]. split; [exact H | intros nm []].
  - destruct H as [H1 H2]. destruct (IH H2) as (A & B & C). split.
    + split; [|exact A]. intros Hc X. apply (H1 Hc). rewrite map_app. apply in_or_app. left. exact X.
    + split; [exact B|]. intros nm' [E|Hin].
      * inversion E; subst. intros X. apply (H1 eq_refl). rewrite map_app. apply in_or_app. right. exact X.
      * apply C. exact Hin.
Qed.

Lemma NoDup_NoClassRebind l : NoDup (map snd l) -> NoClassRebind l.
Proof.
  induction l as [|[c nm] l IH]; simpl; intros H; [exact I|]. inversion H; subst.
  split; [intros _; assumption | apply IH; assumption].
Qed.

(* names bound in a tree whose definitions carry dot-free names are dot-free *)
Lemma binds_NoDot : forall n, BoundNoDot n -> forall nm, In nm (binds n) -> NoDot nm.
Proof.
  fix IHy 1. intros [k name hidden doc ch] HBy nm H.
  destruct k; simpl in *.
  - destruct hidden; [contradiction|]. destruct H as [<-|[]]. exact HBy.
  - destruct H as [<-|[]]. exact HBy.
  - revert HBy H. induction ch as [|z zs IHz]; simpl; [contradiction|]. intros [HBz HBzs] H.
    apply in_app_or in H. destruct H as [H|H]; [apply (IHy z HBz nm H) | apply IHz; assumption].
  - revert HBy H. induction ch as [|z zs IHz]; simpl; [contradiction|]. intros [HBz HBzs] H.
    apply in_app_or in H. destruct H as [H|H]; [apply (IHy z HBz nm H) | apply IHz; assumption].
Qed.

Lemma go_binds_NoDot r : (fix go (l : list snode) : Prop := match l with [] => True | x :: r => BoundNoDot x /\ go r end) r ->
  forall nm, In nm (go_binds r) -> NoDot nm.
Proof.
  induction r as [|y r IHr]; simpl; [contradiction|]. intros [HBy HBr] nm H.
  apply in_app_or in H. destruct H as [H|H]; [exact (binds_NoDot y HBy nm H) | apply IHr; assumption].
Qed.

Lemma dyn_eq_visit_rebind : forall n acc,
  BoundNoDot n -> NoClassRebind (tbinds n) -> (forall nm, In nm (binds n) -> Clean nm acc) ->
  dyn None n acc = visit None n acc /\
  (forall nm', NoDot nm' -> ~ In (true, nm') (tbinds n) -> Clean nm' acc -> Clean nm' (visit None n acc)).
Proof.
  fix IH 1. intros [k name hidden doc children] acc HB ND HC.
  assert (L : forall a, (fix go (l : list snode) : Prop := match l with [] => True | x :: r => BoundNoDot x /\ go r end) children ->
              NoClassRebind (go_tbinds children) -> (forall nm, In nm (go_binds children) -> Clean nm a) ->
              dyn_list None children a = visit_list None children a /\
              (forall nm', NoDot nm' -> ~ In (true, nm') (go_tbinds children) -> Clean nm' a -> Clean nm' (visit_list None children a))).
  { clear HB ND HC. induction children as [|x r IHl]; intros a HBl NDl HCl; [split; [reflexivity | intros nm' _ _ H; exact H]|].
    destruct HBl as [HBx HBr]. cbn [go_tbinds] in NDl. fold go_tbinds in NDl. cbn [go_binds] in HCl. fold go_binds in HCl.
    destruct (NoClassRebind_app _ _ NDl) as (NDx & NDr & Dis).
    destruct (IH x a HBx NDx (fun nm H => HCl nm (in_or_app _ _ _ (or_introl H)))) as [E P].
    assert (HCr : forall nm, In nm (go_binds r) -> Clean nm (visit None x a)).
    { intros nm Hr. apply P.
      - exact (go_binds_NoDot r HBr nm Hr).
      - intros X. apply (Dis nm X). rewrite <- go_binds_tbinds. exact Hr.
      - apply HCl. apply in_or_app. right. exact Hr. }
    destruct (IHl (visit None x a) HBr NDr HCr) as [E2 P2].
    simpl. rewrite E. split; [exact E2|].
    intros nm' Hd Hn Hc. apply P2; [exact Hd | intro X; apply Hn; cbn [go_tbinds]; apply in_or_app; right; exact X |].
    apply P; [exact Hd | intro X; apply Hn; cbn [go_tbinds]; apply in_or_app; left; exact X | exact Hc]. }
  destruct k.
  - (* function *)
    simpl in HB, ND, HC. simpl. destruct hidden.
    + split; [reflexivity | intros nm' _ _ H; exact H].
    + unfold dyn_bind. rewrite drop_clean by (apply HC; left; reflexivity). split; [reflexivity|].
      intros nm' Hd Hn Hc kv Hkv. destruct (od_set_in _ _ _ _ Hkv) as [X|X]; [rewrite X; apply not_member_of_plain; exact HB | apply Hc; exact X].
  - (* class *)
    simpl in HB, ND, HC. rewrite visit_unfold. cbn [dyn].
    change ((fix go (l : list snode) (a : calldefs) : calldefs := match l with [] => a | x :: r => go r (dyn (Some name) x a) end) children)
      with (fun a => (fix go (l : list snode) (a : calldefs) : calldefs := match l with [] => a | x :: r => go r (dyn (Some name) x a) end) children a).
    assert (G : forall a, (fix go (l : list snode) (a : calldefs) : calldefs := match l with [] => a | x :: r => go r (dyn (Some name) x a) end) children a
                          = dyn_list (Some name) children a).
    { clear. induction children as [|x r IHl]; intros a; simpl; [reflexivity | apply IHl]. }
    cbv beta. rewrite G, dyn_list_in_class. unfold dyn_bind. rewrite drop_clean by (apply HC; left; reflexivity).
    split; [reflexivity|].
    intros nm' Hd Hn Hc kv Hkv. destruct (visit_list_class_keys _ _ _ _ Hkv) as [X|[m X]].
    + destruct (od_set_in _ _ _ _ X) as [Y|Y]; [rewrite Y; apply not_member_of_plain; exact HB | apply Hc; exact Y].
    + rewrite X. unfold member_of. destruct (starts_with (nm' ++ [DOT]) (name ++ [DOT] ++ m)) eqn:E; [|reflexivity].
      exfalso. apply Hn. left. f_equal. symmetry. apply (prefix_dot_eq nm' name m Hd HB E).
  - rewrite visit_unfold. cbn [dyn]. cbn [BoundNoDot binds tbinds] in HB, ND, HC. fold go_binds in HC. fold go_tbinds in ND.
    assert (G : forall a, (fix go (l : list snode) (a : calldefs) : calldefs := match l with [] => a | x :: r => go r (dyn None x a) end) children a
                          = dyn_list None children a).
    { clear. induction children as [|x r IHl]; intros a; simpl; [reflexivity | apply IHl]. }
    rewrite G. cbn [tbinds]. fold go_tbinds. apply L; assumption.
  - rewrite visit_unfold. cbn [dyn]. cbn [BoundNoDot binds tbinds] in HB, ND, HC. fold go_binds in HC. fold go_tbinds in ND.
    assert (G : forall a, (fix go (l : list snode) (a : calldefs) : calldefs := match l with [] => a | x :: r => go r (dyn None x a) end) children a
                          = dyn_list None children a).
    { clear. induction children as [|x r IHl]; intros a; simpl; [reflexivity | apply IHl]. }
    rewrite G. cbn [tbinds]. fold go_tbinds. apply L; assumption.
Qed.

Definition tbinds_list (body : list snode) : list (bool * str) := go_tbinds body.

Lemma tbinds_other name hidden doc children : tbinds (SNode NK_Other name hidden doc children) = tbinds_list children.
Proof. reflexivity. Qed.

(* static = dynamic whenever no class name is bound again (functions may be redefined, in any branch) *)
Theorem static_dynamic_agree_rebind moddoc body :
  BoundNoDotList body -> NoClassRebind (tbinds_list body) ->
  dyn_module moddoc body = visit_module moddoc body.
Proof.
  intros HB ND. unfold dyn_module, visit_module.
  set (acc0 := match moddoc with Some d => [(DOC_KEY, Some d)] | None => [] end).
  pose proof (dyn_eq_visit_rebind (SNode NK_Other [] false None body) acc0) as H.
  rewrite dyn_other_unfold, visit_unfold in H. apply H.
  - apply BoundNoDot_other. exact HB.
  - rewrite tbinds_other. exact ND.
  - intros nm _ kv Hkv. unfold acc0 in Hkv. destruct moddoc; [|contradiction].
    destruct Hkv as [<-|[]]. apply not_member_of_plain. exact DOC_KEY_NoDot.
Qed.

(* a function defined twice and a function later replaced by a class satisfy the hypothesis *)
Example redefinition_allowed :
  let F := [102%N] in let G := [103%N] in
  let body := [SNode NK_Func F false (Some 1%nat) []; SNode NK_Func G false None [];
               SNode NK_Other [] false None [SNode NK_Func F false (Some 2%nat) []];
               SNode NK_Class G false (Some 3%nat) [SNode NK_Func F false (Some 4%nat) []]] in
  NoClassRebind (tbinds_list body) /\ ~ NoDup (binds_list body) /\
  visit_module None body = [(F, Some 2%nat); (G, Some 3%nat); (G ++ [DOT] ++ F, Some 4%nat)].
Proof.
  cbv zeta. split; [|split].
  - vm_compute. repeat split; try (intros Hc; discriminate Hc). intros _ [].
  - vm_compute. intros H. inversion H as [|? ? Hn _]; subst. apply Hn. right. left. reflexivity.
  - vm_compute. reflexivity.
Qed.

(* without that hypothesis the two differ: a class bound twice keeps the members of the first
   definition in the static collection only *)
Example rebinding_differs :
  let A := [65%N] in let M := [109%N] in let N' := [110%N] in
  let body := [SNode NK_Class A false None [SNode NK_Func M false (Some 1%nat) []];
               SNode NK_Class A false None [SNode NK_Func N' false (Some 2%nat) []]] in
  map fst (visit_module None body) = [A; A ++ [DOT] ++ M; A ++ [DOT] ++ N'] /\
  map fst (dyn_module None body) = [A; A ++ [DOT] ++ N'].
Proof. vm_compute. split; reflexivity. Qed.
