(* SourceRun.v — C01 end to end over the models: when nothing is skipped and nothing fails, the parts handed to exec are
   all the parts in order, and their code is exactly the de-prompted source lines of the docstring, in order. *)
From Coq Require Import List Arith Lia Bool NArith.
From XD Require Import Model.Base Model.Parser Model.Checker Model.Text Model.Directive Model.RunLoop Spec.Partition
  Proofs.BaseFacts Proofs.ParserProofs Proofs.ChunkProofs Proofs.RunProofs Proofs.C01Proofs Proofs.Reparse.
Import ListNotations.
Local Open Scope nat_scope.

Lemma increasing_head_min x l : Increasing (x :: l) -> forall j, In j l -> x < j.
Proof.
  revert x. induction l as [|y l IH]; intros x H j Hj; [contradiction|].
  inversion H as [| |? ? ? Hxy Hl]; subst. destruct Hj as [<-|Hj]; [exact Hxy|].
  specialize (IH y Hl j Hj). lia.
Qed.

Lemma increasing_tail x l : Increasing (x :: l) -> Increasing l.
Proof. intros H. inversion H; subst; [constructor | assumption]. Qed.

(* a strictly increasing list that holds exactly the numbers m .. m+k-1 is that range *)
Lemma increasing_range : forall k l m, Increasing l -> (forall j, In j l <-> m <= j < m + k) -> l = seq m k.
Proof.
  induction k as [|k IH]; intros l m HI HR.
  - destruct l as [|x l]; [reflexivity|]. exfalso. destruct (HR x) as [A _]. specialize (A (or_introl eq_refl)). lia.
  - destruct l as [|x l].
    + exfalso. destruct (HR m) as [_ B]. apply B. lia.
    + assert (Hx : x = m).
      { destruct (HR x) as [A _]. specialize (A (or_introl eq_refl)).
        destruct (HR m) as [_ B]. assert (Hm : In m (x :: l)) by (apply B; lia).
        destruct Hm as [E|Hm]; [exact E|]. pose proof (increasing_head_min x l HI m Hm). lia. }
      subst x. cbn [seq]. f_equal. apply IH; [eapply increasing_tail; exact HI|].
      intros j. split.
      * intros Hj. pose proof (increasing_head_min m l HI j Hj). destruct (HR j) as [A _]. specialize (A (or_intror Hj)). lia.
      * intros Hj. destruct (HR j) as [_ B]. assert (H : In j (m :: l)) by (apply B; lia). destruct H as [E|H]; [lia | exact H].
Qed.

Section Run.
Variable requires_met : str -> res bool.
Variable cfg : config.
Variable oc : nat -> outcome.

(* nothing skipped, nothing failed: every part was handed to exec, once, in order *)
Theorem all_executed_in_order ps :
  let st := run_parts requires_met cfg oc (init_state cfg) 0 ps in
  r_end st = E_running -> r_skipped st = [] -> r_executed st = seq 0 (length ps).
Proof.
  intros st HE HS.
  destruct (executed_once_in_order requires_met cfg oc ps) as (A & _ & C). fold st in A, C.
  destruct (running_all_visited requires_met cfg oc ps HE) as [_ V]. fold st in V.
  apply increasing_range; [exact A|]. intros j. split.
  - intros Hj. specialize (C j Hj). lia.
  - intros Hj. destruct (V j) as [H|H]; [lia | exact H | rewrite HS in H; contradiction].
Qed.
End Run.

(* the code of the parts, chunk by chunk *)
Definition chunk_exec (c : chunk) : list str :=
  match c with TextChunk _ => [] | CodeChunk s _ => map (skipn 4) (dedent_chunk s) end.

Lemma tiled_exec : forall gs n items, Tiled n gs items ->
  concat (map exec_lines (parts_of items)) = concat (map chunk_exec gs).
Proof.
  intros gs n items H. induction H as [n | n ls rest r H IH | n s w rest ps r HT H IH].
  - reflexivity.
  - cbn [map concat chunk_exec app]. exact IH.
  - rewrite parts_of_app, parts_of_parts, map_app, concat_app, IH. cbn [map concat chunk_exec]. f_equal.
    destruct HT as (bs & Hhd & Hasc & _ & E2 & _). rewrite E2. apply tiles_concat; assumption.
Qed.

(* end to end: the lines handed to exec, in order, are the de-prompted source lines of the docstring's chunks, in order *)
Theorem executed_is_source requires_met cfg oc o s items :
  parse o s = Parsed items ->
  let ps := parts_of items in
  let st := run_parts requires_met cfg oc (init_state cfg) 0 ps in
  r_end st = E_running -> r_skipped st = [] ->
  exists (ll : list (label * str)) gs,
    length ll = length (srclines (normalize_docstring s)) /\
    Forall2 SameLineUpToHack ll (srclines (normalize_docstring s)) /\
    flatten_chunks gs = map snd ll /\
    r_executed st = seq 0 (length ps) /\
    concat (map exec_lines ps) = concat (map chunk_exec gs).
Proof.
  intros HP ps st HE HS.
  destruct (parse_partition o s items HP) as (ll & gs & A & B & C & T).
  exists ll, gs. split; [exact A|]. split; [exact B|]. split; [exact C|]. split.
  - apply (all_executed_in_order requires_met cfg oc ps HE HS).
  - apply (tiled_exec gs 0 items T).
Qed.

(* ---------- with skipping: the parts handed to exec are the parts that were not skipped, in order ---------- *)
Definition unskipped (sk : list nat) (k : nat) : list nat := filter (fun j => negb (mem_nat j sk)) (seq 0 k).

Lemma mem_nat_in x l : mem_nat x l = true <-> In x l.
Proof.
  induction l as [|y l IH]; cbn [mem_nat In]; [split; [discriminate | contradiction]|].
  destruct (Nat.eqb x y) eqn:E.
  - apply Nat.eqb_eq in E. subst. split; [left; reflexivity | reflexivity].
  - apply Nat.eqb_neq in E. rewrite IH. split; [right; assumption | intros [H|H]; [congruence | exact H]].
Qed.

Lemma mem_nat_app_other x l k : x <> k -> mem_nat x (l ++ [k]) = mem_nat x l.
Proof.
  intros H. destruct (mem_nat x l) eqn:E.
  - apply mem_nat_in. apply in_or_app. left. apply mem_nat_in. exact E.
  - destruct (mem_nat x (l ++ [k])) eqn:E2; [|reflexivity]. apply mem_nat_in in E2. apply in_app_or in E2.
    destruct E2 as [E2|[E2|[]]]; [apply mem_nat_in in E2; congruence | congruence].
Qed.

Lemma unskipped_skip sk k : (forall j, In j sk -> j < k) -> unskipped (sk ++ [k]) (S k) = unskipped sk k.
Proof.
  intros HB. unfold unskipped. rewrite seq_S, filter_app. cbn [Nat.add filter].
  assert (E : mem_nat k (sk ++ [k]) = true) by (apply mem_nat_in; apply in_or_app; right; left; reflexivity).
  rewrite E. cbn [negb]. rewrite app_nil_r. apply filter_ext_in. intros j Hj. apply in_seq in Hj.
  rewrite mem_nat_app_other by lia. reflexivity.
Qed.

Lemma unskipped_exec sk k : (forall j, In j sk -> j < k) -> unskipped sk (S k) = unskipped sk k ++ [k].
Proof.
  intros HB. unfold unskipped. rewrite seq_S, filter_app. cbn [Nat.add filter].
  destruct (mem_nat k sk) eqn:E; [apply mem_nat_in in E; specialize (HB k E); lia|]. reflexivity.
Qed.

Section RunSkip.
Variable requires_met : str -> res bool.
Variable cfg : config.
Variable oc : nat -> outcome.

Lemma step_unskipped s k p : Inv s k -> r_executed s = unskipped (r_skipped s) k ->
  r_end (step requires_met cfg oc s k p) = E_running ->
  r_executed (step requires_met cfg oc s k p) = unskipped (r_skipped (step requires_met cfg oc s k p)) (S k).
Proof.
  intros I U HE.
  assert (HB : forall j, In j (r_skipped s) -> j < k) by (intros j Hj; apply (inv_bounded _ _ I); right; exact Hj).
  destruct (step_has_shape requires_met cfg oc s k p) as
      [Hs Hn | Hr Hsk Hex Hch Hlg Hum Hf He | Hr Hsk Hex Hrun Hfail | Hr Hsk Hex He Hfn Hfail].
  - rewrite Hs in HE. contradiction.
  - rewrite Hsk, Hex, U. symmetry. apply unskipped_skip. exact HB.
  - rewrite Hsk, Hex, U. symmetry. apply unskipped_exec. exact HB.
  - contradiction.
Qed.

Lemma run_parts_unskipped ps : forall s k, Inv s k -> r_executed s = unskipped (r_skipped s) k ->
  r_end (run_parts requires_met cfg oc s k ps) = E_running ->
  r_executed (run_parts requires_met cfg oc s k ps) = unskipped (r_skipped (run_parts requires_met cfg oc s k ps)) (k + length ps).
Proof.
  induction ps as [|p ps IH]; intros s k I U HE; cbn [run_parts length] in *.
  - rewrite Nat.add_0_r. exact U.
  - replace (k + S (length ps)) with (S k + length ps) by lia.
    assert (R : r_end (step requires_met cfg oc s k p) = E_running).
    { destruct (r_end (step requires_met cfg oc s k p)) eqn:E; [reflexivity | ..];
        exfalso; rewrite (run_parts_frozen requires_met cfg oc ps) in HE by (rewrite E; discriminate); rewrite E in HE; discriminate. }
    apply IH; [apply inv_step; exact I | apply step_unskipped; assumption | exact HE].
Qed.

(* while nothing fails: the parts handed to exec are exactly the parts that were not skipped, each once, in order *)
Theorem executed_are_the_unskipped ps :
  let st := run_parts requires_met cfg oc (init_state cfg) 0 ps in
  r_end st = E_running -> r_executed st = unskipped (r_skipped st) (length ps).
Proof.
  intros st HE. apply (run_parts_unskipped ps (init_state cfg) 0 (inv_init cfg)); [reflexivity | exact HE].
Qed.
End RunSkip.
