(* BaseFacts.v — characterising lemmas for the string operations of Model/Base.v *)
From XD Require Import Model.Base.
Open Scope N_scope.

Lemma eqb_str_spec a b : eqb_str a b = true <-> a = b.
Proof.
  revert b; induction a as [|x a IH]; intros [|y b]; simpl; split; intro H;
    try reflexivity; try discriminate.
  - apply andb_true_iff in H as [H1 H2]. apply N.eqb_eq in H1. apply IH in H2. congruence.
  - inversion H; subst. rewrite N.eqb_refl. simpl. apply IH. reflexivity.
Qed.

Lemma eqb_str_refl a : eqb_str a a = true.
Proof. apply eqb_str_spec. reflexivity. Qed.

Lemma eqb_str_false a b : eqb_str a b = false <-> a <> b.
Proof.
  split; intro H.
  - intro E. apply eqb_str_spec in E. congruence.
  - destruct (eqb_str a b) eqn:E; [|reflexivity]. apply eqb_str_spec in E. contradiction.
Qed.

Lemma starts_with_spec p s : starts_with p s = true <-> exists t, s = p ++ t.
Proof.
  revert s; induction p as [|a p IH]; intros s; simpl.
  - split; [intros _; exists s; reflexivity | reflexivity].
  - destruct s as [|b s].
    + split; [discriminate | intros [t H]; discriminate].
    + split.
      * intros H. apply andb_true_iff in H as [H1 H2]. apply N.eqb_eq in H1.
        apply IH in H2 as [t ->]. exists t. subst. reflexivity.
      * intros [t H]. inversion H; subst. rewrite N.eqb_refl. simpl. apply IH. exists t. reflexivity.
Qed.

Lemma starts_with_app p t : starts_with p (p ++ t) = true.
Proof. apply starts_with_spec. exists t. reflexivity. Qed.

Lemma starts_with_nil s : starts_with [] s = true.
Proof. reflexivity. Qed.

Lemma ends_with_spec p s : ends_with p s = true <-> exists t, s = t ++ p.
Proof.
  unfold ends_with. rewrite starts_with_spec. split.
  - intros [t H]. exists (rev t).
    apply (f_equal (@rev N)) in H. rewrite rev_involutive, rev_app_distr, rev_involutive in H. exact H.
  - intros [t ->]. exists (rev t). rewrite rev_app_distr. reflexivity.
Qed.

Lemma ends_with_nil s : ends_with [] s = true.
Proof. apply ends_with_spec. exists s. rewrite app_nil_r. reflexivity. Qed.

(* ---- find_sub ---- *)

Lemma find_sub_some w s i :
  find_sub w s = Some i ->
  exists a b, s = a ++ w ++ b /\ length a = i.
Proof.
  revert i; induction s as [|c s IH]; intros i; simpl.
  - destruct (starts_with w []) eqn:E; [|discriminate].
    intros H; inversion H; subst. apply starts_with_spec in E as [t E].
    exists [], t. split; [exact E | reflexivity].
  - destruct (starts_with w (c :: s)) eqn:E.
    + intros H; inversion H; subst. apply starts_with_spec in E as [t E].
      exists [], t. split; [exact E | reflexivity].
    + destruct (find_sub w s) as [j|] eqn:F; [|discriminate].
      intros H; inversion H; subst.
      destruct (IH j eq_refl) as (a & b & -> & L).
      exists (c :: a), b. split; [reflexivity | simpl; congruence].
Qed.

Lemma find_sub_least w s i :
  find_sub w s = Some i ->
  forall a b, s = a ++ w ++ b -> (i <= length a)%nat.
Proof.
  revert i; induction s as [|c s IH]; intros i; simpl.
  - destruct (starts_with w []); [|discriminate]. intros H; inversion H; lia.
  - destruct (starts_with w (c :: s)) eqn:E.
    + intros H; inversion H; lia.
    + destruct (find_sub w s) as [j|] eqn:F; [|discriminate].
      intros H a b Hs; inversion H; subst.
      destruct a as [|x a].
      * simpl in Hs. rewrite Hs in E. rewrite starts_with_app in E. discriminate.
      * simpl in Hs. inversion Hs; subst. simpl. apply le_n_S. eapply IH; eauto.
Qed.

Lemma find_sub_none w s :
  find_sub w s = None -> forall a b, s <> a ++ w ++ b.
Proof.
  induction s as [|c s IH]; simpl.
  - destruct (starts_with w []) eqn:E; [discriminate|]. intros _ a b H.
    destruct a; simpl in H.
    + rewrite H in E. rewrite starts_with_app in E. discriminate.
    + discriminate.
  - destruct (starts_with w (c :: s)) eqn:E; [discriminate|].
    destruct (find_sub w s) eqn:F; [discriminate|]. intros _ a b H.
    destruct a as [|x a]; simpl in H.
    + rewrite H in E. rewrite starts_with_app in E. discriminate.
    + inversion H; subst. eapply IH; eauto.
Qed.

Lemma find_sub_exists w a b : exists i, find_sub w (a ++ w ++ b) = Some i.
Proof.
  destruct (find_sub w (a ++ w ++ b)) as [i|] eqn:F; [eauto|].
  exfalso. eapply find_sub_none; eauto.
Qed.

Lemma find_sub_nil s : find_sub [] s = Some O.
Proof. destruct s; reflexivity. Qed.

Lemma contains_spec w s : contains w s = true <-> exists a b, s = a ++ w ++ b.
Proof.
  unfold contains. destruct (find_sub w s) as [i|] eqn:F.
  - split; [intros _|reflexivity]. apply find_sub_some in F as (a & b & H & _). eauto.
  - split; [discriminate|]. intros (a & b & H). exfalso. eapply find_sub_none; eauto.
Qed.

Lemma contains_cons_false w c s :
  contains w (c :: s) = true -> starts_with w (c :: s) = false -> contains w s = true.
Proof.
  unfold contains. simpl. intros H E. rewrite E in H.
  destruct (find_sub w s); [reflexivity | discriminate].
Qed.

(* ---- firstn / skipn / slice ---- *)

Lemma skipn_app_exact {A} (a b : list A) : skipn (length a) (a ++ b) = b.
Proof. induction a; simpl; auto. Qed.

Lemma firstn_app_exact {A} (a b : list A) : firstn (length a) (a ++ b) = a.
Proof. induction a; simpl; congruence. Qed.

Lemma slice_middle {A} (a m b : list A) :
  slice (length a) (length (a ++ m ++ b) - length b) (a ++ m ++ b) = m.
Proof.
  unfold slice. rewrite skipn_app_exact. rewrite !app_length.
  replace (length a + (length m + length b) - length b - length a)%nat with (length m) by lia.
  apply firstn_app_exact.
Qed.

Lemma split_three {A} (s p q : list A) t u :
  s = p ++ t -> s = u ++ q -> (length p <= length s - length q)%nat ->
  s = p ++ slice (length p) (length s - length q) s ++ q.
Proof.
  intros H1 H2 L.
  assert (Lt : (length q <= length t)%nat).
  { pose proof (f_equal (@length A) H1) as E1. pose proof (f_equal (@length A) H2) as E2.
    rewrite app_length in E1, E2. lia. }
  (* t = m ++ q where m = firstn (|t|-|q|) t *)
  assert (Hq : skipn (length t - length q) t = q).
  { assert (E : p ++ t = u ++ q) by congruence.
    apply (f_equal (skipn (length u))) in E.
    rewrite skipn_app_exact in E.
    assert (Lu : length u = (length p + (length t - length q))%nat).
    { apply (f_equal (@length A)) in H1. apply (f_equal (@length A)) in H2.
      rewrite app_length in *. lia. }
    rewrite Lu in E. rewrite skipn_app in E.
    rewrite skipn_all2 in E by lia. simpl in E.
    replace (length p + (length t - length q) - length p)%nat with (length t - length q)%nat in E by lia.
    exact E. }
  assert (Ls : length s = (length p + length t)%nat).
  { rewrite H1. apply app_length. }
  unfold slice.
  replace (length s - length q - length p)%nat with (length t - length q)%nat by lia.
  assert (Hm : skipn (length p) s = t) by (rewrite H1; apply skipn_app_exact).
  rewrite Hm.
  assert (Ht : t = firstn (length t - length q) t ++ q).
  { pose proof (firstn_skipn (length t - length q) t) as F. rewrite Hq in F. symmetry. exact F. }
  rewrite <- Ht. exact H1.
Qed.
