(* ChunkProofs.v — _package_chunk / _package_groups: the parts made from a chunk tile its source lines
   (nothing lost, duplicated or reordered, whatever the tokenizer / ast / directive oracles answer),
   the want goes to the last part, and each part's line offset is the position of its first line. *)
From XD Require Import Model.Base Model.Parser Spec.Partition Proofs.BaseFacts Proofs.ParserProofs.
From Coq Require Import Lia.
Open Scope nat_scope.

(* ---------- slices along ascending boundaries ---------- *)

Lemma skipn_plus {A} : forall (x y : nat) (l : list A), skipn x (skipn y l) = skipn (y + x) l.
Proof.
  intros x y; revert x. induction y as [|y IH]; intros x l; [reflexivity|].
  destruct l as [|a l]; [simpl; destruct x; reflexivity | simpl; apply IH].
Qed.

Lemma slice_then_skipn {A} (a b : nat) (l : list A) : a <= b -> slice a b l ++ skipn b l = skipn a l.
Proof.
  intros H. unfold slice. replace (skipn b l) with (skipn (b - a) (skipn a l)).
  - apply firstn_skipn.
  - rewrite skipn_plus. f_equal. lia.
Qed.

Lemma Ascending_tail a t : Ascending (a :: t) -> Ascending t.
Proof. destruct t; simpl; tauto. Qed.

Lemma tiles_concat_from {A} (l : list A) : forall a bs, Ascending (a :: bs) ->
  concat (tiles (a :: bs) l) = skipn a l.
Proof.
  intros a bs; revert a. induction bs as [|b bs IH]; intros a H.
  - unfold tiles. simpl. apply app_nil_r.
  - destruct H as [Hab H]. specialize (IH b H). unfold tiles in *.
    change (consecutive_pairs (a :: b :: bs)) with ((a, b) :: consecutive_pairs (b :: bs)).
    cbn [map fst snd]. change (last (a :: b :: bs) 0) with (last (b :: bs) 0).
    cbn [app concat]. rewrite IH. apply slice_then_skipn. lia.
Qed.

Theorem tiles_concat {A} (l : list A) bs :
  hd_error bs = Some 0 -> Ascending bs -> concat (tiles bs l) = l.
Proof.
  destruct bs as [|a bs]; [discriminate|]. simpl. intros E H. inversion E; subst a.
  apply (tiles_concat_from l 0 bs H).
Qed.

Lemma consecutive_pairs_snoc : forall bs a x,
  consecutive_pairs ((a :: bs) ++ [x]) = consecutive_pairs (a :: bs) ++ [(last (a :: bs) 0, x)].
Proof.
  induction bs as [|b bs IH]; intros a x.
  - reflexivity.
  - change ((a :: b :: bs) ++ [x]) with (a :: ((b :: bs) ++ [x])).
    change (consecutive_pairs (a :: (b :: bs) ++ [x])) with ((a, b) :: consecutive_pairs ((b :: bs) ++ [x])).
    rewrite IH. reflexivity.
Qed.

Lemma last_snoc {A} (l : list A) x d : last (l ++ [x]) d = x.
Proof. induction l as [|y l IH]; [reflexivity|]. simpl. destruct (l ++ [x]) eqn:E; [destruct l; discriminate | exact IH]. Qed.

Lemma Ascending_snoc : forall bs a x, Ascending (a :: bs) -> last (a :: bs) 0 < x -> Ascending ((a :: bs) ++ [x]).
Proof.
  induction bs as [|b bs IH]; intros a x H L.
  - simpl in *. split; [exact L | exact I].
  - destruct H as [Hab H]. change ((a :: b :: bs) ++ [x]) with (a :: b :: (bs ++ [x])).
    split; [exact Hab|]. apply (IH b x H L).
Qed.

Lemma Ascending_snoc' bs x : bs <> [] -> Ascending bs -> last bs 0 < x -> Ascending (bs ++ [x]).
Proof. destruct bs as [|a bs]; [congruence|]. intros _. apply Ascending_snoc. Qed.
Lemma consecutive_pairs_snoc' bs x : bs <> [] ->
  consecutive_pairs (bs ++ [x]) = consecutive_pairs bs ++ [(last bs 0, x)].
Proof. destruct bs as [|a bs]; [congruence|]. intros _. apply consecutive_pairs_snoc. Qed.
Lemma hd_error_snoc (bs : list nat) x : bs <> [] -> hd_error (bs ++ [x]) = hd_error bs.
Proof. destruct bs; [congruence | reflexivity]. Qed.
Lemma last_in (bs : list nat) : bs <> [] -> In (last bs 0) bs.
Proof.
  intros H. destruct (@exists_last _ bs H) as (l' & y & E). rewrite E, last_snoc.
  apply in_or_app. right. left. reflexivity.
Qed.

(* ---------- sort_uniq ---------- *)

Lemma insert_sorted_in x l y : In y (insert_sorted x l) <-> y = x \/ In y l.
Proof.
  induction l as [|z l IH]; simpl.
  - intuition.
  - destruct (Nat.ltb x z) eqn:L; [simpl; intuition|].
    destruct (Nat.eqb x z) eqn:E.
    + apply Nat.eqb_eq in E. subst z. simpl. intuition.
    + simpl. rewrite IH. intuition.
Qed.

Lemma sort_uniq_in l y : In y (sort_uniq l) <-> In y l.
Proof.
  induction l as [|x l IH]; simpl; [tauto|]. rewrite insert_sorted_in, IH. intuition.
Qed.

Lemma Ascending_cons_lb a l : Ascending l -> (forall y, In y l -> a < y) -> Ascending (a :: l).
Proof. destruct l as [|b l]; simpl; [tauto|]. intros H L. split; [apply L; left; reflexivity | exact H]. Qed.

Lemma Ascending_lb : forall l a, Ascending (a :: l) -> forall y, In y l -> a < y.
Proof.
  induction l as [|b l IH]; intros a H y Hy; [destruct Hy|].
  destruct H as [Hab H]. destruct Hy as [<-|Hy]; [exact Hab|]. specialize (IH b H y Hy). lia.
Qed.

Lemma insert_sorted_asc x l : Ascending l -> Ascending (insert_sorted x l).
Proof.
  induction l as [|z l IH]; intros H; simpl; [exact I|].
  destruct (Nat.ltb x z) eqn:L.
  - apply Nat.ltb_lt in L. split; [exact L | exact H].
  - destruct (Nat.eqb x z) eqn:E; [exact H|].
    apply Nat.ltb_ge in L. apply Nat.eqb_neq in E.
    apply Ascending_cons_lb.
    + apply IH. eapply Ascending_tail; exact H.
    + intros y Hy. apply insert_sorted_in in Hy. destruct Hy as [->|Hy]; [lia|].
      eapply Ascending_lb; eassumption.
Qed.

Lemma sort_uniq_asc l : Ascending (sort_uniq l).
Proof. induction l as [|x l IH]; simpl; [exact I | apply insert_sorted_asc; exact IH]. Qed.

Lemma sort_uniq_zero_hd l : hd_error (sort_uniq (0 :: l)) = Some 0.
Proof.
  simpl. destruct (sort_uniq l) as [|z t]; simpl; [reflexivity|].
  destruct (Nat.ltb 0 z) eqn:L; [reflexivity|].
  apply Nat.ltb_ge in L. assert (z = 0) by lia. subst z. reflexivity.
Qed.

Lemma Ascending_last_max : forall l a y, Ascending (a :: l) -> In y (a :: l) -> y <= last (a :: l) 0.
Proof.
  induction l as [|b l IH]; intros a y H Hy.
  - destruct Hy as [<-|[]]. simpl. lia.
  - destruct H as [Hab H]. change (last (a :: b :: l) 0) with (last (b :: l) 0).
    destruct Hy as [<-|Hy].
    + specialize (IH b b H (or_introl eq_refl)). lia.
    + apply IH; assumption.
Qed.

Lemma Ascending_last_max' l y : Ascending l -> In y l -> y <= last l 0.
Proof. destruct l as [|a l]; [intros _ []|]. apply Ascending_last_max. Qed.

Lemma filter_asc f : forall l, Ascending l -> Ascending (filter f l).
Proof.
  induction l as [|a l IH]; intros H; simpl; [exact I|].
  assert (Ht := Ascending_tail _ _ H).
  destruct (f a); [|apply IH; exact Ht].
  apply Ascending_cons_lb; [apply IH; exact Ht|].
  intros y Hy. apply filter_In in Hy. destruct Hy as [Hy _]. eapply Ascending_lb; eassumption.
Qed.

Lemma last_opt_last {A} (l : list A) d : last_opt l = match l with [] => None | _ => Some (last l d) end.
Proof.
  unfold last_opt. destruct l as [|x l]; [reflexivity|].
  destruct (@exists_last _ (x :: l)) as (l' & y & E); [discriminate|]. rewrite E.
  rewrite rev_app_distr. simpl. rewrite last_snoc. reflexivity.
Qed.

(* ---------- locate_ps1: the statement starts are ascending ---------- *)

Lemma locate_ps1_asc o src ps1 mode : locate_ps1 o src = Ok (ps1, mode) -> Ascending ps1.
Proof.
  unfold locate_ps1. intros H.
  destruct (balanced_intervals (o_bal o) (map (skipn 4) src)) as [ivs|e]; [|discriminate]. cbn [bind] in H.
  destruct (o_ast o _) as [stmts|e]; [|discriminate]. cbn [bind] in H.
  match type of H with context [filter ?f (sort_uniq ?l)] =>
    assert (A : Ascending (filter f (sort_uniq l))) by (apply filter_asc, sort_uniq_asc);
    set (P := filter f (sort_uniq l)) in * end.
  match type of H with (match ?m with _ => _ end) = _ => destruct m end.
  - inversion H; subst; exact A.
  - destruct (o_semi o _) as [semi|e]; [|discriminate]. cbn [bind] in H. inversion H; subst; exact A.
  - inversion H; subst; exact A.
Qed.

(* ---------- ps1_directives: the forced breaks are statement starts ---------- *)

Lemma ps1_directives_breaks o ex : forall ps1 tab brk,
  ps1_directives o ex ps1 = Ok (tab, brk) -> forall y, In y brk -> In y ps1.
Proof.
  induction ps1 as [|s1 rest IH]; intros tab brk H y Hy.
  - simpl in H. inversion H; subst. destruct Hy.
  - cbn [ps1_directives] in H.
    destruct (o_dirs o _) as [ds|e]; [|discriminate]. cbn [bind] in H.
    destruct (ps1_directives o ex rest) as [[tab0 brk0]|e]; [|discriminate]. cbn [bind] in H.
    specialize (IH tab0 brk0 eq_refl).
    destruct ds as [|d0 ds'].
    + inversion H; subst. right. apply IH. exact Hy.
    + inversion H; subst. destruct Hy as [<-|Hy]; [left; reflexivity|].
      apply in_app_or in Hy. destruct Hy as [Hy|Hy]; [|right; apply IH; exact Hy].
      destruct (d_inline d0); [|destruct Hy]. destruct rest as [|s2 r]; [destruct Hy|].
      destruct Hy as [<-|[]]. right; left; reflexivity.
Qed.

(* ---------- slice_example ---------- *)

Lemma slice_example_ok ea sa tab o n s1 s2 want mode p :
  slice_example ea sa tab o n s1 s2 want mode = Ok p ->
  exec_lines p = slice_to s1 s2 ea /\ orig_lines p = slice_to s1 s2 sa /\
  line_offset p = n + s1 /\ want_lines p = want.
Proof.
  unfold slice_example. destruct (lookup_nat s1 tab).
  - intros H; inversion H; subst; simpl; auto.
  - destruct (o_dirs o _) as [ds|[]]; intros H; inversion H; subst; simpl; auto.
Qed.

Lemma map_res_pairs ea sa tab o n : forall pairs ps,
  map_res (fun ab => slice_example ea sa tab o n (fst ab) (Some (snd ab)) [] M_exec) pairs = Ok ps ->
  map exec_lines ps = map (fun ab => slice (fst ab) (snd ab) ea) pairs /\
  map orig_lines ps = map (fun ab => slice (fst ab) (snd ab) sa) pairs /\
  map line_offset ps = map (fun ab => n + fst ab) pairs /\
  map want_lines ps = repeat [] (length pairs).
Proof.
  induction pairs as [|ab pairs IH]; intros ps H.
  - simpl in H. inversion H; subst. simpl. auto.
  - cbn [map_res] in H.
    destruct (slice_example ea sa tab o n (fst ab) (Some (snd ab)) [] M_exec) as [p|e] eqn:E; [|discriminate].
    cbn [bind] in H. destruct (map_res _ pairs) as [ps'|e]; [|discriminate]. cbn [bind] in H.
    inversion H; subst. apply slice_example_ok in E. destruct E as (E1 & E2 & E3 & E4).
    destruct (IH ps' eq_refl) as (I1 & I2 & I3 & I4). simpl. cbn [slice_to] in E1, E2.
    rewrite E1, E2, E3, E4, I1, I2, I3, I4. auto.
Qed.

Lemma pairs_length : forall bs, length (consecutive_pairs bs) = length bs - 1.
Proof.
  induction bs as [|a [|b bs] IH]; try reflexivity.
  change (consecutive_pairs (a :: b :: bs)) with ((a, b) :: consecutive_pairs (b :: bs)).
  simpl length in *. rewrite IH. lia.
Qed.

Lemma pairs_fst : forall bs, map fst (consecutive_pairs bs) = removelast bs.
Proof.
  induction bs as [|a [|b bs] IH]; try reflexivity.
  change (consecutive_pairs (a :: b :: bs)) with ((a, b) :: consecutive_pairs (b :: bs)).
  cbn [map fst]. rewrite IH. reflexivity.
Qed.

Lemma removelast_last_nat (l : list nat) : l <> [] -> removelast l ++ [last l 0] = l.
Proof. intros H. symmetry. apply app_removelast_last. exact H. Qed.

(* ---------- package_chunk ---------- *)

(* assembling: parts along boundaries bs (from pairs), then the last open part *)
Lemma assemble n (ea sa : list str) want bs ps lastp :
  bs <> [] ->
  map exec_lines ps = map (fun ab => slice (fst ab) (snd ab) ea) (consecutive_pairs bs) ->
  map orig_lines ps = map (fun ab => slice (fst ab) (snd ab) sa) (consecutive_pairs bs) ->
  map line_offset ps = map (fun ab => n + fst ab) (consecutive_pairs bs) ->
  map want_lines ps = repeat [] (length (consecutive_pairs bs)) ->
  exec_lines lastp = skipn (last bs 0) ea -> orig_lines lastp = skipn (last bs 0) sa ->
  line_offset lastp = n + last bs 0 -> want_lines lastp = want ->
  map orig_lines (ps ++ [lastp]) = tiles bs sa /\ map exec_lines (ps ++ [lastp]) = tiles bs ea /\
  map line_offset (ps ++ [lastp]) = map (Nat.add n) bs /\
  map want_lines (ps ++ [lastp]) = repeat [] (length bs - 1) ++ [want].
Proof.
  intros NE E1 E2 E3 E4 L1 L2 L3 L4. rewrite !map_app. cbn [map]. unfold tiles.
  rewrite E1, E2, E3, E4, L1, L2, L3, L4, pairs_length. repeat split.
  rewrite <- (removelast_last_nat bs NE) at 3. rewrite map_app. cbn [map].
  rewrite <- pairs_fst, map_map. reflexivity.
Qed.

(* the tiling, together with where the boundaries come from: 0 or a statement start *)
Definition PartsTileFrom (ps1 : list nat) (lineno : nat) (src want : list str) (ps : list part) : Prop :=
  exists bs, hd_error bs = Some O /\ Ascending bs /\
    map orig_lines ps = tiles bs src /\
    map exec_lines ps = tiles bs (map (skipn 4) src) /\
    map line_offset ps = map (Nat.add lineno) bs /\
    map want_lines ps = repeat [] (length bs - 1) ++ [want] /\
    (forall y, In y bs -> y = 0 \/ In y ps1).

Lemma package_chunk_tiles_from' o raw_src raw_want lineno ps ps1 mode_hint :
  locate_ps1 o (dedent_chunk raw_src) = Ok (ps1, mode_hint) ->
  package_chunk o raw_src raw_want lineno = Ok ps ->
  PartsTileFrom ps1 lineno (dedent_chunk raw_src) (dedent_want raw_src raw_want) ps.
Proof.
  intros LOC.
  unfold package_chunk. destruct raw_src as [|first more]; [discriminate|].
  set (li := line_indent first). set (src := map (skipn li) (first :: more)).
  set (want := map (skipn li) raw_want). set (ea := map (skipn 4) src).
  change (dedent_chunk (first :: more)) with src. change (dedent_want (first :: more) raw_want) with want.
  change (dedent_chunk (first :: more)) with src in LOC. rewrite LOC. cbn [bind]. unfold PartsTileFrom.
  destruct (ps1_directives o ea ps1) as [[tab brk]|e] eqn:PD; [|discriminate]. cbn [bind].
  pose proof (locate_ps1_asc _ _ _ _ LOC) as Aps1.
  pose proof (ps1_directives_breaks _ _ _ _ _ PD) as Hbrk.
  set (brk' := match brk with [] => [] | _ => sort_uniq (0 :: brk) end).
  (* the boundary list of the forced breaks *)
  set (bs1 := match brk' with [] => [0] | _ => brk' end).
  assert (Hbs1 : hd_error bs1 = Some 0 /\ Ascending bs1 /\ consecutive_pairs bs1 = consecutive_pairs brk' /\
                 (forall y, In y bs1 -> y = 0 \/ In y ps1) /\ bs1 <> [] /\
                 match consecutive_pairs brk' with [] => 0 | _ => match last_opt brk' with Some x => x | None => 0 end end
                 = last bs1 0).
  { subst bs1 brk'. destruct brk as [|b0 brk0].
    - simpl. repeat split; auto. intros y [<-|[]]; auto. discriminate.
    - set (L := sort_uniq (0 :: b0 :: brk0)).
      assert (HL : hd_error L = Some 0) by apply sort_uniq_zero_hd.
      assert (AL : Ascending L) by apply sort_uniq_asc.
      assert (IL : forall y, In y L -> y = 0 \/ In y ps1).
      { intros y Hy. subst L. apply (proj1 (sort_uniq_in _ _)) in Hy. destruct (in_inv Hy) as [<-|Hy']; [left; reflexivity | right; apply Hbrk; exact Hy']. }
      destruct L as [|z L'] eqn:EL; [discriminate|].
      repeat split; auto; [discriminate|].
      simpl in HL. inversion HL; subst z.
      destruct L' as [|z2 L'']; [reflexivity|].
      change (consecutive_pairs (0 :: z2 :: L'')) with ((0, z2) :: consecutive_pairs (z2 :: L'')). cbv iota.
      rewrite (last_opt_last _ 0). reflexivity. }
  destruct Hbs1 as (Hhd & Hasc & Hpairs & Hin & Hne & Hs1a).
  rewrite Hs1a. clear Hs1a. rewrite <- Hpairs. clear Hpairs. clearbody bs1. clear brk' Hbrk.
  destruct (map_res _ (consecutive_pairs bs1)) as [parts1|e] eqn:MR; [|discriminate]. cbn [bind].
  apply map_res_pairs in MR. destruct MR as (M1 & M2 & M3 & M4).
  set (s1a := last bs1 0).
  destruct (nonempty want && match mode_hint with M_exec => false | _ => true end) eqn:WE.
  - (* the final expression may get its own part *)
    rewrite (last_opt_last ps1 0). destruct ps1 as [|q0 qs] eqn:Eps1; [discriminate|]. rewrite <- Eps1 in *.
    set (s2 := last ps1 0).
    destruct (Nat.eqb s2 s1a) eqn:EQ; cbn [bind].
    + destruct (slice_example ea src tab o lineno s1a None want _) as [lastp|e] eqn:SL; [|discriminate]. cbn [bind].
      intros H. inversion H; subst ps. clear H. apply slice_example_ok in SL. destruct SL as (S1 & S2 & S3 & S4).
      cbn [slice_to] in S1, S2. exists bs1. split; [exact Hhd|]. split; [exact Hasc|].
      cbn [app]. rewrite <- !and_assoc. split; [rewrite !and_assoc; apply assemble; assumption | exact Hin].
    + destruct (slice_example ea src tab o lineno s1a (Some s2) [] M_exec) as [p2|e] eqn:SP; [|discriminate]. cbn [bind].
      destruct (slice_example ea src tab o lineno s2 None want _) as [lastp|e] eqn:SL; [|discriminate]. cbn [bind].
      intros H. inversion H; subst ps. clear H.
      apply slice_example_ok in SP. destruct SP as (P1 & P2 & P3 & P4).
      apply slice_example_ok in SL. destruct SL as (S1 & S2 & S3 & S4). cbn [slice_to] in *.
      apply Nat.eqb_neq in EQ.
      assert (LT : s1a < s2).
      { assert (s1a <= s2); [|lia]. subst s1a s2.
        destruct (Hin (last bs1 0) (last_in bs1 Hne)) as [->|Hy]; [lia|].
        apply Ascending_last_max'; assumption. }
      exists (bs1 ++ [s2]). split; [rewrite hd_error_snoc; assumption|].
      split; [apply Ascending_snoc'; assumption|].
      assert (CP : consecutive_pairs (bs1 ++ [s2]) = consecutive_pairs bs1 ++ [(s1a, s2)])
        by (apply consecutive_pairs_snoc'; assumption).
      replace (parts1 ++ [p2; lastp]) with ((parts1 ++ [p2]) ++ [lastp]) by (rewrite <- app_assoc; reflexivity).
      fold ea. rewrite <- !and_assoc. split.
      2: { intros y Hy. apply in_app_or in Hy. destruct Hy as [Hy|[<-|[]]]; [apply Hin; exact Hy|].
           right. subst s2. rewrite Eps1. apply last_in. discriminate. }
      rewrite !and_assoc. apply assemble; rewrite ?last_snoc; try assumption.
      * destruct bs1; discriminate.
      * rewrite CP, !map_app. cbn [map fst snd]. rewrite M1, P1. reflexivity.
      * rewrite CP, !map_app. cbn [map fst snd]. rewrite M2, P2. reflexivity.
      * rewrite CP, !map_app. cbn [map fst snd]. rewrite M3, P3. reflexivity.
      * rewrite CP, !map_app, app_length. cbn [map length]. rewrite M4, P4, repeat_app. reflexivity.
  - cbn [bind].
    destruct (slice_example ea src tab o lineno s1a None want _) as [lastp|e] eqn:SL; [|discriminate]. cbn [bind].
    intros H. inversion H; subst ps. clear H. apply slice_example_ok in SL. destruct SL as (S1 & S2 & S3 & S4).
    cbn [slice_to] in S1, S2. exists bs1. split; [exact Hhd|]. split; [exact Hasc|].
    cbn [app]. rewrite <- !and_assoc. split; [rewrite !and_assoc; apply assemble; assumption | exact Hin].
Qed.

Lemma package_chunk_tiles_from o raw_src raw_want lineno ps :
  package_chunk o raw_src raw_want lineno = Ok ps ->
  exists ps1 mode, locate_ps1 o (dedent_chunk raw_src) = Ok (ps1, mode) /\
    PartsTileFrom ps1 lineno (dedent_chunk raw_src) (dedent_want raw_src raw_want) ps.
Proof.
  intros H. destruct (locate_ps1 o (dedent_chunk raw_src)) as [[ps1 mode]|e] eqn:LOC.
  - exists ps1, mode. split; [reflexivity|]. eapply package_chunk_tiles_from'; eassumption.
  - exfalso. unfold package_chunk in H. destruct raw_src as [|first more]; [discriminate|].
    change (map (skipn (line_indent first)) (first :: more)) with (dedent_chunk (first :: more)) in H.
    rewrite LOC in H. discriminate.
Qed.

Theorem package_chunk_tiles o raw_src raw_want lineno ps :
  package_chunk o raw_src raw_want lineno = Ok ps ->
  PartsTile lineno (dedent_chunk raw_src) (dedent_want raw_src raw_want) ps.
Proof.
  intros H. apply package_chunk_tiles_from in H. destruct H as (ps1 & mode & _ & bs & A & B & C & D & E & F & _).
  exists bs. repeat split; assumption.
Qed.

(* the source lines of a chunk are the concatenation of its parts' lines, in order *)
Corollary package_chunk_partition o raw_src raw_want lineno ps :
  package_chunk o raw_src raw_want lineno = Ok ps ->
  concat (map orig_lines ps) = dedent_chunk raw_src /\
  concat (map exec_lines ps) = map (skipn 4) (dedent_chunk raw_src) /\
  concat (map want_lines ps) = dedent_want raw_src raw_want.
Proof.
  intros H. apply package_chunk_tiles in H. destruct H as (bs & Hhd & Hasc & E1 & E2 & _ & E4).
  rewrite E1, E2, E4, !tiles_concat by assumption. repeat split.
  rewrite concat_app. simpl. rewrite app_nil_r.
  clear E4. induction (length bs - 1) as [|k IH]; [reflexivity | simpl; exact IH].
Qed.

Corollary package_chunk_exec_partition o raw_src raw_want lineno ps :
  package_chunk o raw_src raw_want lineno = Ok ps ->
  concat (map exec_lines ps) = map (skipn 4) (dedent_chunk raw_src).
Proof. intros H. exact (proj1 (proj2 (package_chunk_partition o raw_src raw_want lineno ps H))). Qed.

(* ---------- package_groups / parse ---------- *)

Theorem package_groups_tiled o : forall chunks lineno items,
  package_groups o chunks lineno = Ok items -> Tiled lineno chunks items.
Proof.
  induction chunks as [|c rest IH]; intros n items H.
  - simpl in H. inversion H. constructor.
  - destruct c as [ls|s w]; cbn [package_groups] in H.
    + destruct (package_groups o rest (n + length ls)) as [r|e] eqn:R; [|discriminate]. cbn [bind] in H.
      inversion H; subst. constructor. apply IH. exact R.
    + destruct (package_chunk o s w n) as [ps|e] eqn:PC; [|discriminate]. cbn [bind] in H.
      destruct (package_groups o rest (n + length s + length w)) as [r|e] eqn:R; [|discriminate]. cbn [bind] in H.
      inversion H; subst. constructor; [apply package_chunk_tiles in PC; exact PC | apply IH; exact R].
Qed.

(* end to end: a parsed docstring is partitioned -- lines into labelled lines, labelled lines into
   chunks, chunks into text items and parts *)
Theorem parse_partition o s items :
  parse o s = Parsed items ->
  exists ll gs,
    length ll = length (srclines (normalize_docstring s)) /\
    Forall2 SameLineUpToHack ll (srclines (normalize_docstring s)) /\
    flatten_chunks gs = map snd ll /\
    Tiled 0 gs items.
Proof.
  unfold parse. destruct (label_lines (o_bal o) (normalize_docstring s)) as [ll|e] eqn:L.
  2: { destruct e; discriminate. }
  destruct (group_lines ll) as [gs|e] eqn:G.
  2: { destruct e; discriminate. }
  destruct (package_groups o gs 0) as [its|e] eqn:P.
  2: { destruct e; discriminate. }
  intros H. inversion H; subst. exists ll, gs.
  destruct (label_lines_partition _ _ _ L) as [A B].
  repeat split; [exact A | exact B | apply group_lines_partition; exact G | apply package_groups_tiled with (o := o); exact P].
Qed.

(* ---------- line offsets are line indices ---------- *)

Lemma hack_comments_length : forall lines starts i, length (hack_comments lines starts i) = length lines.
Proof. induction lines as [|l ls IH]; intros starts i; simpl; [reflexivity | rewrite IH; reflexivity]. Qed.

Lemma locate_ps1_in_range o src ps1 mode :
  AstInRange o -> locate_ps1 o src = Ok (ps1, mode) -> forall x, In x ps1 -> x < length src.
Proof.
  intros HR. unfold locate_ps1. intros H.
  destruct (balanced_intervals (o_bal o) (map (skipn 4) src)) as [ivs|e]; [|discriminate]. cbn [bind] in H.
  destruct (o_ast o _) as [stmts|e] eqn:A; [|discriminate]. cbn [bind] in H.
  assert (R : forall x, In x (map st_line stmts) -> x < length src).
  { intros x Hx. apply in_map_iff in Hx. destruct Hx as (s & <- & Hs).
    specialize (HR _ _ A s Hs). rewrite hack_comments_length, map_length in HR. exact HR. }
  match type of H with context [filter ?f (sort_uniq ?l)] =>
    assert (P : forall x, In x (filter f (sort_uniq l)) -> x < length src)
      by (intros x Hx; apply filter_In in Hx; destruct Hx as [Hx _]; apply (proj1 (sort_uniq_in _ _)) in Hx; apply R; exact Hx);
    set (F := filter f (sort_uniq l)) in * end.
  match type of H with (match ?m with _ => _ end) = _ => destruct m end.
  - inversion H; subst; exact P.
  - destruct (o_semi o _) as [semi|e]; [|discriminate]. cbn [bind] in H. inversion H; subst; exact P.
  - inversion H; subst; exact P.
Qed.

Lemma slice_length {A} (a b : nat) (l : list A) : a <= b -> b <= length l -> length (slice a b l) = b - a.
Proof. intros H1 H2. unfold slice. rewrite firstn_length, skipn_length. lia. Qed.

Lemma tiles_consecutive (src : list str) n : forall bs a ps,
  Ascending (a :: bs) -> (forall y, In y (a :: bs) -> y <= length src) ->
  map line_offset ps = map (Nat.add n) (a :: bs) -> map orig_lines ps = tiles (a :: bs) src ->
  Consecutive (n + a) ps (n + length src).
Proof.
  induction bs as [|b bs IH]; intros a ps HA HB HO HT.
  - unfold tiles in HT. simpl in HT, HO. destruct ps as [|p [|q r]]; try discriminate.
    cbn [map] in HO, HT. inversion HO as [O1]. inversion HT as [T1]. cbn [Consecutive]. split; [reflexivity|].
    rewrite O1, T1, skipn_length. specialize (HB a (or_introl eq_refl)). lia.
  - destruct ps as [|p r]; [discriminate|].
    unfold tiles in HT. change (consecutive_pairs (a :: b :: bs)) with ((a, b) :: consecutive_pairs (b :: bs)) in HT.
    cbn [map fst snd app] in HT. change (last (a :: b :: bs) 0) with (last (b :: bs) 0) in HT.
    cbn [map] in HO. inversion HO as [[O1 O2]]. inversion HT as [[T1 T2]]. destruct HA as [Hab HA].
    cbn [Consecutive]. split; [reflexivity|]. rewrite O1, T1.
    rewrite slice_length; [| lia | apply HB; right; left; reflexivity].
    replace (n + a + (b - a)) with (n + b) by lia.
    apply IH; [exact HA | intros y Hy; apply HB; right; exact Hy | exact O2 | exact T2].
Qed.

Theorem package_chunk_consecutive o raw_src raw_want lineno ps :
  AstInRange o -> package_chunk o raw_src raw_want lineno = Ok ps ->
  Consecutive lineno ps (lineno + length raw_src).
Proof.
  intros HR H. apply package_chunk_tiles_from in H.
  destruct H as (ps1 & mode & LOC & bs & Hhd & Hasc & E1 & _ & E3 & _ & Hin).
  pose proof (locate_ps1_in_range _ _ _ _ HR LOC) as R.
  destruct bs as [|a bs]; [discriminate|]. simpl in Hhd. inversion Hhd; subst a.
  assert (L : length (dedent_chunk raw_src) = length raw_src).
  { destruct raw_src as [|f m]; [reflexivity|]. unfold dedent_chunk. apply map_length. }
  rewrite <- L. rewrite <- (Nat.add_0_r lineno) at 1.
  apply tiles_consecutive with (bs := bs); try assumption.
  intros y Hy. destruct (Hin y Hy) as [->|Hy']; [lia|]. specialize (R y Hy'). lia.
Qed.

Theorem package_groups_laid_out o : AstInRange o -> forall chunks lineno items,
  package_groups o chunks lineno = Ok items -> LaidOut lineno chunks items.
Proof.
  intros HR. induction chunks as [|c rest IH]; intros n items H.
  - simpl in H. inversion H. constructor.
  - destruct c as [ls|s w]; cbn [package_groups] in H.
    + destruct (package_groups o rest (n + length ls)) as [r|e] eqn:R; [|discriminate]. cbn [bind] in H.
      inversion H; subst. constructor. apply IH. exact R.
    + destruct (package_chunk o s w n) as [ps|e] eqn:PC; [|discriminate]. cbn [bind] in H.
      destruct (package_groups o rest (n + length s + length w)) as [r|e] eqn:R; [|discriminate]. cbn [bind] in H.
      inversion H; subst. constructor; [eapply package_chunk_consecutive; eassumption | apply IH; exact R].
Qed.

(* end to end: the line offset recorded in each part is the index of its first line among the labelled lines,
   which correspond one to one to the docstring's lines *)
Theorem parse_offsets o s items :
  AstInRange o -> parse o s = Parsed items ->
  exists (ll : list (label * str)) gs,
    length ll = length (srclines (normalize_docstring s)) /\
    flatten_chunks gs = map snd ll /\
    LaidOut 0 gs items.
Proof.
  intros HR. unfold parse. destruct (label_lines (o_bal o) (normalize_docstring s)) as [ll|e] eqn:L.
  2: { destruct e; discriminate. }
  destruct (group_lines ll) as [gs|e] eqn:G.
  2: { destruct e; discriminate. }
  destruct (package_groups o gs 0) as [its|e] eqn:P.
  2: { destruct e; discriminate. }
  intros H. inversion H; subst. exists ll, gs.
  destruct (label_lines_partition _ _ _ L) as [A _].
  repeat split; [exact A | apply group_lines_partition; exact G | apply package_groups_laid_out with (o := o); assumption].
Qed.

(* ---------- the hypotheses are satisfiable: a concrete chunk under a concrete in-range oracle ---------- *)
(* two statements `>>> a` / `>>> b` followed by the want `w`; the oracle answers as CPython does on them:
   every slice is balanced, one expression statement per line, no semicolon, no directive *)
Definition demo_oracle : oracles :=
  mkOracles (fun _ => Ok T_ok)
            (fun lines => Ok (map (fun i => mkStmt i None true) (seq 0 (length lines))))
            (fun _ => Ok false) (fun _ => Ok []).

Lemma demo_oracle_in_range : AstInRange demo_oracle.
Proof.
  intros lines stmts H s Hs. simpl in H. inversion H; subst. apply in_map_iff in Hs.
  destruct Hs as (i & <- & Hi). apply in_seq in Hi. unfold st_line. simpl. lia.
Qed.

Definition demo_src : list str := [[62;62;62;32;97]; [62;62;62;32;98]]%N.
Definition demo_want : list str := [[119]]%N.

Example demo_chunk_two_parts :
  exists p1 p2, package_chunk demo_oracle demo_src demo_want 7 = Ok [p1; p2] /\
    line_offset p1 = 7 /\ line_offset p2 = 8 /\ want_lines p1 = [] /\ want_lines p2 = demo_want /\
    Consecutive 7 [p1; p2] 9.
Proof. vm_compute. eexists. eexists. repeat split. Qed.
