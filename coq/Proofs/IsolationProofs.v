(* IsolationProofs.v — the process-wide default directive state is never written, for every
   history of runs; each run works on cells it allocated itself (C11). *)
From XD Require Import Model.Base Model.Parser Model.Directive Model.Isolation Proofs.BaseFacts.
Open Scope N_scope.

(* every set referenced by a state dict lives in a cell of the range [lo, hi) *)
Definition vrange (lo hi : nat) (kv : str * hvalue) : Prop :=
  match snd kv with HSet c => (lo <= c < hi)%nat | HBool _ => True end.
Definition InRange (lo hi : nat) (d : hdict) : Prop := Forall (vrange lo hi) d.

Lemma InRange_weaken lo hi hi' d : (hi <= hi')%nat -> InRange lo hi d -> InRange lo hi' d.
Proof.
  intros H. unfold InRange. apply Forall_impl. intros [k v]. unfold vrange. simpl. destruct v; [tauto | lia].
Qed.

Lemma hset_range lo hi k v d : InRange lo hi d -> vrange lo hi (k, v) -> InRange lo hi (hset k v d).
Proof.
  intros H V. induction d as [|[k' v'] d IHd]; simpl; [constructor; [exact V | constructor]|].
  inversion H; subst. destruct (eqb_str k k').
  - constructor; [exact V | assumption].
  - constructor; [assumption | apply IHd; assumption].
Qed.

Lemma hget_range lo hi k d c : InRange lo hi d -> hget k d = Some (HSet c) -> (lo <= c < hi)%nat.
Proof.
  intros H. induction d as [|[k' v'] d IH]; simpl; [discriminate|]. inversion H; subst.
  destruct (eqb_str k k'); [intros X; inversion X; subst; exact H2 | apply IH; exact H3].
Qed.

Lemma hwrite_length h c v : length (hwrite h c v) = length h.
Proof. revert c. induction h as [|x h IH]; intros c; simpl; [reflexivity|]. destruct c; simpl; [reflexivity | rewrite IH; reflexivity]. Qed.

Lemma hwrite_firstn h c v n : (n <= c)%nat -> firstn n (hwrite h c v) = firstn n h.
Proof.
  revert c n. induction h as [|x h IH]; intros c n H; simpl; [reflexivity|].
  destruct c; simpl.
  - assert (n = O) by lia. subst. reflexivity.
  - destruct n; simpl; [reflexivity|]. rewrite IH by lia. reflexivity.
Qed.

Lemma halloc_firstn h v n : (n <= length h)%nat -> firstn n (fst (halloc h v)) = firstn n h.
Proof. intros H. unfold halloc. simpl. rewrite firstn_app. replace (n - length h)%nat with O by lia. simpl. rewrite app_nil_r. reflexivity. Qed.

(* deepcopy only allocates: the old heap is a prefix of the new one and every cell of the copy is new *)
Lemma deepcopy_spec d : forall h h' d',
  deepcopy h d = (h', d') ->
  firstn (length h) h' = h /\ (length h <= length h')%nat /\ InRange (length h) (length h') d'.
Proof.
  induction d as [|[k v] r IH]; intros h h' d' H; simpl in H.
  - inversion H; subst. rewrite firstn_all. repeat split; [lia | constructor].
  - destruct v as [b|c].
    + destruct (deepcopy h r) as [h1 r1] eqn:E. inversion H; subst.
      destruct (IH _ _ _ E) as (A & B & C). repeat split; try assumption. constructor; [exact I | exact C].
    + unfold halloc in H. destruct (deepcopy (h ++ [hread h c]) r) as [h2 r2] eqn:E. inversion H; subst.
      destruct (IH _ _ _ E) as (A & B & C). rewrite app_length in *. simpl in *. repeat split.
      * assert (X : firstn (length h) (firstn (length h + 1) h') = firstn (length h) h')
          by (rewrite firstn_firstn; f_equal; lia).
        rewrite <- X, A, firstn_app, Nat.sub_diag, firstn_all. simpl. apply app_nil_r.
      * lia.
      * constructor; [unfold vrange; simpl; lia|].
        eapply Forall_impl; [|exact C]. intros [k' v']. unfold vrange. simpl. destruct v'; [tauto | lia].
Qed.

(* a state all of whose sets are in cells >= n, inside the heap *)
Record Owns (n : nat) (h : heap) (st : hstate) : Prop := mkOwns {
  ow_len : (n <= length h)%nat;
  ow_global : InRange n (length h) (hs_global st);
  ow_inline : InRange n (length h) (hs_inline st)
}.

Lemma fold_hset_bool lo hi ds : forall g, InRange lo hi g ->
  InRange lo hi (fold_left (fun d kv => hset (fst kv) (HBool (snd kv)) d) ds g).
Proof.
  induction ds as [|[k b] r IH]; intros g H; simpl; [exact H|]. apply IH. apply hset_range; [exact H | exact I].
Qed.

Lemma hs_init_owns h defaults ds h' st : hs_init h defaults ds = (h', st) ->
  firstn (length h) h' = h /\ Owns (length h) h' st.
Proof.
  unfold hs_init. destruct (deepcopy h defaults) as [h1 g] eqn:E. intros H. inversion H; subst.
  destruct (deepcopy_spec _ _ _ _ E) as (A & B & C). split; [exact A|].
  constructor; simpl; [exact B | apply fold_hset_bool; exact C | constructor].
Qed.

(* one effect keeps everything below n untouched and the state inside its own cells *)
Lemma happly_owns n h st e h' st' : Owns n h st -> happly h st e = Some (h', st') ->
  firstn n h' = firstn n h /\ Owns n h' st'.
Proof.
  intros [L G I] H. destruct e as [inl key b | inl add key arg]; simpl in H.
  - destruct inl; inversion H; subst; (split; [reflexivity|]); constructor; simpl; try assumption;
      apply hset_range; try assumption; exact Logic.I.
  - destruct inl.
    + (* inline set operation *)
      destruct (hget key (hs_inline st)) as [v|] eqn:GI.
      * destruct v as [b|c]; [discriminate|]. inversion H; subst.
        pose proof (hget_range _ _ _ _ _ I GI) as R. split.
        -- apply hwrite_firstn. lia.
        -- constructor; simpl; rewrite hwrite_length; assumption.
      * destruct (hget key (hs_global st)) as [[b|c]|] eqn:GG; try discriminate.
        unfold halloc in H. inversion H; subst. split.
        -- rewrite hwrite_firstn by lia. rewrite firstn_app. replace (n - length h)%nat with O by lia.
           simpl. apply app_nil_r.
        -- constructor; simpl; rewrite hwrite_length, app_length; simpl.
           ++ lia.
           ++ eapply InRange_weaken; [|exact G]. lia.
           ++ apply hset_range; [eapply InRange_weaken; [|exact I]; lia | unfold vrange; simpl; lia].
    + destruct (hget key (hs_global st)) as [[b|c]|] eqn:GG; try discriminate. inversion H; subst.
      pose proof (hget_range _ _ _ _ _ G GG) as R. split.
      * apply hwrite_firstn. lia.
      * constructor; simpl; rewrite hwrite_length; assumption.
Qed.

Lemma happly_all_owns n es : forall h st h' st', Owns n h st -> happly_all h st es = Some (h', st') ->
  firstn n h' = firstn n h /\ Owns n h' st'.
Proof.
  induction es as [|e r IH]; intros h st h' st' O H; simpl in H.
  - inversion H; subst. split; [reflexivity | exact O].
  - destruct (happly h st e) as [[h1 st1]|] eqn:E; [|discriminate].
    destruct (happly_owns _ _ _ _ _ _ O E) as [A B]. destruct (IH _ _ _ _ B H) as [C D].
    split; [rewrite C; exact A | exact D].
Qed.

Lemma hs_updates_owns n parts : forall h st, Owns n h st -> firstn n (hs_updates h st parts) = firstn n h.
Proof.
  induction parts as [|es r IH]; intros h st O; simpl; [reflexivity|].
  destruct (hs_update h st es) as [[h' st']|] eqn:U; [|reflexivity].
  unfold hs_update in U.
  assert (O0 : Owns n h (mkHS (hs_global st) [])) by (destruct O; constructor; simpl; try assumption; constructor).
  destruct (happly_all_owns _ _ _ _ _ _ O0 U) as [A B]. rewrite (IH _ _ B). exact A.
Qed.

(* a run leaves every cell that existed before it untouched: in particular the cells of the defaults *)
Theorem run_preserves_heap h defaults ds parts :
  firstn (length h) (run_directives h defaults ds parts) = h.
Proof.
  unfold run_directives. destruct (hs_init h defaults ds) as [h' st] eqn:E.
  destruct (hs_init_owns _ _ _ _ _ E) as [A O]. rewrite (hs_updates_owns _ _ _ _ O). exact A.
Qed.

Lemma run_heap_grows h defaults ds parts : (length h <= length (run_directives h defaults ds parts))%nat.
Proof.
  pose proof (run_preserves_heap h defaults ds parts) as H.
  apply (f_equal (@length _)) in H. rewrite firstn_length in H. lia.
Qed.

(* for every history of runs (any order, repetitions, any directives, raising updates included) *)
Theorem defaults_never_written hist : forall h defaults,
  firstn (length h) (exec_history h defaults hist) = h.
Proof.
  unfold exec_history. induction hist as [|r rs IH]; intros h defaults; simpl; [apply firstn_all|].
  set (h1 := run_directives h defaults (fst r) (snd r)).
  pose proof (IH h1 defaults) as H1.
  pose proof (run_preserves_heap h defaults (fst r) (snd r)) as H0. fold h1 in H0.
  pose proof (run_heap_grows h defaults (fst r) (snd r)) as G. fold h1 in G.
  rewrite <- H0 at 2. rewrite <- H1 at 2. rewrite firstn_firstn. f_equal. lia.
Qed.

Lemma nth_firstn_lt {A} (l : list A) n c d : (c < n)%nat -> nth c (firstn n l) d = nth c l d.
Proof.
  revert n c. induction l as [|x l IH]; intros n c H; [destruct n; destruct c; reflexivity|].
  destruct n; [lia|]. destruct c; simpl; [reflexivity | apply IH; lia].
Qed.

(* hence what a new RuntimeState starts from does not depend on the history *)
Corollary default_contents_stable hist h defaults c :
  (c < length h)%nat -> hread (exec_history h defaults hist) c = hread h c.
Proof.
  intros H. pose proof (defaults_never_written hist h defaults) as P. unfold hread.
  rewrite <- P at 2. rewrite nth_firstn_lt by exact H. reflexivity.
Qed.
