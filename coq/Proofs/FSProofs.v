(* FSProofs.v — module name <-> path resolution agrees with the import system (C17). *)
From XD Require Import Model.Base Model.FS Spec.ImportResolve Proofs.BaseFacts.
Open Scope N_scope.

Section FS.
Variable fs : fsys.
Hypothesis W : WFfs fs.

Lemma exists_init_is_package d n : exists_ fs (d ++ [n; INIT]) = is_package fs (d ++ [n]).
Proof.
  unfold exists_, is_package, isdir, isfile.
  replace (d ++ [n; INIT]) with ((d ++ [n]) ++ [INIT]) by (rewrite <- app_assoc; reflexivity).
  destruct (fs ((d ++ [n]) ++ [INIT])) eqn:E.
  - destruct (fs (d ++ [n])); reflexivity.
  - rewrite (wf_parent fs W (d ++ [n]) INIT) by congruence. reflexivity.
  - exfalso. exact (wf_init_file fs W _ E).
Qed.

Lemma exists_and_init d : exists_ fs d && isfile fs (d ++ [INIT]) = is_package fs d.
Proof.
  unfold exists_, is_package, isdir, isfile. destruct (fs (d ++ [INIT])) eqn:E.
  - destruct (fs d); reflexivity.
  - rewrite (wf_parent fs W d INIT) by congruence. reflexivity.
  - destruct (fs d); reflexivity.
Qed.

Lemma with_py_cons n m rest : with_py (n :: m :: rest) = n :: with_py (m :: rest).
Proof. unfold with_py. reflexivity. Qed.

(* one step of the recursion: a leading part must be a regular package *)
Lemma check_dpath_cons d n m rest :
  check_dpath fs d (n :: m :: rest) =
  if is_package fs (d ++ [n]) then check_dpath fs (d ++ [n]) (m :: rest) else None.
Proof.
  unfold check_dpath. cbn [isvalid]. rewrite exists_init_is_package.
  destruct (is_package fs (d ++ [n])) eqn:P.
  - rewrite andb_true_l. rewrite with_py_cons.
    replace (d ++ n :: m :: rest) with ((d ++ [n]) ++ m :: rest) by (rewrite <- app_assoc; reflexivity).
    replace (d ++ n :: with_py (m :: rest)) with ((d ++ [n]) ++ with_py (m :: rest)) by (rewrite <- app_assoc; reflexivity).
    reflexivity.
  - rewrite andb_false_l, !andb_false_r. reflexivity.
Qed.

(* resolving a dotted name under one root finds exactly what the interpreter's regular import finds *)
Theorem check_dpath_resolve parts : forall d, check_dpath fs d parts = resolve fs d parts.
Proof.
  induction parts as [|n rest IH]; intros d; [reflexivity|].
  destruct rest as [|m rest].
  - unfold check_dpath. cbn [isvalid resolve]. rewrite !andb_true_r.
    replace (d ++ [n]) with (d ++ [n]) by reflexivity.
    rewrite exists_and_init. unfold with_py. simpl removelast. simpl last. rewrite app_nil_l.
    destruct (is_package fs (d ++ [n])); reflexivity.
  - rewrite check_dpath_cons. cbn [resolve]. rewrite IH. reflexivity.
Qed.

Theorem syspath_resolve roots parts :
  syspath_modname_to_modpath fs roots parts = resolve_roots fs roots parts.
Proof.
  induction roots as [|d r IH]; simpl; [reflexivity|]. rewrite check_dpath_resolve, IH. reflexivity.
Qed.

(* with several roots the first root, in order, in which the name resolves is used *)
Theorem first_root_wins roots1 d roots2 parts p :
  (forall r, In r roots1 -> resolve fs r parts = None) -> resolve fs d parts = Some p ->
  syspath_modname_to_modpath fs (roots1 ++ d :: roots2) parts = Some p.
Proof.
  intros H1 H2. rewrite syspath_resolve. induction roots1 as [|r rs IH]; simpl.
  - rewrite H2. reflexivity.
  - rewrite (H1 r (or_introl eq_refl)). apply IH. intros r' Hr'. apply H1. right. exact Hr'.
Qed.

(* ---------- shape of what is found ---------- *)
Definition NoInitName (parts : list name) : Prop := forall n, In n parts -> n <> INIT /\ n ++ DOTPY <> INIT.

(* the found path is root ++ parts (a package) or root ++ parts with .py on the last part, and every
   directory strictly between the root and it is a regular package *)
Lemma resolve_shape parts : forall d p, resolve fs d parts = Some p ->
  (p = d ++ parts /\ is_package fs p = true \/ p = d ++ with_py parts /\ isfile fs p = true) /\
  isvalid fs d parts = true.
Proof.
  induction parts as [|n rest IH]; intros d p H; [discriminate|].
  destruct rest as [|m rest].
  - cbn [resolve] in H. split; [|reflexivity].
    destruct (is_package fs (d ++ [n])) eqn:P.
    + inversion H; subst. left. split; [reflexivity | exact P].
    + destruct (isfile fs (d ++ [n ++ DOTPY])) eqn:F; [|discriminate]. inversion H; subst.
      right. split; [reflexivity | exact F].
  - cbn [resolve] in H. destruct (is_package fs (d ++ [n])) eqn:P; [|discriminate].
    destruct (IH (d ++ [n]) p H) as [S V]. split.
    + rewrite with_py_cons. destruct S as [[A B]|[A B]]; [left|right]; (split; [|exact B]);
        rewrite A, <- app_assoc; reflexivity.
    + change (isvalid fs d (n :: m :: rest)) with (exists_ fs (d ++ [n; INIT]) && isvalid fs (d ++ [n]) (m :: rest)).
      rewrite exists_init_is_package, P, V. reflexivity.
Qed.


(* ---------- split_modpath ---------- *)
Lemma climb_spec mids : forall base rel,
  (forall k, (0 < k <= length mids)%nat -> exists_ fs ((base ++ firstn k mids) ++ [INIT]) = true) ->
  exists_ fs (base ++ [INIT]) = false ->
  climb fs (rev (base ++ mids)) rel = Some (base, mids ++ rel).
Proof.
  induction mids as [|m ms IH] using rev_ind; intros base rel Hall Hroot.
  - rewrite app_nil_r. simpl. destruct (rev base) as [|x r] eqn:R.
    + simpl. assert (B : base = []) by (destruct base; [reflexivity | apply (f_equal (@length _)) in R; rewrite rev_length in R; discriminate]).
      subst base. simpl in Hroot. rewrite Hroot. reflexivity.
    + cbn [climb]. rewrite <- R, rev_involutive, Hroot. reflexivity.
  - rewrite app_assoc, rev_app_distr. simpl rev. cbn [app climb].
    assert (E : exists_ fs (rev (m :: rev (base ++ ms)) ++ [INIT]) = true).
    { simpl rev. rewrite rev_involutive. specialize (Hall (length (ms ++ [m]))).
      rewrite firstn_all in Hall.
      replace ((base ++ ms) ++ [m]) with (base ++ ms ++ [m]) by (rewrite app_assoc; reflexivity).
      apply Hall. rewrite app_length. simpl. lia. }
    rewrite E. rewrite IH.
    + rewrite <- app_assoc. reflexivity.
    + intros k Hk. specialize (Hall k). rewrite firstn_app in Hall.
      replace (k - length ms)%nat with 0%nat in Hall by lia. simpl in Hall. rewrite app_nil_r in Hall.
      apply Hall. rewrite app_length. simpl. lia.
    + exact Hroot.
Qed.

Lemma isvalid_prefixes mids : forall d x, isvalid fs d (mids ++ [x]) = true ->
  forall k, (0 < k <= length mids)%nat -> exists_ fs ((d ++ firstn k mids) ++ [INIT]) = true.
Proof.
  induction mids as [|m ms IH]; intros d x H k Hk; [simpl in Hk; lia|].
  simpl app in H. destruct (ms ++ [x]) as [|y r] eqn:E; [destruct ms; discriminate|].
  change (isvalid fs d (m :: y :: r)) with (exists_ fs (d ++ [m; INIT]) && isvalid fs (d ++ [m]) (y :: r)) in H.
  apply andb_true_iff in H. destruct H as [H1 H2]. rewrite <- E in H2.
  destruct k as [|k]; [lia|]. simpl firstn. destruct k as [|k].
  - simpl. rewrite <- app_assoc. exact H1.
  - replace ((d ++ m :: firstn (S k) ms) ++ [INIT]) with (((d ++ [m]) ++ firstn (S k) ms) ++ [INIT])
      by (rewrite <- !app_assoc; reflexivity).
    apply (IH (d ++ [m]) x H2). simpl in Hk. lia.
Qed.

(* splitting: the directory that must be on the search path, and the relative path; every directory
   strictly between them is a regular package and the directory itself is not *)
Theorem split_modpath_spec base mids fname :
  (forall k, (0 < k <= length mids)%nat -> exists_ fs ((base ++ firstn k mids) ++ [INIT]) = true) ->
  exists_ fs (base ++ [INIT]) = false ->
  split_modpath fs (base ++ mids ++ [fname]) = Some (base, mids ++ [fname]).
Proof.
  intros H1 H2. unfold split_modpath. rewrite app_assoc, rev_app_distr. simpl.
  apply climb_spec; assumption.
Qed.

(* the two parts always join back to the path, whatever the tree *)
Lemma climb_joins rd : forall rel d r, climb fs rd rel = Some (d, r) -> d ++ r = rev rd ++ rel.
Proof.
  induction rd as [|x up IH]; intros rel d r H; cbn [climb] in H.
  - destruct (exists_ fs (rev [] ++ [INIT])); [discriminate|]. inversion H; subst. reflexivity.
  - destruct (exists_ fs (rev (x :: up) ++ [INIT])).
    + rewrite (IH _ _ _ H). simpl. rewrite <- app_assoc. reflexivity.
    + inversion H; subst. reflexivity.
Qed.

Theorem split_modpath_joins p d r : p <> [] -> split_modpath fs p = Some (d, r) -> d ++ r = p.
Proof.
  intros NE H. unfold split_modpath in H. destruct (rev p) as [|fname rd] eqn:R.
  - exfalso. apply NE. destruct p; [reflexivity | apply (f_equal (@length _)) in R; rewrite rev_length in R; discriminate].
  - rewrite (climb_joins _ _ _ _ H). rewrite <- (rev_involutive p), R. simpl. reflexivity.
Qed.

(* the directory found by the split holds no __init__.py *)
Lemma climb_stops rd : forall rel d r, climb fs rd rel = Some (d, r) -> exists_ fs (d ++ [INIT]) = false.
Proof.
  induction rd as [|x up IH]; intros rel d r H; cbn [climb] in H.
  - destruct (exists_ fs (rev [] ++ [INIT])) eqn:E; [discriminate|]. inversion H; subst. exact E.
  - destruct (exists_ fs (rev (x :: up) ++ [INIT])) eqn:E.
    + exact (IH _ _ _ H).
    + inversion H; subst. exact E.
Qed.

(* ---------- round trip ---------- *)
Definition PlainNames (parts : list name) : Prop :=
  forall n, In n parts -> n <> INIT /\ n ++ DOTPY <> INIT /\ ends_with DOTPY n = false.

Lemma strip_py_add n : strip_py (n ++ DOTPY) = n.
Proof.
  unfold strip_py. assert (E : ends_with DOTPY (n ++ DOTPY) = true) by (apply ends_with_spec; exists n; reflexivity).
  rewrite E. rewrite app_length. simpl. replace (length n + 3 - 3)%nat with (length n) by lia.
  apply firstn_app_exact.
Qed.

Lemma normalize_plain p : basename p <> INIT -> normalize_modpath fs true false p = p.
Proof.
  intros H. unfold normalize_modpath. destruct (eqb_str (basename p) INIT) eqn:E; [apply eqb_str_spec in E; contradiction | reflexivity].
Qed.

Lemma last_app_single {A} (l : list A) x d : last (l ++ [x]) d = x.
Proof. induction l as [|y l IH]; [reflexivity|]. simpl. destruct (l ++ [x]) eqn:E; [destruct l; discriminate | exact IH]. Qed.

(* converting the found path back gives the same dotted name, provided the search root is not itself
   inside a package *)
Theorem roundtrip root parts p :
  resolve fs root parts = Some p -> exists_ fs (root ++ [INIT]) = false -> PlainNames parts ->
  modpath_to_modname fs p = Some parts.
Proof.
  intros R Hroot PN. destruct parts as [|n0 rest0] eqn:EP; [discriminate|]. rewrite <- EP in *.
  assert (NE : parts <> []) by (rewrite EP; discriminate).
  destruct (resolve_shape parts root p R) as [S V].
  pose proof (app_removelast_last [] NE) as AL.
  set (mids := removelast parts) in *. set (lst := last parts []) in *.
  assert (Hlast : In lst parts) by (rewrite AL; apply in_or_app; right; left; reflexivity).
  destruct (PN lst Hlast) as (N1 & N2 & N3).
  rewrite AL in V. pose proof (isvalid_prefixes mids root lst V) as Pre.
  unfold modpath_to_modname.
  destruct S as [[A B]|[A B]].
  - (* a package directory *)
    assert (Pp : p = root ++ mids ++ [lst]) by (rewrite A; f_equal; exact AL).
    rewrite normalize_plain by (rewrite Pp; unfold basename; rewrite app_assoc, last_app_single; exact N1).
    rewrite Pp. erewrite split_modpath_spec; [| exact Pre | exact Hroot].
    rewrite removelast_last, last_app_single. unfold strip_py. rewrite N3. f_equal. symmetry. exact AL.
  - (* a .py file *)
    assert (Pp : p = root ++ mids ++ [lst ++ DOTPY]) by (rewrite A; unfold with_py; reflexivity).
    rewrite normalize_plain by (rewrite Pp; unfold basename; rewrite app_assoc, last_app_single; exact N2).
    rewrite Pp. erewrite split_modpath_spec; [| exact Pre | exact Hroot].
    rewrite removelast_last, last_app_single, strip_py_add. f_equal. symmetry. exact AL.
Qed.

End FS.
