(* C01Proofs.v — statements run once, in order; tab expansion; PS1 lines are statement starts (C01). *)
From XD Require Import Model.Base Model.Parser Model.Checker Model.Text Model.Directive Model.RunLoop
  Proofs.BaseFacts Proofs.RunProofs.
Open Scope N_scope.

(* ---------- every part is visited at most once, in source order ---------- *)
Inductive Increasing : list nat -> Prop :=
| inc_nil : Increasing []
| inc_one x : Increasing [x]
| inc_cons x y l : (x < y)%nat -> Increasing (y :: l) -> Increasing (x :: y :: l).

Lemma Increasing_app_one l k : Increasing l -> (forall j, In j l -> (j < k)%nat) -> Increasing (l ++ [k]).
Proof.
  induction 1 as [|x|x y l Hxy Hl IH]; intros H; simpl.
  - constructor.
  - constructor; [apply H; left; reflexivity | constructor].
  - constructor; [exact Hxy|]. apply IH. intros j Hj. apply H. right. exact Hj.
Qed.

Section Order.
Variable requires_met : str -> res bool.
Variable cfg : config.
Variable oc : nat -> outcome.

Lemma step_order s k p : Inv s k -> Increasing (r_executed s) -> Increasing (r_skipped s) ->
  Increasing (r_executed (step requires_met cfg oc s k p)) /\ Increasing (r_skipped (step requires_met cfg oc s k p)).
Proof.
  intros I E S.
  destruct (step_has_shape requires_met cfg oc s k p) as
      [Hs Hn | Hr Hsk Hex Hch Hlg Hum Hf He | Hr Hsk Hex Hrun Hfail | Hr Hsk Hex He Hfn Hfail].
  - rewrite Hs. split; assumption.
  - rewrite Hsk, Hex. split; [exact E|]. apply Increasing_app_one; [exact S|].
    intros j Hj. apply (inv_bounded _ _ I). right. exact Hj.
  - rewrite Hsk, Hex. split; [|exact S]. apply Increasing_app_one; [exact E|].
    intros j Hj. apply (inv_bounded _ _ I). left. exact Hj.
  - rewrite Hsk, Hex. split; assumption.
Qed.

Lemma run_parts_order ps : forall s k, Inv s k -> Increasing (r_executed s) -> Increasing (r_skipped s) ->
  Increasing (r_executed (run_parts requires_met cfg oc s k ps)) /\
  Increasing (r_skipped (run_parts requires_met cfg oc s k ps)).
Proof.
  induction ps as [|p ps IH]; intros s k I E S; simpl; [split; assumption|].
  destruct (step_order s k p I E S) as [E' S']. apply IH; [apply inv_step; exact I | exact E' | exact S'].
Qed.

(* the parts handed to exec are a strictly increasing sequence of positions: each at most once, in source
   order; so are the skipped ones; and no part is both *)
Theorem executed_once_in_order ps :
  let st := run_parts requires_met cfg oc (init_state cfg) 0 ps in
  Increasing (r_executed st) /\ Increasing (r_skipped st) /\
  (forall j, In j (r_executed st) -> (j < length ps)%nat).
Proof.
  intros st. destruct (run_parts_order ps (init_state cfg) 0%nat (inv_init cfg) inc_nil inc_nil) as [A B].
  split; [exact A|]. split; [exact B|].
  intros j Hj. apply (inv_bounded _ _ (inv_final requires_met cfg oc ps)). left. exact Hj.
Qed.
End Order.

(* ---------- tab expansion ---------- *)
Definition NoTab (s : str) : Prop := forall c, In c s -> (c =? TAB) = false.

Lemma repeat_char_notab n : NoTab (repeat_char SP n).
Proof. induction n as [|n IH]; intros c H; simpl in H; [contradiction|]. destruct H as [<-|H]; [reflexivity | apply IH; exact H]. Qed.

Lemma expandtabs_go_notab s : forall col, NoTab (expandtabs_go s col).
Proof.
  induction s as [|c s IH]; intros col x H; simpl in H; [contradiction|].
  destruct (c =? TAB) eqn:E.
  - apply in_app_or in H. destruct H as [H|H]; [apply (repeat_char_notab _ _ H) | apply (IH _ _ H)].
  - destruct ((c =? NL) || (c =? CR)); destruct H as [<-|H]; try exact E; apply (IH _ _ H).
Qed.

Lemma expandtabs_go_id s : NoTab s -> forall col, expandtabs_go s col = s.
Proof.
  induction s as [|c s IH]; intros H col; simpl; [reflexivity|].
  rewrite (H c (or_introl eq_refl)).
  assert (Hs : NoTab s) by (intros x Hx; apply H; right; exact Hx).
  destruct ((c =? NL) || (c =? CR)); rewrite IH by exact Hs; reflexivity.
Qed.

(* expandtabs is idempotent, and it is the first thing parse does: a docstring and its tab-expanded form
   parse identically, for every oracle *)
Theorem expandtabs_idempotent s : expandtabs (expandtabs s) = expandtabs s.
Proof. unfold expandtabs. apply expandtabs_go_id. apply expandtabs_go_notab. Qed.

Theorem parse_tab_expansion o s : parse o (expandtabs s) = parse o s.
Proof. unfold parse, normalize_docstring. rewrite expandtabs_idempotent. reflexivity. Qed.

(* ---------- PS1 lines ---------- *)
Lemma insert_sorted_in x y l : In y (insert_sorted x l) <-> y = x \/ In y l.
Proof.
  induction l as [|z l IH]; simpl; [intuition|].
  destruct (Nat.ltb x z) eqn:E1; simpl; [intuition|].
  destruct (Nat.eqb x z) eqn:E2; simpl.
  - apply Nat.eqb_eq in E2. subst. intuition.
  - rewrite IH. intuition.
Qed.

Lemma sort_uniq_in y l : In y (sort_uniq l) <-> In y l.
Proof.
  unfold sort_uniq. induction l as [|x l IH]; simpl; [tauto|]. rewrite insert_sorted_in, IH. intuition.
Qed.

Lemma mem_nat_in x l : mem_nat x l = true <-> In x l.
Proof.
  induction l as [|y l IH]; simpl; [split; [discriminate | tauto]|].
  rewrite orb_true_iff, Nat.eqb_eq, IH. intuition.
Qed.

Lemma index_filter_in {A} (f : A -> bool) l : forall i x, In x (index_filter f l i) <->
  exists a, nth_error l (x - i) = Some a /\ f a = true /\ (i <= x)%nat.
Proof.
  induction l as [|a l IH]; intros i x; simpl.
  - split; [tauto|]. intros (b & H & _). destruct (x - i)%nat; discriminate.
  - destruct (f a) eqn:F; simpl; rewrite ?IH.
    + split.
      * intros [<-|(b & A1 & A2 & A3)].
        -- exists a. rewrite Nat.sub_diag. auto.
        -- exists b. replace (x - i)%nat with (S (x - S i)) by lia. simpl. repeat split; try assumption. lia.
      * intros (b & A1 & A2 & A3). destruct (Nat.eq_dec i x) as [->|N]; [left; reflexivity|right].
        exists b. replace (x - i)%nat with (S (x - S i)) in A1 by lia. simpl in A1. repeat split; try assumption. lia.
    + split.
      * intros (b & A1 & A2 & A3). exists b. replace (x - i)%nat with (S (x - S i)) by lia. simpl. repeat split; try assumption. lia.
      * intros (b & A1 & A2 & A3). destruct (Nat.eq_dec i x) as [->|N].
        -- rewrite Nat.sub_diag in A1. simpl in A1. inversion A1; subst. congruence.
        -- exists b. replace (x - i)%nat with (S (x - S i)) in A1 by lia. simpl in A1. repeat split; try assumption. lia.
Qed.

(* the statement starts found by _locate_ps1_linenos: exactly the lines where the ast starts a statement
   (its first decorator for a decorated one) and that carry the primary prompt; a '...'-prefixed line never
   starts a part *)
Theorem ps1_are_statement_starts o src ps1 mode : locate_ps1 o src = Ok (ps1, mode) ->
  exists stmts, (forall x, In x ps1 <->
                   (exists s, In s stmts /\ st_line s = x) /\
                   (forall l, nth_error src x = Some l -> eqb_str (firstn 4 l) PS1sp = true)).
Proof.
  unfold locate_ps1. intros H.
  destruct (balanced_intervals (o_bal o) (map (skipn 4) src)) as [ivs|e] eqn:B; [|discriminate]. cbn [bind] in H.
  destruct (o_ast o (hack_comments (map (skipn 4) src) (map fst ivs) 0)) as [stmts|e] eqn:A; [|discriminate]. cbn [bind] in H.
  exists stmts.
  assert (P : ps1 = filter (fun x => negb (mem_nat x (index_filter (fun p => negb (eqb_str (firstn 4 p) PS1sp)) src 0)))
                       (sort_uniq (map st_line stmts))).
  { revert H.
    repeat match goal with |- context [match ?x with _ => _ end] => destruct x end;
      cbn [bind]; try (intros H; inversion H; reflexivity);
      (destruct (o_semi o _); cbn [bind]; intros H; inversion H; reflexivity). }
  subst ps1. intros x. rewrite filter_In, sort_uniq_in, in_map_iff. split.
  - intros [(s & Hs & Hin) Hn]. split; [exists s; auto|].
    intros l Hl. destruct (eqb_str (firstn 4 l) PS1sp) eqn:E; [reflexivity|]. exfalso.
    apply negb_true_iff in Hn. assert (X : mem_nat x (index_filter (fun p => negb (eqb_str (firstn 4 p) PS1sp)) src 0) = true).
    { apply mem_nat_in. apply index_filter_in. exists l. rewrite Nat.sub_0_r. rewrite E. repeat split; [exact Hl | lia]. }
    congruence.
  - intros [(s & Hin & Hs) Hp]. split; [exists s; auto|].
    apply negb_true_iff. destruct (mem_nat x _) eqn:M; [|reflexivity]. exfalso.
    apply mem_nat_in in M. apply index_filter_in in M. destruct M as (l & Hl & Hf & _). rewrite Nat.sub_0_r in Hl.
    rewrite (Hp l Hl) in Hf. discriminate.
Qed.
