(* StdOutputProofs.v — whatever the standard doctest module's OutputChecker accepts, xdoctest's check_output accepts in
   its default state (ELLIPSIS, NORMALIZE_WHITESPACE and NORMALIZE_REPR on), for every got and every want, under the
   hypotheses spelled out in std_output_accepted below.  Each hypothesis excludes a class of texts on which the
   unchanged code really is stricter than the standard module (known findings F6d, F6f, F6g, F6h, F6i of C20): the proof
   found three of them.

   Shape of the argument: with NORMALIZE_WHITESPACE on, both texts are compared as ' '.join(text.split()).  The steps in
   front of that (trailing blanks, rstrip, the <BLANKLINE> rewriting of either module) only touch white space next to
   white space, so they do not change the words:  NGot = join of the words of the got,  NWant = join of the words of the
   want's lines that are not markers.  The standard module's three equality tests then give equal word lists; its
   ELLIPSIS test gives the wildcard relation (StdEllipsisProofs), which survives the collapsing (ellmatch_collapse). *)
From XD Require Import Model.Base Model.Lit Model.Ellipsis Model.Checker Model.StdDoctest Model.StdOutput
  Spec.EllipsisSpec Spec.MatchRel Proofs.BaseFacts Proofs.EllipsisProofs Proofs.CheckerProofs
  Proofs.StdEllipsisProofs Proofs.FormatProofs Proofs.WordsFacts.
From Coq Require Import Lia.
Open Scope N_scope.

(* ---------- the hypotheses ---------- *)
(* no colour codes, no string-prefix letters in front of quotes, no carriage returns *)
Definition Plain (s : str) : Prop :=
  strip_ansi s = s /\ rm_prefix is_uU s = s /\ rm_prefix is_bB s = s /\ ~ In CR s.
(* a line of the want is the marker, or does not hold the marker text at all *)
Definition LineOK (l : str) : Prop := NoNL l /\ (l = BLANKLINE \/ contains BLANKLINE l = false).
Definition demark (l : str) : str := if eqb_str l BLANKLINE then [] else l.

(* ---------- xdoctest's side: the normal forms under the default flags ---------- *)
Lemma default_ws_norm s : ws_norm default_flags s = collapse_ws s.
Proof. reflexivity. Qed.

Lemma base_got_plain got : Plain got -> collapse_ws (base_got got) = collapse_ws got.
Proof.
  intros (Ha & Hu & Hb & Hc). unfold base_got. rewrite Ha, Hu, Hb.
  rewrite drop_cr_lines_id.
  - apply collapse_words_eq. rewrite words_rstrip. apply words_rm_trailing_ws.
  - intros H. apply in_rstrip, in_rm_trailing_ws in H. contradiction.
Qed.

(* the marker rewriting only ever writes newlines *)
Lemma in_rm_blankline_go c s : forall skip eat, In c (rm_blankline_go s skip eat) -> In c s \/ c = NL.
Proof.
  induction s as [|x s IH]; intros skip eat H; [destruct H|].
  cbn [rm_blankline_go] in H. destruct skip as [|k].
  - destruct (eat && (x =? NL)).
    + apply IH in H. destruct H; [left; right; assumption|right; assumption].
    + destruct (starts_with BLANKLINE (x :: s)).
      * destruct H as [H|H]; [right; symmetry; exact H|]. apply IH in H. destruct H; [left; right; assumption|right; assumption].
      * destruct ((x =? NL) && starts_with BLANKLINE s).
        -- destruct H as [H|H]; [right; symmetry; exact H|]. apply IH in H. destruct H; [left; right; assumption|right; assumption].
        -- destruct H as [H|H]; [left; left; exact H|]. apply IH in H. destruct H; [left; right; assumption|right; assumption].
  - apply IH in H. destruct H; [left; right; assumption|right; assumption].
Qed.

Lemma base_want_plain want : Plain want ->
  collapse_ws (base_want default_flags want) = collapse_ws (rm_blankline want).
Proof.
  intros (Ha & Hu & Hb & Hc). unfold base_want. rewrite Ha, Hu, Hb. cbn [DONT_ACCEPT_BLANKLINE default_flags].
  rewrite drop_cr_lines_id.
  - apply collapse_words_eq. rewrite words_rstrip. apply words_rm_trailing_ws.
  - intros H. apply in_rstrip, in_rm_trailing_ws in H. apply in_rm_blankline_go in H. destruct H as [H|H]; [contradiction|discriminate H].
Qed.

(* ---------- the marker rewriting of xdoctest, line by line ---------- *)
Lemma blankline_no_nl : ~ In NL BLANKLINE.
Proof. cbn. intros H. repeat (destruct H as [H|H]; [discriminate H|]). exact H. Qed.

Lemma starts_with_app_nonl p : forall x r, ~ In NL p -> starts_with p (x ++ NL :: r) = true -> starts_with p x = true.
Proof.
  induction p as [|a p IH]; intros x r Hp H; [destruct x; reflexivity|].
  destruct x as [|b x].
  - cbn in H. destruct (a =? NL) eqn:E; [|discriminate H]. apply N.eqb_eq in E. subst. exfalso. apply Hp. left. reflexivity.
  - cbn in H |- *. destruct (a =? b); [|discriminate H]. apply (IH x r); [|exact H]. intros ?. apply Hp. right. assumption.
Qed.

Lemma starts_contains p x : starts_with p x = true -> contains p x = true.
Proof. intros H. apply starts_with_spec in H as (t & ->). apply contains_spec. exists [], t. reflexivity. Qed.

(* the text behind the content of a line: nothing, or a newline and more *)
Definition jr (rest : list str) : str := concat (map (fun l => NL :: l) rest).

Lemma jr_wsstart rest : WsStart (jr rest).
Proof. destruct rest as [|l rest]; [left; reflexivity|right]. exists NL, (l ++ jr rest). split; reflexivity. Qed.

Lemma join_nl_jr l rest : join_nl (l :: rest) = l ++ jr rest.
Proof.
  revert l. induction rest as [|m rest IH]; intros l.
  - cbn. symmetry. apply app_nil_r.
  - change (join_nl (l :: m :: rest)) with (l ++ NL :: join_nl (m :: rest)). rewrite IH. reflexivity.
Qed.

Lemma no_marker_start x r : contains BLANKLINE x = false -> (r = [] \/ exists r', r = NL :: r') ->
  starts_with BLANKLINE (x ++ r) = false.
Proof.
  intros Hx Hr. destruct (starts_with BLANKLINE (x ++ r)) eqn:E; [|reflexivity].
  destruct Hr as [->|(r' & ->)].
  - rewrite app_nil_r in E. apply starts_contains in E. congruence.
  - apply starts_with_app_nonl in E; [|exact blankline_no_nl]. apply starts_contains in E. congruence.
Qed.

(* a line without the marker text is copied *)
Lemma rmb_copy l : forall r, NoNL l -> contains BLANKLINE l = false -> (r = [] \/ exists r', r = NL :: r') ->
  rm_blankline_go (l ++ r) 0 false = l ++ rm_blankline_go r 0 false.
Proof.
  induction l as [|c l IH]; intros r Hn Hc Hr; [reflexivity|].
  assert (Hc' : contains BLANKLINE l = false).
  { destruct (contains BLANKLINE l) eqn:E; [|reflexivity]. apply contains_spec in E as (a & b & ->).
    assert (contains BLANKLINE (c :: a ++ BLANKLINE ++ b) = true) by (apply contains_spec; exists (c :: a), b; reflexivity). congruence. }
  assert (Hn' : NoNL l) by (intros d H; apply Hn; right; exact H).
  assert (E : (c =? NL) = false) by (apply Hn; left; reflexivity).
  cbn [app rm_blankline_go]. cbn [andb].
  change (c :: l ++ r) with ((c :: l) ++ r). rewrite no_marker_start by assumption.
  rewrite E. cbn [andb].
  rewrite IH by assumption. reflexivity.
Qed.

Lemma rmb_skip x : forall r eat, rm_blankline_go (x ++ r) (length x) eat = rm_blankline_go r 0 eat.
Proof. induction x as [|c x IH]; intros r eat; [reflexivity|]. cbn [app length rm_blankline_go]. apply IH. Qed.

Lemma rmb_marker_start r : rm_blankline_go (BLANKLINE ++ r) 0 false = NL :: rm_blankline_go r 0 true.
Proof.
  change (BLANKLINE ++ r) with (60 :: (tl BLANKLINE ++ r)). cbn [rm_blankline_go andb].
  change (60 :: tl BLANKLINE ++ r) with (BLANKLINE ++ r). rewrite starts_with_app.
  reflexivity.
Qed.

Lemma rmb_nl_marker r : rm_blankline_go (NL :: BLANKLINE ++ r) 0 false = NL :: rm_blankline_go r 0 false.
Proof.
  cbn [rm_blankline_go andb]. replace (starts_with BLANKLINE (NL :: BLANKLINE ++ r)) with false by reflexivity.
  rewrite starts_with_app. cbn [N.eqb andb]. replace (NL =? NL) with true by reflexivity. cbn [andb].
  reflexivity.
Qed.

Lemma rmb_nl_other x : starts_with BLANKLINE x = false ->
  rm_blankline_go (NL :: x) 0 false = NL :: rm_blankline_go x 0 false.
Proof.
  intros H. cbn [rm_blankline_go andb]. replace (starts_with BLANKLINE (NL :: x)) with false by reflexivity.
  rewrite H. rewrite andb_false_r. reflexivity.
Qed.

Lemma rmb_eat_nl r : rm_blankline_go (NL :: r) 0 true = rm_blankline_go r 0 false.
Proof. reflexivity. Qed.

Lemma demark_marker : demark BLANKLINE = [].
Proof. reflexivity. Qed.
Lemma demark_other l : contains BLANKLINE l = false -> demark l = l.
Proof.
  intros H. unfold demark. destruct (eqb_str l BLANKLINE) eqn:E; [|reflexivity].
  apply eqb_str_spec in E. subst l. discriminate H.
Qed.

Lemma words_nl_cons x : words (NL :: x) = words x.
Proof. unfold words. rewrite words_aux_space by exact NL_space. reflexivity. Qed.

(* E: the scan stands behind the content of a line; A: at the beginning of a line *)
Lemma rmb_lines rest : Forall LineOK rest ->
  (WsStart (rm_blankline_go (jr rest) 0 false) /\
   words (rm_blankline_go (jr rest) 0 false) = concat (map words (map demark rest))) /\
  (forall l, LineOK l ->
     words (rm_blankline_go (l ++ jr rest) 0 false) = concat (map words (map demark (l :: rest)))).
Proof.
  induction rest as [|m rest IH]; intros HF.
  - split; [split; [left; reflexivity|reflexivity]|].
    intros l (Hn & [->|Hc]).
    + cbn [jr map concat]. rewrite rmb_marker_start. reflexivity.
    + cbn [jr map concat]. rewrite (rmb_copy l [] Hn Hc) by (left; reflexivity). cbn [rm_blankline_go]. rewrite !app_nil_r.
      rewrite demark_other by exact Hc. reflexivity.
  - inversion HF as [|? ? Hm HF']; subst. destruct (IH HF') as ((HEw & HE) & HA).
    assert (E1 : WsStart (rm_blankline_go (jr (m :: rest)) 0 false) /\
                 words (rm_blankline_go (jr (m :: rest)) 0 false) = concat (map words (map demark (m :: rest)))).
    { change (jr (m :: rest)) with (NL :: m ++ jr rest). destruct Hm as (Hn & [->|Hc]).
      - rewrite rmb_nl_marker. split.
        + right. eexists _, _. split; [reflexivity|exact NL_space].
        + rewrite words_nl_cons, HE. reflexivity.
      - rewrite rmb_nl_other.
        + split.
          * right. eexists _, _. split; [reflexivity|exact NL_space].
          * rewrite words_nl_cons. apply HA. split; [exact Hn|right; exact Hc].
        + apply no_marker_start; [exact Hc|]. destruct rest; [left; reflexivity|right; eexists; reflexivity]. }
    split; [exact E1|].
    intros l (Hn & [->|Hc]).
    + rewrite rmb_marker_start. change (jr (m :: rest)) with (NL :: m ++ jr rest). rewrite rmb_eat_nl.
      rewrite words_nl_cons. rewrite (HA m Hm). reflexivity.
    + rewrite (rmb_copy l (jr (m :: rest)) Hn Hc) by (right; eexists; reflexivity).
      destruct E1 as (Ew & Ewords). rewrite words_app_wsstart by exact Ew. rewrite Ewords.
      cbn [map concat]. rewrite (demark_other l Hc). reflexivity.
Qed.

Lemma words_rm_blankline ls : ls <> [] -> Forall LineOK ls ->
  words (rm_blankline (join_nl ls)) = concat (map words (map demark ls)).
Proof.
  intros Hne HF. destruct ls as [|l rest]; [contradiction|]. inversion HF; subst.
  rewrite join_nl_jr. unfold rm_blankline. apply (proj2 (rmb_lines rest H2)). assumption.
Qed.

(* ---------- the standard module's side ---------- *)
Lemma marker_line_ok l : LineOK l -> (if is_marker_line l then [] else l) = demark l.
Proof.
  intros (_ & [->|Hc]); [reflexivity|].
  unfold is_marker_line. destruct (starts_with BLANKLINE l) eqn:E.
  - apply starts_contains in E. congruence.
  - cbn [andb]. symmetry. apply demark_other, Hc.
Qed.

Lemma join_nl_snoc_empty ls : ls <> [] -> join_nl (ls ++ [[]]) = join_nl ls ++ [NL].
Proof. intros H. rewrite join_nl_app by (auto; discriminate). reflexivity. Qed.

Lemma noNL_nil : NoNL [].
Proof. intros c []. Qed.

Lemma std_rm_blank_lines ls : ls <> [] -> Forall LineOK ls ->
  std_rm_blank (join_nl ls ++ [NL]) = join_nl (map demark ls ++ [[]]).
Proof.
  intros Hne HF. unfold std_rm_blank. rewrite <- join_nl_snoc_empty by exact Hne.
  rewrite split_join.
  - rewrite map_app. cbn [map]. f_equal. f_equal.
    apply map_ext_in. intros l Hl. apply marker_line_ok. rewrite Forall_forall in HF. apply HF, Hl.
  - destruct ls; [contradiction|discriminate].
  - apply Forall_app. split; [|constructor; [exact noNL_nil|constructor]].
    eapply Forall_impl; [|exact HF]. intros l (Hn & _). exact Hn.
Qed.

Lemma words_std_rm_blank ls : ls <> [] -> Forall LineOK ls ->
  words (std_rm_blank (join_nl ls ++ [NL])) = concat (map words (map demark ls)).
Proof.
  intros Hne HF. rewrite std_rm_blank_lines by assumption. rewrite words_join_nl, map_app, concat_app.
  cbn. rewrite app_nil_r. reflexivity.
Qed.

Lemma words_ws_only l : (if ws_only_line l then [] else l) = [] \/ (if ws_only_line l then [] else l) = l.
Proof. destruct (ws_only_line l); [left|right]; reflexivity. Qed.

Lemma words_std_blank_got got : words (std_blank_got got) = words got.
Proof.
  unfold std_blank_got. rewrite words_join_nl. rewrite <- (join_split_nl got) at 2. rewrite words_join_nl.
  f_equal. rewrite map_map. apply map_ext. intros l. unfold ws_only_line.
  destruct (nonempty l && forallb is_space l) eqn:E; [|reflexivity].
  apply andb_prop in E as [_ E]. symmetry. apply words_all_space, E.
Qed.

(* ---------- the wildcard relation survives ' '.join(text.split()) ---------- *)
(* (proved in EllCollapse below; stated here so that the main theorem can be read first) *)

(* ---------- from the core comparison to check_output (NORMALIZE_REPR is on by default) ---------- *)
Lemma core_unquoted fl G Wn :
  Core fl G Wn -> (G = Wn \/ forall a, check_match fl a G = true -> a = G) -> Core fl G (norm_repr fl Wn G).
Proof.
  intros HC [->|Hm].
  - unfold norm_repr. rewrite check_match_refl. left. reflexivity.
  - unfold norm_repr. destruct (check_match fl Wn G); [exact HC|].
    destruct (quoted_by QUOTE2 Wn && check_match fl (strip_outer Wn) G) eqn:E2.
    { apply andb_prop in E2 as [_ E2]. apply Hm in E2. rewrite E2. left. reflexivity. }
    destruct (quoted_by QUOTE1 Wn && check_match fl (strip_outer Wn) G) eqn:E1.
    { apply andb_prop in E1 as [_ E1]. apply Hm in E1. rewrite E1. left. reflexivity. }
    exact HC.
Qed.

Lemma check_match_markerless fl a G : contains marker G = false -> check_match fl a G = true -> a = G.
Proof.
  intros Hc. unfold check_match. destruct (eqb_str a G) eqn:E; [intros _; apply eqb_str_spec, E|].
  destruct (ELLIPSIS fl); [|discriminate]. unfold ellipsis_match. rewrite Hc. cbn [negb].
  intros H. apply eqb_str_spec in H. symmetry. exact H.
Qed.

Lemma core_to_check_output got want :
  Core default_flags (NGot default_flags got) (NWant default_flags want) ->
  (NGot default_flags got = NWant default_flags want \/ contains marker (NGot default_flags got) = false) ->
  check_output default_flags got want = true.
Proof.
  intros HC Hside. apply check_output_iff. unfold MatchRel. right. right. cbn [NORMALIZE_REPR default_flags].
  exists (NGot default_flags got), (norm_repr default_flags (NWant default_flags want) (NGot default_flags got)).
  split; [left; split; [exact HC|reflexivity]|]. split; [apply norm_repr_unquote|].
  apply core_unquoted; [exact HC|]. destruct Hside as [H|H]; [left; exact H|right].
  intros a. apply check_match_markerless, H.
Qed.

(* ---------- pieces of a joined text ---------- *)
Lemma in_join_nl l ls : In l ls -> exists a b, join_nl ls = a ++ l ++ b.
Proof.
  induction ls as [|m ls IH]; intros H; [destruct H|].
  destruct ls as [|k ls].
  - destruct H as [->|[]]. exists [], []. cbn. symmetry. apply app_nil_r.
  - change (join_nl (m :: k :: ls)) with (m ++ NL :: join_nl (k :: ls)).
    destruct H as [->|H].
    + exists [], (NL :: join_nl (k :: ls)). reflexivity.
    + destruct (IH H) as (a & b & E). rewrite E. exists (m ++ NL :: a), b. rewrite <- app_assoc. reflexivity.
Qed.

Lemma contains_inside p a x b : contains p x = true -> contains p (a ++ x ++ b) = true.
Proof.
  intros H. apply contains_spec in H as (u & v & ->). apply contains_spec. exists (a ++ u), (v ++ b).
  rewrite <- !app_assoc. reflexivity.
Qed.

Lemma demark_all_id ls : contains BLANKLINE (join_nl ls) = false -> map demark ls = ls.
Proof.
  intros H. rewrite <- (map_id ls) at 2. apply map_ext_in. intros l Hl. apply demark_other.
  destruct (contains BLANKLINE l) eqn:E; [|reflexivity].
  destruct (in_join_nl l ls Hl) as (a & b & J). rewrite J in H. rewrite contains_inside in H by exact E. discriminate H.
Qed.

(* ---------- the theorem ---------- *)
Section Pipeline.
  (* the wildcard relation survives ' '.join(text.split()) on both texts (EllCollapse.ellmatch_collapse) *)
  Variable collapse_ok : bool.
  Hypothesis ellmatch_collapse : collapse_ok = true -> forall g w, EllMatch g w -> EllMatch (collapse_ws g) (collapse_ws w).

  Variables (e n : bool) (ls : list str) (got : str).
  Let W := join_nl ls.
  Hypothesis Hne : ls <> [].
  Hypothesis HF : Forall LineOK ls.
  Hypothesis Hwant : Plain W.
  (* got: the text the standard module compares (always ends with the newline that print or the echo wrote);
     got': the text xdoctest compares - the same words (xdoctest compares an echoed value's repr without that newline) *)
  Variable got' : str.
  Hypothesis Hgot : Plain got'.
  Hypothesis Hsame : words got' = words got.

  Let WG := words got.
  Let WW := concat (map words (map demark ls)).

  Lemma ngot_words : NGot default_flags got' = join [SP] WG.
  Proof. unfold NGot. rewrite default_ws_norm, base_got_plain by exact Hgot. unfold collapse_ws, WG. rewrite Hsame. reflexivity. Qed.

  Lemma nwant_words : NWant default_flags W = join [SP] WW.
  Proof.
    unfold NWant. rewrite default_ws_norm, base_want_plain by exact Hwant. unfold collapse_ws, W.
    rewrite words_rm_blankline by assumption. reflexivity.
  Qed.

  Lemma same_words : WG = WW -> check_output default_flags got' W = true.
  Proof.
    intros E. apply core_to_check_output.
    - left. rewrite ngot_words, nwant_words, E. reflexivity.
    - left. rewrite ngot_words, nwant_words, E. reflexivity.
  Qed.

  Lemma std_got_collapse : collapse_ws (std_blank_got got) = join [SP] WG.
  Proof. unfold collapse_ws. rewrite words_std_blank_got. reflexivity. Qed.

  Lemma std_want_collapse : collapse_ws (std_rm_blank (W ++ [NL])) = join [SP] WW.
  Proof. unfold collapse_ws, W. rewrite words_std_rm_blank by assumption. reflexivity. Qed.

  Theorem std_output_accepted_gen :
    contains BLANKLINE got = false ->                     (* the output does not hold the marker text (F6g) *)
    true_for_1 (W ++ [NL]) got = false ->                 (* not True for 1 / False for 0 (F6d) *)
    (e = true -> contains marker (collapse_ws got) = false) ->  (* a wildcard want: the output holds no '...' itself *)
    (e = true -> n = false -> collapse_ok = true) ->
    std_check_output e n (W ++ [NL]) got = true ->
    check_output default_flags got' W = true.
  Proof.
    intros Hnm Ht1 Hnoell Hcoll. unfold std_check_output. rewrite Ht1.
    destruct (eqb_str got (W ++ [NL])) eqn:E1.
    { (* identical texts *)
      intros _. apply eqb_str_spec in E1. apply same_words. unfold WG, WW. rewrite E1.
      rewrite words_app_trailing by reflexivity. unfold W. rewrite words_join_nl.
      rewrite demark_all_id; [reflexivity|].
      destruct (contains BLANKLINE (join_nl ls)) eqn:C; [|reflexivity].
      rewrite E1 in Hnm. unfold W in Hnm. pose proof (contains_inside BLANKLINE [] (join_nl ls) [NL] C) as K.
      cbn [app] in K. rewrite K in Hnm. discriminate Hnm. }
    destruct (eqb_str (std_blank_got got) (std_rm_blank (W ++ [NL]))) eqn:E3.
    { (* identical once marker lines and white-space-only lines are empty *)
      intros _. apply eqb_str_spec in E3. apply same_words. unfold WG, WW.
      rewrite <- (words_std_blank_got got), E3. unfold W. apply words_std_rm_blank; assumption. }
    destruct n.
    - (* NORMALIZE_WHITESPACE *)
      cbn [andb]. rewrite std_got_collapse, std_want_collapse.
      destruct (eqb_str (join [SP] WG) (join [SP] WW)) eqn:E4.
      { intros _. apply eqb_str_spec in E4. apply core_to_check_output.
        - left. rewrite ngot_words, nwant_words. exact E4.
        - left. rewrite ngot_words, nwant_words. exact E4. }
      destruct e; [|discriminate]. intros H. apply std_ellipsis_implies_xdoctest in H.
      apply core_to_check_output.
      + rewrite ngot_words, nwant_words. apply check_match_iff. unfold check_match. rewrite H, E4. reflexivity.
      + right. rewrite ngot_words. rewrite <- std_got_collapse. unfold collapse_ws. rewrite words_std_blank_got.
        apply Hnoell. reflexivity.
    - (* no NORMALIZE_WHITESPACE on the standard side *)
      cbn [andb]. destruct e; [|discriminate]. intros H. apply std_ellipsis_implies_xdoctest in H.
      apply ellipsis_match_iff in H. apply (ellmatch_collapse (Hcoll eq_refl eq_refl)) in H.
      rewrite std_got_collapse, std_want_collapse in H.
      apply core_to_check_output.
      + rewrite ngot_words, nwant_words. right. split; [reflexivity|exact H].
      + right. rewrite ngot_words. rewrite <- std_got_collapse. unfold collapse_ws. rewrite words_std_blank_got.
        apply Hnoell. reflexivity.
  Qed.
End Pipeline.

(* every flag setting except ELLIPSIS without NORMALIZE_WHITESPACE on the standard side (for that one see
   std_output_accepted in EllCollapse.v, which adds the missing lemma) *)
Theorem std_output_accepted_partial e n ls got :
  ls <> [] -> Forall LineOK ls -> Plain got -> Plain (join_nl ls) ->
  contains BLANKLINE got = false ->
  true_for_1 (join_nl ls ++ [NL]) got = false ->
  (e = true -> contains marker (collapse_ws got) = false) ->
  (e = true -> n = true) ->
  std_check_output e n (join_nl ls ++ [NL]) got = true ->
  check_output default_flags got (join_nl ls) = true.
Proof.
  intros Hne HF Hg Hw Hnm Ht Hell Hen.
  assert (K : false = true -> forall g w, EllMatch g w -> EllMatch (collapse_ws g) (collapse_ws w)) by discriminate.
  apply (std_output_accepted_gen false K e n ls got Hne HF Hw got Hg eq_refl); try assumption.
  intros He Hn. rewrite (Hen He) in Hn. discriminate Hn.
Qed.

(* the hypotheses can be met, with a marker line in the want and blanks that differ *)
Definition demo_want_lines : list str := [[97;32;98]; BLANKLINE; [99]].                  (* "a b", "<BLANKLINE>", "c" *)
Definition demo_got : str := [97;32;98;10;32;32;10;99;10].                             (* "a b\n  \nc\n" *)
Example demo_std_output_hyps :
  demo_want_lines <> [] /\ Forall LineOK demo_want_lines /\ Plain demo_got /\ Plain (join_nl demo_want_lines) /\
  contains BLANKLINE demo_got = false /\ true_for_1 (join_nl demo_want_lines ++ [NL]) demo_got = false /\
  std_check_output false false (join_nl demo_want_lines ++ [NL]) demo_got = true /\
  eqb_str demo_got (join_nl demo_want_lines ++ [NL]) = false.
Proof.
  assert (N1 : forall l, forallb (fun c => negb (c =? NL)) l = true -> NoNL l).
  { intros l H c Hc. rewrite forallb_forall in H. apply H in Hc. destruct (c =? NL); [discriminate Hc|reflexivity]. }
  assert (N2 : forall s, forallb (fun c => negb (c =? CR)) s = true -> ~ In CR s).
  { intros s H Hc. rewrite forallb_forall in H. apply H in Hc. discriminate Hc. }
  split; [discriminate|]. split.
  { repeat constructor; try (apply N1; reflexivity); try (left; reflexivity); right; reflexivity. }
  split; [repeat split; try reflexivity; apply N2; reflexivity|].
  split; [repeat split; try reflexivity; apply N2; reflexivity|].
  repeat split; reflexivity.
Qed.
