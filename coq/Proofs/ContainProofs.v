(* ContainProofs.v — DoctestParser.parse is contained: for every behaviour of the
   tokenizer / ast / directive oracles (including raising ones) it returns parts or
   the library's own parse error; the executable model's "oracle entry missing"
   answer comes from the oracle tables only (C14). *)
From XD Require Import Model.Base Model.Parser Proofs.BaseFacts.
Open Scope N_scope.

(* a result that is not the artefact "oracle entry missing" *)
Definition NN {A} (r : res A) : Prop := forall q, r <> Err (E_Need q).

Lemma NN_ok {A} (a : A) : NN (Ok a). Proof. intros q; discriminate. Qed.
Lemma NN_bind {A B} (r : res A) (f : A -> res B) : NN r -> (forall a, NN (f a)) -> NN (bind r f).
Proof. intros H1 H2 q. destruct r as [a|e]; simpl; [apply H2 | intro X; apply (H1 q); inversion X; reflexivity]. Qed.
Lemma NN_cons_res {A} (x : A) r : NN r -> NN (cons_res x r).
Proof. intros H q. destruct r; simpl; [discriminate | intro X; apply (H q); inversion X; reflexivity]. Qed.
Lemma NN_err_inc {A} : NN (@Err A E_Incomplete). Proof. intros q; discriminate. Qed.
Lemma NN_err_syn {A} : NN (@Err A E_Syntax). Proof. intros q; discriminate. Qed.
Lemma NN_err_ass {A} : NN (@Err A E_Assertion). Proof. intros q; discriminate. Qed.
Lemma NN_err_idx {A} : NN (@Err A E_Index). Proof. intros q; discriminate. Qed.
Lemma NN_err_orc {A} : NN (@Err A E_Oracle). Proof. intros q; discriminate. Qed.
Lemma NN_err_of {A B} (r : res A) e : r = Err e -> NN r -> NN (@Err B e).
Proof. intros -> H q X. apply (H q). inversion X; reflexivity. Qed.

Ltac nn_step :=
  first [ apply NN_ok | apply NN_err_inc | apply NN_err_syn | apply NN_err_ass | apply NN_err_idx | apply NN_err_orc
        | assumption
        | apply NN_cons_res
        | apply NN_bind; [|intros]
        | match goal with
          | |- NN (match ?x with _ => _ end) => destruct x eqn:?
          | |- NN (if ?x then _ else _) => destruct x eqn:?
          | |- NN (let '(_, _) := ?x in _) => destruct x eqn:?
          end ].
Ltac nn := repeat nn_step.
Ltac nn_with tac := repeat first [ tac | nn_step ].

Section Contain.
Variable o : oracles.
Hypothesis Htok : forall l, NN (o_tok o l).
Hypothesis Hast : forall l, NN (o_ast o l).
Hypothesis Hsemi : forall l, NN (o_semi o l).
Hypothesis Hdirs : forall l, NN (o_dirs o l).

Ltac nn ::= repeat nn_step; try apply Htok; try apply Hast; try apply Hsemi; try apply Hdirs.

Lemma NN_bal l : NN (o_bal o l).
Proof. unfold o_bal, is_balanced. nn. Qed.

Lemma NN_label_go lines : forall st, NN (label_go (o_bal o) lines st).
Proof.
  induction lines as [|line rest IH]; intros st; cbn [label_go].
  - nn.
  - destruct (l_comp st) as [[parts cur]|].
    + repeat match goal with
             | |- NN (if ?x then _ else _) => destruct x eqn:?
             end; try apply NN_err_syn;
      (match goal with |- NN (match ?b with _ => _ end) =>
         let E := fresh "E" in destruct b as [[|]|e] eqn:E;
         [apply NN_cons_res; apply IH | apply NN_cons_res; apply IH |
          eapply NN_err_of; [exact E | apply NN_bal]] end).
    + repeat match goal with
             | |- NN (if ?x then _ else _) => destruct x eqn:?
             end; try apply NN_err_ass; try (apply NN_cons_res; apply IH);
      (match goal with |- NN (match ?b with _ => _ end) =>
         let E := fresh "E" in destruct b as [[|]|e] eqn:E;
         [apply NN_cons_res; apply IH | apply NN_cons_res; apply IH |
          eapply NN_err_of; [exact E | apply NN_bal]] end).
Qed.

Lemma NN_pass3 groups : forall prev, NN (pass3 groups prev).
Proof.
  induction groups as [|[state group] rest IH]; intros prev; cbn [pass3]; nn; try apply IH.
Qed.

Lemma NN_group_lines ll : NN (group_lines ll).
Proof. unfold group_lines. apply NN_pass3. Qed.

Lemma NN_find_start lines b a1 : NN (find_start (o_bal o) lines b a1).
Proof. induction a1 as [|a IH]; cbn [find_start]; nn_with ltac:(first [apply NN_bal | exact IH]). Qed.

Lemma NN_intervals_go lines fuel : forall b a1, NN (intervals_go (o_bal o) lines fuel b a1).
Proof.
  induction fuel as [|f IH]; intros b a1; cbn [intervals_go]; nn_with ltac:(first [apply NN_find_start | apply IH]).
Qed.

Lemma NN_locate_ps1 src : NN (locate_ps1 o src).
Proof.
  unfold locate_ps1, balanced_intervals.
  nn_with ltac:(first [apply NN_intervals_go | apply Hast | apply Hsemi]).
Qed.

Lemma NN_ps1_directives exec_lines ps1 : NN (ps1_directives o exec_lines ps1).
Proof. induction ps1 as [|s1 rest IH]; cbn [ps1_directives]; nn_with ltac:(first [apply Hdirs | exact IH]). Qed.

Lemma NN_map_res {A B} (f : A -> res B) l : (forall x, NN (f x)) -> NN (map_res f l).
Proof. intros H. induction l as [|x l IH]; cbn [map_res]; nn; try apply H; try exact IH. Qed.

Lemma NN_slice_example ex src tab lineno s1 s2 want mode : NN (slice_example ex src tab o lineno s1 s2 want mode).
Proof.
  unfold slice_example. destruct (lookup_nat s1 tab); [apply NN_ok|].
  destruct (o_dirs o (slice_to s1 s2 ex)) as [ds|e] eqn:D; [apply NN_ok|].
  destruct e; try apply NN_ok. exfalso. apply (Hdirs (slice_to s1 s2 ex) q). exact D.
Qed.

Lemma NN_package_chunk s w lineno : NN (package_chunk o s w lineno).
Proof.
  unfold package_chunk.
  nn_with ltac:(first [apply NN_locate_ps1 | apply NN_ps1_directives | apply NN_slice_example
                      | (apply NN_map_res; intros; apply NN_slice_example)]).
Qed.

Lemma NN_package_groups chunks : forall lineno, NN (package_groups o chunks lineno).
Proof.
  induction chunks as [|c rest IH]; intros lineno; cbn [package_groups];
    nn_with ltac:(first [apply NN_package_chunk | apply IH]).
Qed.

(* parsing arbitrary text returns parts or raises DoctestParseError, never anything else *)
Theorem parse_contained s :
  (exists items, parse o s = Parsed items) \/ (exists fp e, parse o s = ParseError fp e /\ forall q, e <> E_Need q).
Proof.
  unfold parse.
  destruct (label_lines (o_bal o) (normalize_docstring s)) as [ll|e] eqn:L.
  - destruct (group_lines ll) as [gs|e] eqn:G.
    + destruct (package_groups o gs 0) as [items|e] eqn:P.
      * left. eexists. reflexivity.
      * right. exists FP_package, e. pose proof (NN_package_groups gs 0%nat) as H. rewrite P in H.
        split; [|intros q X; apply (H q); rewrite X; reflexivity].
        unfold wrap. destruct e; try reflexivity. exfalso. apply (H q). reflexivity.
    + right. exists FP_group, e. pose proof (NN_group_lines ll) as H. rewrite G in H.
      split; [|intros q X; apply (H q); rewrite X; reflexivity].
      unfold wrap. destruct e; try reflexivity. exfalso. apply (H q). reflexivity.
  - right. exists FP_label, e. unfold label_lines in L. pose proof (NN_label_go (srclines (normalize_docstring s)) (mkL TEXT O None)) as H.
    rewrite L in H. split; [|intros q X; apply (H q); rewrite X; reflexivity].
    unfold wrap. destruct e; try reflexivity. exfalso. apply (H q). reflexivity.
Qed.

End Contain.
