(* FormatTrailing.v — what the display of a part holds when some of its lines are EMPTY (an empty continuation line inside a
   bracket, the bare '...' that closes a block in front of the output).  FormatProofs.format_part_plain asks for non-empty lines
   throughout; here the only thing asked of the lines is that they hold no line break, and the result says exactly which line
   the display loses: an empty LAST line of the text that is split, and nothing else.  With prompts the last source line is
   '...' or '>>>' (not empty), so the display with prompts loses nothing; without prompts the bare terminator is not shown. *)
From XD Require Import Model.Base Model.Parser Model.Text Model.Format Proofs.BaseFacts Proofs.FormatProofs.
Open Scope N_scope.

Fixpoint drop_last_empty (ls : list str) : list str :=
  match ls with
  | [] => []
  | l :: t => match t with
              | [] => match l with [] => [] | _ => [l] end
              | _ => l :: drop_last_empty t
              end
  end.

Lemma drop_last_empty_nonempty ls : Forall (fun l : str => l <> []) ls -> drop_last_empty ls = ls.
Proof.
  induction ls as [|l t IH]; intros H; [reflexivity|]. inversion H as [|? ? Hl Ht]; subst.
  destruct t as [|m r].
  - simpl. destruct l; [exfalso; apply Hl; reflexivity | reflexivity].
  - change (drop_last_empty (l :: m :: r)) with (l :: drop_last_empty (m :: r)). rewrite (IH Ht). reflexivity.
Qed.

Lemma drop_last_empty_snoc ls : ls <> [] -> drop_last_empty (ls ++ [[]]) = ls.
Proof.
  induction ls as [|l t IH]; intros H; [exfalso; apply H; reflexivity|].
  destruct t as [|m r].
  - reflexivity.
  - change ((l :: m :: r) ++ [[]]) with (l :: (m :: r) ++ [[]]).
    change (drop_last_empty (l :: (m :: r) ++ [[]])) with (l :: drop_last_empty ((m :: r) ++ [[]])).
    rewrite IH by discriminate. reflexivity.
Qed.

(* the splitter applied to lines joined by newlines: every line back, except an empty last one *)
Theorem srclines_join_all ls : Forall Clean ls -> srclines (join_nl ls) = drop_last_empty ls.
Proof.
  unfold srclines, srclines_keep.
  induction ls as [|l r IH]; intros H; [reflexivity|]. inversion H as [|? ? Hc Hr]; subst.
  destruct r as [|m r].
  - change (join_nl [l]) with l. rewrite <- (app_nil_r l) at 1. rewrite srck_chars by exact Hc. simpl. rewrite app_nil_r.
    unfold flush_rev. destruct (rev l) eqn:R.
    + assert (l = []) by (destruct l; [reflexivity | apply (f_equal (@length _)) in R; rewrite rev_length in R; discriminate]).
      subst. reflexivity.
    + rewrite <- R, rev_involutive. simpl. rewrite src_chomp_clean by exact Hc.
      destruct l; [discriminate R | reflexivity].
  - rewrite join_nl_cons. rewrite srck_chars by exact Hc. rewrite app_nil_r.
    cbn [srclines_keep_aux]. assert (X : (NL =? CR) = false) by reflexivity. rewrite X.
    assert (Y : is_srcbreak NL = true) by reflexivity. rewrite Y.
    cbn [map]. rewrite (IH Hr).
    change (rev (NL :: rev l)) with (rev (rev l) ++ [NL]). rewrite rev_involutive, src_chomp_line by exact Hc. reflexivity.
Qed.

(* a part whose lines hold no line break (they may be empty) *)
Definition BreakFreePart (p : part) : Prop :=
  Forall Clean (orig_lines p) /\ Forall Clean (exec_lines p) /\ Forall Clean (want_lines p).

(* without colours, line numbers and part numbers the display of a part is its lines, each once and in order, minus an empty
   last source line and an empty last want line *)
Theorem format_part_plain_all p want prefix startline nd : BreakFreePart p ->
  format_part_pieces p (mkFmt false want prefix None) startline nd =
  (drop_last_empty (if prefix then orig_lines p else exec_lines p), (if want then drop_last_empty (want_lines p) else [])).
Proof.
  intros (A & B & C). unfold format_part_pieces. simpl.
  destruct prefix; destruct want; rewrite ?srclines_join_all by assumption; rewrite ?map_id; reflexivity.
Qed.

(* with prompts nothing is lost when every displayed line carries its prompt (is not empty): the usual case, also for a part
   that ends with a bare '...' *)
Corollary format_part_prompted_complete p want startline nd : BreakFreePart p ->
  Forall (fun l : str => l <> []) (orig_lines p) -> Forall (fun l : str => l <> []) (want_lines p) ->
  format_part_pieces p (mkFmt false want true None) startline nd = (orig_lines p, (if want then want_lines p else [])).
Proof.
  intros H Ho Hw. rewrite format_part_plain_all by exact H.
  rewrite (drop_last_empty_nonempty _ Ho), (drop_last_empty_nonempty _ Hw). reflexivity.
Qed.

(* without prompts a part that ends with the bare terminator is shown without that line, and only that line is missing *)
Corollary format_part_promptless_terminator p body want startline nd : BreakFreePart p -> body <> [] ->
  exec_lines p = body ++ [[]] ->
  fst (format_part_pieces p (mkFmt false want false None) startline nd) = body.
Proof.
  intros H Hb E. rewrite format_part_plain_all by exact H. cbn [fst]. rewrite E. apply drop_last_empty_snoc. exact Hb.
Qed.

(* non-vacuity: the part of  '>>> if x:' / '...     y' / '...' / want 'z'  -- with prompts all three source lines are shown,
   without prompts the two lines of the statement *)
Definition demo_terminated_part : part :=
  mkPart [[105;102;32;120;58]; [32;32;32;32;121]; []] [[122]] 0
         [[62;62;62;32;105;102;32;120;58]; [46;46;46;32;32;32;32;32;121]; [46;46;46]] [] M_single false.

Example demo_terminated_display :
  BreakFreePart demo_terminated_part /\
  format_part_pieces demo_terminated_part (mkFmt false true true None) 1 None =
    (orig_lines demo_terminated_part, [[122]]) /\
  format_part_pieces demo_terminated_part (mkFmt false true false None) 1 None =
    ([[105;102;32;120;58]; [32;32;32;32;121]], [[122]]).
Proof.
  split; [|split; vm_compute; reflexivity].
  assert (C : forall ls : list str, forallb (fun l => forallb (fun c => negb (is_linebreak c)) l) ls = true -> Forall Clean ls).
  { intros ls H. apply Forall_forall. intros l Hl c Hc. rewrite forallb_forall in H. specialize (H l Hl).
    rewrite forallb_forall in H. specialize (H c Hc). destruct (is_linebreak c); [discriminate|reflexivity]. }
  repeat split; apply C; vm_compute; reflexivity.
Qed.
