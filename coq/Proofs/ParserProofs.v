(* ParserProofs.v — the labeller and the grouping passes lose, duplicate and
   reorder nothing, for every behaviour of the tokenizer oracle. *)
From XD Require Import Model.Base Model.Parser Spec.Partition Proofs.BaseFacts.
Open Scope N_scope.

Lemma cons_res_ok {A} (x : A) r l : cons_res x r = Ok l -> exists l', r = Ok l' /\ l = x :: l'.
Proof. destruct r; simpl; intros H; inversion H; eauto. Qed.

(* ---------- labeller ---------- *)

Lemma label_go_partition bal lines : forall st ll,
  label_go bal lines st = Ok ll ->
  length ll = length lines /\ Forall2 SameLineUpToHack ll lines.
Proof.
  induction lines as [|line rest IH]; intros st ll H.
  - simpl in H. destruct (l_comp st); inversion H. split; [reflexivity | constructor].
  - cbn [label_go] in H. destruct (l_comp st) as [[parts cur]|].
    + (* inside _complete_source *)
      destruct (prefix_ok_or_empty (skipn (l_indent st) line)).
      * destruct (bal _) as [[|]|e]; try discriminate;
          apply cons_res_ok in H as (l' & H & ->); apply IH in H as [HL HF];
          (split; [simpl; congruence | constructor; [left; reflexivity | exact HF]]).
      * destruct (has_triple_quote parts); [|discriminate].
        destruct (bal _) as [[|]|e]; try discriminate;
          apply cons_res_ok in H as (l' & H & ->); apply IH in H as [HL HF];
          (split; [simpl; congruence |
                   constructor; [right; exists (l_indent st); reflexivity | exact HF]]).
    + set (curr := transition (l_prev st) (l_indent st) line) in *.
      destruct (is_src curr).
      * destruct (negb (prefix_ok _)); [discriminate|].
        destruct (bal _) as [[|]|e]; try discriminate;
          apply cons_res_ok in H as (l' & H & ->); apply IH in H as [HL HF];
          (split; [simpl; congruence | constructor; [left; reflexivity | exact HF]]).
      * apply cons_res_ok in H as (l' & H & ->). apply IH in H as [HL HF].
        split; [simpl; congruence | constructor; [left; reflexivity | exact HF]].
Qed.

Theorem label_lines_partition bal s ll :
  label_lines bal s = Ok ll ->
  length ll = length (srclines s) /\ Forall2 SameLineUpToHack ll (srclines s).
Proof. apply label_go_partition. Qed.

(* ---------- grouping ---------- *)

Definition glines (gs : list (label * list (label * str))) : list (label * str) :=
  concat (map snd gs).

Lemma pass1_lines items : forall left state cur,
  (state = None -> left = None /\ cur = []) ->
  glines (pass1 left items state cur) = rev cur ++ items.
Proof.
  induction items as [|mid rest IH]; intros left state cur Hs.
  - simpl. destruct cur as [|c cur].
    + reflexivity.
    + destruct state as [s|]; [|destruct (Hs eq_refl); discriminate].
      unfold glines. simpl. rewrite !app_nil_r. reflexivity.
  - cbn [pass1].
    destruct state as [s|].
    + match goal with |- context [if ?b then _ else _] => destruct b end.
      * unfold glines. cbn [map concat snd]. fold (glines (pass1 (Some (fst mid)) rest (Some (fst mid)) [mid])).
        rewrite IH by discriminate. reflexivity.
      * rewrite IH by discriminate. simpl. rewrite <- app_assoc. reflexivity.
    + destruct (Hs eq_refl) as [-> ->]. cbn [olabel_eqb is_lab negb andb orb].
      rewrite IH by discriminate. reflexivity.
Qed.

Lemma pass2_lines groups : forall left state cur,
  (state = None -> left = None /\ cur = []) -> (left = None -> state = None) ->
  glines (pass2 left groups state cur) = cur ++ glines groups.
Proof.
  induction groups as [|mid rest IH]; intros left state cur Hs Hl.
  - simpl. destruct cur as [|c cur].
    + reflexivity.
    + destruct state as [s|]; [|destruct (Hs eq_refl); discriminate].
      unfold glines. simpl. rewrite !app_nil_r. reflexivity.
  - cbn [pass2].
    match goal with |- context [if ?b then _ else _] => destruct b eqn:B end.
    + rewrite IH.
      * unfold glines. cbn [map concat]. rewrite <- app_assoc. reflexivity.
      * intros E. destruct (Hs E) as [-> _]. simpl in B. discriminate.
      * discriminate.
    + destruct state as [s|].
      * destruct left as [l|]; [|specialize (Hl eq_refl); discriminate].
        unfold glines. cbn [map concat snd].
        fold (glines (pass2 (Some (fst mid)) rest (Some (fst mid)) (snd mid))).
        rewrite IH by discriminate. reflexivity.
      * destruct (Hs eq_refl) as [-> ->].
        rewrite IH by discriminate. reflexivity.
Qed.

Definition opt_lines (o : option (list str)) : list str := match o with Some p => p | None => [] end.

Lemma pass3_lines groups : forall prev cs,
  pass3 groups prev = Ok cs ->
  flatten_chunks cs = opt_lines prev ++ map snd (glines groups).
Proof.
  induction groups as [|[state group] rest IH]; intros prev cs H.
  - simpl in H. destruct prev as [[|p ps]|]; inversion H; unfold flatten_chunks; simpl;
      rewrite ?app_nil_r; reflexivity.
  - cbn [pass3] in H. unfold glines. cbn [map concat snd]. rewrite map_app.
    fold (glines rest).
    destruct state.
    + (* TEXT *)
      destruct (pass3 rest None) as [r|e] eqn:R; simpl in H; inversion H; subst cs.
      apply IH in R. unfold flatten_chunks in *. rewrite map_app, concat_app. cbn [map concat chunk_lines].
      rewrite R. destruct prev; simpl; rewrite ?app_nil_r, <- ?app_assoc; reflexivity.
    + (* DSRC *)
      destruct (pass3 rest (Some (map snd group))) as [r|e] eqn:R; simpl in H; inversion H; subst cs.
      apply IH in R. unfold flatten_chunks in *. rewrite map_app, concat_app. rewrite R.
      destruct prev; simpl; rewrite ?app_nil_r, <- ?app_assoc; reflexivity.
    + (* DCNT *)
      destruct (pass3 rest (Some (map snd group))) as [r|e] eqn:R; simpl in H; inversion H; subst cs.
      apply IH in R. unfold flatten_chunks in *. rewrite map_app, concat_app. rewrite R.
      destruct prev; simpl; rewrite ?app_nil_r, <- ?app_assoc; reflexivity.
    + (* WANT *)
      destruct prev as [p|]; [|discriminate].
      destruct (pass3 rest None) as [r|e] eqn:R; simpl in H; inversion H; subst cs.
      apply IH in R. unfold flatten_chunks in *. cbn [map concat chunk_lines]. rewrite R.
      simpl. rewrite <- app_assoc. reflexivity.
Qed.

Theorem group_lines_partition ll gs :
  group_lines ll = Ok gs -> flatten_chunks gs = map snd ll.
Proof.
  unfold group_lines. intros H. apply pass3_lines in H. rewrite H. simpl.
  rewrite pass2_lines; [|intros _; split; reflexivity | reflexivity].
  rewrite pass1_lines; [|intros _; split; reflexivity]. reflexivity.
Qed.
