(* CheckerRefuted.v — witnesses (by computation) that the monotonicity clause of C05
   is false of the faithful model outside MonoGuard: finding F7. *)
From Coq Require Import String.
From XD Require Import Model.Base Model.Lit Model.Ellipsis Model.Checker Spec.MatchRel.
Open Scope N_scope.

(* ---------- the clause is false in general: three witnesses (finding F7) ---------- *)

Definition fl_of (e nw iw nr : bool) : flags := mkFlags e nw iw nr false false false.

Theorem monotone_refuted_ignore_whitespace :
  check_output (fl_of true false false false) (S ".a") (S ". ...") = true /\
  check_output (set_len L_IGNORE_WHITESPACE (fl_of true false false false)) (S ".a") (S ". ...") = false.
Proof. split; vm_compute; reflexivity. Qed.

Theorem monotone_refuted_ellipsis :
  check_output (fl_of false false false true) (S "...") (S "'...'") = true /\
  check_output (set_len L_ELLIPSIS (fl_of false false false true)) (S "...") (S "'...'") = false.
Proof. split; vm_compute; reflexivity. Qed.

Theorem monotone_refuted_normalize_whitespace :
  check_output (fl_of false false false true) (S "' a'") (S " a") = true /\
  check_output (set_len L_NORMALIZE_WHITESPACE (fl_of false false false true)) (S "' a'") (S " a") = false.
Proof. split; vm_compute; reflexivity. Qed.

