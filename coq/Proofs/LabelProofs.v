(* LabelProofs.v — the labeller assigns the intended labels to every well-formed docstring built from blocks. *)
From XD Require Import Model.Base Model.Parser Spec.Labels Proofs.BaseFacts.
From Coq Require Import Lia.
Open Scope N_scope.

(* ---------- characters and blanks ---------- *)
Lemma is_space_SP : is_space SP = true. Proof. reflexivity. Qed.
Lemma not_space_not_sp c : is_space c = false -> is_sp c = false.
Proof.
  unfold is_sp. destruct (N.eqb_spec c SP) as [->|]; [intros H; rewrite is_space_SP in H; discriminate | reflexivity].
Qed.

Lemma skipn_spaces n r : skipn n (spaces n ++ r) = r.
Proof. unfold spaces. induction n; simpl; [reflexivity | exact IHn]. Qed.

Lemma drop_sp_spaces n c r : is_sp c = false -> drop_while is_sp (spaces n ++ c :: r) = c :: r.
Proof. intros H. unfold spaces. induction n; simpl; [rewrite H; reflexivity | exact IHn]. Qed.
Lemma take_sp_spaces n c r : is_sp c = false -> take_while is_sp (spaces n ++ c :: r) = spaces n.
Proof. intros H. unfold spaces. induction n; simpl; [rewrite H; reflexivity | rewrite IHn; reflexivity]. Qed.
Lemma spaces_length n : length (spaces n) = n.
Proof. apply repeat_length. Qed.

Lemma line_indent_spaces n c r : is_space c = false -> line_indent (spaces n ++ c :: r) = n.
Proof.
  intros H. unfold line_indent, indent_match. rewrite drop_sp_spaces by (apply not_space_not_sp; exact H).
  rewrite H, take_sp_spaces by (apply not_space_not_sp; exact H). apply spaces_length.
Qed.

Lemma lstrip_spaces n r : lstrip (spaces n ++ r) = lstrip r.
Proof. unfold lstrip, spaces. induction n; simpl; [reflexivity | exact IHn]. Qed.

Lemma drop_while_app f (x y : str) :
  drop_while f (x ++ y) = match drop_while f x with [] => drop_while f y | d => d ++ y end.
Proof.
  induction x as [|c x IH]; simpl; [destruct (drop_while f y); reflexivity|].
  destruct (f c); [exact IH | reflexivity].
Qed.

Lemma rstrip_app a b : rstrip (a ++ b) = match rstrip b with [] => rstrip a | t => a ++ t end.
Proof.
  unfold rstrip. rewrite rev_app_distr, drop_while_app.
  destruct (drop_while is_space (rev b)) as [|d ds] eqn:E; simpl; [reflexivity|].
  rewrite rev_app_distr, rev_involutive.
  destruct (rev ds ++ [d]) eqn:E2; [destruct (rev ds); discriminate|]. rewrite <- E2, app_assoc. reflexivity.
Qed.

Lemma rstrip_spaces n : rstrip (spaces n) = [].
Proof.
  unfold rstrip. assert (R : rev (spaces n) = spaces n).
  { unfold spaces. induction n; simpl; [reflexivity|]. rewrite IHn. clear. induction n; simpl; [reflexivity | rewrite <- IHn; reflexivity]. }
  rewrite R. clear R. unfold spaces. induction n; simpl; [reflexivity | exact IHn].
Qed.

Lemma strip_spaces n r : strip (spaces n ++ r) = strip r.
Proof.
  unfold strip. rewrite rstrip_app. destruct (rstrip r) as [|t ts] eqn:E.
  - rewrite rstrip_spaces. reflexivity.
  - apply lstrip_spaces.
Qed.

(* a line that is a prompt followed by code, stripped: the prompt, alone or followed by a blank *)
Lemma rstrip_sp_code code : rstrip (SP :: code) = [] \/ exists t, rstrip (SP :: code) = SP :: t.
Proof.
  change (SP :: code) with ([SP] ++ code). rewrite rstrip_app. destruct (rstrip code) as [|t ts].
  - left. reflexivity.
  - right. eexists. reflexivity.
Qed.

Lemma strip_prompt (P : str) code :
  (forall c, In c P -> is_space c = false) -> P <> [] ->
  strip (P ++ SP :: code) = P \/ exists t, strip (P ++ SP :: code) = P ++ SP :: t.
Proof.
  intros HP NE. unfold strip. rewrite rstrip_app.
  assert (RP : rstrip P = P).
  { unfold rstrip. destruct (@exists_last _ P NE) as (p' & x & ->). rewrite rev_app_distr. simpl.
    rewrite (HP x) by (apply in_or_app; right; left; reflexivity). simpl. rewrite rev_involutive. reflexivity. }
  assert (LP : forall t, lstrip (P ++ t) = P ++ t).
  { intros t. destruct P as [|x P']; [contradiction NE; reflexivity|]. unfold lstrip. simpl.
    rewrite (HP x) by (left; reflexivity). reflexivity. }
  destruct (rstrip_sp_code code) as [E|[t E]]; rewrite E.
  - left. rewrite RP. rewrite <- (app_nil_r P) at 1. rewrite LP, app_nil_r. reflexivity.
  - right. exists t. apply LP.
Qed.

Lemma PS1_nonspace : forall c, In c PS1 -> is_space c = false.
Proof. intros c H. simpl in H. repeat (destruct H as [<-|H]; [reflexivity|]). contradiction. Qed.
Lemma PS2_nonspace : forall c, In c PS2 -> is_space c = false.
Proof. intros c H. simpl in H. repeat (destruct H as [<-|H]; [reflexivity|]). contradiction. Qed.

Lemma hasprefix_strip_ps1 code : hasprefix PS1 (strip (PS1sp ++ code)) = true.
Proof.
  change (PS1sp ++ code) with (PS1 ++ SP :: code).
  destruct (strip_prompt PS1 code PS1_nonspace) as [E|[t E]]; [discriminate | rewrite E; reflexivity | rewrite E; reflexivity].
Qed.
Lemma strip_ps1_not_ps2 code : eqb_str (strip (PS1sp ++ code)) PS2 = false.
Proof.
  change (PS1sp ++ code) with (PS1 ++ SP :: code).
  destruct (strip_prompt PS1 code PS1_nonspace) as [E|[t E]]; [discriminate | rewrite E; reflexivity | rewrite E; reflexivity].
Qed.
Lemma strip_ps1_nonempty code : is_empty (strip (PS1sp ++ code)) = false.
Proof.
  change (PS1sp ++ code) with (PS1 ++ SP :: code).
  destruct (strip_prompt PS1 code PS1_nonspace) as [E|[t E]]; [discriminate | rewrite E; reflexivity | rewrite E; reflexivity].
Qed.

(* prompt facts on the de-indented line *)
Lemma hasprefix_ps1sp code : hasprefix PS1 (PS1sp ++ code) = true.   Proof. reflexivity. Qed.
Lemma hasprefix_ps2_ps1sp code : hasprefix PS2 (PS1sp ++ code) = false. Proof. reflexivity. Qed.
Lemma hasprefix_ps2sp code : hasprefix PS2 (PS2sp ++ code) = true.   Proof. reflexivity. Qed.
Lemma prefix_ok_prompt b code : prefix_ok (prompt b ++ code) = true.
Proof. destruct b; reflexivity. Qed.
Lemma prefix_ok_or_empty_prompt b code : prefix_ok_or_empty (prompt b ++ code) = true.
Proof. destruct b; reflexivity. Qed.
Lemma skipn4_prompt b code : skipn 4 (prompt b ++ code) = code.
Proof. destruct b; reflexivity. Qed.
Lemma hasprefix_ps2_prompt b code : hasprefix PS2 (prompt b ++ code) = b.
Proof. destruct b; reflexivity. Qed.

(* ---------- results with a known prefix ---------- *)
Fixpoint prepend (l : list (label * str)) (r : res (list (label * str))) : res (list (label * str)) :=
  match l with [] => r | x :: l' => cons_res x (prepend l' r) end.
Lemma prepend_ok l r : prepend l (Ok r) = Ok (l ++ r).
Proof. induction l as [|x l IH]; simpl; [reflexivity | rewrite IH; reflexivity]. Qed.
Lemma prepend_app a b r : prepend (a ++ b) r = prepend a (prepend b r).
Proof. induction a as [|x a IH]; simpl; [reflexivity | rewrite IH; reflexivity]. Qed.

Lemma last_cons_default {A} (x : A) l d1 d2 : last (x :: l) d1 = last (x :: l) d2.
Proof. revert x. induction l as [|y l IH]; intros x; [reflexivity|]. change (last (y :: l) d1 = last (y :: l) d2). apply IH. Qed.

(* ---------- continuation lines, consumed by _complete_source ---------- *)
Lemma go_more bal ind rest : forall cs parts cur,
  cs <> [] ->
  (forall k, (0 < k < length cs)%nat -> bal (parts ++ firstn k (map cl_code cs)) = Ok false) ->
  bal (parts ++ map cl_code cs) = Ok true ->
  label_go bal (map (cline_text ind) cs ++ rest) (mkL cur ind (Some (parts, cur))) =
  prepend (combine (more_labels cur cs) (map (cline_text ind) cs))
          (label_go bal rest (mkL (last_label cur cs) ind None)).
Proof.
  induction cs as [|c cs IH]; intros parts cur NE Hf Ht; [contradiction NE; reflexivity|].
  cbn [map app label_go l_comp l_indent].
  unfold cline_text. rewrite !skipn_spaces, !prefix_ok_or_empty_prompt, !skipn4_prompt, !hasprefix_ps2_prompt.
  set (cur' := if cl_ps2 c then DCNT else cur).
  destruct cs as [|c2 cs'].
  - (* last line of the statement *)
    simpl in Ht. rewrite Ht. unfold last_label. cbn [map app more_labels combine prepend last]. fold cur'. reflexivity.
  - assert (F : bal (parts ++ [cl_code c]) = Ok false) by (apply (Hf 1%nat); simpl; lia).
    rewrite F.
    assert (P1 : forall k, (0 < k < length (c2 :: cs'))%nat -> bal ((parts ++ [cl_code c]) ++ firstn k (map cl_code (c2 :: cs'))) = Ok false).
    { intros k Hk. rewrite <- app_assoc. apply (Hf (S k)). simpl in *. lia. }
    assert (P2 : bal ((parts ++ [cl_code c]) ++ map cl_code (c2 :: cs')) = Ok true) by (rewrite <- app_assoc; exact Ht).
    pose proof (IH (parts ++ [cl_code c]) cur' ltac:(discriminate) P1 P2) as X.
    cbn [map app] in X |- *. unfold cline_text in X. rewrite X. clear X.
    cbn [more_labels combine prepend]. fold cur'. unfold last_label. cbn [more_labels]. fold cur'.
    change (last (cur' :: (if cl_ps2 c2 then DCNT else cur') :: more_labels (if cl_ps2 c2 then DCNT else cur') cs') cur)
      with (last ((if cl_ps2 c2 then DCNT else cur') :: more_labels (if cl_ps2 c2 then DCNT else cur') cs') cur).
    rewrite (last_cons_default (if cl_ps2 c2 then DCNT else cur') (more_labels (if cl_ps2 c2 then DCNT else cur') cs') cur' cur).
    reflexivity.
Qed.

(* ---------- one statement ---------- *)
Lemma go_stmt bal ind s rest st :
  l_comp st = None ->
  transition (l_prev st) (l_indent st) (spaces ind ++ PS1sp ++ sb_code s) = DSRC ->
  (label_eqb (l_prev st) DSRC = true -> l_indent st = ind) ->
  BalOK bal s ->
  label_go bal (stmt_lines ind s ++ rest) st =
  prepend (combine (stmt_labels s) (stmt_lines ind s))
          (label_go bal rest (mkL (last_label DSRC (sb_more s)) ind None)).
Proof.
  intros HC HT HI [Hf Ht]. unfold stmt_lines. cbn [app label_go]. rewrite HC, HT.
  assert (LI : line_indent (spaces ind ++ PS1sp ++ sb_code s) = ind) by (apply line_indent_spaces; reflexivity).
  assert (IND : (if label_eqb (l_prev st) DSRC then l_indent st else line_indent (spaces ind ++ PS1sp ++ sb_code s)) = ind).
  { destruct (label_eqb (l_prev st) DSRC) eqn:E; [apply HI; reflexivity | exact LI]. }
  rewrite IND. cbn [is_src]. rewrite skipn_spaces.
  change (prefix_ok (PS1sp ++ sb_code s)) with true. cbn [negb].
  change (hasprefix PS2 (PS1sp ++ sb_code s)) with false. cbv iota.
  change (skipn 4 (PS1sp ++ sb_code s)) with (sb_code s).
  unfold stmt_labels. destruct (sb_more s) as [|c cs] eqn:EM.
  - unfold codes in Ht. rewrite EM in Ht. simpl in Ht. unfold str in *. rewrite Ht. reflexivity.
  - assert (F : bal [sb_code s] = Ok false).
    { specialize (Hf 1%nat). unfold codes in Hf. rewrite EM in Hf. simpl in Hf. apply Hf. lia. }
    unfold str in *. rewrite F. cbn [combine prepend map]. f_equal.
    change (cline_text ind c :: map (cline_text ind) cs ++ rest) with (map (cline_text ind) (c :: cs) ++ rest).
    etransitivity; [apply (go_more bal ind rest (c :: cs) [sb_code s] DSRC); [discriminate | |] | reflexivity].
    + intros k Hk. specialize (Hf (S k)). unfold codes in Hf. rewrite EM in Hf. simpl in Hf. apply Hf. simpl in Hk. rewrite map_length. lia.
    + unfold codes in Ht. rewrite EM in Ht. exact Ht.
Qed.

(* the first line of a statement is source in every state it may follow *)
Lemma transition_ps1_text i ind code : transition TEXT i (spaces ind ++ PS1sp ++ code) = DSRC.
Proof. unfold transition. rewrite strip_spaces, hasprefix_strip_ps1. reflexivity. Qed.
Lemma transition_ps1_want i ind code : transition WANT i (spaces ind ++ PS1sp ++ code) = DSRC.
Proof. unfold transition. rewrite strip_spaces, strip_ps1_nonempty, hasprefix_strip_ps1. reflexivity. Qed.
Lemma transition_ps1_src prev ind code : is_src prev = true -> transition prev ind (spaces ind ++ PS1sp ++ code) = DSRC.
Proof.
  intros H. unfold transition.
  rewrite strip_spaces, strip_ps1_nonempty, strip_ps1_not_ps2, skipn_spaces.
  assert (LI : line_indent (spaces ind ++ PS1sp ++ code) = ind) by (apply line_indent_spaces; reflexivity).
  rewrite LI.
  rewrite Nat.ltb_irrefl. destruct prev; try discriminate; reflexivity.
Qed.

(* ---------- want lines ---------- *)
Lemma strip_nonspace_head c r : is_space c = false -> exists t, strip (c :: r) = c :: t.
Proof.
  intros H. unfold strip. change (c :: r) with ([c] ++ r). rewrite rstrip_app.
  assert (R1 : rstrip [c] = [c]) by (unfold rstrip; simpl; rewrite H; reflexivity).
  destruct (rstrip r) as [|t ts]; [rewrite R1|]; unfold lstrip; simpl; rewrite H; eexists; reflexivity.
Qed.

Lemma want_line_facts ind w : WantLine w ->
  is_empty (strip (spaces ind ++ w)) = false /\ line_indent (spaces ind ++ w) = ind /\
  hasprefix PS1 (strip (spaces ind ++ w)) = false.
Proof.
  intros [(c & r & -> & Hc) (H1 & _ & _)]. rewrite strip_spaces.
  destruct (strip_nonspace_head c r Hc) as [t E]. split; [|split].
  - assert (X : forall s : str, (exists t', s = c :: t') -> is_empty s = false) by (intros s [t' ->]; reflexivity).
    apply X. exists t. exact E.
  - apply line_indent_spaces. exact Hc.
  - exact H1.
Qed.

Lemma transition_want_src prev ind w : is_src prev = true -> WantLine w ->
  transition prev ind (spaces ind ++ w) = WANT.
Proof.
  intros Hp HW. destruct (want_line_facts ind w HW) as (A & B & C). destruct HW as [_ (_ & W1 & W2)].
  unfold transition. rewrite A, B, skipn_spaces, W1, W2, Nat.ltb_irrefl.
  destruct prev; try discriminate; reflexivity.
Qed.
Lemma transition_want_want ind w : WantLine w -> transition WANT ind (spaces ind ++ w) = WANT.
Proof.
  intros HW. destruct (want_line_facts ind w HW) as (A & B & C).
  unfold transition. rewrite A, B, C, Nat.ltb_irrefl. reflexivity.
Qed.

Lemma go_wants_from_want bal ind rest : forall ws, Forall WantLine ws ->
  label_go bal (map (fun w => spaces ind ++ w) ws ++ rest) (mkL WANT ind None) =
  prepend (map (fun w => (WANT, spaces ind ++ w)) ws) (label_go bal rest (mkL WANT ind None)).
Proof.
  induction ws as [|w ws IH]; intros HF; [reflexivity|]. inversion HF as [|? ? HW HF']; subst.
  cbn [map app label_go l_comp l_prev l_indent]. rewrite (transition_want_want ind w HW).
  cbn [label_eqb is_src prepend]. rewrite IH by exact HF'. reflexivity.
Qed.

Lemma go_wants bal ind rest prev ws : is_src prev = true -> Forall WantLine ws ->
  label_go bal (map (fun w => spaces ind ++ w) ws ++ rest) (mkL prev ind None) =
  prepend (map (fun w => (WANT, spaces ind ++ w)) ws)
          (label_go bal rest (mkL (match ws with [] => prev | _ => WANT end) ind None)).
Proof.
  intros Hp HF. destruct ws as [|w ws]; [reflexivity|]. inversion HF as [|? ? HW HF']; subst.
  cbn [map app label_go l_comp l_prev l_indent]. rewrite (transition_want_src prev ind w Hp HW).
  assert (E : label_eqb prev WANT = false) by (destruct prev; try discriminate; reflexivity).
  rewrite E. cbn [is_src prepend]. rewrite go_wants_from_want by exact HF'. reflexivity.
Qed.

(* ---------- prose ---------- *)
Lemma go_prose_text bal rest : forall ls pind, Forall ProseLine ls ->
  label_go bal (ls ++ rest) (mkL TEXT pind None) =
  prepend (map (fun l => (TEXT, l)) ls) (label_go bal rest (mkL TEXT pind None)).
Proof.
  induction ls as [|l ls IH]; intros pind HF; [reflexivity|]. inversion HF as [|? ? HP HF']; subst.
  cbn [app label_go l_comp l_prev l_indent]. unfold transition. unfold ProseLine in HP. rewrite HP.
  cbn [label_eqb is_src map prepend]. rewrite IH by exact HF'. reflexivity.
Qed.

Lemma go_prose bal rest prev pind l ls : prev <> TEXT -> strip l = [] -> Forall ProseLine ls ->
  label_go bal ((l :: ls) ++ rest) (mkL prev pind None) =
  prepend (map (fun x => (TEXT, x)) (l :: ls)) (label_go bal rest (mkL TEXT O None)).
Proof.
  intros Hp Hb HF. cbn [app label_go l_comp l_prev l_indent].
  assert (T : transition prev pind l = TEXT).
  { unfold transition. rewrite Hb. destruct prev; try reflexivity. }
  rewrite T. assert (E : label_eqb prev TEXT = false) by (destruct prev; try reflexivity; contradiction Hp; reflexivity).
  rewrite E. cbn [is_src map prepend]. rewrite go_prose_text by exact HF. reflexivity.
Qed.

(* ---------- an example ---------- *)
Lemma combine_app {A B} (a1 a2 : list A) (b1 b2 : list B) : length a1 = length b1 ->
  combine (a1 ++ a2) (b1 ++ b2) = combine a1 b1 ++ combine a2 b2.
Proof.
  revert b1. induction a1 as [|x a1 IH]; intros [|y b1] H; simpl in *; try discriminate; [reflexivity|].
  rewrite IH by congruence. reflexivity.
Qed.

Lemma more_labels_length cur cs : length (more_labels cur cs) = length cs.
Proof. revert cur. induction cs as [|c cs IH]; intros cur; simpl; [reflexivity | rewrite IH; reflexivity]. Qed.
Lemma stmt_labels_length ind s : length (stmt_labels s) = length (stmt_lines ind s).
Proof. unfold stmt_labels, stmt_lines. simpl. rewrite more_labels_length, map_length. reflexivity. Qed.

Lemma more_labels_src cur cs : is_src cur = true -> Forall (fun l => is_src l = true) (more_labels cur cs).
Proof.
  revert cur. induction cs as [|c cs IH]; intros cur H; simpl; [constructor|].
  assert (H' : is_src (if cl_ps2 c then DCNT else cur) = true) by (destruct (cl_ps2 c); [reflexivity | exact H]).
  constructor; [exact H' | apply IH; exact H'].
Qed.
Lemma last_label_src cur cs : is_src cur = true -> is_src (last_label cur cs) = true.
Proof.
  intros H. unfold last_label. pose proof (more_labels_src cur cs H) as F.
  induction (more_labels cur cs) as [|x l IH]; simpl; [exact H|].
  inversion F as [|? ? Hx Hl]; subst. destruct l; [exact Hx | apply IH; exact Hl].
Qed.

Definition last_of (stmts : list stmtb) (prev : label) : label :=
  match rev stmts with [] => prev | s :: _ => last_label DSRC (sb_more s) end.

Lemma last_of_cons s ss prev : last_of (s :: ss) prev = last_of ss (last_label DSRC (sb_more s)).
Proof.
  unfold last_of. simpl. destruct (rev ss) as [|x l] eqn:E; simpl; reflexivity.
Qed.

Lemma go_stmts bal ind rest : forall stmts prev, is_src prev = true -> Forall (BalOK bal) stmts ->
  label_go bal (concat (map (stmt_lines ind) stmts) ++ rest) (mkL prev ind None) =
  prepend (combine (concat (map stmt_labels stmts)) (concat (map (stmt_lines ind) stmts)))
          (label_go bal rest (mkL (last_of stmts prev) ind None)).
Proof.
  induction stmts as [|s ss IH]; intros prev Hp HF; [reflexivity|]. inversion HF as [|? ? HB HF']; subst.
  cbn [map concat]. rewrite <- app_assoc.
  rewrite (go_stmt bal ind s _ (mkL prev ind None)); [| reflexivity | apply transition_ps1_src; exact Hp | reflexivity | exact HB].
  rewrite IH by (try apply last_label_src; try reflexivity; assumption).
  rewrite combine_app by apply stmt_labels_length. rewrite prepend_app, last_of_cons. reflexivity.
Qed.

Lemma ex_labels_length e : length (ex_labels e) = length (ex_lines e).
Proof.
  unfold ex_labels, ex_lines. rewrite !app_length, !map_length. f_equal.
  induction (ex_stmts e) as [|s ss IH]; [reflexivity|]. cbn [map concat]. rewrite !app_length, IH, (stmt_labels_length (ex_ind e)). reflexivity.
Qed.

Lemma combine_want ind (ws : list str) :
  combine (map (fun _ : str => WANT) ws) (map (fun w => spaces ind ++ w) ws) = map (fun w => (WANT, spaces ind ++ w)) ws.
Proof. induction ws as [|w ws IHw]; simpl; [reflexivity | rewrite IHw; reflexivity]. Qed.

Lemma go_example bal rest e prev pind :
  ex_stmts e <> [] -> Forall (BalOK bal) (ex_stmts e) -> Forall WantLine (ex_want e) ->
  (is_src prev = true -> ex_ind e = pind) ->
  label_go bal (ex_lines e ++ rest) (mkL prev pind None) =
  prepend (combine (ex_labels e) (ex_lines e))
          (label_go bal rest (mkL (fst (after_block prev pind (BEx e))) (snd (after_block prev pind (BEx e))) None)).
Proof.
  intros NE HB HW HI. unfold ex_lines, ex_labels. destruct (ex_stmts e) as [|s ss] eqn:ES; [contradiction NE; reflexivity|].
  inversion HB as [|? ? HB1 HB']; subst. set (ind := ex_ind e) in *.
  cbn [map concat]. rewrite <- !app_assoc.
  (* the first statement, from whatever state *)
  rewrite (go_stmt bal ind s _ (mkL prev pind None)); [| reflexivity | | | exact HB1].
  2: { cbn [l_prev l_indent]. destruct prev; [apply transition_ps1_text | | | apply transition_ps1_want];
       (rewrite <- (HI eq_refl); apply transition_ps1_src; reflexivity). }
  2: { cbn [l_prev l_indent]. destruct prev; cbn [label_eqb]; try discriminate. intros _. symmetry. apply HI. reflexivity. }
  (* the other statements *)
  rewrite (go_stmts bal ind _ ss) by (try apply last_label_src; try reflexivity; assumption).
  (* the want *)
  assert (SRC : is_src (last_of ss (last_label DSRC (sb_more s))) = true).
  { unfold last_of. destruct (rev ss); apply last_label_src; reflexivity. }
  pose proof (go_wants bal ind rest _ (ex_want e) SRC HW) as GW. unfold str in GW |- *. rewrite GW. clear GW.
  (* assemble *)
  rewrite combine_app by apply stmt_labels_length.
  rewrite combine_app.
  2: { clear. induction ss as [|x l IH]; [reflexivity|]. cbn [map concat]. rewrite !app_length, IH, (stmt_labels_length ind). reflexivity. }
  rewrite !prepend_app.
  pose proof (combine_want ind (ex_want e)) as CW. unfold str in CW |- *.
  rewrite CW. f_equal. f_equal. f_equal. f_equal.
  unfold after_block, last_stmt_label. rewrite ES. fold ind.
  rewrite <- (last_of_cons s ss DSRC). unfold last_of.
  destruct (ex_want e); reflexivity.
Qed.

(* ---------- blocks ---------- *)
Lemma block_labels_length b : length (block_labels b) = length (block_lines b).
Proof. destruct b as [ls|e]; simpl; [apply map_length | apply ex_labels_length]. Qed.

Lemma go_block bal rest b prev pind : ok_after bal prev pind b ->
  label_go bal (block_lines b ++ rest) (mkL prev pind None) =
  prepend (combine (block_labels b) (block_lines b))
          (label_go bal rest (mkL (fst (after_block prev pind b)) (snd (after_block prev pind b)) None)).
Proof.
  destruct b as [ls|e]; intros H.
  - destruct H as [HF HB]. destruct ls as [|l ls]; [reflexivity|]. inversion HF as [|? ? HP HF']; subst.
    assert (CM : combine (map (fun _ : str => TEXT) (l :: ls)) (l :: ls) = map (fun x => (TEXT, x)) (l :: ls)).
    { generalize (l :: ls). intros m. induction m as [|x m IHm]; simpl; [reflexivity | rewrite IHm; reflexivity]. }
    cbn [block_lines block_labels]. rewrite CM.
    destruct prev.
    + rewrite go_prose_text by exact HF. reflexivity.
    + rewrite go_prose by (try discriminate; try (apply HB; discriminate); exact HF'). reflexivity.
    + rewrite go_prose by (try discriminate; try (apply HB; discriminate); exact HF'). reflexivity.
    + rewrite go_prose by (try discriminate; try (apply HB; discriminate); exact HF'). reflexivity.
  - destruct H as (NE & HB & HW & HI). apply go_example; assumption.
Qed.

Theorem labels_as_intended_from bal : forall bs prev pind, Chain bal prev pind bs ->
  label_go bal (concat (map block_lines bs)) (mkL prev pind None) = Ok (intended bs).
Proof.
  induction bs as [|b bs IH]; intros prev pind HC; [reflexivity|].
  inversion HC as [|? ? ? ? Hok Hrest]; subst. cbn [map concat]. unfold intended. cbn [map concat].
  rewrite (go_block bal _ b prev pind Hok), (IH _ _ Hrest), prepend_ok.
  rewrite combine_app by apply block_labels_length. reflexivity.
Qed.

(* the labeller, started at the top of a docstring, gives every line of a well-formed docstring its intended label *)
Theorem labels_as_intended bal bs s :
  srclines s = concat (map block_lines bs) -> Chain bal TEXT O bs ->
  label_lines bal s = Ok (intended bs).
Proof. intros E HC. unfold label_lines. rewrite E. apply labels_as_intended_from. exact HC. Qed.

(* ---------- the hypotheses are satisfiable: prose, a two-statement example (one statement spanning two lines)
   with a want, prose again ---------- *)
Definition count_char (c : char) (s : str) : nat := length (filter (N.eqb c) s).
(* an oracle in the spirit of the tokenizer: complete when the brackets are closed *)
Definition demo_bal (parts : list str) : res bool :=
  Ok (Nat.eqb (count_char 40 (concat parts)) (count_char 41 (concat parts))).

Definition demo_blocks : list block :=
  [ BProse [[83;117;109;109;97;114;121;46]; []];                                   (* "Summary." "" *)
    BEx (mkEx 4 [ mkStmtB [120;32;61;32;40;49;44] [mkCL true [32;32;32;32;32;50;41]];   (* x = (1,  /  ...      2) *)
                  mkStmtB [120] [] ]                                                    (* x *)
                [[40;49;44;32;50;41]]);                                                 (* (1, 2) *)
    BProse [[]; [77;111;114;101;46]] ].                                            (* "" "More." *)

Example demo_chain : Chain demo_bal TEXT O demo_blocks.
Proof.
  unfold demo_blocks.
  apply Chain_cons.
  { split; [repeat constructor | intros H; contradiction H; reflexivity]. }
  apply Chain_cons.
  { split; [discriminate|]. split; [|split].
    - constructor; [|constructor; [|constructor]].
      + split; [intros k Hk; simpl in Hk; destruct k as [|[|k]]; [lia | reflexivity | lia] | reflexivity].
      + split; [intros k Hk; simpl in Hk; lia | reflexivity].
    - constructor; [|constructor]. split; [eexists; eexists; split; reflexivity | repeat split; reflexivity].
    - intros H; discriminate H. }
  apply Chain_cons.
  { split; [repeat constructor | intros _; reflexivity]. }
  apply Chain_nil.
Qed.

Example demo_labels :
  map fst (intended demo_blocks) = [TEXT; TEXT; DSRC; DCNT; DSRC; WANT; TEXT; TEXT] /\
  label_go demo_bal (concat (map block_lines demo_blocks)) (mkL TEXT O None) = Ok (intended demo_blocks).
Proof. split; [reflexivity | apply labels_as_intended_from; exact demo_chain]. Qed.
