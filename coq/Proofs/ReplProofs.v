(* ReplProofs.v — C13 for DoctestParser(simulate_repl=True): the parts of a chunk tile its lines along the statement
   starts (first boundary 0), and the parsed docstring is partitioned exactly as in the default mode. *)
From Coq Require Import List Arith Lia Bool NArith.
From XD Require Import Model.Base Model.Parser Spec.Partition Proofs.BaseFacts Proofs.ParserProofs Proofs.ChunkProofs.
Import ListNotations.
Local Open Scope nat_scope.

Lemma ascending_zero_tl ps1 : Ascending ps1 -> Ascending (0 :: tl ps1).
Proof.
  intros H. destruct ps1 as [|p0 rest]; [exact I|]. cbn [tl].
  apply Ascending_cons_lb; [apply (Ascending_tail p0 rest H)|].
  intros y Hy. pose proof (Ascending_lb rest p0 H y Hy). lia.
Qed.

Theorem package_chunk_repl_tiles o raw_src raw_want lineno ps :
  package_chunk_repl o raw_src raw_want lineno = Ok ps ->
  PartsTile lineno (dedent_chunk raw_src) (dedent_want raw_src raw_want) ps.
Proof.
  unfold package_chunk_repl. destruct raw_src as [|first more]; [discriminate|].
  set (li := line_indent first). set (src := map (skipn li) (first :: more)).
  set (want := map (skipn li) raw_want). set (ea := map (skipn 4) src).
  change (dedent_chunk (first :: more)) with src. change (dedent_want (first :: more) raw_want) with want.
  destruct (locate_ps1 o src) as [[ps1 mode_hint]|e] eqn:LOC; [|discriminate]. cbn [bind].
  destruct (ps1_directives o ea ps1) as [[tab brk]|e] eqn:PD; [|discriminate]. cbn [bind].
  pose proof (locate_ps1_asc _ _ _ _ LOC) as Aps1.
  set (bs := 0 :: tl ps1).
  destruct (map_res _ (consecutive_pairs bs)) as [parts1|e] eqn:MR; [|discriminate]. cbn [bind].
  apply map_res_pairs in MR. destruct MR as (M1 & M2 & M3 & M4).
  destruct (slice_example ea src tab o lineno (last bs 0) None want _) as [lastp|e] eqn:SL; [|discriminate]. cbn [bind].
  intros H. inversion H; subst ps. clear H. apply slice_example_ok in SL. destruct SL as (S1 & S2 & S3 & S4).
  cbn [slice_to] in S1, S2. exists bs. split; [reflexivity|]. split; [apply ascending_zero_tl; exact Aps1|].
  apply assemble; try assumption. discriminate.
Qed.

Theorem package_groups_repl_tiled o : forall chunks lineno items,
  package_groups_repl o chunks lineno = Ok items -> Tiled lineno chunks items.
Proof.
  induction chunks as [|c rest IH]; intros n items H.
  - simpl in H. inversion H. constructor.
  - destruct c as [ls|s w]; cbn [package_groups_repl] in H.
    + destruct (package_groups_repl o rest (n + length ls)) as [r|e] eqn:R; [|discriminate]. cbn [bind] in H.
      inversion H; subst. constructor. apply IH. exact R.
    + destruct (package_chunk_repl o s w n) as [ps|e] eqn:PC; [|discriminate]. cbn [bind] in H.
      destruct (package_groups_repl o rest (n + length s + length w)) as [r|e] eqn:R; [|discriminate]. cbn [bind] in H.
      inversion H; subst. constructor; [apply package_chunk_repl_tiles in PC; exact PC | apply IH; exact R].
Qed.

(* end to end in repl mode: lines into labelled lines, labelled lines into chunks, chunks into text items and parts *)
Theorem parse_repl_partition o s items :
  parse_repl o s = Parsed items ->
  exists ll gs,
    length ll = length (srclines (normalize_docstring s)) /\
    Forall2 SameLineUpToHack ll (srclines (normalize_docstring s)) /\
    flatten_chunks gs = map snd ll /\
    Tiled 0 gs items.
Proof.
  unfold parse_repl. destruct (label_lines (o_bal o) (normalize_docstring s)) as [ll|e] eqn:L.
  2: { destruct e; discriminate. }
  destruct (group_lines ll) as [gs|e] eqn:G.
  2: { destruct e; discriminate. }
  destruct (package_groups_repl o gs 0) as [its|e] eqn:P.
  2: { destruct e; discriminate. }
  intros H. inversion H; subst. exists ll, gs.
  destruct (label_lines_partition _ _ _ L) as [A B].
  repeat split; [exact A | exact B | apply group_lines_partition; exact G | apply package_groups_repl_tiled with (o := o); exact P].
Qed.

