(* FormatProofs.v — displayed doctest source is faithful (C18); the dump command keeps every
   statement in order inside one indented function per doctest (C19). *)
From XD Require Import Model.Base Model.Parser Model.Text Model.Format Proofs.BaseFacts.
Open Scope N_scope.

(* ---------- lines and joins ---------- *)
Definition NoNL (l : str) : Prop := forall c, In c l -> (c =? NL) = false.
(* no character at which str.splitlines() breaks *)
Definition Clean (l : str) : Prop := forall c, In c l -> is_linebreak c = false.

Lemma Clean_NoNL l : Clean l -> NoNL l.
Proof.
  intros H c Hc. specialize (H c Hc). destruct (c =? NL) eqn:E; [|reflexivity].
  apply N.eqb_eq in E. subst c. discriminate.
Qed.

Lemma split_on_line l rest : NoNL l -> split_on NL (l ++ NL :: rest) = l :: split_on NL rest.
Proof.
  intros H. induction l as [|c l IH]; simpl; [reflexivity|].
  rewrite (H c (or_introl eq_refl)). rewrite IH by (intros x Hx; apply H; right; exact Hx).
  reflexivity.
Qed.

Lemma split_on_last l : NoNL l -> split_on NL l = [l].
Proof.
  intros H. induction l as [|c l IH]; simpl; [reflexivity|].
  rewrite (H c (or_introl eq_refl)). rewrite IH by (intros x Hx; apply H; right; exact Hx). reflexivity.
Qed.

Lemma join_nl_cons l m r : join_nl (l :: m :: r) = l ++ NL :: join_nl (m :: r).
Proof. reflexivity. Qed.

(* joining lines with newlines and splitting again gives the lines back *)
Lemma split_join ls : ls <> [] -> Forall NoNL ls -> split_on NL (join_nl ls) = ls.
Proof.
  induction ls as [|l r IH]; intros NE H; [contradiction|]. inversion H; subst.
  destruct r as [|m r].
  - simpl. apply split_on_last. assumption.
  - rewrite join_nl_cons, split_on_line by assumption. rewrite IH; [reflexivity | discriminate | assumption].
Qed.

(* the same for str.splitlines(), which also breaks at \r, \f, ... and drops a final empty line *)
Lemma sk_chars l : forall cur rest, Clean l ->
  splitlines_keep_aux (l ++ rest) cur = splitlines_keep_aux rest (rev l ++ cur).
Proof.
  induction l as [|c l IH]; intros cur rest H; [reflexivity|].
  assert (Hc : is_linebreak c = false) by (apply H; left; reflexivity).
  assert (Hcr : (c =? CR) = false).
  { destruct (c =? CR) eqn:E; [|reflexivity]. apply N.eqb_eq in E. subst c. discriminate. }
  simpl. rewrite Hcr, Hc. rewrite IH by (intros x Hx; apply H; right; exact Hx).
  rewrite <- app_assoc. reflexivity.
Qed.

Lemma chomp_line l : Clean l -> chomp (l ++ [NL]) = l.
Proof.
  intros H. unfold chomp. rewrite rev_app_distr. simpl.
  destruct (rev l) as [|b r] eqn:R.
  - assert (l = []) by (destruct l; [reflexivity | apply (f_equal (@length _)) in R; rewrite rev_length in R; discriminate]).
    subst. reflexivity.
  - assert (Hb : In b l) by (apply in_rev; rewrite R; left; reflexivity).
    assert (Hcr : (b =? CR) = false).
    { destruct (b =? CR) eqn:E; [|reflexivity]. apply N.eqb_eq in E. subst b. specialize (H _ Hb). discriminate. }
    rewrite Hcr. change (rev r ++ [b]) with (rev (b :: r)). rewrite <- R. apply rev_involutive.
Qed.

Lemma chomp_clean l : Clean l -> chomp l = l.
Proof.
  intros H. unfold chomp. destruct (rev l) as [|a [|b r]] eqn:R; [destruct l; [reflexivity|apply (f_equal (@length _)) in R; rewrite rev_length in R; discriminate] | |].
  - assert (Ha : In a l) by (apply in_rev; rewrite R; left; reflexivity). rewrite (H _ Ha). reflexivity.
  - assert (Ha : In a l) by (apply in_rev; rewrite R; left; reflexivity).
    assert (E1 : (a =? NL) = false).
    { destruct (a =? NL) eqn:E; [|reflexivity]. apply N.eqb_eq in E. subst a. specialize (H _ Ha). discriminate. }
    rewrite E1. simpl. rewrite (H _ Ha). reflexivity.
Qed.

Lemma splitlines_join ls : Forall (fun l => Clean l /\ l <> []) ls -> splitlines (join_nl ls) = ls.
Proof.
  unfold splitlines, splitlines_keep.
  induction ls as [|l r IH]; intros H; [reflexivity|]. inversion H as [|? ? [Hc Hne] Hr]; subst.
  destruct r as [|m r].
  - change (join_nl [l]) with l. rewrite <- (app_nil_r l) at 1. rewrite sk_chars by exact Hc. simpl. rewrite app_nil_r.
    unfold flush_rev. destruct (rev l) eqn:R.
    + exfalso. apply Hne. destruct l; [reflexivity | apply (f_equal (@length _)) in R; rewrite rev_length in R; discriminate].
    + rewrite <- R, rev_involutive. simpl. rewrite chomp_clean by exact Hc. reflexivity.
  - rewrite join_nl_cons. rewrite sk_chars by exact Hc. rewrite app_nil_r.
    cbn [splitlines_keep_aux]. assert (X : (NL =? CR) = false) by reflexivity. rewrite X.
    assert (Y : is_linebreak NL = true) by reflexivity. rewrite Y.
    cbn [map]. rewrite (IH Hr).
    change (rev (NL :: rev l)) with (rev (rev l) ++ [NL]). rewrite rev_involutive, chomp_line by exact Hc. reflexivity.
Qed.

(* the same for the parser's own line splitter (Base.srclines: newlines and carriage returns only, since fix F28) *)
Lemma clean_srcbreak l c : Clean l -> In c l -> is_srcbreak c = false /\ (c =? CR) = false /\ (c =? NL) = false.
Proof.
  intros H Hc. specialize (H _ Hc).
  assert (E1 : (c =? CR) = false) by (destruct (c =? CR) eqn:E; [apply N.eqb_eq in E; subst c; discriminate|reflexivity]).
  assert (E2 : (c =? NL) = false) by (destruct (c =? NL) eqn:E; [apply N.eqb_eq in E; subst c; discriminate|reflexivity]).
  unfold is_srcbreak. rewrite E1, E2. repeat split; reflexivity.
Qed.

Lemma srck_chars l : forall cur rest, Clean l ->
  srclines_keep_aux (l ++ rest) cur = srclines_keep_aux rest (rev l ++ cur).
Proof.
  induction l as [|c l IH]; intros cur rest H; [reflexivity|].
  destruct (clean_srcbreak (c :: l) c H (or_introl eq_refl)) as (Hb & Hcr & _).
  simpl. rewrite Hcr, Hb. rewrite IH by (intros x Hx; apply H; right; exact Hx).
  rewrite <- app_assoc. reflexivity.
Qed.

Lemma src_chomp_line l : Clean l -> src_chomp (l ++ [NL]) = l.
Proof.
  intros H. unfold src_chomp. rewrite rev_app_distr. simpl.
  destruct (rev l) as [|b r] eqn:R.
  - assert (l = []) by (destruct l; [reflexivity | apply (f_equal (@length _)) in R; rewrite rev_length in R; discriminate]).
    subst. reflexivity.
  - assert (Hb : In b l) by (apply in_rev; rewrite R; left; reflexivity).
    destruct (clean_srcbreak l b H Hb) as (_ & Hcr & _).
    rewrite Hcr. change (rev r ++ [b]) with (rev (b :: r)). rewrite <- R. apply rev_involutive.
Qed.

Lemma src_chomp_clean l : Clean l -> src_chomp l = l.
Proof.
  intros H. unfold src_chomp. destruct (rev l) as [|a [|b r]] eqn:R; [destruct l; [reflexivity|apply (f_equal (@length _)) in R; rewrite rev_length in R; discriminate] | |].
  - assert (Ha : In a l) by (apply in_rev; rewrite R; left; reflexivity). destruct (clean_srcbreak l a H Ha) as (Hb & _ & _). rewrite Hb. reflexivity.
  - assert (Ha : In a l) by (apply in_rev; rewrite R; left; reflexivity). destruct (clean_srcbreak l a H Ha) as (Hb & _ & E1).
    rewrite E1. simpl. rewrite Hb. reflexivity.
Qed.

Lemma srclines_join ls : Forall (fun l => Clean l /\ l <> []) ls -> srclines (join_nl ls) = ls.
Proof.
  unfold srclines, srclines_keep.
  induction ls as [|l r IH]; intros H; [reflexivity|]. inversion H as [|? ? [Hc Hne] Hr]; subst.
  destruct r as [|m r].
  - change (join_nl [l]) with l. rewrite <- (app_nil_r l) at 1. rewrite srck_chars by exact Hc. simpl. rewrite app_nil_r.
    unfold flush_rev. destruct (rev l) eqn:R.
    + exfalso. apply Hne. destruct l; [reflexivity | apply (f_equal (@length _)) in R; rewrite rev_length in R; discriminate].
    + rewrite <- R, rev_involutive. simpl. rewrite src_chomp_clean by exact Hc. reflexivity.
  - rewrite join_nl_cons. rewrite srck_chars by exact Hc. rewrite app_nil_r.
    cbn [srclines_keep_aux]. assert (X : (NL =? CR) = false) by reflexivity. rewrite X.
    assert (Y : is_srcbreak NL = true) by reflexivity. rewrite Y.
    cbn [map]. rewrite (IH Hr).
    change (rev (NL :: rev l)) with (rev (rev l) ++ [NL]). rewrite rev_involutive, src_chomp_line by exact Hc. reflexivity.
Qed.

(* ---------- C18: format_part / format_src ---------- *)
Definition CleanPart (p : part) : Prop :=
  Forall (fun l => Clean l /\ l <> []) (orig_lines p) /\ Forall (fun l => Clean l /\ l <> []) (exec_lines p) /\
  Forall (fun l => Clean l /\ l <> []) (want_lines p).

(* without colours, line numbers and part numbers: each source line and each want line once, in order *)
Theorem format_part_plain p want prefix startline nd : CleanPart p ->
  format_part_pieces p (mkFmt false want prefix None) startline nd =
  ((if prefix then orig_lines p else exec_lines p), (if want then want_lines p else [])).
Proof.
  intros (A & B & C). unfold format_part_pieces. simpl.
  destruct prefix; destruct want; rewrite ?srclines_join by assumption; rewrite ?map_id; reflexivity.
Qed.

Lemma add_line_numbers_nth lines : forall start nd k l, nth_error lines k = Some l ->
  nth_error (add_line_numbers lines start nd) k = Some (pad_left nd (decimal (start + k)) ++ [SP] ++ l).
Proof.
  induction lines as [|x r IH]; intros start nd k l H; [destruct k; discriminate|].
  destruct k; simpl in *.
  - inversion H; subst. rewrite Nat.add_0_r. reflexivity.
  - rewrite (IH (S start) nd k l H). replace (S start + k)%nat with (start + S k)%nat by lia. reflexivity.
Qed.

Lemma add_line_numbers_length lines start nd : length (add_line_numbers lines start nd) = length lines.
Proof. revert start. induction lines as [|x r IH]; intros start; simpl; [reflexivity | rewrite IH; reflexivity]. Qed.

(* with line numbers: the k-th displayed source line of a part carries the number
   startline + line_offset + k, and want lines carry none (they are indented by the width of the number) *)
Theorem format_part_numbers (p : part) (want prefix : bool) (startline nd k : nat) (l : str) : CleanPart p ->
  nth_error (if prefix then orig_lines p else exec_lines p) k = Some l ->
  let '(src, wl) := format_part_pieces p (mkFmt true want prefix None) startline (Some nd) in
  nth_error src k = Some (pad_left nd (decimal (startline + line_offset p + k)) ++ [SP] ++ l) /\
  length src = length (if prefix then orig_lines p else exec_lines p) /\
  wl = (if want then map (fun w => repeat_char SP (S nd) ++ w) (want_lines p) else []).
Proof.
  intros (A & B & C) H. unfold format_part_pieces. simpl.
  rewrite (srclines_join (want_lines p) C).
  destruct prefix; rewrite ?srclines_join by assumption;
    (split; [apply add_line_numbers_nth; exact H | split; [apply add_line_numbers_length | reflexivity]]).
Qed.

(* the displayed numbers are the positions of the lines when the offsets are positions (C13) *)
Definition all_lines (p : part) : list str := orig_lines p ++ want_lines p.
Fixpoint OffsetsArePositions (base : nat) (parts : list part) : Prop :=
  match parts with
  | [] => True
  | p :: r => line_offset p = base /\ length (orig_lines p) = length (exec_lines p) /\
              OffsetsArePositions (base + length (all_lines p)) r
  end.

Theorem number_is_position parts : forall base j p k,
  OffsetsArePositions base parts -> nth_error parts j = Some p -> (k < length (orig_lines p))%nat ->
  (line_offset p + k = base + length (concat (map all_lines (firstn j parts))) + k)%nat /\
  nth_error (concat (map all_lines parts)) (line_offset p + k - base) = nth_error (orig_lines p) k.
Proof.
  induction parts as [|q r IH]; intros base j p k H Hj Hk; [destruct j; discriminate|].
  destruct H as (O & L & R). destruct j as [|j]; simpl in Hj.
  - inversion Hj; subst q. simpl. split; [lia|].
    replace (line_offset p + k - base)%nat with k by lia.
    rewrite nth_error_app1 by (unfold all_lines; rewrite app_length; lia).
    unfold all_lines. rewrite nth_error_app1 by exact Hk. reflexivity.
  - destruct (IH _ _ _ _ R Hj Hk) as [A B]. simpl. split.
    + rewrite A, app_length. lia.
    + rewrite nth_error_app2 by lia. rewrite <- B. f_equal. lia.
Qed.

(* the whole text, without numbers: the lines of the parts, each once, in order *)
Lemma join_nl_app (a b : list str) : a <> [] -> b <> [] -> join_nl (a ++ b) = join_nl a ++ NL :: join_nl b.
Proof.
  intros Ha Hb. induction a as [|x a IH]; [contradiction|]. destruct a as [|y a].
  - simpl. destruct b; [contradiction | reflexivity].
  - change ((x :: y :: a) ++ b) with (x :: (y :: a) ++ b). 
    change (join_nl (x :: (y :: a) ++ b)) with (x ++ NL :: join_nl ((y :: a) ++ b)).
    rewrite IH by discriminate. rewrite join_nl_cons, <- app_assoc. reflexivity.
Qed.

Definition shown (want prefix : bool) (p : part) : list str :=
  (if prefix then orig_lines p else exec_lines p) ++ (if want then want_lines p else []).

Lemma format_part_text_plain (p : part) (want prefix : bool) (startline : nat) (nd : option nat) : CleanPart p ->
  (if prefix then orig_lines p else exec_lines p) <> [] ->
  format_part p (mkFmt false want prefix None) startline nd = join_nl (shown want prefix p).
Proof.
  intros CP NE. unfold format_part. rewrite (format_part_plain p want prefix startline nd CP). unfold shown.
  destruct (if want then want_lines p else []) as [|w ws] eqn:W; [rewrite app_nil_r; reflexivity|].
  rewrite join_nl_app by (try assumption; discriminate). reflexivity.
Qed.

Lemma join_nl_concat (lss : list (list str)) : Forall (fun ls => ls <> []) lss ->
  join_nl (map join_nl lss) = join_nl (concat lss).
Proof.
  induction lss as [|ls r IH]; intros H; [reflexivity|]. inversion H; subst.
  destruct r as [|m r]; [simpl; rewrite app_nil_r; reflexivity|].
  change (map join_nl (ls :: m :: r)) with (join_nl ls :: map join_nl (m :: r)).
  change (join_nl (join_nl ls :: map join_nl (m :: r))) with (join_nl ls ++ NL :: join_nl (map join_nl (m :: r))).
  rewrite IH by assumption. change (concat (ls :: m :: r)) with (ls ++ concat (m :: r)).
  rewrite join_nl_app; [reflexivity | assumption |].
  inversion H3; subst. simpl. destruct m; [contradiction | discriminate].
Qed.

Lemma map_combine_seq {A B} (f : A -> B) (l : list A) : forall n,
  map (fun ip : nat * A => f (snd ip)) (combine (seq n (length l)) l) = map f l.
Proof. induction l as [|x l IH]; intros n; simpl; [reflexivity | rewrite IH; reflexivity]. Qed.

Definition SrcNonEmpty (prefix : bool) (p : part) : Prop := (if prefix then orig_lines p else exec_lines p) <> [].

Lemma shown_clean want prefix p : CleanPart p -> Forall NoNL (shown want prefix p).
Proof.
  intros (A & B & C). unfold shown. apply Forall_app. split.
  - destruct prefix; [eapply Forall_impl; [|exact A] | eapply Forall_impl; [|exact B]]; intros l [H _]; apply Clean_NoNL; exact H.
  - destruct want; [|constructor]. eapply Forall_impl; [|exact C]. intros l [H _]. apply Clean_NoNL. exact H.
Qed.

(* formatting a parsed doctest without colours or numbers reproduces each of its source and want
   lines once and in order *)
Theorem format_src_plain parts want prefix offset lineno :
  parts <> [] -> Forall CleanPart parts -> Forall (SrcNonEmpty prefix) parts ->
  split_on NL (format_src parts false want offset prefix false lineno) = concat (map (shown want prefix) parts).
Proof.
  intros NE HC HS. unfold format_src. cbn [andb].
  rewrite (map_combine_seq (fun p => format_part p (mkFmt false want prefix None) 1%nat None) parts 0%nat).
  assert (E : map (fun p => format_part p (mkFmt false want prefix None) 1%nat None) parts
              = map join_nl (map (shown want prefix) parts)).
  { rewrite map_map. apply map_ext_in. intros p Hp. apply format_part_text_plain.
    - rewrite Forall_forall in HC. apply HC. exact Hp.
    - rewrite Forall_forall in HS. apply HS. exact Hp. }
  rewrite E. rewrite join_nl_concat.
  - apply split_join.
    + destruct parts as [|p r]; [contradiction|]. inversion HS; subst. simpl. unfold shown at 1.
      unfold SrcNonEmpty in H1. destruct (if prefix then orig_lines p else exec_lines p); [contradiction | discriminate].
    + apply Forall_concat. rewrite Forall_map. rewrite Forall_forall in *. intros p Hp. apply shown_clean. apply HC. exact Hp.
  - rewrite Forall_map. rewrite Forall_forall in *. intros p Hp. specialize (HS p Hp). unfold shown, SrcNonEmpty in *.
    destruct (if prefix then orig_lines p else exec_lines p); [contradiction | discriminate].
Qed.

(* ---------- C19: the dump command ---------- *)
Lemma indent_lines (pfx : str) (ls : list str) : ls <> [] ->
  pfx ++ join ([NL] ++ pfx) ls = join_nl (map (fun l => pfx ++ l) ls).
Proof.
  induction ls as [|l r IH]; intros NE; [contradiction|]. destruct r as [|m r]; [reflexivity|].
  change (join ([NL] ++ pfx) (l :: m :: r)) with (l ++ ([NL] ++ pfx) ++ join ([NL] ++ pfx) (m :: r)).
  change (map (fun l0 => pfx ++ l0) (l :: m :: r)) with ((pfx ++ l) :: (pfx ++ m) :: map (fun l0 => pfx ++ l0) r).
  rewrite join_nl_cons.
  change ((pfx ++ m) :: map (fun l0 => pfx ++ l0) r) with (map (fun l0 => pfx ++ l0) (m :: r)).
  rewrite <- IH by discriminate. rewrite <- !app_assoc. reflexivity.
Qed.

(* utils.indent: every line of the text gets the prefix *)
Theorem indent_text_lines pfx text : NoNL pfx ->
  split_on NL (indent_text pfx text) = map (fun l => pfx ++ l) (split_on NL text).
Proof.
  intros Hp. unfold indent_text.
  assert (NE : split_on NL text <> []) by (destruct text as [|c t]; simpl; [discriminate | destruct (c =? NL); [discriminate | destruct (split_on NL t); discriminate]]).
  rewrite indent_lines by exact NE. apply split_join.
  - destruct (split_on NL text); [contradiction | discriminate].
  - rewrite Forall_map. 
    assert (G : forall t, Forall NoNL (split_on NL t)).
    { induction t as [|c t IHt]; simpl; [constructor; [intros x []|constructor]|].
      destruct (c =? NL) eqn:E; [constructor; [intros x [] | exact IHt]|].
      destruct (split_on NL t) as [|p ps]; [constructor; [intros x [<-|[]]; exact E | constructor]|].
      inversion IHt; subst. constructor; [|assumption]. intros x [<-|Hx]; [exact E | apply H1; exact Hx]. }
    eapply Forall_impl; [|apply G]. intros l Hl c Hc. apply in_app_or in Hc. destruct Hc; auto.
Qed.

Lemma FOUR_NoNL : NoNL FOUR.
Proof. intros c [<-|[<-|[<-|[<-|[]]]]]; reflexivity. Qed.

(* one function per doctest: a `def` header line followed by the body, every line of which starts with
   four blanks (so it lies inside the function's suite) *)
Theorem dump_function_lines e :
  NoNL (DEF_ ++ de_func_name e ++ PARENS_COLON) ->
  let body_lines := match de_parts e with [] => [ELLIPSIS_BODY] | ps => map dump_part ps end in
  let body := join_nl ([QQQ; CONVERTED ++ de_node e; QQQ] ++ de_header e ++ body_lines) in
  split_on NL (dump_function e) =
  (DEF_ ++ de_func_name e ++ PARENS_COLON) :: map (fun l => FOUR ++ l) (split_on NL body).
Proof.
  intros H body_lines body. unfold dump_function. fold body_lines. fold body.
  replace (DEF_ ++ de_func_name e ++ PARENS_COLON ++ [NL] ++ indent_text FOUR body)
    with ((DEF_ ++ de_func_name e ++ PARENS_COLON) ++ NL :: indent_text FOUR body)
    by (rewrite <- !app_assoc; reflexivity).
  rewrite split_on_line by exact H. rewrite indent_text_lines by exact FOUR_NoNL. reflexivity.
Qed.

(* the body of one part: its executable lines in order minus star imports, then the want as comments *)
Definition dump_part_lines (p : part) : list str :=
  filter no_star (exec_lines p) ++
  match want_lines p with [] => [] | wl => WANT_HDR :: map (fun l => HASH_SP ++ l) wl end.

Lemma HASH_SP_NoNL : NoNL HASH_SP.
Proof. intros c [<-|[<-|[]]]; reflexivity. Qed.

Theorem dump_part_spec p : CleanPart p -> filter no_star (exec_lines p) <> [] ->
  split_on NL (dump_part p) = dump_part_lines p.
Proof.
  intros (A & B & C) NE. unfold dump_part, dump_part_lines.
  assert (FB : Forall (fun l => Clean l /\ l <> []) (filter no_star (exec_lines p))).
  { rewrite Forall_forall in *. intros l Hl. apply filter_In in Hl. apply B. tauto. }
  rewrite (srclines_join _ FB).
  assert (FN : Forall NoNL (filter no_star (exec_lines p))).
  { eapply Forall_impl; [|exact FB]. intros l [H _]. apply Clean_NoNL. exact H. }
  destruct (want_lines p) as [|w ws] eqn:W.
  - rewrite app_nil_r. apply split_join; assumption.
  - assert (WN : Forall NoNL (w :: ws)).
    { eapply Forall_impl; [|exact C]. intros l [H _]. apply Clean_NoNL. exact H. }
    assert (I : indent_text HASH_SP (join_nl (w :: ws)) = join_nl (map (fun l => HASH_SP ++ l) (w :: ws))).
    { unfold indent_text. rewrite (split_join (w :: ws)) by (try discriminate; exact WN). apply indent_lines. discriminate. }
    assert (E : join_nl (filter no_star (exec_lines p)) ++ [NL] ++ WANT_HDR ++ [NL] ++ indent_text HASH_SP (join_nl (w :: ws))
                = join_nl (filter no_star (exec_lines p) ++ WANT_HDR :: map (fun l => HASH_SP ++ l) (w :: ws))).
    { rewrite I. rewrite join_nl_app by (try assumption; discriminate).
      change (map (fun l => HASH_SP ++ l) (w :: ws)) with ((HASH_SP ++ w) :: map (fun l => HASH_SP ++ l) ws).
      rewrite (join_nl_cons WANT_HDR). reflexivity. }
    rewrite E. apply split_join.
    + destruct (filter no_star (exec_lines p)); [contradiction | discriminate].
    + apply Forall_app. split; [exact FN|]. constructor.
      * intros c Hc. unfold WANT_HDR in Hc. simpl in Hc.
        repeat (destruct Hc as [<-|Hc]; [reflexivity|]). contradiction.
      * rewrite Forall_map. eapply Forall_impl; [|exact WN]. intros l Hl c Hc.
        apply in_app_or in Hc. destruct Hc as [Hc|Hc]; [apply HASH_SP_NoNL; exact Hc | apply Hl; exact Hc].
Qed.

(* nothing the doctest executed is lost or re-ordered: the non-comment lines of the part bodies are the
   executable lines in their original order minus star imports *)
Theorem dump_order_preserved (ps : list part) :
  concat (map (fun p => filter no_star (exec_lines p)) ps) =
  filter no_star (concat (map exec_lines ps)).
Proof.
  induction ps as [|p r IH]; simpl; [reflexivity|]. rewrite filter_app, IH. reflexivity.
Qed.

(* the module text is the functions joined by two blank lines: one function per doctest *)
Theorem dump_module_functions es : dump_module es = join [NL; NL; NL] (map dump_function es) /\
  length (map dump_function es) = length es.
Proof. split; [reflexivity | apply map_length]. Qed.
