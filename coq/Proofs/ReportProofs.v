(* ReportProofs.v — C09, the rendering clause: the failure report of every recorded failure exists, names the exception
   type and the failing line (in the doctest and in the file), and lists every executed part once, in order, split at the
   failing part. *)
From Coq Require Import List Arith Lia Bool NArith.
From XD Require Import Model.Base Model.Parser Model.RunLoop Model.Format Model.Report Proofs.RunEscape.
Import ListNotations.
Local Open Scope nat_scope.

Lemma last_cons_ne {A} (x : A) l d : l <> [] -> last (x :: l) d = last l d.
Proof. destruct l; [contradiction | reflexivity]. Qed.
Lemma app_end_ne {A} (l : list A) y : l ++ [y] <> [].
Proof. destruct l; discriminate. Qed.

(* ---------- the head lines ---------- *)
Theorem report_lines exname node fpath pfx doc_lineno ps st tb offs partnos lines :
  repr_failure_head exname node fpath pfx doc_lineno ps st tb offs partnos = Some lines ->
  exists fo, failed_line_offset ps st tb = Some fo /\
    failed_lineno doc_lineno ps st tb = Some (doc_lineno + fo) /\
    nth_error lines 0 = Some (REASON ++ exname) /\
    nth_error lines 2 = Some (XDOC_OPEN ++ node ++ LINE_MID ++ decimal (fo + 1) ++ WRT_DOCTEST) /\
    nth_error lines 3 = Some (FILE_OPEN ++ fpath ++ LINE_MID ++ decimal (doc_lineno + fo) ++ COMMA ++ WRT_FILE) /\
    last lines [] = pfx ++ TRACEBACK_HDR.
Proof.
  unfold repr_failure_head, failed_lineno. destruct (failed_line_offset ps st tb) as [fo|]; [|discriminate].
  destruct (bd_go _ _ _ _ _) as [[a b] c]. intros H. inversion H; subst lines. clear H.
  exists fo. split; [reflexivity|]. split; [reflexivity|]. split; [reflexivity|]. split; [reflexivity|]. split; [reflexivity|].
  repeat (rewrite last_cons_ne; [|first [discriminate | rewrite !app_assoc; apply app_end_ne]]).
  rewrite !app_assoc. apply last_last.
Qed.

(* a recorded failure can always be rendered *)
Theorem report_exists exname node fpath pfx doc_lineno ps st tb offs partnos j f :
  r_failed st = Some (j, f) -> (forall i, j = Some i -> nth_error ps i <> None) ->
  exists lines, repr_failure_head exname node fpath pfx doc_lineno ps st tb offs partnos = Some lines.
Proof.
  intros HF HI. unfold repr_failure_head.
  destruct (failed_line_defined ps st tb j f HF) as [A B].
  assert (E : exists fo, failed_line_offset ps st tb = Some fo).
  { destruct j as [i|].
    - destruct (nth_error ps i) as [p|] eqn:Hp; [|exfalso; apply (HI i eq_refl); exact Hp].
      destruct (B i p eq_refl Hp) as (o & Ho & _). exists o. exact Ho.
    - exists 0. apply A. reflexivity. }
  destruct E as (fo & ->). destruct (bd_go _ _ _ _ _) as [[a b] c]. eexists. reflexivity.
Qed.

(* ---------- the breakdown ---------- *)
Definition entries (lg : list (nat * str)) (skipped : list nat) (its : list (nat * str)) : list str :=
  concat (map (fun it => if mem_nat (fst it) skipped then [] else bd_entry lg (fst it) (snd it)) its).

Lemma bd_go_rest : forall its sk j lg,
  Forall (fun it => fst it <> j) its ->
  forall t, bd_go its sk (Some j) lg t =
    match t with
    | 0 => (entries lg sk its, [], [])
    | 1 => ([], entries lg sk its, [])
    | _ => ([], [], entries lg sk its)
    end.
Proof.
  induction its as [|[i text] its IH]; intros sk j lg HF t.
  - cbn. destruct t as [|[|t]]; reflexivity.
  - inversion HF as [|? ? Hi Hr]; subst. cbn [fst] in Hi. cbn [bd_go]. unfold entries. cbn [map concat fst snd].
    destruct (mem_nat i sk); [cbn [app]; apply IH; exact Hr|].
    assert (E : Nat.eqb i j = false) by (apply Nat.eqb_neq; exact Hi). rewrite E.
    rewrite (IH sk j lg Hr t). fold (entries lg sk its).
    destruct t as [|[|t]]; reflexivity.
Qed.

Lemma bd_go_none : forall its sk lg t,
  bd_go its sk None lg t =
    match t with
    | 0 => (entries lg sk its, [], [])
    | 1 => ([], entries lg sk its, [])
    | _ => ([], [], entries lg sk its)
    end.
Proof.
  induction its as [|[i text] its IH]; intros sk lg t.
  - cbn. destruct t as [|[|t]]; reflexivity.
  - cbn [bd_go]. unfold entries. cbn [map concat fst snd].
    destruct (mem_nat i sk); [cbn [app]; apply IH|].
    rewrite (IH sk lg t). fold (entries lg sk its). destruct t as [|[|t]]; reflexivity.
Qed.

(* every executed part once and in order: before the failing part under "Passed Parts", the failing part (its numbered
   source and what it wrote) alone under "Failed Part", the ones after it under "Remaining Parts"; skipped parts are left out *)
Theorem breakdown_split pre j text post sk lg :
  Forall (fun it => fst it <> j) pre -> Forall (fun it => fst it <> j) post -> mem_nat j sk = false ->
  bd_go (pre ++ (j, text) :: post) sk (Some j) lg 0 = (entries lg sk pre, bd_entry lg j text, entries lg sk post).
Proof.
  intros Hpre Hpost Hj. induction pre as [|[i t] pre IH].
  - cbn [app bd_go]. rewrite Hj, Nat.eqb_refl. rewrite (bd_go_rest post sk j lg Hpost 2). cbn. rewrite app_nil_r. reflexivity.
  - inversion Hpre as [|? ? Hi Hr]; subst. cbn [fst] in Hi. cbn [app bd_go]. unfold entries. cbn [map concat fst snd].
    destruct (mem_nat i sk); [cbn [app]; apply IH; exact Hr|].
    assert (E : Nat.eqb i j = false) by (apply Nat.eqb_neq; exact Hi). rewrite E.
    rewrite (IH Hr). reflexivity.
Qed.

(* no failing part among the listed ones (an import failure, or a failing part that was not executed): all under "Passed" *)
Theorem breakdown_no_failed_part its sk lg failed :
  (forall j, failed = Some j -> Forall (fun it => fst it <> j) its) ->
  bd_go its sk failed lg 0 = (entries lg sk its, [], []).
Proof.
  intros H. destruct failed as [j|].
  - apply (bd_go_rest its sk j lg (H j eq_refl) 0).
  - apply (bd_go_none its sk lg 0).
Qed.

(* the indices the report walks over are 0, 1, 2, ... : positions in the doctest *)
Lemma combine_seq_split {A} (l : list A) j x : nth_error l j = Some x -> forall n,
  combine (seq n (length l)) l = combine (seq n j) (firstn j l) ++ (n + j, x) :: combine (seq (n + S j) (length l - S j)) (skipn (S j) l).
Proof.
  revert j. induction l as [|y l IH]; intros j H n; [destruct j; discriminate|].
  destruct j as [|j].
  - cbn in H. inversion H; subst. cbn. rewrite Nat.add_0_r, Nat.sub_0_r. replace (n + 1) with (S n) by lia. reflexivity.
  - cbn in H. cbn [length seq combine firstn skipn app]. rewrite (IH j H (S n)).
    replace (S n + j) with (n + S j) by lia. replace (S n + S j) with (n + S (S j)) by lia. reflexivity.
Qed.

Lemma combine_seq_neq {A} (l : list A) : forall n k j, (j < n \/ n + k <= j) ->
  Forall (fun it : nat * A => fst it <> j) (combine (seq n k) l).
Proof.
  induction l as [|y l IH]; intros n k j H; [destruct k; constructor|].
  destruct k as [|k]; [constructor|]. cbn [seq combine]. constructor; [cbn; lia|]. apply IH. lia.
Qed.

Theorem breakdown_of_report (texts : list str) j text sk lg :
  nth_error texts j = Some text -> mem_nat j sk = false ->
  bd_go (combine (seq 0 (length texts)) texts) sk (Some j) lg 0 =
  (entries lg sk (combine (seq 0 j) (firstn j texts)), bd_entry lg j text,
   entries lg sk (combine (seq (S j) (length texts - S j)) (skipn (S j) texts))).
Proof.
  intros H Hj. rewrite (combine_seq_split texts j text H 0). cbn [Nat.add].
  apply breakdown_split; [apply combine_seq_neq; lia | apply combine_seq_neq; lia | exact Hj].
Qed.
