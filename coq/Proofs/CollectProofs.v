(* CollectProofs.v — containment of broken docstrings in parse_docstr_examples (C14)
   and the shape of what each style yields (C07). *)
From XD Require Import Model.Base Model.Collect Proofs.BaseFacts.
Open Scope N_scope.

Fixpoint good_prefix (bs : list gblock) : list gblock :=
  match bs with
  | b :: r => match gb_parse b with None => b :: good_prefix r | Some _ => [] end
  | [] => []
  end.

Fixpoint number_from (n : nat) (bs : list gblock) : list ex_info :=
  match bs with
  | [] => []
  | b :: r => mkEx n (gb_offset b + 1) :: number_from (S n) r
  end.

(* google: exactly the example blocks before the first one that fails to parse, in order, numbered
   from num; the exception is that block's *)
Lemma google_go_spec bs : forall n,
  g_items (google_go bs n) = number_from n (good_prefix bs) /\
  g_raise (google_go bs n) = match skipn (length (good_prefix bs)) bs with
                             | [] => None
                             | b :: _ => gb_parse b
                             end.
Proof.
  induction bs as [|b r IH]; intros n; simpl; [split; reflexivity|].
  destruct (gb_parse b) eqn:P; simpl.
  - rewrite P. split; reflexivity.
  - destruct (IH (S n)) as [A B]. rewrite A, B. split; reflexivity.
Qed.

Lemma good_prefix_is_prefix bs : exists rest, bs = good_prefix bs ++ rest.
Proof.
  induction bs as [|b r [rest IH]]; simpl; [exists []; reflexivity|].
  destruct (gb_parse b); [exists (b :: r); reflexivity | exists rest; simpl; rewrite <- IH; reflexivity].
Qed.

Lemma good_prefix_all_parse bs b : In b (good_prefix bs) -> gb_parse b = None.
Proof.
  induction bs as [|x r IH]; simpl; [tauto|].
  destruct (gb_parse x) eqn:P; [simpl; tauto|]. intros [<-|H]; [exact P | apply IH; exact H].
Qed.

Lemma number_from_nums n bs : map e_num (number_from n bs) = seq n (length bs).
Proof. revert n. induction bs as [|b r IH]; intros n; simpl; [reflexivity | rewrite IH; reflexivity]. Qed.

Lemma google_raise_class bs : forall n e, g_raise (google_go bs n) = Some e -> exists b, In b bs /\ gb_parse b = Some e.
Proof.
  induction bs as [|b r IH]; intros n e; simpl; [discriminate|].
  destruct (gb_parse b) eqn:P; simpl.
  - intros H; inversion H; subst. exists b. split; [left; reflexivity | exact P].
  - intros H. destruct (IH _ _ H) as (b' & A & B). exists b'. split; [right; exact A | exact B].
Qed.

(* ---------- containment ---------- *)
Definition OnlyParseErrors (split : option (list gblock)) (parsed : pexn + list fitem) : Prop :=
  (forall bs b, split = Some bs -> In b bs -> gb_parse b <> Some PX_other) /\ parsed <> inl PX_other.

Lemma style_raise_not_other st split parsed :
  OnlyParseErrors split parsed -> g_raise (style_examples st split parsed) <> Some PX_other.
Proof.
  intros [HG HF].
  assert (G : g_raise (google_examples split) <> Some PX_other).
  { unfold google_examples. destruct split as [bs|]; [|simpl; discriminate].
    intros X. destruct (google_raise_class _ _ _ X) as (b & A & B). apply filter_In in A.
    exact (HG bs b eq_refl (proj1 A) B). }
  assert (F : g_raise (freeform_examples parsed) <> Some PX_other).
  { unfold freeform_examples. destruct parsed as [e|items].
    - simpl. intros X. apply HF. inversion X. reflexivity.
    - destruct (freeform_go items false false 0 0) as [off kept]. destruct (Nat.eqb kept 0); simpl; discriminate. }
  destruct st; simpl; try assumption.
  unfold auto_examples. destruct (g_items (google_examples split)); assumption.
Qed.

(* extracting examples from a docstring never propagates an exception when its producers raise only
   the parser's own errors (which is all DoctestParser.parse raises: parse_contained) *)
Theorem examples_contained st split parsed : OnlyParseErrors split parsed ->
  c_propagates (contain (style_examples st split parsed)) = false.
Proof.
  intros H. pose proof (style_raise_not_other st split parsed H) as N. unfold contain.
  destruct (g_raise (style_examples st split parsed)) as [[| |]|]; try reflexivity. congruence.
Qed.

(* a warning is emitted exactly when something failed *)
Theorem warned_iff_failed g : c_warned (contain g) = true <-> g_raise g <> None.
Proof. unfold contain. destruct (g_raise g) as [[| |]|]; simpl; split; congruence. Qed.

(* whatever is yielded is kept; nothing is invented *)
Theorem contained_examples g : c_examples (contain g) = g_items g.
Proof. unfold contain. destruct (g_raise g) as [[| |]|]; reflexivity. Qed.

(* freeform: a docstring with broken syntax yields no example; otherwise at most one *)
Theorem freeform_broken_no_example e : g_items (freeform_examples (inl e)) = [] /\ g_raise (freeform_examples (inl e)) = Some e.
Proof. split; reflexivity. Qed.

Theorem freeform_at_most_one parsed : (length (g_items (freeform_examples parsed)) <= 1)%nat.
Proof.
  unfold freeform_examples. destruct parsed as [e|items]; simpl; [lia|].
  destruct (freeform_go items false false 0 0) as [off kept]. destruct (Nat.eqb kept 0); simpl; lia.
Qed.

(* google: no example from the broken block or any later one; earlier blocks stay, numbered 0.. in order *)
Theorem google_examples_spec bs :
  let ex := filter gb_is_example bs in
  g_items (google_examples (Some bs)) = number_from 0 (good_prefix ex) /\
  map e_num (g_items (google_examples (Some bs))) = seq 0 (length (good_prefix ex)) /\
  (forall b, In b (good_prefix ex) -> gb_parse b = None /\ gb_is_example b = true /\ In b bs) /\
  (g_raise (google_examples (Some bs)) = None <-> good_prefix ex = ex).
Proof.
  intros ex. unfold google_examples. fold ex. destruct (google_go_spec ex 0%nat) as [A B].
  rewrite A. split; [reflexivity|]. split; [apply number_from_nums|]. split.
  - intros b Hb. split; [apply (good_prefix_all_parse ex); exact Hb|].
    destruct (good_prefix_is_prefix ex) as [rest R].
    assert (X : In b ex) by (rewrite R; apply in_or_app; left; exact Hb).
    apply filter_In in X. tauto.
  - rewrite B. destruct (good_prefix_is_prefix ex) as [rest R]. split.
    + intros H. destruct (skipn (length (good_prefix ex)) ex) as [|b r] eqn:S.
      * rewrite R in S at 2. rewrite skipn_app, Nat.sub_diag, skipn_all in S. simpl in S.
        subst rest. rewrite app_nil_r in R. symmetry. exact R.
      * exfalso. rewrite R in S at 2. rewrite skipn_app, Nat.sub_diag, skipn_all in S. simpl in S. subst rest.
        (* the block right after the good prefix does not parse *)
        clear - R H. revert R H. generalize (good_prefix_all_parse ex).
        induction ex as [|x l IH]; simpl; [discriminate|].
        destruct (gb_parse x) eqn:P; simpl.
        -- intros _ R H. inversion R; subst. congruence.
        -- intros _ R H. inversion R. apply IH; try assumption. apply good_prefix_all_parse.
    + intros E. rewrite E, skipn_all. reflexivity.
Qed.

(* auto = google blocks when some were found, freeform otherwise *)
Theorem auto_spec g f : auto_examples g f = if is_empty (g_items g) then f else g.
Proof. unfold auto_examples. destruct (g_items g); reflexivity. Qed.

(* the other docstrings of the module are unaffected: each docstring is handled on its own *)
Theorem collect_module_local st a d b :
  collect_module st (a ++ d :: b) =
  collect_module st a ++ contain (style_examples st (fst d) (snd d)) :: collect_module st b.
Proof. unfold collect_module. rewrite map_app. reflexivity. Qed.

Theorem collect_module_length st docs : length (collect_module st docs) = length docs.
Proof. apply map_length. Qed.
