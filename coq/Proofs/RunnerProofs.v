(* RunnerProofs.v — tallies, failed list, exit status, gathering (C10, C09). *)
From XD Require Import Model.Base Model.Parser Model.Checker Model.Text Model.Directive Model.RunLoop Model.Runner
  Proofs.BaseFacts.
Open Scope N_scope.

Definition ExactlyOne (sm : summary) : Prop :=
  (s_passed sm = true /\ s_failed sm = false /\ s_skipped sm = false) \/
  (s_passed sm = false /\ s_failed sm = true /\ s_skipped sm = false) \/
  (s_passed sm = false /\ s_failed sm = false /\ s_skipped sm = true).

Lemma counts_partition l : Forall ExactlyOne l ->
  (count_b s_passed l + count_b s_failed l + count_b s_skipped l = length l)%nat.
Proof.
  unfold count_b. induction 1 as [|sm l H _ IH]; simpl; [reflexivity|].
  destruct H as [(A & B & C) | [(A & B & C) | (A & B & C)]]; rewrite A, B, C; simpl; lia.
Qed.

(* positions of the summaries satisfying f *)
Fixpoint positions (f : summary -> bool) (l : list summary) (i : nat) : list nat :=
  match l with
  | [] => []
  | sm :: r => if f sm then i :: positions f r (S i) else positions f r (S i)
  end.

Lemma failed_positions_spec l : Forall ExactlyOne l -> forall i,
  failed_positions l i = positions s_failed l i.
Proof.
  induction 1 as [|sm l H _ IH]; intros i; simpl; [reflexivity|].
  destruct H as [(A & B & C) | [(A & B & C) | (A & B & C)]]; rewrite A, B, C; simpl; rewrite IH; reflexivity.
Qed.

Lemma positions_length f l i : length (positions f l i) = count_b f l.
Proof.
  unfold count_b. revert i. induction l as [|sm l IH]; intros i; simpl; [reflexivity|].
  destruct (f sm); simpl; rewrite IH; reflexivity.
Qed.

Lemma positions_in f l : forall i j, In j (positions f l i) <->
  exists sm, nth_error l (j - i) = Some sm /\ f sm = true /\ (i <= j)%nat.
Proof.
  induction l as [|sm l IH]; intros i j; simpl.
  - split; [tauto|]. intros (x & H & _). destruct (j - i)%nat; discriminate.
  - destruct (f sm) eqn:F; simpl; rewrite ?IH.
    + split.
      * intros [<-|(x & A & B & C)].
        -- exists sm. rewrite Nat.sub_diag. simpl. auto.
        -- exists x. replace (j - i)%nat with (S (j - S i)) by lia. simpl. repeat split; try assumption. lia.
      * intros (x & A & B & C). destruct (Nat.eq_dec i j) as [->|N]; [left; reflexivity|right].
        exists x. replace (j - i)%nat with (S (j - S i)) in A by lia. simpl in A. repeat split; try assumption. lia.
    + split.
      * intros (x & A & B & C). exists x. replace (j - i)%nat with (S (j - S i)) by lia. simpl. repeat split; try assumption. lia.
      * intros (x & A & B & C). destruct (Nat.eq_dec i j) as [->|N].
        -- rewrite Nat.sub_diag in A. simpl in A. inversion A; subst. congruence.
        -- exists x. replace (j - i)%nat with (S (j - S i)) in A by lia. simpl in A. repeat split; try assumption. lia.
Qed.

(* ---------- the loop ---------- *)
Definition AllReturn (outs : list run_out) : Prop := forall o, In o outs -> exists sm, o = RO_summary sm.

Fixpoint summaries_of (outs : list run_out) : list summary :=
  match outs with
  | RO_summary sm :: r => sm :: summaries_of r
  | _ :: r => summaries_of r
  | [] => []
  end.

Lemma run_loop_all_return outs : AllReturn outs ->
  run_loop outs = (summaries_of outs, LE_done) /\ length (summaries_of outs) = length outs /\
  (forall i, nth_error outs i = option_map RO_summary (nth_error (summaries_of outs) i)).
Proof.
  induction outs as [|o outs IH]; intros H; simpl.
  - split; [reflexivity|]. split; [reflexivity|]. intros [|i]; reflexivity.
  - destruct (H o (or_introl eq_refl)) as [sm ->].
    destruct IH as (A & B & C). { intros o' Ho'. apply H. right. exact Ho'. }
    rewrite A. simpl. split; [reflexivity|]. split; [congruence|]. intros [|i]; simpl; [reflexivity | apply C].
Qed.

(* no summary is ever dropped or duplicated, also when the loop is cut short *)
Lemma run_loop_prefix outs : forall l e, run_loop outs = (l, e) ->
  exists k, (k <= length outs)%nat /\ map RO_summary l = firstn k outs /\
            (e = LE_done -> k = length outs).
Proof.
  induction outs as [|o outs IH]; intros l e H; simpl in H.
  - inversion H; subst. exists O. simpl. split; [lia|]. split; reflexivity.
  - destruct o as [sm| |].
    + destruct (run_loop outs) as [l' e'] eqn:R. inversion H; subst.
      destruct (IH l' e eq_refl) as (k & A & B & C).
      exists (S k). simpl. split; [lia|]. split; [rewrite B; reflexivity | intros X; rewrite (C X); reflexivity].
    + inversion H; subst. exists O. simpl. split; [lia|]. split; [reflexivity | discriminate].
    + inversion H; subst. exists O. simpl. split; [lia|]. split; [reflexivity | discriminate].
Qed.

Theorem tallies_add_up outs rs : run_examples outs = Some rs -> AllReturn outs ->
  Forall ExactlyOne (summaries_of outs) ->
  (n_passed rs + n_failed rs + n_skipped rs = n_total rs)%nat /\ n_total rs = length outs.
Proof.
  intros H AR EO. unfold run_examples in H. destruct (run_loop_all_return outs AR) as (A & B & _).
  rewrite A in H. inversion H; subst; simpl. rewrite counts_partition by exact EO. split; [exact B | reflexivity].
Qed.

Theorem failed_list_exact outs rs : run_examples outs = Some rs -> AllReturn outs ->
  Forall ExactlyOne (summaries_of outs) ->
  failed_idx rs = positions s_failed (summaries_of outs) 0 /\ length (failed_idx rs) = n_failed rs.
Proof.
  intros H AR EO. unfold run_examples in H. destruct (run_loop_all_return outs AR) as (A & _ & _).
  rewrite A in H. inversion H; subst; simpl.
  rewrite failed_positions_spec by exact EO. split; [reflexivity | apply positions_length].
Qed.

Lemma count_pos_iff f l : (0 < count_b f l)%nat <-> exists sm, In sm l /\ f sm = true.
Proof.
  unfold count_b. split.
  - intros H. destruct (filter f l) as [|sm r] eqn:E; [simpl in H; lia|].
    exists sm. apply filter_In. rewrite E. left. reflexivity.
  - intros (sm & A & B). assert (X : In sm (filter f l)) by (apply filter_In; auto).
    destruct (filter f l); [contradiction | simpl; lia].
Qed.

Theorem exit_status_iff outs rs : run_examples outs = Some rs -> AllReturn outs ->
  (exit_status rs = 1%nat <-> exists sm, In sm (summaries_of outs) /\ s_failed sm = true) /\
  (exit_status rs = 0%nat \/ exit_status rs = 1%nat).
Proof.
  intros H AR. unfold run_examples in H. destruct (run_loop_all_return outs AR) as (A & _ & _).
  rewrite A in H. inversion H; subst. unfold exit_status; simpl. split.
  - rewrite <- count_pos_iff. destruct (Nat.ltb_spec 0 (count_b s_failed (summaries_of outs))); split; try lia; discriminate.
  - destruct (Nat.ltb 0 _); auto.
Qed.

(* C09: when every run returns, every doctest is run and reported, in order *)
Theorem others_still_run outs : AllReturn outs ->
  exists rs, run_examples outs = Some rs /\ n_total rs = length outs /\
             length (summaries_of outs) = length outs /\
             forall i, nth_error outs i = option_map RO_summary (nth_error (summaries_of outs) i).
Proof.
  intros AR. destruct (run_loop_all_return outs AR) as (A & B & C).
  unfold run_examples. rewrite A. eexists. repeat split; [exact B | exact C].
Qed.

(* the native loop aborts only if some run lets an exception escape *)
Theorem abort_iff_escape outs : run_examples outs = None <-> 
  exists k, nth_error outs k = Some RO_raised /\ forall j, (j < k)%nat -> exists sm, nth_error outs j = Some (RO_summary sm).
Proof.
  unfold run_examples. induction outs as [|o outs IH]; simpl.
  - split; [discriminate | intros (k & H & _); destruct k; discriminate].
  - destruct o as [sm| |].
    + destruct (run_loop outs) as [l e] eqn:R. split.
      * intros H. destruct e; try discriminate. destruct (proj1 IH eq_refl) as (k & A & B).
        exists (S k). split; [exact A|]. intros [|j] Hj; simpl; [eauto | apply B; lia].
      * intros (k & A & B). destruct k as [|k]; [discriminate|]. simpl in A.
        assert (X : (let '(_, e0) := (l, e) in match e0 with LE_abort => None
                     | _ => Some (mkRunSummary (length outs) (count_b s_passed l) (count_b s_failed l) (count_b s_skipped l) (failed_positions l 0)) end) = None).
        { apply IH. exists k. split; [exact A|]. intros j Hj. apply (B (S j)). lia. }
        destruct e; try discriminate. reflexivity.
    + split; [intros _; exists O; split; [reflexivity | intros j Hj; lia] | reflexivity].
    + split; [discriminate|]. intros (k & A & B). destruct k as [|k]; [discriminate|].
      destruct (B O ltac:(lia)) as [sm X]. discriminate.
Qed.

(* ---------- gathering ---------- *)
Theorem gather_all_spec examples e :
  In e (gather C_all examples) <-> In e examples /\ ex_disabled e = false.
Proof. unfold gather. rewrite filter_In. destruct (ex_disabled e); simpl; intuition congruence. Qed.

Lemma filter_NoDup_map {A B} (f : A -> B) (p : A -> bool) l : NoDup (map f l) -> NoDup (map f (filter p l)).
Proof.
  induction l as [|x l IH]; simpl; intros H; [constructor|]. inversion H; subst.
  destruct (p x); simpl; [constructor|]; auto.
  intro X. apply H2. apply in_map_iff in X. destruct X as (y & Hy & Hf). apply filter_In in Hf.
  apply in_map_iff. exists y. tauto.
Qed.

(* each enabled doctest is run once: identifiers stay unique, order is kept (a filter) *)
Theorem gather_all_once examples : NoDup (map ex_unique examples) ->
  NoDup (map ex_unique (gather C_all examples)) /\
  gather C_all examples = filter (fun e => negb (ex_disabled e)) examples.
Proof. intros H. split; [apply filter_NoDup_map; exact H | reflexivity]. Qed.

Lemma filter_unique_key (ex : list example) (p : example -> bool) e0 :
  NoDup (map ex_unique ex) -> In e0 ex -> p e0 = true ->
  (forall e, In e ex -> p e = true -> ex_unique e = ex_unique e0) ->
  filter p ex = [e0].
Proof.
  induction ex as [|x ex IH]; intros ND Hin P0 U; [contradiction|]. simpl in *.
  inversion ND; subst.
  destruct Hin as [->|Hin].
  - rewrite P0. f_equal.
    assert (G : forall l, (forall e, In e l -> p e = true -> ex_unique e = ex_unique e0) ->
                          ~ In (ex_unique e0) (map ex_unique l) -> filter p l = []).
    { induction l as [|y l IHl]; intros Hu Hn; simpl; [reflexivity|].
      destruct (p y) eqn:Py.
      - exfalso. apply Hn. simpl. left. apply Hu; [left; reflexivity | exact Py].
      - apply IHl; [intros e He; apply Hu; right; exact He | intro X; apply Hn; right; exact X]. }
    apply G; [intros e He; apply U; right; exact He | exact H1].
  - destruct (p x) eqn:Px.
    + exfalso. apply H1. rewrite (U x (or_introl eq_refl) Px). apply in_map. exact Hin.
    + apply IH; try assumption. intros e He. apply U. right. exact He.
Qed.

(* naming a single doctest runs exactly that one, force-disabled or not *)
Theorem gather_one examples e0 :
  NoDup (map ex_unique examples) -> In e0 examples ->
  (forall e, In e examples -> ex_callname e <> ex_unique e0) ->
  gather (C_name (ex_unique e0)) examples = [e0].
Proof.
  intros ND Hin NC. unfold gather. apply filter_unique_key; try assumption.
  - unfold names. rewrite eqb_str_refl. apply orb_true_r.
  - intros e He. unfold names. intros H. apply orb_true_iff in H. destruct H as [H|H]; apply eqb_str_spec in H.
    + exfalso. apply (NC e He). symmetry. exact H.
    + symmetry. exact H.
Qed.

Theorem list_names_all examples : listed examples = map ex_unique examples /\ length (listed examples) = length examples.
Proof. unfold listed. split; [reflexivity | apply map_length]. Qed.
