(* EllipsisProofs.v — the greedy scan of _ellipsis_match is sound and complete
   for the declarative wildcard relation. *)
From XD Require Import Model.Base Model.Ellipsis Spec.EllipsisSpec Proofs.BaseFacts.
Open Scope N_scope.

(* ---------- InOrder facts ---------- *)

Lemma InOrder_prepend ps x g : InOrder ps g -> InOrder ps (x ++ g).
Proof.
  intros H. destruct H as [g | p ps g1 g2 H].
  - constructor.
  - rewrite app_assoc. constructor. exact H.
Qed.

Lemma InOrder_nil_head ps g : InOrder ([] :: ps) g <-> InOrder ps g.
Proof.
  split; intro H.
  - inversion H; subst. simpl. apply InOrder_prepend. assumption.
  - apply (io_cons [] ps [] g) in H. exact H.
Qed.

Lemma InOrder_nil_last ps g : InOrder (ps ++ [[]]) g <-> InOrder ps g.
Proof.
  revert g; induction ps as [|p ps IH]; intros g; simpl.
  - split; intro H; [constructor|].
    apply (io_cons [] [] [] g). constructor.
  - split; intro H; inversion H; subst; constructor; apply IH; assumption.
Qed.

(* ---------- the scan ---------- *)

Lemma scan_sound ws r : scan ws r = true -> InOrder ws r.
Proof.
  revert r; induction ws as [|w ws IH]; intros r; simpl.
  - intros _. constructor.
  - destruct (find_sub w r) as [i|] eqn:F; [|discriminate].
    intros H. destruct (find_sub_some _ _ _ F) as (a & b & -> & L).
    constructor. apply IH.
    replace (i + length w)%nat with (length (a ++ w)) in H by (rewrite app_length; lia).
    rewrite app_assoc in H. rewrite skipn_app_exact in H. exact H.
Qed.

Lemma scan_complete ws r : InOrder ws r -> scan ws r = true.
Proof.
  intros H. induction H as [g | p ps g1 g2 H IH]; simpl; [reflexivity|].
  destruct (find_sub_exists p g1 g2) as [i F]. rewrite F.
  pose proof (find_sub_least _ _ _ F g1 g2 eq_refl) as L.
  (* what remains after the leftmost occurrence still ends with g2 *)
  assert (E : exists x, skipn (i + length p) (g1 ++ p ++ g2) = x ++ g2).
  { exists (skipn (i + length p) (g1 ++ p)).
    rewrite app_assoc. rewrite skipn_app.
    replace (i + length p - length (g1 ++ p))%nat with O by (rewrite app_length; lia).
    reflexivity. }
  destruct E as [x ->].
  (* scan is monotone under prepending: go through the spec *)
  clear F L. revert IH. generalize x. clear.
  intros x IH.
  assert (G : forall ps g, scan ps g = true -> forall x, scan ps (x ++ g) = true).
  { clear. induction ps as [|p ps IHps]; intros g Hs x; simpl in *; [reflexivity|].
    destruct (find_sub p g) as [i|] eqn:F; [|discriminate].
    destruct (find_sub_some _ _ _ F) as (a & b & -> & L).
    destruct (find_sub_exists p (x ++ a) b) as [j Fj].
    rewrite <- app_assoc in Fj. rewrite Fj.
    pose proof (find_sub_least _ _ _ Fj (x ++ a) b) as Lj.
    rewrite <- app_assoc in Lj. specialize (Lj eq_refl).
    replace (i + length p)%nat with (length (a ++ p)) in Hs by (rewrite app_length; lia).
    rewrite app_assoc in Hs. rewrite skipn_app_exact in Hs.
    assert (E : skipn (j + length p) (x ++ a ++ p ++ b) = skipn (j + length p) (x ++ a ++ p) ++ b).
    { replace (x ++ a ++ p ++ b) with ((x ++ a ++ p) ++ b) by (rewrite <- !app_assoc; reflexivity).
      rewrite skipn_app.
      replace (j + length p - length (x ++ a ++ p))%nat with O
        by (rewrite !app_length in *; lia).
      reflexivity. }
    rewrite E. apply IHps. exact Hs. }
  apply G. exact IH.
Qed.

Lemma scan_iff ws r : scan ws r = true <-> InOrder ws r.
Proof. split; [apply scan_sound | apply scan_complete]. Qed.

Lemma scan_nil_head ws r : scan ([] :: ws) r = scan ws r.
Proof. simpl. rewrite find_sub_nil. reflexivity. Qed.

Lemma scan_bool_iff a b ws ws' : (InOrder ws a <-> InOrder ws' b) -> scan ws a = scan ws' b.
Proof.
  intros H. destruct (scan ws a) eqn:E1, (scan ws' b) eqn:E2; try reflexivity.
  - apply scan_iff in E1. apply H in E1. apply scan_iff in E1. congruence.
  - apply scan_iff in E2. apply H in E2. apply scan_iff in E2. congruence.
Qed.

Lemma scan_nil_last ws r : scan (ws ++ [[]]) r = scan ws r.
Proof. apply scan_bool_iff. apply InOrder_nil_last. Qed.

(* ---------- the splitter ---------- *)

Lemma split_go_nonempty s p q k e : split_go s p q k e <> [].
Proof.
  revert p q k e; induction s as [|c s IH]; intros p q k e; cbn [split_go]; [discriminate|].
  destruct k; [|apply IH].
  destruct (starts_with marker (c :: s)); [discriminate|].
  destruct (is_space c); [destruct e|]; apply IH.
Qed.

Lemma split_go_marker s p q e :
  contains marker s = true -> (2 <= length (split_go s p q 0 e))%nat.
Proof.
  revert p q e; induction s as [|c s IH]; intros p q e H.
  - discriminate.
  - cbn [split_go]. destruct (starts_with marker (c :: s)) eqn:E.
    + cbn [length]. pose proof (split_go_nonempty s [] [] 2 true) as N.
      destruct (split_go s [] [] 2 true); [contradiction | cbn [length]; lia].
    + pose proof (contains_cons_false _ _ _ H E) as H'.
      destruct (is_space c); [destruct e|]; apply IH; exact H'.
Qed.

Lemma split_ell_shape want :
  contains marker want = true ->
  exists w0 mids wl, split_ell want = w0 :: mids ++ [wl].
Proof.
  intros H. pose proof (split_go_marker want [] [] false H) as L.
  unfold split_ell. destruct (split_go want [] [] 0 false) as [|w0 rest]; [simpl in L; lia|].
  destruct rest as [|r rest]; [simpl in L; lia|].
  destruct (exists_last (l := r :: rest)) as (mids & wl & E); [discriminate|].
  exists w0, mids, wl. rewrite E. reflexivity.
Qed.

(* ---------- the matcher in closed form ---------- *)

Lemma last_opt_app {A} (l : list A) x : last_opt (l ++ [x]) = Some x.
Proof. unfold last_opt. rewrite rev_app_distr. reflexivity. Qed.

Lemma starts_with_length p s : starts_with p s = true -> (length p <= length s)%nat.
Proof. intros H. apply starts_with_spec in H as [t ->]. rewrite app_length. lia. Qed.

Lemma nonempty_false {A} (l : list A) : nonempty l = false -> l = [].
Proof. destruct l; [reflexivity | discriminate]. Qed.

Lemma ellipsis_match_closed got want w0 mids wl :
  contains marker want = true ->
  split_ell want = w0 :: mids ++ [wl] ->
  ellipsis_match got want =
    starts_with w0 got && ends_with wl got &&
    (length w0 <=? length got - length wl)%nat &&
    scan mids (slice (length w0) (length got - length wl) got).
Proof.
  intros Hc Hs. unfold ellipsis_match. rewrite Hc. cbn [negb]. rewrite Hs.
  destruct (nonempty w0) eqn:N0.
  - destruct (starts_with w0 got) eqn:E1; cbv beta iota zeta; cbn [negb andb]; [|reflexivity].
    rewrite last_opt_app.
    destruct (nonempty wl) eqn:Nl.
    + destruct (ends_with wl got) eqn:E2; cbv beta iota zeta; cbn [negb andb]; [|reflexivity].
      rewrite removelast_last.
      destruct (Nat.ltb_spec (length got - length wl) (length w0));
        destruct (Nat.leb_spec (length w0) (length got - length wl)); try lia; reflexivity.
    + apply nonempty_false in Nl. subst wl. cbv beta iota zeta; cbn [negb andb].
      rewrite ends_with_nil. cbn [andb length]. rewrite Nat.sub_0_r.
      pose proof (starts_with_length _ _ E1) as L.
      destruct (Nat.ltb_spec (length got) (length w0)); [lia|].
      destruct (Nat.leb_spec (length w0) (length got)); [|lia].
      cbn [andb]. rewrite scan_nil_last. reflexivity.
  - apply nonempty_false in N0. subst w0. cbv beta iota zeta; cbn [negb andb].
    change ([] :: mids ++ [wl]) with (([] :: mids) ++ [wl]).
    rewrite last_opt_app. rewrite starts_with_nil. cbn [andb length].
    destruct (nonempty wl) eqn:Nl.
    + destruct (ends_with wl got) eqn:E2; cbv beta iota zeta; cbn [negb andb]; [|reflexivity].
      rewrite removelast_last.
      change (Nat.ltb (length got - length wl) 0) with false.
      change (0 <=? length got - length wl)%nat with true.
      cbv iota. cbn [andb]. rewrite scan_nil_head. reflexivity.
    + apply nonempty_false in Nl. subst wl. cbv beta iota zeta; cbn [negb andb].
      rewrite ends_with_nil. cbn [andb length]. rewrite Nat.sub_0_r.
      change (Nat.ltb (length got) 0) with false.
      change (0 <=? length got)%nat with true.
      cbv iota. cbn [andb].
      change (([] :: mids) ++ [[]]) with ([] :: (mids ++ [[]])).
      rewrite scan_nil_head, scan_nil_last. reflexivity.
Qed.

(* ---------- main theorem ---------- *)

Theorem ellipsis_match_iff got want :
  ellipsis_match got want = true <-> EllMatch got want.
Proof.
  unfold EllMatch. destruct (contains marker want) eqn:Hc.
  - destruct (split_ell_shape want Hc) as (w0 & mids & wl & Hs).
    rewrite (ellipsis_match_closed got want w0 mids wl Hc Hs).
    rewrite !andb_true_iff. split.
    + intros [[[H1 H2] H3] H4].
      apply starts_with_spec in H1 as [t H1]. apply ends_with_spec in H2 as [u H2].
      apply Nat.leb_le in H3. apply scan_iff in H4.
      exists w0, mids, wl, (slice (length w0) (length got - length wl) got).
      split; [exact Hs|]. split; [|exact H4].
      eapply split_three; eauto.
    + intros (w0' & mids' & wl' & rest & Hs' & Hg & Hio).
      rewrite Hs in Hs'. inversion Hs' as [[E0 E1]]. subst w0'.
      apply app_inj_tail in E1 as [-> ->].
      subst got. repeat split.
      * apply starts_with_app.
      * apply ends_with_spec. exists (w0 ++ rest). rewrite <- app_assoc. reflexivity.
      * apply Nat.leb_le. rewrite !app_length. lia.
      * apply scan_iff. rewrite slice_middle. exact Hio.
  - unfold ellipsis_match. rewrite Hc. simpl. rewrite eqb_str_spec. split; congruence.
Qed.
