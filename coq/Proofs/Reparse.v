(* Reparse.v — C18, the re-parse clause: the text that format_src displays for a parsed doctest (prompts and wants,
   no colours, no numbers) parses again to the very same parts.  Proved for docstrings that are well-formed examples
   (Spec/Labels.v) at one indentation, for every tokenizer / ast oracle. *)
From Coq Require Import List Arith Lia Bool NArith.
From XD Require Import Model.Base Model.Parser Model.Format Spec.Partition Spec.Labels
  Proofs.BaseFacts Proofs.ParserProofs Proofs.ChunkProofs Proofs.GroupLocal Proofs.LabelProofs Proofs.FormatProofs.
Import ListNotations.

(* ---------- grouping looks at the labels only ---------- *)
Definition on_snd (g : str -> str) (x : label * str) : label * str := (fst x, g (snd x)).
Definition on_grp (g : str -> str) (x : label * list (label * str)) : label * list (label * str) :=
  (fst x, map (on_snd g) (snd x)).
Definition chunk_map (g : str -> str) (c : chunk) : chunk :=
  match c with TextChunk ls => TextChunk (map g ls) | CodeChunk s w => CodeChunk (map g s) (map g w) end.
Lemma pass1_map g : forall items left state cur,
  pass1 left (map (on_snd g) items) state (map (on_snd g) cur) = map (on_grp g) (pass1 left items state cur).
Proof.
  induction items as [|mid rest IH]; intros left state cur.
  - cbn [map pass1]. destruct cur as [|c cur]; [reflexivity|]. cbn [map].
    destruct state as [s|]; [|reflexivity]. cbn [map on_grp fst snd].
    change (on_snd g c :: map (on_snd g) cur) with (map (on_snd g) (c :: cur)). unfold on_grp. cbn [fst snd]. rewrite map_rev. reflexivity.
  - cbn [map pass1]. cbn [on_snd fst].
    assert (R : match map (on_snd g) rest with r :: _ => Some (fst r) | [] => None end
              = match rest with r :: _ => Some (fst r) | [] => None end).
    { destruct rest; reflexivity. }
    rewrite R.
    destruct ((negb (olabel_eqb left (Some (fst mid))) ||
               label_eqb (fst mid) DSRC && is_lab DCNT (match rest with r :: _ => Some (fst r) | [] => None end)) &&
              negb (is_lab DSRC left && label_eqb (fst mid) DCNT)).
    + specialize (IH (Some (fst mid)) (Some (fst mid)) [mid]). cbn [map] in IH. cbn [on_snd] in IH.
      destruct state as [s|].
      * cbn [map]. rewrite IH. unfold on_grp at 2. cbn [fst snd]. rewrite map_rev. reflexivity.
      * exact IH.
    + specialize (IH (Some (fst mid)) state (mid :: cur)). cbn [map] in IH. cbn [on_snd] in IH. exact IH.
Qed.

Lemma pass2_map g : forall groups left state cur,
  pass2 left (map (on_grp g) groups) state (map (on_snd g) cur) = map (on_grp g) (pass2 left groups state cur).
Proof.
  induction groups as [|mid rest IH]; intros left state cur.
  - cbn [map pass2]. destruct cur as [|c cur]; [reflexivity|]. cbn [map].
    destruct state as [s|]; reflexivity.
  - cbn [map pass2]. cbn [on_grp fst snd].
    assert (R : match map (on_grp g) rest with r :: _ => Some (fst r) | [] => None end
              = match rest with r :: _ => Some (fst r) | [] => None end).
    { destruct rest; reflexivity. }
    rewrite R.
    destruct (olabel_eqb left (Some (fst mid)) &&
              negb (is_lab WANT (match rest with r :: _ => Some (fst r) | [] => None end))).
    + rewrite <- map_app. apply IH.
    + destruct state as [s|]; [destruct left as [l|]|]; cbn [map]; rewrite ?IH; reflexivity.
Qed.

Lemma pass3_map g : forall groups prev,
  pass3 (map (on_grp g) groups) (option_map (map g) prev) = res_map (map (chunk_map g)) (pass3 groups prev).
Proof.
  induction groups as [|[state group] rest IH]; intros prev.
  - cbn [map pass3]. destruct prev as [[|p ps]|]; reflexivity.
  - cbn [map pass3 on_grp fst snd].
    assert (B : map snd (map (on_snd g) group) = map g (map snd group)).
    { rewrite !map_map. reflexivity. }
    rewrite B.
    destruct state.
    + specialize (IH None). cbn [option_map] in IH. rewrite IH.
      destruct (pass3 rest None) as [r|e]; [|reflexivity]. cbn [bind res_map].
      destruct prev as [p|]; cbn [option_map]; cbn [map app chunk_map]; reflexivity.
    + specialize (IH (Some (map snd group))). cbn [option_map] in IH. rewrite IH.
      destruct (pass3 rest (Some (map snd group))) as [r|e]; [|reflexivity]. cbn [bind res_map].
      destruct prev as [p|]; cbn [option_map]; cbn [map app chunk_map]; reflexivity.
    + specialize (IH (Some (map snd group))). cbn [option_map] in IH. rewrite IH.
      destruct (pass3 rest (Some (map snd group))) as [r|e]; [|reflexivity]. cbn [bind res_map].
      destruct prev as [p|]; cbn [option_map]; cbn [map app chunk_map]; reflexivity.
    + destruct prev as [p|]; cbn [option_map]; [|reflexivity].
      specialize (IH None). cbn [option_map] in IH. rewrite IH.
      destruct (pass3 rest None) as [r|e]; reflexivity.
Qed.

Theorem group_lines_map g ll :
  group_lines (map (on_snd g) ll) = res_map (map (chunk_map g)) (group_lines ll).
Proof.
  unfold group_lines.
  change (@nil (label * str)) with (map (on_snd g) []) at 1 2.
  rewrite pass1_map, pass2_map. apply (pass3_map g _ None).
Qed.

(* ---------- without text lines there are no text chunks ---------- *)
Definition NoText (ll : list (label * str)) : Prop := Forall (fun x => fst x <> TEXT) ll.
Definition GNoText (gs : list (label * list (label * str))) : Prop := Forall (fun x => fst x <> TEXT) gs.
Definition is_code (c : chunk) : Prop := match c with TextChunk _ => False | CodeChunk _ _ => True end.

Lemma pass1_notext : forall items left state cur, NoText items -> state <> Some TEXT ->
  GNoText (pass1 left items state cur).
Proof.
  induction items as [|mid rest IH]; intros left state cur HN HS.
  - cbn [pass1]. destruct cur; [constructor|]. destruct state as [s|]; [|constructor].
    constructor; [|constructor]. cbn [fst]. intros E. apply HS. rewrite E. reflexivity.
  - inversion HN as [|? ? Hm Hr]; subst. cbn [pass1].
    assert (HM : Some (fst mid) <> Some TEXT) by (intros E; inversion E; contradiction).
    destruct (_ && _).
    + destruct state as [s|].
      * constructor; [cbn [fst]; intros E; apply HS; rewrite E; reflexivity|]. apply IH; assumption.
      * apply IH; assumption.
    + apply IH; assumption.
Qed.

Lemma pass2_notext : forall groups left state cur, GNoText groups -> state <> Some TEXT -> left <> Some TEXT ->
  GNoText (pass2 left groups state cur).
Proof.
  induction groups as [|mid rest IH]; intros left state cur HN HS HL.
  - cbn [pass2]. destruct cur; [constructor|]. destruct state as [s|]; [|constructor].
    constructor; [|constructor]. cbn [fst]. intros E. apply HS. rewrite E. reflexivity.
  - inversion HN as [|? ? Hm Hr]; subst. cbn [pass2].
    assert (HM : Some (fst mid) <> Some TEXT) by (intros E; inversion E; contradiction).
    destruct (_ && _).
    + apply IH; assumption.
    + destruct state as [s|]; [destruct left as [l|]|].
      * constructor; [cbn [fst]; intros E; apply HL; rewrite E; reflexivity|]. apply IH; assumption.
      * apply IH; assumption.
      * apply IH; assumption.
Qed.

Lemma pass3_notext : forall groups prev r, GNoText groups -> pass3 groups prev = Ok r -> Forall is_code r.
Proof.
  induction groups as [|[state group] rest IH]; intros prev r HN H.
  - cbn [pass3] in H. destruct prev as [[|p ps]|]; inversion H; subst; repeat constructor.
  - inversion HN as [|? ? Hm Hr]; subst. cbn [fst] in Hm. cbn [pass3] in H.
    destruct state; [contradiction| | |].
    + destruct (pass3 rest (Some (map snd group))) as [r'|e] eqn:E; cbn [bind] in H; [|discriminate].
      inversion H; subst. apply Forall_app. split; [destruct prev; repeat constructor|]. eapply IH; eassumption.
    + destruct (pass3 rest (Some (map snd group))) as [r'|e] eqn:E; cbn [bind] in H; [|discriminate].
      inversion H; subst. apply Forall_app. split; [destruct prev; repeat constructor|]. eapply IH; eassumption.
    + destruct prev as [p|]; [|discriminate].
      destruct (pass3 rest None) as [r'|e] eqn:E; cbn [bind] in H; [|discriminate].
      inversion H; subst. constructor; [exact I|]. eapply IH; eassumption.
Qed.

Theorem group_lines_notext ll gs : NoText ll -> group_lines ll = Ok gs -> Forall is_code gs.
Proof.
  unfold group_lines. intros HN H. eapply pass3_notext; [|exact H].
  apply pass2_notext; [|discriminate|discriminate]. apply pass1_notext; [exact HN|discriminate].
Qed.

(* ---------- packaging a chunk looks at the de-indented lines only ---------- *)
(* a line at indentation ind: ind spaces, then a non-blank character *)
Definition IndLine (ind : nat) (l : str) : Prop := exists c r, l = spaces ind ++ c :: r /\ is_space c = false.

Lemma map_skipn0 {A} (l : list (list A)) : map (skipn 0) l = l.
Proof. induction l as [|x l IH]; [reflexivity|]. cbn [map]. rewrite IH. reflexivity. Qed.

Lemma package_chunk_dedent_gen o ind first rest want n :
  line_indent first = ind -> line_indent (skipn ind first) = O ->
  package_chunk o (map (skipn ind) (first :: rest)) (map (skipn ind) want) n = package_chunk o (first :: rest) want n.
Proof.
  intros H1 H2. unfold package_chunk. cbn [map]. rewrite H1, H2.
  change (skipn 0 (skipn ind first)) with (skipn ind first).
  rewrite !map_skipn0. reflexivity.
Qed.

Lemma package_chunk_dedent o ind src want n : Forall (IndLine ind) src ->
  package_chunk o (map (skipn ind) src) (map (skipn ind) want) n = package_chunk o src want n.
Proof.
  intros HI. destruct src as [|first rest]; [reflexivity|].
  inversion HI as [|? ? (c & r & E & Hc) _]; subst.
  apply package_chunk_dedent_gen.
  - apply line_indent_spaces. exact Hc.
  - rewrite skipn_spaces. apply (line_indent_spaces 0 c r Hc).
Qed.

Lemma package_groups_dedent o ind : forall gs n,
  Forall is_code gs -> Forall (IndLine ind) (flatten_chunks gs) ->
  package_groups o (map (chunk_map (skipn ind)) gs) n = package_groups o gs n.
Proof.
  induction gs as [|c gs IH]; intros n HC HI; [reflexivity|].
  inversion HC as [|? ? Hc Hr]; subst. destruct c as [ls|s w]; [contradiction|].
  unfold flatten_chunks in HI. cbn [map concat chunk_lines] in HI.
  apply Forall_app in HI. destruct HI as [HI1 HI2]. apply Forall_app in HI1. destruct HI1 as [Hs Hw].
  cbn [map chunk_map package_groups].
  rewrite package_chunk_dedent by exact Hs. rewrite !map_length.
  rewrite IH; [reflexivity | exact Hr | exact HI2].
Qed.

(* ---------- the displayed examples: the same statements and wants at indentation 0 ---------- *)
Definition ex0 (e : example) : example := mkEx 0 (ex_stmts e) (ex_want e).

Lemma last_stmt_label_ex0 e : last_stmt_label (ex0 e) = last_stmt_label e.
Proof. reflexivity. Qed.

Lemma chain_ex0 bal : forall exs prev pind,
  Chain bal prev pind (map BEx exs) -> Chain bal prev O (map BEx (map ex0 exs)).
Proof.
  induction exs as [|e exs IH]; intros prev pind H; [constructor|].
  cbn [map] in *. inversion H as [|? ? ? ? Hok Hrest]; subst. constructor.
  - destruct Hok as (A & B & C & _). cbn [ok_after ex0 ex_stmts ex_want ex_ind]. repeat split; assumption.
  - cbn [after_block] in *. cbn [ex0 ex_want ex_ind]. destruct (ex_want e); cbn [fst snd] in *; eapply IH; exact Hrest.
Qed.

Lemma ex_labels_ex0 e : ex_labels (ex0 e) = ex_labels e.
Proof. reflexivity. Qed.

Lemma stmt_lines_ind ind s : stmt_lines ind s = map (app (spaces ind)) (stmt_lines 0 s).
Proof.
  unfold stmt_lines. cbn [map spaces repeat app]. f_equal. rewrite map_map. apply map_ext. intros c.
  unfold cline_text. reflexivity.
Qed.

Lemma ex_lines_ind e : ex_lines e = map (app (spaces (ex_ind e))) (ex_lines (ex0 e)).
Proof.
  unfold ex_lines. cbn [ex0 ex_ind ex_stmts ex_want]. rewrite map_app. f_equal.
  - rewrite concat_map. f_equal. rewrite map_map. apply map_ext. intros s. apply stmt_lines_ind.
  - rewrite map_map. apply map_ext. intros w. reflexivity.
Qed.

Definition exs_lines (exs : list example) : list str := concat (map block_lines (map BEx exs)).
Definition exs_labels (exs : list example) : list label := concat (map block_labels (map BEx exs)).

Lemma exs_labels_ex0 exs : exs_labels (map ex0 exs) = exs_labels exs.
Proof. unfold exs_labels. rewrite !map_map. reflexivity. Qed.

Lemma exs_lines_ind ind exs : Forall (fun e => ex_ind e = ind) exs ->
  exs_lines exs = map (app (spaces ind)) (exs_lines (map ex0 exs)).
Proof.
  unfold exs_lines. induction exs as [|e exs IH]; intros H; [reflexivity|].
  inversion H as [|e' exs' He Hr]. clear H. subst e' exs'.
  change (concat (map block_lines (map BEx (e :: exs)))) with (ex_lines e ++ concat (map block_lines (map BEx exs))).
  change (concat (map block_lines (map BEx (map ex0 (e :: exs)))))
    with (ex_lines (ex0 e) ++ concat (map block_lines (map BEx (map ex0 exs)))).
  rewrite map_app, (IH Hr). f_equal. rewrite (ex_lines_ind e), He. reflexivity.
Qed.

Lemma skipn_ind_lines ind (ls : list str) : map (skipn ind) (map (app (spaces ind)) ls) = ls.
Proof. rewrite map_map. rewrite <- (map_id ls) at 2. apply map_ext. intros l. apply skipn_spaces. Qed.

(* every line of an example at indentation 0 starts with a non-blank character *)
Definition NonBlankHead (l : str) : Prop := exists c r, l = c :: r /\ is_space c = false.

Lemma stmt_lines0_heads s : Forall NonBlankHead (stmt_lines 0 s).
Proof.
  unfold stmt_lines. constructor.
  - exists 62%N, ([62;62;32]%N ++ sb_code s). split; reflexivity.
  - rewrite Forall_map. apply Forall_forall. intros c _. unfold cline_text. cbn [spaces repeat app].
    destruct (cl_ps2 c); cbn [prompt].
    + exists 46%N, ([46;46;32]%N ++ cl_code c). split; reflexivity.
    + exists 62%N, ([62;62;32]%N ++ cl_code c). split; reflexivity.
Qed.

Lemma ex0_lines_heads e : Forall WantLine (ex_want e) -> Forall NonBlankHead (ex_lines (ex0 e)).
Proof.
  intros HW. unfold ex_lines. cbn [ex0 ex_ind ex_stmts ex_want]. apply Forall_app. split.
  - apply Forall_concat. rewrite Forall_map. apply Forall_forall. intros s _. apply stmt_lines0_heads.
  - rewrite Forall_map. eapply Forall_impl; [|exact HW]. intros w ((c & r & E & Hc) & _). exists c, r. split; assumption.
Qed.

Lemma exs0_lines_heads exs : Forall (fun e => Forall WantLine (ex_want e)) exs ->
  Forall NonBlankHead (exs_lines (map ex0 exs)).
Proof.
  unfold exs_lines. induction exs as [|e exs IH]; intros H; [constructor|].
  inversion H as [|? ? He Hr]; subst. cbn [map concat block_lines]. apply Forall_app. split.
  - apply ex0_lines_heads. exact He.
  - apply IH. exact Hr.
Qed.

Lemma chain_wants bal : forall exs prev pind, Chain bal prev pind (map BEx exs) ->
  Forall (fun e => Forall WantLine (ex_want e)) exs.
Proof.
  induction exs as [|e exs IH]; intros prev pind H; [constructor|].
  cbn [map] in H. inversion H as [|? ? ? ? Hok Hrest]; subst. constructor.
  - destruct Hok as (_ & _ & C & _). exact C.
  - eapply IH. exact Hrest.
Qed.

Lemma ind_lines ind (ls : list str) : Forall NonBlankHead ls -> Forall (IndLine ind) (map (app (spaces ind)) ls).
Proof.
  intros H. rewrite Forall_map. eapply Forall_impl; [|exact H]. intros l (c & r & E & Hc). subst. exists c, r. split; [reflexivity | exact Hc].
Qed.

(* no line of an example is labelled text *)
Lemma more_labels_notext : forall cs cur, cur <> TEXT -> Forall (fun l => l <> TEXT) (more_labels cur cs).
Proof.
  induction cs as [|c cs IH]; intros cur H; [constructor|]. cbn [more_labels].
  destruct (cl_ps2 c); constructor; try discriminate; try assumption; apply IH; try discriminate; assumption.
Qed.

Lemma exs_labels_notext exs : Forall (fun l => l <> TEXT) (exs_labels exs).
Proof.
  unfold exs_labels. induction exs as [|e exs IH]; [constructor|]. cbn [map concat block_labels].
  apply Forall_app. split; [|exact IH]. unfold ex_labels. apply Forall_app. split.
  - apply Forall_concat. rewrite Forall_map. apply Forall_forall. intros s _. unfold stmt_labels.
    constructor; [discriminate|]. apply more_labels_notext. discriminate.
  - rewrite Forall_map. apply Forall_forall. intros w _. discriminate.
Qed.

(* ---------- the displayed text is already normalised ---------- *)
Definition NoTab (l : str) : Prop := forall c, In c l -> (c =? TAB)%N = false.
Definition LineOK (l : str) : Prop := Clean l /\ NoTab l.

Lemma expandtabs_go_notab : forall s col, NoTab s -> expandtabs_go s col = s.
Proof.
  induction s as [|c s IH]; intros col H; [reflexivity|]. cbn [expandtabs_go].
  rewrite (H c (or_introl eq_refl)).
  assert (H' : NoTab s) by (intros d Hd; apply H; right; exact Hd).
  destruct ((c =? NL)%N || (c =? CR)%N); rewrite IH by exact H'; reflexivity.
Qed.

Lemma join_nl_notab : forall ls, Forall NoTab ls -> NoTab (join_nl ls).
Proof.
  induction ls as [|l ls IH]; intros H c Hc; [contradiction|].
  inversion H as [|? ? Hl Hr]; subst. destruct ls as [|m r].
  - cbn in Hc. apply Hl. exact Hc.
  - rewrite join_nl_cons in Hc. apply in_app_or in Hc. destruct Hc as [Hc|[Hc|Hc]].
    + apply Hl. exact Hc.
    + subst c. reflexivity.
    + apply (IH Hr). exact Hc.
Qed.

Lemma min_list_zero l : min_list (O :: l) = Some O.
Proof. cbn [min_list]. destruct (min_list l); reflexivity. Qed.

Lemma indent_match_ps1 code : indent_match (PS1sp ++ code) = Some O.
Proof. reflexivity. Qed.

Lemma normalize_displayed code rest :
  Forall LineOK ((PS1sp ++ code) :: rest) ->
  normalize_docstring (join_nl ((PS1sp ++ code) :: rest)) = join_nl ((PS1sp ++ code) :: rest).
Proof.
  intros H. unfold normalize_docstring.
  assert (NT : NoTab (join_nl ((PS1sp ++ code) :: rest))).
  { apply join_nl_notab. eapply Forall_impl; [|exact H]. intros l [_ B]. exact B. }
  unfold expandtabs. rewrite (expandtabs_go_notab _ 0 NT).
  unfold min_indentation. rewrite split_join.
  - cbn [map]. rewrite indent_match_ps1. cbn [somes]. rewrite min_list_zero. reflexivity.
  - discriminate.
  - eapply Forall_impl; [|exact H]. intros l [A _]. apply Clean_NoNL. exact A.
Qed.

(* ---------- parsing the displayed text ---------- *)
Lemma map_on_snd_combine g : forall (a : list label) (b : list str),
  map (on_snd g) (combine a b) = combine a (map g b).
Proof. induction a as [|x a IH]; intros [|y b]; cbn; [reflexivity..|]. rewrite IH. reflexivity. Qed.

Lemma map_snd_combine {A B} : forall (a : list A) (b : list B), length a = length b -> map snd (combine a b) = b.
Proof.
  induction a as [|x a IH]; intros [|y b] H; cbn in *; try reflexivity; try discriminate.
  rewrite IH by lia. reflexivity.
Qed.

Lemma map_fst_combine {A B} : forall (a : list A) (b : list B), length a = length b -> map fst (combine a b) = a.
Proof.
  induction a as [|x a IH]; intros [|y b] H; cbn in *; try reflexivity; try discriminate.
  rewrite IH by lia. reflexivity.
Qed.

Lemma exs_labels_length exs : length (exs_labels exs) = length (exs_lines exs).
Proof.
  unfold exs_labels, exs_lines. induction exs as [|e exs IH]; [reflexivity|].
  cbn [map concat block_labels block_lines]. rewrite !app_length, IH, ex_labels_length. reflexivity.
Qed.

Lemma intended_exs exs : intended (map BEx exs) = combine (exs_labels exs) (exs_lines exs).
Proof. reflexivity. Qed.

Lemma exs0_first bal exs prev pind : exs <> [] -> Chain bal prev pind (map BEx exs) ->
  exists code rest, exs_lines (map ex0 exs) = (PS1sp ++ code) :: rest.
Proof.
  intros NE H. destruct exs as [|e exs]; [contradiction|]. cbn [map] in H.
  inversion H as [|? ? ? ? Hok _]; subst. destruct Hok as (A & _).
  unfold exs_lines. cbn [map concat block_lines]. unfold ex_lines. cbn [ex0 ex_stmts ex_ind ex_want].
  destruct (ex_stmts e) as [|s ss]; [contradiction|]. cbn [map concat stmt_lines spaces repeat app].
  eexists. eexists. rewrite <- !app_assoc. cbn [app]. reflexivity.
Qed.

Theorem reparse_lines o ind exs s items :
  exs <> [] ->
  Forall (fun e => ex_ind e = ind) exs ->
  Chain (o_bal o) TEXT O (map BEx exs) ->
  srclines (normalize_docstring s) = exs_lines exs ->
  Forall LineOK (exs_lines (map ex0 exs)) ->
  parse o s = Parsed items ->
  parse o (join_nl (exs_lines (map ex0 exs))) = Parsed items.
Proof.
  intros NE HI HC HL HOK HP.
  pose proof (chain_ex0 _ _ _ _ HC) as HC0.
  pose proof (chain_wants _ _ _ _ HC) as HW.
  pose proof (exs0_lines_heads _ HW) as HH.
  destruct (exs0_first _ _ _ _ NE HC) as (code & rest & EF).
  (* the original parse *)
  unfold parse in HP. unfold label_lines in HP. rewrite HL in HP.
  unfold exs_lines in HP. rewrite (labels_as_intended_from _ _ _ _ HC) in HP.
  destruct (group_lines (intended (map BEx exs))) as [gs|e] eqn:G; [|destruct e; discriminate].
  destruct (package_groups o gs 0) as [its|e] eqn:P; [|destruct e; discriminate].
  (* the displayed text *)
  unfold parse. rewrite EF, normalize_displayed by (rewrite <- EF; exact HOK).
  unfold label_lines. rewrite srclines_join.
  2:{ rewrite <- EF. rewrite Forall_forall in *. intros l Hl. split; [apply (HOK l Hl)|].
      destruct (HH l Hl) as (c & r & E & _). subst l. discriminate. }
  rewrite <- EF. unfold exs_lines at 1. rewrite (labels_as_intended_from _ _ _ _ HC0).
  assert (EI : intended (map BEx (map ex0 exs)) = map (on_snd (skipn ind)) (intended (map BEx exs))).
  { rewrite !intended_exs, map_on_snd_combine, exs_labels_ex0. f_equal.
    rewrite (exs_lines_ind ind exs HI), skipn_ind_lines. reflexivity. }
  rewrite EI, group_lines_map, G. cbn [res_map].
  rewrite (package_groups_dedent o ind).
  - rewrite P. exact HP.
  - eapply group_lines_notext; [|exact G]. unfold NoText. rewrite intended_exs.
    apply (proj1 (Forall_map fst (fun l => l <> TEXT) _)).
    rewrite map_fst_combine by apply exs_labels_length. apply exs_labels_notext.
  - rewrite (group_lines_partition _ _ G), intended_exs, map_snd_combine by apply exs_labels_length.
    rewrite (exs_lines_ind ind exs HI). apply ind_lines. exact HH.
Qed.

(* ---------- what format_src displays, in terms of the docstring ---------- *)
Definition parts_of (items : list item) : list part :=
  flat_map (fun it => match it with IPart p => [p] | IText _ => [] end) items.
Definition ShownOK (p : part) : Prop :=
  Forall (fun l => Clean l /\ l <> []) (orig_lines p) /\ Forall (fun l => Clean l /\ l <> []) (want_lines p).
(* the lines of a chunk as its parts hold them: de-indented by the indentation of the chunk's first line *)
Definition chunk_shown (c : chunk) : list str :=
  match c with TextChunk _ => [] | CodeChunk s w => dedent_chunk s ++ dedent_want s w end.

Lemma format_part_shown p startline nd : ShownOK p -> orig_lines p <> [] ->
  format_part p (mkFmt false true true None) startline nd = join_nl (all_lines p).
Proof.
  intros [A C] NE. unfold format_part, format_part_pieces. simpl.
  rewrite !srclines_join by assumption. rewrite map_id. unfold all_lines.
  destruct (want_lines p) as [|w ws] eqn:W; [rewrite app_nil_r; reflexivity|].
  rewrite join_nl_app by (try assumption; discriminate). reflexivity.
Qed.

Theorem format_src_shown parts off lineno :
  Forall ShownOK parts -> Forall (fun p => orig_lines p <> []) parts ->
  format_src parts false true off true false lineno = join_nl (concat (map all_lines parts)).
Proof.
  intros HC HS. unfold format_src. cbn [andb].
  rewrite (map_combine_seq (fun p => format_part p (mkFmt false true true None) 1%nat None) parts 0%nat).
  assert (E : map (fun p => format_part p (mkFmt false true true None) 1%nat None) parts
              = map join_nl (map all_lines parts)).
  { rewrite map_map. apply map_ext_in. intros p Hp. apply format_part_shown.
    - rewrite Forall_forall in HC. apply HC. exact Hp.
    - rewrite Forall_forall in HS. apply HS. exact Hp. }
  rewrite E. apply join_nl_concat.
  rewrite Forall_map. rewrite Forall_forall in *. intros p Hp. specialize (HS p Hp). unfold all_lines.
  destruct (orig_lines p); [contradiction | discriminate].
Qed.

Lemma all_lines_wants : forall k ps w, map want_lines ps = repeat [] k ++ [w] ->
  concat (map all_lines ps) = concat (map orig_lines ps) ++ w.
Proof.
  induction k as [|k IH]; intros ps w H.
  - cbn [repeat app] in H. destruct ps as [|p [|q r]]; try discriminate. cbn [map] in H. inversion H as [E].
    cbn [map concat]. unfold all_lines. rewrite E, !app_nil_r. reflexivity.
  - cbn [repeat app] in H. destruct ps as [|p r]; [discriminate|]. cbn [map] in H. inversion H as [[E1 E2]].
    rewrite E1 in E2. cbn [map concat]. rewrite (IH r w E2). unfold all_lines at 1. rewrite E1, app_nil_r, app_assoc. reflexivity.
Qed.

Lemma parts_tile_all_lines n src want ps : PartsTile n src want ps -> concat (map all_lines ps) = src ++ want.
Proof.
  intros (bs & Hhd & Hasc & E1 & _ & _ & E4).
  rewrite (all_lines_wants _ _ _ E4), E1, tiles_concat by assumption. reflexivity.
Qed.

Lemma parts_of_app a b : parts_of (a ++ b) = parts_of a ++ parts_of b.
Proof. unfold parts_of. apply flat_map_app. Qed.
Lemma parts_of_parts ps : parts_of (map IPart ps) = ps.
Proof. induction ps as [|p ps IH]; [reflexivity|]. cbn. f_equal. exact IH. Qed.

Theorem tiled_shown : forall gs n items, Tiled n gs items ->
  concat (map all_lines (parts_of items)) = concat (map chunk_shown gs).
Proof.
  intros gs n items H. induction H as [n | n ls rest r H IH | n s w rest ps r HT H IH].
  - reflexivity.
  - cbn [map concat chunk_shown app]. exact IH.
  - rewrite parts_of_app, parts_of_parts, map_app, concat_app, IH.
    cbn [map concat chunk_shown]. rewrite (parts_tile_all_lines _ _ _ _ HT). reflexivity.
Qed.

(* ---------- with statement starts inside the source (AstInRange), no part is empty ---------- *)
Local Open Scope nat_scope.
Lemma length_pos_nonempty {A} (l : list A) : 0 < length l -> l <> [].
Proof. destruct l; cbn; [lia | discriminate]. Qed.

Lemma tiles_nonempty {A} (l : list A) : forall bs a,
  Ascending (a :: bs) -> (forall y, In y (a :: bs) -> y < length l) ->
  Forall (fun t => t <> []) (tiles (a :: bs) l).
Proof.
  induction bs as [|b bs IH]; intros a HA HB.
  - unfold tiles. cbn. constructor; [|constructor]. apply length_pos_nonempty. rewrite skipn_length.
    specialize (HB a (or_introl eq_refl)). lia.
  - unfold tiles. change (consecutive_pairs (a :: b :: bs)) with ((a, b) :: consecutive_pairs (b :: bs)).
    cbn [map fst snd app]. change (last (a :: b :: bs) 0) with (last (b :: bs) 0).
    destruct HA as [Hab HA]. constructor.
    + apply length_pos_nonempty. rewrite slice_length; [lia | lia |].
      specialize (HB b (or_intror (or_introl eq_refl))). lia.
    + apply (IH b HA). intros y Hy. apply HB. right. exact Hy.
Qed.

Lemma package_chunk_nonempty o raw_src raw_want lineno ps :
  AstInRange o -> package_chunk o raw_src raw_want lineno = Ok ps -> Forall (fun p => orig_lines p <> []) ps.
Proof.
  intros HR H.
  assert (NE : raw_src <> []) by (intros ->; discriminate).
  apply package_chunk_tiles_from in H.
  destruct H as (ps1 & mode & LOC & bs & Hhd & Hasc & E1 & _ & _ & _ & Hin).
  pose proof (locate_ps1_in_range _ _ _ _ HR LOC) as R.
  destruct bs as [|a bs]; [discriminate|].
  assert (L : 0 < length (dedent_chunk raw_src)).
  { destruct raw_src as [|f m]; [contradiction|]. unfold dedent_chunk. rewrite map_length. cbn. lia. }
  assert (T : Forall (fun t : list str => t <> []) (tiles (a :: bs) (dedent_chunk raw_src))).
  { apply tiles_nonempty; [exact Hasc|]. intros y Hy. destruct (Hin y Hy) as [->|Hy']; [exact L | apply R; exact Hy']. }
  rewrite <- E1 in T. rewrite Forall_map in T. exact T.
Qed.

Lemma package_groups_nonempty o : AstInRange o -> forall gs n items,
  package_groups o gs n = Ok items -> Forall (fun p => orig_lines p <> []) (parts_of items).
Proof.
  intros HR. induction gs as [|c rest IH]; intros n items H.
  - cbn in H. inversion H. constructor.
  - destruct c as [ls|s w]; cbn [package_groups] in H.
    + destruct (package_groups o rest (n + length ls)) as [r|e] eqn:R; [|discriminate]. cbn [bind] in H.
      inversion H; subst. change (parts_of (IText (join_nl ls) :: r)) with (parts_of r). eapply IH. exact R.
    + destruct (package_chunk o s w n) as [ps|e] eqn:PC; [|discriminate]. cbn [bind] in H.
      destruct (package_groups o rest (n + length s + length w)) as [r|e] eqn:R; [|discriminate]. cbn [bind] in H.
      inversion H; subst. rewrite parts_of_app, parts_of_parts. apply Forall_app. split.
      * eapply package_chunk_nonempty; eassumption.
      * eapply IH. exact R.
Qed.

Lemma shown_dedent o ind : forall gs n items, package_groups o gs n = Ok items ->
  Forall is_code gs -> Forall (IndLine ind) (flatten_chunks gs) ->
  concat (map chunk_shown gs) = map (skipn ind) (flatten_chunks gs).
Proof.
  induction gs as [|c gs IH]; intros n items H HC HI; [reflexivity|].
  inversion HC as [|? ? Hc Hr]; subst. destruct c as [ls|s w]; [contradiction|].
  unfold flatten_chunks in *. cbn [map concat chunk_lines chunk_shown] in *.
  apply Forall_app in HI. destruct HI as [HI1 HI2]. apply Forall_app in HI1. destruct HI1 as [Hs Hw].
  cbn [package_groups] in H.
  destruct (package_chunk o s w n) as [ps|e] eqn:PC; [|discriminate]. cbn [bind] in H.
  destruct (package_groups o gs (n + length s + length w)) as [r|e] eqn:R; [|discriminate].
  rewrite (IH _ _ R Hr HI2). rewrite !map_app. f_equal.
  destruct s as [|f m]; [discriminate|].
  inversion Hs as [|? ? (c & t & E & Hct) _]; subst.
  set (f := spaces ind ++ c :: t) in *.
  assert (LI : line_indent f = ind) by (unfold f; apply line_indent_spaces; exact Hct).
  clearbody f. unfold dedent_chunk, dedent_want. rewrite LI. reflexivity.
Qed.

(* the re-parse clause of C18: the text displayed for a parsed doctest parses to the same items *)
Theorem reparse_displayed o ind exs s items off lineno :
  AstInRange o ->
  exs <> [] ->
  Forall (fun e => ex_ind e = ind) exs ->
  Chain (o_bal o) TEXT O (map BEx exs) ->
  srclines (normalize_docstring s) = exs_lines exs ->
  Forall LineOK (exs_lines (map ex0 exs)) ->
  parse o s = Parsed items ->
  format_src (parts_of items) false true off true false lineno = join_nl (exs_lines (map ex0 exs)) /\
  parse o (format_src (parts_of items) false true off true false lineno) = Parsed items.
Proof.
  intros HR NE HI HC HL HOK HP.
  assert (D : format_src (parts_of items) false true off true false lineno = join_nl (exs_lines (map ex0 exs))).
  { pose proof (chain_wants _ _ _ _ HC) as HW.
    pose proof (exs0_lines_heads _ HW) as HH.
    pose proof HP as HP'.
    unfold parse in HP'. unfold label_lines in HP'. rewrite HL in HP'.
    unfold exs_lines in HP'. rewrite (labels_as_intended_from _ _ _ _ HC) in HP'.
    destruct (group_lines (intended (map BEx exs))) as [gs|e] eqn:G; [|destruct e; discriminate].
    destruct (package_groups o gs 0) as [its|e] eqn:P; [|destruct e; discriminate].
    inversion HP'; subst its. clear HP'.
    assert (GC : Forall is_code gs).
    { eapply group_lines_notext; [|exact G]. unfold NoText. rewrite intended_exs.
      apply (proj1 (Forall_map fst (fun l => l <> TEXT) _)).
      rewrite map_fst_combine by apply exs_labels_length. apply exs_labels_notext. }
    assert (FL : flatten_chunks gs = exs_lines exs).
    { rewrite (group_lines_partition _ _ G), intended_exs, map_snd_combine by apply exs_labels_length. reflexivity. }
    assert (GI : Forall (IndLine ind) (flatten_chunks gs)).
    { rewrite FL, (exs_lines_ind ind exs HI). apply ind_lines. exact HH. }
    assert (AL : concat (map all_lines (parts_of items)) = exs_lines (map ex0 exs)).
    { rewrite (tiled_shown gs 0 items (package_groups_tiled o gs 0 items P)).
      rewrite (shown_dedent o ind gs 0 items P GC GI), FL, (exs_lines_ind ind exs HI). apply skipn_ind_lines. }
    rewrite format_src_shown; [rewrite AL; reflexivity | | eapply package_groups_nonempty; eassumption].
    apply Forall_forall. intros p Hp.
    assert (IN : forall l, In l (all_lines p) -> Clean l /\ l <> []).
    { intros l Hl. assert (Hl' : In l (exs_lines (map ex0 exs))).
      { rewrite <- AL. apply in_concat. exists (all_lines p). split; [apply in_map; exact Hp | exact Hl]. }
      split.
      - rewrite Forall_forall in HOK. apply (HOK l Hl').
      - rewrite Forall_forall in HH. destruct (HH l Hl') as (c & r & E & _). subst l. discriminate. }
    split; apply Forall_forall; intros l Hl; apply IN; unfold all_lines; apply in_or_app; [left | right]; exact Hl. }
  split; [exact D|]. rewrite D. eapply reparse_lines; eassumption.
Qed.

(* ---------- the hypotheses are satisfiable ---------- *)
(* ">>> a" / ">>> b" / "w" under the oracle of ChunkProofs (every slice balanced, one statement per line) *)
Definition demo_exs : list example := [mkEx 0 [mkStmtB [97%N] []; mkStmtB [98%N] []] [[119%N]]].
Definition demo_doc : str := [62;62;62;32;97;10;62;62;62;32;98;10;119]%N.

Example demo_reparse_hyps :
  AstInRange demo_oracle /\ demo_exs <> [] /\ Forall (fun e => ex_ind e = 0) demo_exs /\
  Chain (o_bal demo_oracle) TEXT 0 (map BEx demo_exs) /\
  srclines (normalize_docstring demo_doc) = exs_lines demo_exs /\
  Forall LineOK (exs_lines (map ex0 demo_exs)) /\
  exists items, parse demo_oracle demo_doc = Parsed items /\ length (parts_of items) = 2.
Proof.
  split; [exact demo_oracle_in_range|]. split; [discriminate|]. split; [repeat constructor|].
  split.
  { apply Chain_cons; [|apply Chain_nil]. split; [discriminate|]. split; [|split].
    - constructor; [|constructor; [|constructor]]; (split; [intros k Hk; simpl in Hk; lia | reflexivity]).
    - constructor; [|constructor]. split; [eexists; eexists; split; reflexivity | repeat split; reflexivity].
    - intros H; discriminate H. }
  split; [reflexivity|]. split.
  { repeat constructor; intros c Hc; cbn in Hc; repeat (destruct Hc as [<-|Hc]; [reflexivity|]); contradiction. }
  eexists. split; [vm_compute; reflexivity | reflexivity].
Qed.

(* for every docstring (prose included): the display is the docstring's source and want lines, chunk by chunk,
   de-indented by the indentation of the chunk's first line, prose left out *)
Theorem display_is_docstring o s items off lineno :
  AstInRange o -> parse o s = Parsed items -> Forall ShownOK (parts_of items) ->
  exists (ll : list (label * str)) gs,
    length ll = length (srclines (normalize_docstring s)) /\
    Forall2 SameLineUpToHack ll (srclines (normalize_docstring s)) /\
    flatten_chunks gs = map snd ll /\
    format_src (parts_of items) false true off true false lineno = join_nl (concat (map chunk_shown gs)).
Proof.
  intros HR HP HS. unfold parse in HP.
  destruct (label_lines (o_bal o) (normalize_docstring s)) as [ll|e] eqn:L; [|destruct e; discriminate].
  destruct (group_lines ll) as [gs|e] eqn:G; [|destruct e; discriminate].
  destruct (package_groups o gs 0) as [its|e] eqn:P; [|destruct e; discriminate].
  inversion HP; subst its. exists ll, gs.
  destruct (label_lines_partition _ _ _ L) as [A B].
  split; [exact A|]. split; [exact B|]. split; [apply group_lines_partition; exact G|].
  rewrite format_src_shown; [|exact HS | eapply package_groups_nonempty; eassumption].
  rewrite (tiled_shown gs 0 items (package_groups_tiled o gs 0 items P)). reflexivity.
Qed.

(* ================= docstrings with prose around the examples ================= *)

(* line offsets are relative to the line the chunk starts on *)
Definition shift (k : nat) (p : part) : part :=
  mkPart (exec_lines p) (want_lines p) (k + line_offset p) (orig_lines p) (p_directives p) (compile_mode p) (p_dirs_raise p).

Lemma slice_example_shift ea sa tab o k n s1 s2 want mode :
  slice_example ea sa tab o (k + n) s1 s2 want mode = res_map (shift k) (slice_example ea sa tab o n s1 s2 want mode).
Proof.
  unfold slice_example. destruct (lookup_nat s1 tab) as [ds|].
  - cbn [res_map]. unfold shift. cbn. rewrite Nat.add_assoc. reflexivity.
  - destruct (o_dirs o (slice_to s1 s2 ea)) as [ds|e].
    + cbn [res_map]. unfold shift. cbn. rewrite Nat.add_assoc. reflexivity.
    + destruct e; cbn [res_map]; unfold shift; cbn; rewrite ?Nat.add_assoc; reflexivity.
Qed.

Lemma map_res_shift {A} (f g : A -> res part) k : (forall x, f x = res_map (shift k) (g x)) ->
  forall l, map_res f l = res_map (map (shift k)) (map_res g l).
Proof.
  intros H. induction l as [|x l IH]; [reflexivity|]. cbn [map_res]. rewrite H, IH.
  destruct (g x) as [y|e]; cbn [bind res_map]; [|reflexivity].
  destruct (map_res g l) as [ys|e]; cbn [bind res_map]; reflexivity.
Qed.

Lemma package_chunk_shift o s w k n :
  package_chunk o s w (k + n) = res_map (map (shift k)) (package_chunk o s w n).
Proof.
  unfold package_chunk. destruct s as [|first rest]; [reflexivity|].
  destruct (locate_ps1 o (map (skipn (line_indent first)) (first :: rest))) as [[ps1 mode_hint]|e]; [|reflexivity].
  cbn [bind].
  destruct (ps1_directives o (map (skipn 4) (map (skipn (line_indent first)) (first :: rest))) ps1) as [[tab brk]|e]; [|reflexivity].
  cbn [bind].
  set (ea := map (skipn 4) (map (skipn (line_indent first)) (first :: rest))).
  set (sa := map (skipn (line_indent first)) (first :: rest)).
  set (want := map (skipn (line_indent first)) w).
  set (brk' := match brk with [] => [] | _ => sort_uniq (O :: brk) end).
  rewrite (map_res_shift (fun ab => slice_example ea sa tab o (k + n) (fst ab) (Some (snd ab)) [] M_exec)
                         (fun ab => slice_example ea sa tab o n (fst ab) (Some (snd ab)) [] M_exec) k)
    by (intros x; apply slice_example_shift).
  destruct (map_res (fun ab => slice_example ea sa tab o n (fst ab) (Some (snd ab)) [] M_exec) (consecutive_pairs brk')) as [parts1|e];
    [|reflexivity].
  cbn [bind res_map].
  set (s1a := match consecutive_pairs brk' with [] => O | _ => match last_opt brk' with Some x => x | None => O end end).
  destruct (nonempty want && match mode_hint with M_exec => false | _ => true end).
  - destruct (last_opt ps1) as [s2|]; [|reflexivity].
    destruct (Nat.eqb s2 s1a).
    + cbn [bind]. rewrite slice_example_shift.
      destruct (slice_example ea sa tab o n s1a None want (if nonempty want then mode_hint else M_exec)) as [lastp|e];
        cbn [bind res_map]; [|reflexivity].
      rewrite !map_app. reflexivity.
    + rewrite slice_example_shift.
      destruct (slice_example ea sa tab o n s1a (Some s2) [] M_exec) as [p|e]; cbn [bind res_map]; [|reflexivity].
      rewrite slice_example_shift.
      destruct (slice_example ea sa tab o n s2 None want (if nonempty want then mode_hint else M_exec)) as [lastp|e];
        cbn [bind res_map]; [|reflexivity].
      rewrite !map_app. reflexivity.
  - cbn [bind]. rewrite slice_example_shift.
    destruct (slice_example ea sa tab o n s1a None want (if nonempty want then mode_hint else M_exec)) as [lastp|e];
      cbn [bind res_map]; [|reflexivity].
    rewrite !map_app. reflexivity.
Qed.

Definition shift_item (k : nat) (it : item) : item :=
  match it with IText t => IText t | IPart p => IPart (shift k p) end.

Lemma package_groups_shift o k : forall gs n,
  package_groups o gs (k + n) = res_map (map (shift_item k)) (package_groups o gs n).
Proof.
  induction gs as [|c gs IH]; intros n; [reflexivity|]. destruct c as [ls|s w]; cbn [package_groups].
  - rewrite <- Nat.add_assoc, IH. destruct (package_groups o gs (n + length ls)) as [r|e]; reflexivity.
  - rewrite package_chunk_shift. destruct (package_chunk o s w n) as [ps|e]; cbn [bind res_map]; [|reflexivity].
    rewrite <- !Nat.add_assoc, IH. rewrite !Nat.add_assoc.
    destruct (package_groups o gs (n + length s + length w)) as [r|e]; cbn [bind res_map]; [|reflexivity].
    rewrite map_app, !map_map. reflexivity.
Qed.

Lemma package_groups_app o : forall g1 g2 n,
  package_groups o (g1 ++ g2) n = both (package_groups o g1 n) (package_groups o g2 (n + length (flatten_chunks g1))).
Proof.
  induction g1 as [|c g1 IH]; intros g2 n.
  - cbn [app package_groups both]. unfold flatten_chunks. cbn. rewrite Nat.add_0_r.
    destruct (package_groups o g2 n); reflexivity.
  - destruct c as [ls|s w]; cbn [app package_groups].
    + rewrite IH. unfold flatten_chunks. cbn [map concat chunk_lines]. rewrite app_length, Nat.add_assoc.
      destruct (package_groups o g1 (n + length ls)) as [a|e]; cbn [bind both]; [|reflexivity].
      destruct (package_groups o g2 _) as [b|e]; reflexivity.
    + destruct (package_chunk o s w n) as [ps|e]; cbn [bind both]; [|reflexivity].
      rewrite IH. unfold flatten_chunks. cbn [map concat chunk_lines]. rewrite !app_length, !Nat.add_assoc.
      destruct (package_groups o g1 (n + length s + length w)) as [a|e]; cbn [bind both]; [|reflexivity].
      destruct (package_groups o g2 _) as [b|e]; cbn [bind both]; [|reflexivity].
      rewrite app_assoc. reflexivity.
Qed.

Lemma chain_ex0_any_start bal exs prev prev' :
  Chain bal prev O (map BEx (map ex0 exs)) -> Chain bal prev' O (map BEx (map ex0 exs)).
Proof.
  destruct exs as [|e exs]; [constructor|]. cbn [map]. intros H.
  inversion H as [|? ? ? ? Hok Hrest]; subst. constructor.
  - destruct Hok as (A & B & C & _). cbn [ok_after]. split; [exact A|]. split; [exact B|]. split; [exact C|].
    intros _. reflexivity.
  - exact Hrest.
Qed.

(* the core of the re-parse argument: from the chunks of the examples' labelled lines *)
Lemma reparse_core o ind exs gx its prev pind :
  exs <> [] -> Forall (fun e => ex_ind e = ind) exs ->
  Chain (o_bal o) prev pind (map BEx exs) ->
  Forall LineOK (exs_lines (map ex0 exs)) ->
  group_lines (intended (map BEx exs)) = Ok gx -> package_groups o gx 0 = Ok its ->
  parse o (join_nl (exs_lines (map ex0 exs))) = Parsed its.
Proof.
  intros NE HI HC HOK G P.
  pose proof (chain_ex0_any_start _ _ _ TEXT (chain_ex0 _ _ _ _ HC)) as HC0.
  pose proof (chain_wants _ _ _ _ HC) as HW.
  pose proof (exs0_lines_heads _ HW) as HH.
  destruct (exs0_first _ _ _ _ NE HC) as (code & rest & EF).
  unfold parse. rewrite EF, normalize_displayed by (rewrite <- EF; exact HOK).
  unfold label_lines. rewrite srclines_join.
  2:{ rewrite <- EF. rewrite Forall_forall in *. intros l Hl. split; [apply (HOK l Hl)|].
      destruct (HH l Hl) as (c & r & E & _). subst l. discriminate. }
  rewrite <- EF. unfold exs_lines at 1. rewrite (labels_as_intended_from _ _ _ _ HC0).
  assert (EI : intended (map BEx (map ex0 exs)) = map (on_snd (skipn ind)) (intended (map BEx exs))).
  { rewrite !intended_exs, map_on_snd_combine, exs_labels_ex0. f_equal.
    rewrite (exs_lines_ind ind exs HI), skipn_ind_lines. reflexivity. }
  rewrite EI, group_lines_map, G. cbn [res_map].
  rewrite (package_groups_dedent o ind).
  - rewrite P. reflexivity.
  - eapply group_lines_notext; [|exact G]. unfold NoText. rewrite intended_exs.
    apply (proj1 (Forall_map fst (fun l => l <> TEXT) _)).
    rewrite map_fst_combine by apply exs_labels_length. apply exs_labels_notext.
  - rewrite (group_lines_partition _ _ G), intended_exs, map_snd_combine by apply exs_labels_length.
    rewrite (exs_lines_ind ind exs HI). apply ind_lines. exact HH.
Qed.

(* what the parts of the examples' chunks display, wherever the chunks start *)
Lemma display_core o ind exs gx its n prev pind :
  AstInRange o -> Forall (fun e => ex_ind e = ind) exs ->
  Chain (o_bal o) prev pind (map BEx exs) ->
  Forall LineOK (exs_lines (map ex0 exs)) ->
  group_lines (intended (map BEx exs)) = Ok gx -> package_groups o gx n = Ok its ->
  concat (map all_lines (parts_of its)) = exs_lines (map ex0 exs) /\
  Forall ShownOK (parts_of its) /\ Forall (fun p => orig_lines p <> []) (parts_of its).
Proof.
  intros HR HI HC HOK G P.
  pose proof (chain_wants _ _ _ _ HC) as HW.
  pose proof (exs0_lines_heads _ HW) as HH.
  assert (GC : Forall is_code gx).
  { eapply group_lines_notext; [|exact G]. unfold NoText. rewrite intended_exs.
    apply (proj1 (Forall_map fst (fun l => l <> TEXT) _)).
    rewrite map_fst_combine by apply exs_labels_length. apply exs_labels_notext. }
  assert (FL : flatten_chunks gx = exs_lines exs).
  { rewrite (group_lines_partition _ _ G), intended_exs, map_snd_combine by apply exs_labels_length. reflexivity. }
  assert (GI : Forall (IndLine ind) (flatten_chunks gx)).
  { rewrite FL, (exs_lines_ind ind exs HI). apply ind_lines. exact HH. }
  assert (AL : concat (map all_lines (parts_of its)) = exs_lines (map ex0 exs)).
  { rewrite (tiled_shown gx n its (package_groups_tiled o gx n its P)).
    rewrite (shown_dedent o ind gx n its P GC GI), FL, (exs_lines_ind ind exs HI). apply skipn_ind_lines. }
  split; [exact AL|]. split; [|eapply package_groups_nonempty; eassumption].
  apply Forall_forall. intros p Hp.
  assert (IN : forall l, In l (all_lines p) -> Clean l /\ l <> []).
  { intros l Hl. assert (Hl' : In l (exs_lines (map ex0 exs))).
    { rewrite <- AL. apply in_concat. exists (all_lines p). split; [apply in_map; exact Hp | exact Hl]. }
    split.
    - rewrite Forall_forall in HOK. apply (HOK l Hl').
    - rewrite Forall_forall in HH. destruct (HH l Hl') as (c & r & E & _). subst l. discriminate. }
  split; apply Forall_forall; intros l Hl; apply IN; unfold all_lines; apply in_or_app; [left | right]; exact Hl.
Qed.

(* ---------- prose before and after the examples ---------- *)
Definition text_items (p : list str) : list (label * str) := map (pair TEXT) p.
Definition tchunk (T : list (label * str)) : list chunk :=
  match T with [] => [] | _ => [TextChunk (map snd T)] end.

Lemma text_items_class p : AllClass KText (text_items p).
Proof. unfold AllClass, text_items. rewrite Forall_map. apply Forall_forall. intros l _. reflexivity. Qed.

Lemma intended_app a b : intended (a ++ b) = intended a ++ intended b.
Proof.
  unfold intended. rewrite !map_app, !concat_app. apply combine_app.
  induction a as [|x a IH]; [reflexivity|]. cbn [map concat]. rewrite !app_length, IH, block_labels_length. reflexivity.
Qed.

Lemma intended_prose p : intended [BProse p] = text_items p.
Proof.
  unfold intended, text_items. cbn [map concat block_labels block_lines]. rewrite !app_nil_r.
  induction p as [|l p IH]; [reflexivity|]. cbn [map combine]. rewrite IH. reflexivity.
Qed.

Lemma both_ok_inv {A} (r1 r2 : res (list A)) c : both r1 r2 = Ok c ->
  exists a b, r1 = Ok a /\ r2 = Ok b /\ c = a ++ b.
Proof.
  unfold both. destruct r1 as [a|e]; [|discriminate]. destruct r2 as [b|e]; [|discriminate].
  intros H. inversion H. exists a, b. repeat split.
Qed.

Lemma class_all_last k (X : list (label * str)) d : X <> [] -> AllClass k X -> class_of (fst (last X d)) = k.
Proof. intros NE H. unfold AllClass in H. rewrite Forall_forall in H. apply H. apply last_in_ne. exact NE. Qed.

Lemma gl_around T0 (x : label * str) X' T1 gs :
  AllClass KText T0 -> AllClass KText T1 ->
  Forall (fun it => class_of (fst it) <> KText) (x :: X') -> fst x <> WANT ->
  group_lines (T0 ++ (x :: X') ++ T1) = Ok gs ->
  exists gx, group_lines (x :: X') = Ok gx /\ gs = tchunk T0 ++ gx ++ tchunk T1.
Proof.
  intros H0 H1 HX HW G.
  assert (LX : forall d, class_of (fst (last (x :: X') d)) <> KText).
  { intros d. rewrite Forall_forall in HX. apply HX. apply last_in_ne. discriminate. }
  (* cut off the trailing prose *)
  assert (G' : exists g0, group_lines (T0 ++ x :: X') = Ok g0 /\ gs = g0 ++ tchunk T1).
  { destruct T1 as [|t1 T1'].
    - rewrite app_nil_r in G. exists gs. split; [exact G | cbn; rewrite app_nil_r; reflexivity].
    - rewrite app_assoc in G.
      rewrite (group_lines_app (T0 ++ x :: X') t1 T1' (TEXT, [])) in G.
      + apply both_ok_inv in G. destruct G as (a & b & Ga & Gb & ->).
        rewrite (group_lines_text t1 T1' H1) in Gb. inversion Gb; subst b. exists a. split; [exact Ga | reflexivity].
      + destruct T0; discriminate.
      + rewrite last_app_ne by discriminate. inversion H1 as [|? ? Ht _]; subst. rewrite Ht. apply LX.
      + inversion H1 as [|? ? Ht _]; subst. destruct (fst t1); cbn in Ht; try discriminate. }
  destruct G' as (g0 & G0 & ->).
  (* cut off the leading prose *)
  destruct T0 as [|t0 T0'].
  - exists g0. split; [exact G0 | reflexivity].
  - change ((t0 :: T0') ++ x :: X') with ((t0 :: T0') ++ x :: X') in G0.
    rewrite (group_lines_app (t0 :: T0') x X' (TEXT, [])) in G0.
    + apply both_ok_inv in G0. destruct G0 as (a & b & Ga & Gb & ->).
      rewrite (group_lines_text t0 T0' H0) in Ga. inversion Ga; subst a. exists b. split; [exact Gb|].
      cbn [tchunk app]. reflexivity.
    + discriminate.
    + rewrite (class_all_last KText (t0 :: T0')); [|discriminate | exact H0].
      inversion HX as [|? ? Hx _]; subst. intros E. apply Hx. symmetry. exact E.
    + exact HW.
Qed.

Lemma chain_app_l bal : forall a b prev pind, Chain bal prev pind (a ++ b) -> Chain bal prev pind a.
Proof.
  induction a as [|x a IH]; intros b prev pind H; [constructor|]. cbn [app] in H.
  inversion H as [|? ? ? ? Hok Hrest]; subst. constructor; [exact Hok|]. eapply IH. exact Hrest.
Qed.

Lemma intended_exs_head bal exs prev pind : exs <> [] -> Chain bal prev pind (map BEx exs) ->
  exists x X', intended (map BEx exs) = x :: X' /\ fst x = DSRC.
Proof.
  intros NE H. destruct exs as [|e exs]; [contradiction|]. cbn [map] in H.
  inversion H as [|? ? ? ? Hok _]; subst. destruct Hok as (A & _).
  unfold intended. cbn [map concat block_labels block_lines]. unfold ex_labels, ex_lines.
  destruct (ex_stmts e) as [|s ss]; [contradiction|]. cbn [map concat stmt_labels stmt_lines app combine].
  eexists. eexists. split; reflexivity.
Qed.

Lemma parts_of_shift k its : parts_of (map (shift_item k) its) = map (shift k) (parts_of its).
Proof.
  induction its as [|it its IH]; [reflexivity|]. destruct it as [t|p]; cbn [map shift_item].
  - exact IH.
  - change (parts_of (IPart (shift k p) :: map (shift_item k) its)) with (shift k p :: parts_of (map (shift_item k) its)).
    rewrite IH. reflexivity.
Qed.

Lemma package_tchunk o T n : exists tis, package_groups o (tchunk T) n = Ok tis /\ parts_of tis = [].
Proof.
  destruct T as [|t T]; [exists []; split; reflexivity|]. cbn [tchunk package_groups bind].
  eexists. split; reflexivity.
Qed.

Lemma flatten_tchunk_items p : length (flatten_chunks (tchunk (text_items p))) = length p.
Proof.
  destruct p as [|l p]; [reflexivity|]. unfold flatten_chunks, text_items. cbn [map tchunk concat chunk_lines].
  rewrite app_nil_r. cbn [length]. rewrite !map_length. reflexivity.
Qed.

(* prose before and after a run of examples: the displayed text is the examples' lines, and parsing it again gives
   the same parts -- each with its line offset counted from the first displayed line instead of the docstring's *)
Theorem reparse_prose_around o ind exs p0 p1 s items off lineno :
  AstInRange o -> exs <> [] -> Forall (fun e => ex_ind e = ind) exs ->
  Chain (o_bal o) TEXT O (BProse p0 :: map BEx exs ++ [BProse p1]) ->
  srclines (normalize_docstring s) = concat (map block_lines (BProse p0 :: map BEx exs ++ [BProse p1])) ->
  Forall LineOK (exs_lines (map ex0 exs)) ->
  parse o s = Parsed items ->
  format_src (parts_of items) false true off true false lineno = join_nl (exs_lines (map ex0 exs)) /\
  exists items', parse o (format_src (parts_of items) false true off true false lineno) = Parsed items' /\
                 parts_of items = map (shift (length p0)) (parts_of items').
Proof.
  intros HR NE HI HC HL HOK HP.
  (* the chain of the examples alone *)
  assert (HCE : exists pv pi, Chain (o_bal o) pv pi (map BEx exs)).
  { inversion HC as [|? ? ? ? _ Hrest]; subst. eexists. eexists. eapply chain_app_l. exact Hrest. }
  destruct HCE as (pv & pi & HCE).
  (* the original parse *)
  unfold parse in HP. unfold label_lines in HP. rewrite HL in HP.
  rewrite (labels_as_intended_from _ _ _ _ HC) in HP.
  change (BProse p0 :: map BEx exs ++ [BProse p1]) with ([BProse p0] ++ map BEx exs ++ [BProse p1]) in HP.
  rewrite !intended_app, !intended_prose in HP.
  destruct (group_lines (text_items p0 ++ intended (map BEx exs) ++ text_items p1)) as [gs|e] eqn:G;
    [|destruct e; discriminate].
  destruct (package_groups o gs 0) as [its|e] eqn:P; [|destruct e; discriminate].
  inversion HP; subst its. clear HP.
  destruct (intended_exs_head _ _ _ _ NE HCE) as (x & X' & EX & Hx).
  rewrite EX in G.
  apply gl_around in G.
  2: apply text_items_class. 2: apply text_items_class.
  2:{ rewrite <- EX, intended_exs. apply (proj1 (Forall_map fst (fun l => class_of l <> KText) _)).
      rewrite map_fst_combine by apply exs_labels_length.
      eapply Forall_impl; [|apply exs_labels_notext]. intros l Hl E. apply Hl. destruct l; cbn in E; try discriminate. reflexivity. }
  2:{ rewrite Hx. discriminate. }
  destruct G as (gx & GX & ->). rewrite <- EX in GX.
  (* the items *)
  rewrite package_groups_app in P. apply both_ok_inv in P. destruct P as (ti0 & rest & P0 & P1 & ->).
  rewrite package_groups_app in P1. apply both_ok_inv in P1. destruct P1 as (itsX & ti1 & PX & P2 & ->).
  destruct (package_tchunk o (text_items p0) 0) as (t0 & E0 & N0). rewrite E0 in P0. inversion P0; subst ti0.
  destruct (package_tchunk o (text_items p1) (0 + length (flatten_chunks (tchunk (text_items p0))) + length (flatten_chunks gx)))
    as (t1 & E1 & N1).
  rewrite E1 in P2. inversion P2; subst ti1.
  rewrite flatten_tchunk_items in PX. cbn [Nat.add] in PX.
  assert (PS : parts_of (t0 ++ itsX ++ t1) = parts_of itsX).
  { rewrite !parts_of_app, N0, N1, app_nil_r. reflexivity. }
  rewrite PS.
  (* the same chunks packaged from line 0 *)
  pose proof (package_groups_shift o (length p0) gx 0) as SH. rewrite Nat.add_0_r, PX in SH.
  destruct (package_groups o gx 0) as [its0|e] eqn:P0'; [|discriminate]. cbn [res_map] in SH. inversion SH; subst itsX.
  destruct (display_core o ind exs gx _ _ _ _ HR HI HCE HOK GX PX) as (AL & SOK & NEO).
  assert (D : format_src (parts_of (map (shift_item (length p0)) its0)) false true off true false lineno
              = join_nl (exs_lines (map ex0 exs))).
  { rewrite format_src_shown by assumption. rewrite AL. reflexivity. }
  split; [exact D|]. exists its0. split.
  - rewrite D. eapply reparse_core; eassumption.
  - apply parts_of_shift.
Qed.

(* the hypotheses are satisfiable: "Summary." / "" / "    >>> a" / "    >>> b" / "    w" / "" / "More." *)
Definition demo_p0 : list str := [[83;117;109;109;97;114;121;46]; []]%N.
Definition demo_p1 : list str := [[]; [77;111;114;101;46]]%N.
Definition demo_exs4 : list example := [mkEx 4 [mkStmtB [97%N] []; mkStmtB [98%N] []] [[119%N]]].
Definition demo_doc2 : str :=
  ([83;117;109;109;97;114;121;46;10;10] ++ [32;32;32;32;62;62;62;32;97;10] ++ [32;32;32;32;62;62;62;32;98;10] ++
   [32;32;32;32;119;10;10] ++ [77;111;114;101;46])%N.

Example demo_prose_around_hyps :
  demo_exs4 <> [] /\ Forall (fun e => ex_ind e = 4) demo_exs4 /\
  Chain (o_bal demo_oracle) TEXT 0 (BProse demo_p0 :: map BEx demo_exs4 ++ [BProse demo_p1]) /\
  srclines (normalize_docstring demo_doc2) = concat (map block_lines (BProse demo_p0 :: map BEx demo_exs4 ++ [BProse demo_p1])) /\
  Forall LineOK (exs_lines (map ex0 demo_exs4)) /\
  exists items, parse demo_oracle demo_doc2 = Parsed items /\ map line_offset (parts_of items) = [2; 3].
Proof.
  split; [discriminate|]. split; [repeat constructor|]. split.
  { apply Chain_cons.
    { split; [repeat constructor | intros H; contradiction H; reflexivity]. }
    apply Chain_cons.
    { split; [discriminate|]. split; [|split].
      - constructor; [|constructor; [|constructor]]; (split; [intros k Hk; simpl in Hk; lia | reflexivity]).
      - constructor; [|constructor]. split; [eexists; eexists; split; reflexivity | repeat split; reflexivity].
      - intros H; discriminate H. }
    apply Chain_cons; [|apply Chain_nil].
    split; [repeat constructor | intros _; reflexivity]. }
  split; [reflexivity|]. split.
  { repeat constructor; intros c Hc; cbn in Hc; repeat (destruct Hc as [<-|Hc]; [reflexivity|]); contradiction. }
  eexists. split; [vm_compute; reflexivity | reflexivity].
Qed.

(* ================= prose between the examples ================= *)
(* one step: text, a run of non-text lines, and whatever follows -- provided the boundary to what follows is clean *)
Definition hd_ok_after (X : list (label * str)) (R : list (label * str)) : Prop :=
  match R with
  | [] => True
  | r :: _ => fst r <> WANT /\ forall d, class_of (fst (last X d)) <> class_of (fst r)
  end.

Lemma group_lines_nil : group_lines [] = Ok [].
Proof. reflexivity. Qed.

Lemma gl_step T0 (x : label * str) X' R gs :
  AllClass KText T0 ->
  Forall (fun it => class_of (fst it) <> KText) (x :: X') -> fst x <> WANT ->
  hd_ok_after (x :: X') R ->
  group_lines (T0 ++ (x :: X') ++ R) = Ok gs ->
  exists gx gr, group_lines (x :: X') = Ok gx /\ group_lines R = Ok gr /\ gs = tchunk T0 ++ gx ++ gr.
Proof.
  intros H0 HX HW HR G.
  assert (G' : exists g0 gr, group_lines (T0 ++ x :: X') = Ok g0 /\ group_lines R = Ok gr /\ gs = g0 ++ gr).
  { destruct R as [|r R'].
    - rewrite app_nil_r in G. exists gs, []. split; [exact G|]. split; [reflexivity | rewrite app_nil_r; reflexivity].
    - destruct HR as [HRW HRC]. rewrite app_assoc in G.
      rewrite (group_lines_app (T0 ++ x :: X') r R' (TEXT, [])) in G.
      + apply both_ok_inv in G. destruct G as (a & b & Ga & Gb & ->). exists a, b. repeat split; assumption.
      + destruct T0; discriminate.
      + rewrite last_app_ne by discriminate. apply HRC.
      + exact HRW. }
  destruct G' as (g0 & gr & G0 & GR & ->).
  destruct T0 as [|t0 T0'].
  - exists g0, gr. repeat split; assumption.
  - rewrite (group_lines_app (t0 :: T0') x X' (TEXT, [])) in G0.
    + apply both_ok_inv in G0. destruct G0 as (a & b & Ga & Gb & ->).
      rewrite (group_lines_text t0 T0' H0) in Ga. inversion Ga; subst a. exists b, gr. split; [exact Gb|]. split; [exact GR|].
      cbn [tchunk app]. reflexivity.
    + discriminate.
    + rewrite (class_all_last KText (t0 :: T0')); [|discriminate | exact H0].
      inversion HX as [|? ? Hx _]; subst. intros E. apply Hx. symmetry. exact E.
    + exact HW.
Qed.

(* the other direction, for the displayed text: runs of non-text lines put back to back *)
Lemma gl_join (x : label * str) X' R gx gr :
  hd_ok_after (x :: X') R ->
  group_lines (x :: X') = Ok gx -> group_lines R = Ok gr ->
  group_lines ((x :: X') ++ R) = Ok (gx ++ gr).
Proof.
  intros HR GX GR. destruct R as [|r R'].
  - rewrite app_nil_r. cbn in GR. inversion GR; subst gr. rewrite app_nil_r. exact GX.
  - destruct HR as [HRW HRC].
    rewrite (group_lines_app (x :: X') r R' (TEXT, [])); [|discriminate | apply HRC | exact HRW].
    rewrite GX, GR. reflexivity.
Qed.

Record section := mkSec { s_prose : list str; s_exs : list example; s_ind : nat }.
Definition sec_X (sec : section) : list (label * str) := intended (map BEx (s_exs sec)).
Definition sec_items (sec : section) : list (label * str) := text_items (s_prose sec) ++ sec_X sec.
Definition ll_of (secs : list section) (pend : list str) : list (label * str) :=
  concat (map sec_items secs) ++ text_items pend.

(* what the chain gives for the lines of one run of examples *)
Definition SecFacts (sec : section) : Prop :=
  exists x X', sec_X sec = x :: X' /\ fst x = DSRC /\ Forall (fun it => class_of (fst it) <> KText) (x :: X').
Definition WantEnd (sec : section) : Prop := forall d, class_of (fst (last (sec_X sec) d)) = KWant.
(* every run but the last one ends with a want *)
Fixpoint WantEnds (secs : list section) : Prop :=
  match secs with
  | [] => True
  | [_] => True
  | sec :: rest => WantEnd sec /\ WantEnds rest
  end.

Definition head_not_want (R : list (label * str)) : Prop :=
  match R with [] => True | r :: _ => class_of (fst r) <> KWant end.

Lemma ll_head_not_want secs pend : Forall SecFacts secs -> head_not_want (ll_of secs pend).
Proof.
  intros HF. unfold ll_of. destruct secs as [|sec rest].
  - cbn [map concat app]. destruct pend; cbn; [exact I | discriminate].
  - inversion HF as [|? ? (x & X' & EX & Hx & _) _]; subst. cbn [map concat]. unfold sec_items.
    destruct (s_prose sec) as [|l p]; cbn [text_items map app].
    + rewrite EX. cbn. rewrite Hx. discriminate.
    + cbn. discriminate.
Qed.

Lemma hd_ok_want X R : (forall d, class_of (fst (last X d)) = KWant) -> head_not_want R -> hd_ok_after X R.
Proof.
  intros HL HH. destruct R as [|r R']; [exact I|]. cbn in HH. split.
  - intros E. apply HH. rewrite E. reflexivity.
  - intros d E. apply HH. rewrite <- E. apply HL.
Qed.

Lemma hd_ok_text X R : X <> [] -> Forall (fun it => class_of (fst it) <> KText) X -> AllClass KText R -> hd_ok_after X R.
Proof.
  intros NE HX HR. destruct R as [|r R']; [exact I|]. inversion HR as [|? ? Hr _]; subst. split.
  - intros E. rewrite E in Hr. discriminate.
  - intros d E. rewrite Forall_forall in HX. apply (HX (last X d)); [apply last_in_ne; exact NE|]. rewrite E. exact Hr.
Qed.

(* the chunks of the docstring: per section a text chunk (if there is prose) and the chunks of its run *)
Fixpoint sec_chunks (secs : list section) (gxs : list (list chunk)) : list chunk :=
  match secs, gxs with
  | sec :: secs', gx :: gxs' => tchunk (text_items (s_prose sec)) ++ gx ++ sec_chunks secs' gxs'
  | _, _ => []
  end.

Lemma gl_sections : forall secs pend gs,
  Forall SecFacts secs -> WantEnds secs ->
  group_lines (ll_of secs pend) = Ok gs ->
  exists gxs, Forall2 (fun sec gx => group_lines (sec_X sec) = Ok gx) secs gxs /\
              gs = sec_chunks secs gxs ++ tchunk (text_items pend).
Proof.
  induction secs as [|sec rest IH]; intros pend gs HF HW G.
  - unfold ll_of in G. cbn [map concat app] in G. exists []. split; [constructor|]. cbn [sec_chunks app].
    destruct pend as [|l p]; [cbn in G; inversion G; reflexivity|].
    unfold text_items in *. cbn [map] in *. rewrite group_lines_text in G.
    + inversion G. reflexivity.
    + apply (text_items_class (l :: p)).
  - inversion HF as [|? ? HS HFr]; subst. destruct HS as (x & X' & EX & Hx & HXn).
    unfold ll_of in G. cbn [map concat] in G. unfold sec_items in G at 1. rewrite <- !app_assoc in G.
    fold (ll_of rest pend) in G. rewrite EX in G.
    assert (HB : hd_ok_after (x :: X') (ll_of rest pend)).
    { destruct rest as [|sec2 rest'].
      - unfold ll_of. cbn [map concat app]. apply hd_ok_text; [discriminate | exact HXn | apply text_items_class].
      - destruct HW as [HWe _]. unfold WantEnd in HWe. rewrite EX in HWe.
        apply hd_ok_want; [exact HWe | apply ll_head_not_want; exact HFr]. }
    apply gl_step in G; [| apply text_items_class | exact HXn | rewrite Hx; discriminate | exact HB].
    destruct G as (gx & gr & GX & GR & ->).
    assert (HW' : WantEnds rest) by (destruct rest as [|s2 r2]; [exact I | destruct HW as [_ HW]; exact HW]).
    destruct (IH pend gr HFr HW' GR) as (gxs & F2 & ->).
    exists (gx :: gxs). split; [constructor; [unfold sec_X in *; rewrite EX; exact GX | exact F2]|].
    cbn [sec_chunks]. rewrite <- !app_assoc. reflexivity.
Qed.

Definition HeadSrc (Y : list (label * str)) : Prop := exists y Y', Y = y :: Y' /\ fst y = DSRC.
Fixpoint WantEndsL (Ys : list (list (label * str))) : Prop :=
  match Ys with
  | [] => True
  | [_] => True
  | Y :: rest => (forall d, class_of (fst (last Y d)) = KWant) /\ WantEndsL rest
  end.

Lemma gl_join_all : forall Ys gs,
  Forall2 (fun Y g => group_lines Y = Ok g) Ys gs -> Forall HeadSrc Ys -> WantEndsL Ys ->
  group_lines (concat Ys) = Ok (concat gs).
Proof.
  induction Ys as [|Y rest IH]; intros gs F2 HH HW.
  - inversion F2; subst. reflexivity.
  - inversion F2 as [|? g ? gr GY Fr]; subst. inversion HH as [|? ? (y & Y' & EY & Hy) HHr]; subst.
    cbn [concat]. apply gl_join; [| exact GY |].
    + destruct rest as [|Y2 rest']; [exact I|].
      destruct HW as [HWe _]. apply hd_ok_want; [exact HWe|].
      inversion HHr as [|? ? (y2 & Y2' & EY2 & Hy2) _]; subst. cbn. rewrite Hy2. discriminate.
    + apply IH; [exact Fr | exact HHr |]. destruct rest as [|Y2 r2]; [exact I | destruct HW as [_ HW]; exact HW].
Qed.

(* parts up to the line they start on *)
Definition unoffset (p : part) : part :=
  mkPart (exec_lines p) (want_lines p) O (orig_lines p) (p_directives p) (compile_mode p) (p_dirs_raise p).
Definition UP (its : list item) : list part := map unoffset (parts_of its).

Lemma unoffset_shift k p : unoffset (shift k p) = unoffset p.
Proof. reflexivity. Qed.

Lemma UP_shift k its : UP (map (shift_item k) its) = UP its.
Proof. unfold UP. rewrite parts_of_shift, map_map. apply map_ext. intros p. apply unoffset_shift. Qed.

Lemma UP_app a b : UP (a ++ b) = UP a ++ UP b.
Proof. unfold UP. rewrite parts_of_app, map_app. reflexivity. Qed.

(* packaging a run from any start line: the same parts up to their offsets *)
Lemma pk_any_start o gx k its : package_groups o gx k = Ok its ->
  exists its0, package_groups o gx 0 = Ok its0 /\ its = map (shift_item k) its0.
Proof.
  intros P. pose proof (package_groups_shift o k gx 0) as SH. rewrite Nat.add_0_r, P in SH.
  destruct (package_groups o gx 0) as [its0|e]; [|discriminate]. cbn [res_map] in SH. inversion SH. exists its0. split; reflexivity.
Qed.

Lemma pk_from_zero o gx k its0 : package_groups o gx 0 = Ok its0 ->
  package_groups o gx k = Ok (map (shift_item k) its0).
Proof.
  intros P. pose proof (package_groups_shift o k gx 0) as SH. rewrite Nat.add_0_r, P in SH. exact SH.
Qed.

Lemma pk_secs o : forall secs gxs n items, length secs = length gxs ->
  package_groups o (sec_chunks secs gxs) n = Ok items ->
  exists its0s, Forall2 (fun gx its0 => package_groups o gx 0 = Ok its0) gxs its0s /\
                UP items = concat (map UP its0s).
Proof.
  induction secs as [|sec secs IH]; intros gxs n items HL P.
  - destruct gxs; [|discriminate]. cbn in P. inversion P. exists []. split; [constructor | reflexivity].
  - destruct gxs as [|gx gxs]; [discriminate|]. cbn [sec_chunks] in P.
    rewrite package_groups_app in P. apply both_ok_inv in P. destruct P as (t0 & r1 & P0 & P1 & ->).
    rewrite package_groups_app in P1. apply both_ok_inv in P1. destruct P1 as (itsX & r2 & PX & P2 & ->).
    destruct (package_tchunk o (text_items (s_prose sec)) n) as (t0' & E0 & N0). rewrite E0 in P0. inversion P0; subst t0'.
    destruct (pk_any_start _ _ _ _ PX) as (its0 & PZ & ->).
    cbn [length] in HL. injection HL as HL.
    destruct (IH gxs _ r2 HL P2) as (its0s & F2 & EU).
    exists (its0 :: its0s). split; [constructor; assumption|].
    rewrite !UP_app, UP_shift, EU. unfold UP at 1. rewrite N0. reflexivity.
Qed.

Lemma pk_concat o : forall gxs its0s n,
  Forall2 (fun gx its0 => package_groups o gx 0 = Ok its0) gxs its0s ->
  exists items', package_groups o (concat gxs) n = Ok items' /\ UP items' = concat (map UP its0s).
Proof.
  induction gxs as [|gx gxs IH]; intros its0s n F2.
  - inversion F2; subst. exists []. split; reflexivity.
  - inversion F2 as [|? its0 ? its0r PZ Fr]; subst. cbn [concat].
    destruct (IH its0r (n + length (flatten_chunks gx)) Fr) as (ir & PR & EU).
    exists (map (shift_item n) its0 ++ ir). split.
    + rewrite package_groups_app, (pk_from_zero _ _ n _ PZ), PR. reflexivity.
    + rewrite UP_app, UP_shift, EU. reflexivity.
Qed.

(* ---------- the blocks of a sectioned docstring ---------- *)
Definition sec_blocks (sec : section) : list block := BProse (s_prose sec) :: map BEx (s_exs sec).
Definition doc_blocks (secs : list section) (pend : list str) : list block :=
  concat (map sec_blocks secs) ++ [BProse pend].
Definition all_exs (secs : list section) : list example := concat (map s_exs secs).

Lemma intended_sec sec : intended (sec_blocks sec) = sec_items sec.
Proof.
  unfold sec_blocks, sec_items, sec_X. change (BProse (s_prose sec) :: map BEx (s_exs sec)) with ([BProse (s_prose sec)] ++ map BEx (s_exs sec)).
  rewrite intended_app, intended_prose. reflexivity.
Qed.

Lemma intended_doc secs pend : intended (doc_blocks secs pend) = ll_of secs pend.
Proof.
  unfold doc_blocks, ll_of. rewrite intended_app, intended_prose. f_equal.
  induction secs as [|sec secs IH]; [reflexivity|]. cbn [map concat]. rewrite intended_app, intended_sec, IH. reflexivity.
Qed.

Lemma chain_app_r bal : forall a b prev pind, Chain bal prev pind (a ++ b) -> exists pv pi, Chain bal pv pi b.
Proof.
  induction a as [|x a IH]; intros b prev pind H; [eexists; eexists; exact H|]. cbn [app] in H.
  inversion H as [|? ? ? ? _ Hrest]; subst. eapply IH. exact Hrest.
Qed.

Lemma chain_sections bal : forall secs pend prev pind, Chain bal prev pind (doc_blocks secs pend) ->
  Forall (fun sec => exists pv pi, Chain bal pv pi (map BEx (s_exs sec))) secs.
Proof.
  induction secs as [|sec secs IH]; intros pend prev pind H; [constructor|].
  unfold doc_blocks in H. cbn [map concat] in H. unfold sec_blocks in H at 1. cbn [app] in H.
  inversion H as [|? ? ? ? _ Hrest]; subst. rewrite <- app_assoc in Hrest. constructor.
  - eexists. eexists. eapply chain_app_l. exact Hrest.
  - apply chain_app_r in Hrest. destruct Hrest as (pv & pi & Hr). eapply IH. exact Hr.
Qed.

Definition ExOK (bal : list str -> res bool) (e : example) : Prop :=
  ex_stmts e <> [] /\ Forall (BalOK bal) (ex_stmts e) /\ Forall WantLine (ex_want e).

Lemma chain_exok bal : forall exs prev pind, Chain bal prev pind (map BEx exs) -> Forall (ExOK bal) exs.
Proof.
  induction exs as [|e exs IH]; intros prev pind H; [constructor|]. cbn [map] in H.
  inversion H as [|? ? ? ? Hok Hrest]; subst. destruct Hok as (A & B & C & _).
  constructor; [split; [exact A|]; split; [exact B | exact C] | eapply IH; exact Hrest].
Qed.

Lemma chain0_of_ok bal : forall exs prev, Forall (ExOK bal) exs -> Chain bal prev O (map BEx (map ex0 exs)).
Proof.
  induction exs as [|e exs IH]; intros prev H; [constructor|]. inversion H as [|? ? (A & B & C) Hr]; subst.
  cbn [map]. constructor.
  - cbn [ok_after ex0 ex_stmts ex_want ex_ind]. split; [exact A|]. split; [exact B|]. split; [exact C|]. intros _. reflexivity.
  - cbn [after_block ex0 ex_want ex_ind]. destruct (ex_want e); cbn [fst snd]; apply IH; exact Hr.
Qed.

Lemma sec_facts bal sec pv pi : s_exs sec <> [] -> Chain bal pv pi (map BEx (s_exs sec)) -> SecFacts sec.
Proof.
  intros NE H. destruct (intended_exs_head _ _ _ _ NE H) as (x & X' & EX & Hx). exists x, X'. split; [exact EX|]. split; [exact Hx|].
  rewrite <- EX. unfold sec_X. rewrite intended_exs. apply (proj1 (Forall_map fst (fun l => class_of l <> KText) _)).
  rewrite map_fst_combine by apply exs_labels_length.
  eapply Forall_impl; [|apply exs_labels_notext]. intros l Hl E. apply Hl. destruct l; cbn in E; try discriminate. reflexivity.
Qed.

(* a run whose last example has a want ends with a want line *)
Definition LastHasWant (exs : list example) : Prop := exists pre e, exs = pre ++ [e] /\ ex_want e <> [].

Lemma last_combine_want (a : list label) (b : list str) (ws : list str) (f : str -> str) d : ws <> [] -> length a = length b ->
  fst (last (combine (a ++ map (fun _ => WANT) ws) (b ++ map f ws)) d) = WANT.
Proof.
  intros NE HL. rewrite combine_app by exact HL. rewrite last_app_ne.
  - destruct (exists_last NE) as (ws' & w & ->). rewrite !map_app. cbn [map].
    rewrite combine_app by (rewrite !map_length; reflexivity). cbn [combine]. rewrite last_last. reflexivity.
  - destruct ws; [contradiction | discriminate].
Qed.

Lemma want_end_of_last sec : LastHasWant (s_exs sec) -> WantEnd sec.
Proof.
  intros (pre & e & E & NW) d. unfold sec_X. rewrite E, map_app, intended_app. cbn [map].
  rewrite last_app_ne.
  - unfold intended. cbn [map concat block_labels block_lines]. rewrite !app_nil_r. unfold ex_labels, ex_lines.
    rewrite (last_combine_want _ _ (ex_want e) (fun w => spaces (ex_ind e) ++ w) d NW); [reflexivity|].
    clear. induction (ex_stmts e) as [|s ss IH]; [reflexivity|]. cbn [map concat]. rewrite !app_length, IH, (stmt_labels_length (ex_ind e)). reflexivity.
  - unfold intended. cbn [map concat block_labels block_lines]. rewrite !app_nil_r. unfold ex_labels, ex_lines.
    destruct (ex_want e) as [|w ws]; [contradiction|]. intros E0. apply (f_equal (@length _)) in E0.
    rewrite combine_length, !app_length in E0. cbn [map length] in E0. lia.
Qed.

(* ---------- one run of examples: its displayed version groups and packages to the same parts ---------- *)
Definition sec_L0 (sec : section) : list str := exs_lines (map ex0 (s_exs sec)).
Definition sec_X0 (sec : section) : list (label * str) := intended (map BEx (map ex0 (s_exs sec))).
Definition SecHyp (o : oracles) (sec : section) : Prop :=
  s_exs sec <> [] /\ Forall (fun e => ex_ind e = s_ind sec) (s_exs sec) /\
  (exists pv pi, Chain (o_bal o) pv pi (map BEx (s_exs sec))) /\ Forall LineOK (sec_L0 sec).

Lemma sec_core o sec gx its0 : AstInRange o -> SecHyp o sec ->
  group_lines (sec_X sec) = Ok gx -> package_groups o gx 0 = Ok its0 ->
  group_lines (sec_X0 sec) = Ok (map (chunk_map (skipn (s_ind sec))) gx) /\
  package_groups o (map (chunk_map (skipn (s_ind sec))) gx) 0 = Ok its0 /\
  concat (map all_lines (parts_of its0)) = sec_L0 sec /\
  Forall ShownOK (parts_of its0) /\ Forall (fun p => orig_lines p <> []) (parts_of its0).
Proof.
  intros HR (NE & HI & (pv & pi & HC) & HOK) G P. unfold sec_X in G.
  pose proof (chain_wants _ _ _ _ HC) as HW.
  pose proof (exs0_lines_heads _ HW) as HH.
  assert (EI : sec_X0 sec = map (on_snd (skipn (s_ind sec))) (intended (map BEx (s_exs sec)))).
  { unfold sec_X0. rewrite !intended_exs, map_on_snd_combine, exs_labels_ex0. f_equal.
    rewrite (exs_lines_ind (s_ind sec) (s_exs sec) HI), skipn_ind_lines. reflexivity. }
  assert (GC : Forall is_code gx).
  { eapply group_lines_notext; [|exact G]. unfold NoText. rewrite intended_exs.
    apply (proj1 (Forall_map fst (fun l => l <> TEXT) _)).
    rewrite map_fst_combine by apply exs_labels_length. apply exs_labels_notext. }
  assert (GI : Forall (IndLine (s_ind sec)) (flatten_chunks gx)).
  { rewrite (group_lines_partition _ _ G), intended_exs, map_snd_combine by apply exs_labels_length.
    rewrite (exs_lines_ind (s_ind sec) (s_exs sec) HI). apply ind_lines. exact HH. }
  split; [rewrite EI, group_lines_map, G; reflexivity|].
  split; [rewrite (package_groups_dedent o (s_ind sec) gx 0 GC GI); exact P|].
  exact (display_core o (s_ind sec) (s_exs sec) gx its0 0 pv pi HR HI HC HOK G P).
Qed.

Lemma sections_core o : AstInRange o -> forall secs gxs its0s,
  Forall (SecHyp o) secs ->
  Forall2 (fun sec gx => group_lines (sec_X sec) = Ok gx) secs gxs ->
  Forall2 (fun gx its0 => package_groups o gx 0 = Ok its0) gxs its0s ->
  exists gx0s,
    Forall2 (fun Y g => group_lines Y = Ok g) (map sec_X0 secs) gx0s /\
    Forall2 (fun gx its0 => package_groups o gx 0 = Ok its0) gx0s its0s /\
    concat (map (fun its0 => concat (map all_lines (parts_of its0))) its0s) = concat (map sec_L0 secs) /\
    Forall (fun its0 => Forall ShownOK (parts_of its0) /\ Forall (fun p => orig_lines p <> []) (parts_of its0)) its0s.
Proof.
  intros HR. induction secs as [|sec secs IH]; intros gxs its0s HS F1 F2.
  - inversion F1; subst. inversion F2; subst. exists []. repeat split; constructor.
  - inversion F1 as [|? gx ? gxr G F1r]; subst. inversion F2 as [|? its0 ? itr P F2r]; subst.
    inversion HS as [|? ? Hs HSr]; subst.
    destruct (sec_core o sec gx its0 HR Hs G P) as (A & B & C & D & E).
    destruct (IH gxr itr HSr F1r F2r) as (gx0s & A' & B' & C' & D').
    exists (map (chunk_map (skipn (s_ind sec))) gx :: gx0s). cbn [map concat].
    split; [constructor; assumption|]. split; [constructor; assumption|].
    split; [rewrite C, C'; reflexivity|]. constructor; [split; assumption | exact D'].
Qed.

Fixpoint WantEndsS (secs : list section) : Prop :=
  match secs with
  | [] => True
  | [_] => True
  | sec :: rest => LastHasWant (s_exs sec) /\ WantEndsS rest
  end.

Lemma want_ends_of secs : WantEndsS secs -> WantEnds secs.
Proof.
  induction secs as [|sec [|s2 rest] IH]; intros H; try exact I.
  destruct H as [H1 H2]. split; [apply want_end_of_last; exact H1 | apply IH; exact H2].
Qed.

Definition sec0 (sec : section) : section := mkSec [] (map ex0 (s_exs sec)) 0.

Lemma last_has_want0 exs : LastHasWant exs -> LastHasWant (map ex0 exs).
Proof. intros (pre & e & -> & NW). exists (map ex0 pre), (ex0 e). split; [rewrite map_app; reflexivity | exact NW]. Qed.

Lemma want_ends_l0 secs : WantEndsS secs -> WantEndsL (map sec_X0 secs).
Proof.
  induction secs as [|sec [|s2 rest] IH]; intros H; try exact I.
  destruct H as [H1 H2]. split; [|apply IH; exact H2].
  apply (want_end_of_last (sec0 sec)). cbn [sec0 s_exs]. apply last_has_want0. exact H1.
Qed.

Lemma head_src0 bal sec pv pi : s_exs sec <> [] -> Chain bal pv pi (map BEx (s_exs sec)) -> HeadSrc (sec_X0 sec).
Proof.
  intros NE H.
  assert (NE0 : map ex0 (s_exs sec) <> []) by (destruct (s_exs sec); [contradiction | discriminate]).
  destruct (intended_exs_head _ _ _ _ NE0 (chain_ex0 _ _ _ _ H)) as (x & X' & EX & Hx).
  exists x, X'. split; assumption.
Qed.

Lemma intended_concat : forall bss, intended (concat bss) = concat (map intended bss).
Proof. induction bss as [|b bss IH]; [reflexivity|]. cbn [concat map]. rewrite intended_app, IH. reflexivity. Qed.

Lemma all_X0 secs : intended (map BEx (map ex0 (all_exs secs))) = concat (map sec_X0 secs).
Proof.
  unfold all_exs. rewrite !concat_map, intended_concat, !map_map. reflexivity.
Qed.

Lemma all_L0 secs : exs_lines (map ex0 (all_exs secs)) = concat (map sec_L0 secs).
Proof.
  unfold all_exs, sec_L0, exs_lines. induction secs as [|sec secs IH]; [reflexivity|].
  cbn [map concat]. rewrite !map_app, concat_app, IH. reflexivity.
Qed.

Lemma all_lines_unoffset p : all_lines (unoffset p) = all_lines p.
Proof. reflexivity. Qed.

Lemma concat_all_lines_UP its : concat (map all_lines (UP its)) = concat (map all_lines (parts_of its)).
Proof. unfold UP. rewrite map_map. reflexivity. Qed.

Lemma forall_of_unoffset (P : part -> Prop) (l : list part) :
  (forall p, P (unoffset p) -> P p) -> Forall P (map unoffset l) -> Forall P l.
Proof. intros H F. rewrite Forall_map in F. eapply Forall_impl; [|exact F]. exact H. Qed.

Lemma forall_to_unoffset (P : part -> Prop) (l : list part) :
  (forall p, P p -> P (unoffset p)) -> Forall P l -> Forall P (map unoffset l).
Proof. intros H F. rewrite Forall_map. eapply Forall_impl; [|exact F]. exact H. Qed.

Lemma forall2_length {A B} (R : A -> B -> Prop) : forall l1 l2, Forall2 R l1 l2 -> length l1 = length l2.
Proof. induction l1 as [|x l1 IH]; intros l2 H; inversion H; subst; [reflexivity|]. cbn. f_equal. apply IH. assumption. Qed.

Lemma exs0_first_ok bal exs : exs <> [] -> Forall (ExOK bal) exs ->
  exists code rest, exs_lines (map ex0 exs) = (PS1sp ++ code) :: rest.
Proof.
  intros NE H. destruct exs as [|e exs]; [contradiction|]. inversion H as [|? ? (A & _) _]; subst.
  unfold exs_lines. cbn [map concat block_lines]. unfold ex_lines. cbn [ex0 ex_stmts ex_ind ex_want].
  destruct (ex_stmts e) as [|s ss]; [contradiction|]. cbn [map concat stmt_lines spaces repeat app].
  eexists. eexists. rewrite <- !app_assoc. cbn [app]. reflexivity.
Qed.

(* prose anywhere, as long as an example that is followed by prose-then-examples has a want:
   the displayed text parses to the same parts up to the lines they start on *)
Theorem reparse_sections o secs pend s items off lineno :
  AstInRange o -> secs <> [] ->
  Forall (fun sec => s_exs sec <> [] /\ Forall (fun e => ex_ind e = s_ind sec) (s_exs sec)) secs ->
  WantEndsS secs ->
  Chain (o_bal o) TEXT O (doc_blocks secs pend) ->
  srclines (normalize_docstring s) = concat (map block_lines (doc_blocks secs pend)) ->
  Forall LineOK (exs_lines (map ex0 (all_exs secs))) ->
  parse o s = Parsed items ->
  format_src (parts_of items) false true off true false lineno = join_nl (exs_lines (map ex0 (all_exs secs))) /\
  exists items', parse o (format_src (parts_of items) false true off true false lineno) = Parsed items' /\
                 map unoffset (parts_of items) = map unoffset (parts_of items').
Proof.
  intros HR NE HU HWS HC HL HOK HP.
  (* per-section facts *)
  pose proof (chain_sections _ _ _ _ _ HC) as HCS.
  assert (HS : Forall (SecHyp o) secs).
  { rewrite all_L0 in HOK. clear - HU HCS HOK. induction secs as [|sec secs IH]; [constructor|].
    inversion HU as [|? ? [A B] HUr]; subst. inversion HCS as [|? ? C HCr]; subst.
    cbn [map concat] in HOK. apply Forall_app in HOK. destruct HOK as [H1 H2].
    constructor; [repeat split; assumption | apply IH; assumption]. }
  assert (HF : Forall SecFacts secs).
  { eapply Forall_impl; [|exact HS]. intros sec (A & _ & (pv & pi & C) & _). eapply sec_facts; eassumption. }
  (* the original parse *)
  unfold parse in HP. unfold label_lines in HP. rewrite HL in HP.
  rewrite (labels_as_intended_from _ _ _ _ HC), intended_doc in HP.
  destruct (group_lines (ll_of secs pend)) as [gs|e] eqn:G; [|destruct e; discriminate].
  destruct (package_groups o gs 0) as [its|e] eqn:P; [|destruct e; discriminate].
  inversion HP; subst its. clear HP.
  destruct (gl_sections secs pend gs HF (want_ends_of _ HWS) G) as (gxs & F1 & ->).
  rewrite package_groups_app in P. apply both_ok_inv in P. destruct P as (i1 & t1 & P1 & P2 & ->).
  destruct (package_tchunk o (text_items pend) (0 + length (flatten_chunks (sec_chunks secs gxs)))) as (t1' & E1 & N1).
  rewrite E1 in P2. inversion P2; subst t1'.
  assert (LEN : length secs = length gxs) by (eapply forall2_length; exact F1).
  destruct (pk_secs o secs gxs 0 i1 LEN P1) as (its0s & F2 & EU).
  destruct (sections_core o HR secs gxs its0s HS F1 F2) as (gx0s & A & B & C & D).
  assert (UPI : UP (i1 ++ t1) = concat (map UP its0s)).
  { rewrite UP_app, EU. unfold UP at 2. rewrite N1. cbn [map]. rewrite app_nil_r. reflexivity. }
  (* what is displayed *)
  assert (AL : concat (map all_lines (parts_of (i1 ++ t1))) = exs_lines (map ex0 (all_exs secs))).
  { rewrite <- concat_all_lines_UP, UPI, all_L0, <- C.
    clear. induction its0s as [|x l IH]; [reflexivity|]. cbn [map concat]. rewrite map_app, concat_app, IH, concat_all_lines_UP. reflexivity. }
  assert (OKS : Forall ShownOK (parts_of (i1 ++ t1)) /\ Forall (fun p => orig_lines p <> []) (parts_of (i1 ++ t1))).
  { assert (K : Forall (fun p => ShownOK p /\ orig_lines p <> []) (map unoffset (parts_of (i1 ++ t1)))).
    { change (map unoffset (parts_of (i1 ++ t1))) with (UP (i1 ++ t1)). rewrite UPI. apply Forall_concat. rewrite Forall_map.
      eapply Forall_impl; [|exact D]. intros its0 [S1 S2]. unfold UP. rewrite Forall_map.
      rewrite Forall_forall in *. intros p Hp. split; [apply (S1 p Hp) | apply (S2 p Hp)]. }
    rewrite Forall_map in K. split; eapply Forall_impl; try exact K; intros p [K1 K2]; assumption. }
  destruct OKS as [SOK NEO].
  assert (DD : format_src (parts_of (i1 ++ t1)) false true off true false lineno = join_nl (exs_lines (map ex0 (all_exs secs)))).
  { rewrite format_src_shown by assumption. rewrite AL. reflexivity. }
  split; [exact DD|].
  (* the displayed text parses *)
  destruct (pk_concat o gx0s its0s 0 B) as (items' & PD & EUD).
  exists items'. split.
  - rewrite DD.
    assert (OKA : Forall (ExOK (o_bal o)) (all_exs secs)).
    { unfold all_exs. apply Forall_concat. rewrite Forall_map. eapply Forall_impl; [|exact HCS].
      intros sec (pv & pi & Hc). eapply chain_exok. exact Hc. }
    pose proof (chain0_of_ok _ _ TEXT OKA) as HC0.
    assert (NEA : map ex0 (all_exs secs) <> []).
    { destruct secs as [|sec r]; [contradiction|]. inversion HU as [|? ? [Hne _] _]; subst. unfold all_exs. cbn [map concat].
      destruct (s_exs sec); [contradiction | discriminate]. }
    assert (HW : Forall (fun e => Forall WantLine (ex_want e)) (all_exs secs)).
    { eapply Forall_impl; [|exact OKA]. intros e (_ & _ & W). exact W. }
    pose proof (exs0_lines_heads _ HW) as HH.
    assert (NEB : all_exs secs <> []) by (intros E; rewrite E in NEA; apply NEA; reflexivity).
    destruct (exs0_first_ok (o_bal o) (all_exs secs) NEB OKA) as (code & rest & EF).
    unfold parse. rewrite EF, normalize_displayed by (rewrite <- EF; exact HOK).
    unfold label_lines. rewrite srclines_join.
    2:{ rewrite <- EF. rewrite Forall_forall in *. intros l Hl. split; [apply (HOK l Hl)|].
        destruct (HH l Hl) as (c & r & E & _). subst l. discriminate. }
    rewrite <- EF. unfold exs_lines at 1. rewrite (labels_as_intended_from _ _ _ _ HC0), all_X0.
    rewrite (gl_join_all (map sec_X0 secs) gx0s A).
    + rewrite PD. reflexivity.
    + rewrite Forall_map. eapply Forall_impl; [|exact HS]. intros sec (N1' & _ & (pv & pi & Hc) & _). eapply head_src0; eassumption.
    + apply want_ends_l0. exact HWS.
  - change (UP (i1 ++ t1) = UP items'). rewrite EUD. exact UPI.
Qed.


(* the hypotheses are satisfiable:
   "Summary." "" "    >>> a" "    w" "" "More:" "" "    >>> b" "" "End." *)
Definition demo_secs : list section :=
  [mkSec [[83;117;109;109;97;114;121;46]; []]%N [mkEx 4 [mkStmtB [97%N] []] [[119%N]]] 4;
   mkSec [[]; [77;111;114;101;58]; []]%N [mkEx 4 [mkStmtB [98%N] []] []] 4].
Definition demo_pend : list str := [[]; [69;110;100;46]]%N.
Definition demo_doc3 : str :=
  ([83;117;109;109;97;114;121;46;10;10] ++ [32;32;32;32;62;62;62;32;97;10] ++ [32;32;32;32;119;10;10] ++
   [77;111;114;101;58;10;10] ++ [32;32;32;32;62;62;62;32;98;10;10] ++ [69;110;100;46])%N.

Example demo_sections_hyps :
  demo_secs <> [] /\
  Forall (fun sec => s_exs sec <> [] /\ Forall (fun e => ex_ind e = s_ind sec) (s_exs sec)) demo_secs /\
  WantEndsS demo_secs /\
  Chain (o_bal demo_oracle) TEXT 0 (doc_blocks demo_secs demo_pend) /\
  srclines (normalize_docstring demo_doc3) = concat (map block_lines (doc_blocks demo_secs demo_pend)) /\
  Forall LineOK (exs_lines (map ex0 (all_exs demo_secs))) /\
  exists items, parse demo_oracle demo_doc3 = Parsed items /\ map line_offset (parts_of items) = [2; 7].
Proof.
  split; [discriminate|]. split; [repeat constructor; discriminate|]. split.
  { split; [|exact I]. exists [], (mkEx 4 [mkStmtB [97%N] []] [[119%N]]). split; [reflexivity | discriminate]. }
  split.
  { unfold doc_blocks, demo_secs, sec_blocks. cbn [map concat app s_prose s_exs].
    apply Chain_cons. { split; [repeat constructor | intros H; contradiction H; reflexivity]. }
    apply Chain_cons.
    { split; [discriminate|]. split; [|split].
      - constructor; [|constructor]. split; [intros k Hk; simpl in Hk; lia | reflexivity].
      - constructor; [|constructor]. split; [eexists; eexists; split; reflexivity | repeat split; reflexivity].
      - intros H; discriminate H. }
    apply Chain_cons. { split; [repeat constructor | intros _; reflexivity]. }
    apply Chain_cons.
    { split; [discriminate|]. split; [|split].
      - constructor; [|constructor]. split; [intros k Hk; simpl in Hk; lia | reflexivity].
      - constructor.
      - intros H; discriminate H. }
    apply Chain_cons; [|apply Chain_nil]. split; [repeat constructor | intros _; reflexivity]. }
  split; [reflexivity|]. split.
  { repeat constructor; intros c Hc; cbn in Hc; repeat (destruct Hc as [<-|Hc]; [reflexivity|]); contradiction. }
  eexists. split; [vm_compute; reflexivity | reflexivity].
Qed.
