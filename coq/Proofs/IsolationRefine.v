(* IsolationRefine.v — the aliasing-aware heap model of the directive state (Model/Isolation.v) refines the pure
   RuntimeState model (Model/Directive.v): read through the heap, every effect computes exactly the state the
   pure model computes, as long as the state's set cells are distinct -- which construction by deepcopy
   guarantees.  Consequence (C11): the sequence of directive states a run goes through is the same after ANY
   history of earlier runs in the process as in a fresh process. *)
From XD Require Import Model.Base Model.Parser Model.Directive Model.Isolation Proofs.BaseFacts Proofs.IsolationProofs.
From Coq Require Import Lia.
Open Scope N_scope.

(* ---------- abstraction: a heap state read as a pure state ---------- *)
Definition abs_val (h : heap) (v : hvalue) : value :=
  match v with HBool b => VBool b | HSet c => VSet (hread h c) end.
Definition abs_dict (h : heap) (d : hdict) : dict := map (fun kv => (fst kv, abs_val h (snd kv))) d.
Definition abs (h : heap) (st : hstate) : runstate := mkRS (abs_dict h (hs_global st)) (abs_dict h (hs_inline st)).

Lemma dget_abs h k d : dget k (abs_dict h d) = option_map (abs_val h) (hget k d).
Proof. induction d as [|[k' v] d IH]; simpl; [reflexivity|]. destruct (eqb_str k k'); [reflexivity | exact IH]. Qed.

Lemma dset_abs h k v d : dset k (abs_val h v) (abs_dict h d) = abs_dict h (hset k v d).
Proof. induction d as [|[k' v'] d IH]; simpl; [reflexivity|]. destruct (eqb_str k k'); simpl; [reflexivity | rewrite IH; reflexivity]. Qed.

Lemma dhas_abs h k d : dhas k (abs_dict h d) = match hget k d with Some _ => true | None => false end.
Proof. unfold dhas. rewrite dget_abs. destruct (hget k d); reflexivity. Qed.

Lemma dset_dset k v1 v2 d : dset k v2 (dset k v1 d) = dset k v2 d.
Proof.
  induction d as [|[k' v'] d IH]; simpl.
  - rewrite eqb_str_refl. reflexivity.
  - destruct (eqb_str k k') eqn:E; simpl; rewrite ?eqb_str_refl, ?E; [reflexivity | rewrite IH; reflexivity].
Qed.

(* ---------- cells of a dict; separation ---------- *)
Fixpoint cells (d : hdict) : list cell :=
  match d with
  | [] => []
  | (_, HSet c) :: r => c :: cells r
  | (_, HBool _) :: r => cells r
  end.

(* the set cells of the persistent and of the inline dict are pairwise distinct cells of the heap *)
Record Sep (h : heap) (st : hstate) : Prop := mkSep {
  sep_nodup : NoDup (cells (hs_global st) ++ cells (hs_inline st));
  sep_range : forall c, In c (cells (hs_global st) ++ cells (hs_inline st)) -> (c < length h)%nat
}.

Lemma hget_cell k d c : hget k d = Some (HSet c) -> In c (cells d).
Proof.
  induction d as [|[k' v] d IH]; simpl; [discriminate|]. destruct (eqb_str k k').
  - intros H. inversion H; subst. left. reflexivity.
  - intros H. destruct v; [apply IH; exact H | right; apply IH; exact H].
Qed.

(* ---------- heap reads after writes / allocations ---------- *)
Lemma hread_hwrite_same h c v : (c < length h)%nat -> hread (hwrite h c v) c = v.
Proof.
  unfold hread. revert c. induction h as [|x h IH]; intros c H; simpl in *; [lia|].
  destruct c; simpl; [reflexivity | apply IH; lia].
Qed.
Lemma hread_hwrite_other h c c' v : c <> c' -> hread (hwrite h c v) c' = hread h c'.
Proof.
  unfold hread. revert c c'. induction h as [|x h IH]; intros c c' H; simpl; [reflexivity|].
  destruct c; destruct c'; simpl; try reflexivity; [congruence | apply IH; congruence].
Qed.
Lemma hread_app_old h v c : (c < length h)%nat -> hread (h ++ [v]) c = hread h c.
Proof. intros H. unfold hread. apply app_nth1. exact H. Qed.
Lemma hread_app_new h v : hread (h ++ [v]) (length h) = v.
Proof. unfold hread. rewrite app_nth2 by lia. rewrite Nat.sub_diag. reflexivity. Qed.

Lemma abs_dict_hwrite_other h c v d : ~ In c (cells d) -> abs_dict (hwrite h c v) d = abs_dict h d.
Proof.
  induction d as [|[k w] d IH]; simpl; intros H; [reflexivity|]. destruct w as [b|c'].
  - rewrite IH by exact H. reflexivity.
  - simpl in H. rewrite IH by tauto. simpl. rewrite hread_hwrite_other by (intros E; apply H; left; symmetry; exact E). reflexivity.
Qed.

Lemma abs_dict_app h v d : (forall c, In c (cells d) -> (c < length h)%nat) -> abs_dict (h ++ [v]) d = abs_dict h d.
Proof.
  induction d as [|[k w] d IH]; simpl; intros H; [reflexivity|]. destruct w as [b|c'].
  - rewrite IH by exact H. reflexivity.
  - simpl in H. rewrite IH by (intros c Hc; apply H; right; exact Hc). simpl.
    rewrite hread_app_old by (apply H; left; reflexivity). reflexivity.
Qed.

(* writing the cell a key points to = setting that key in the abstraction *)
Lemma abs_dict_hwrite_key h k c v d :
  hget k d = Some (HSet c) -> NoDup (cells d) -> (c < length h)%nat ->
  abs_dict (hwrite h c v) d = dset k (VSet v) (abs_dict h d).
Proof.
  induction d as [|[k' w] d IH]; simpl; [discriminate|]. intros G ND L.
  destruct (eqb_str k k') eqn:E.
  - inversion G; subst w. simpl. rewrite hread_hwrite_same by exact L.
    simpl in ND. inversion ND as [|? ? Hnin Hnd]; subst. rewrite abs_dict_hwrite_other by exact Hnin.
    apply eqb_str_spec in E. subst k'. reflexivity.
  - destruct w as [b|c'].
    + simpl. rewrite IH by assumption. reflexivity.
    + simpl in ND. inversion ND as [|? ? Hnin Hnd]; subst. simpl.
      assert (Hne : c <> c') by (intros X; subst c'; apply Hnin; eapply hget_cell; exact G).
      rewrite hread_hwrite_other by exact Hne. rewrite IH by assumption. reflexivity.
Qed.

(* ---------- sub-sequences (for NoDup under hset) ---------- *)
Inductive Subseq {A} : list A -> list A -> Prop :=
| ss_nil : Subseq [] []
| ss_skip x a b : Subseq a b -> Subseq a (x :: b)
| ss_keep x a b : Subseq a b -> Subseq (x :: a) (x :: b).

Lemma Subseq_refl {A} (l : list A) : Subseq l l.
Proof. induction l; constructor; assumption. Qed.
Lemma Subseq_in {A} (a b : list A) x : Subseq a b -> In x a -> In x b.
Proof.
  intros S. induction S as [|y a b S IH|y a b S IH]; simpl; intros Hin;
    [exact Hin | right; auto | destruct Hin as [Hin|Hin]; [left; exact Hin | right; auto]].
Qed.
Lemma Subseq_nodup {A} (a b : list A) : Subseq a b -> NoDup b -> NoDup a.
Proof.
  intros S. induction S as [|y a b S IH|y a b S IH]; intros ND; [constructor | inversion ND; auto |].
  inversion ND as [|? ? Hnin Hnd]; subst. constructor; [intros X; apply Hnin; eapply Subseq_in; eassumption | auto].
Qed.
Lemma Subseq_app {A} (a a' b b' : list A) : Subseq a a' -> Subseq b b' -> Subseq (a ++ b) (a' ++ b').
Proof.
  intros S. induction S as [|y a0 b0 S IH|y a0 b0 S IH]; intros Hb; simpl;
    [exact Hb | apply ss_skip; apply IH; exact Hb | apply ss_keep; apply IH; exact Hb].
Qed.

Lemma Subseq_trans {A} (a b c : list A) : Subseq a b -> Subseq b c -> Subseq a c.
Proof.
  intros Sab Sbc. revert a Sab. induction Sbc as [|x b c Sbc IH|x b c Sbc IH]; intros a Sab.
  - exact Sab.
  - apply ss_skip. apply IH. exact Sab.
  - inversion Sab as [|? ? ? S'|? a' ? S']; subst; [apply ss_skip; apply IH; exact S' | apply ss_keep; apply IH; exact S'].
Qed.

Lemma cells_hset_bool k b d : Subseq (cells (hset k (HBool b) d)) (cells d).
Proof.
  induction d as [|[k' w] d IH]; simpl; [constructor|]. destruct (eqb_str k k').
  - simpl. destruct w; [apply Subseq_refl | constructor; apply Subseq_refl].
  - simpl. destruct w; [exact IH | constructor; exact IH].
Qed.

Lemma cells_hset_new k c d : hget k d = None -> cells (hset k (HSet c) d) = cells d ++ [c].
Proof.
  induction d as [|[k' w] d IH]; simpl; [reflexivity|]. destruct (eqb_str k k'); [discriminate|].
  intros H. simpl. destruct w; rewrite IH by exact H; reflexivity.
Qed.

Lemma nodup_app_l {A} (a b : list A) : NoDup (a ++ b) -> NoDup a.
Proof.
  induction a as [|x a IH]; simpl; intros H; [constructor|]. inversion H as [|? ? Hnin Hnd]; subst.
  constructor; [intro X; apply Hnin; apply in_or_app; left; exact X | apply IH; exact Hnd].
Qed.
Lemma nodup_app_r {A} (a b : list A) : NoDup (a ++ b) -> NoDup b.
Proof. induction a as [|x a IH]; simpl; intros H; [exact H|]. inversion H; subst. apply IH. assumption. Qed.
Lemma nodup_app_disj {A} (a b : list A) x : NoDup (a ++ b) -> In x a -> In x b -> False.
Proof.
  induction a as [|y a IH]; simpl; intros H Ha Hb; [contradiction|]. inversion H as [|? ? Hnin Hnd]; subst.
  destruct Ha as [->|Ha]; [apply Hnin; apply in_or_app; right; exact Hb | exact (IH Hnd Ha Hb)].
Qed.
Lemma nodup_snoc {A} (l : list A) x : NoDup l -> ~ In x l -> NoDup (l ++ [x]).
Proof.
  induction l as [|y l IH]; simpl; intros H Hn; [constructor; [tauto | constructor]|].
  inversion H as [|? ? Hnin Hnd]; subst. constructor.
  - intros X. apply in_app_or in X. destruct X as [X|[X|[]]]; [tauto|]. subst y. apply Hn. left. reflexivity.
  - apply IH; [exact Hnd | intros X; apply Hn; right; exact X].
Qed.

(* ---------- one effect ---------- *)
Definition inline_of (e : heffect) : bool := match e with HE_assign i _ _ => i | HE_set i _ _ _ => i end.
Definition effect_of (e : heffect) : effect :=
  match e with
  | HE_assign _ key b => mkEffect A_assign key (VBool b)
  | HE_set _ add key arg => mkEffect (if add then A_set_add else A_set_remove) key (VSet [arg])
  end.

Lemma set_op_pure add arg s :
  (match e_action (effect_of (HE_set true add [] arg)) with A_set_add => set_add arg | _ => set_remove arg end) s = set_op add arg s.
Proof. destruct add; reflexivity. Qed.

Theorem happly_refines h st e : Sep h st ->
  match happly h st e with
  | Some (h', st') => apply_effect (inline_of e) (abs h st) (effect_of e) = UOk (abs h' st') /\ Sep h' st'
  | None => exists x, apply_effect (inline_of e) (abs h st) (effect_of e) = UErr x
  end.
Proof.
  intros [ND RG]. destruct e as [inl key b | inl add key arg].
  - (* assignment of a flag *)
    destruct inl; cbn [happly inline_of effect_of]; unfold apply_effect; cbn [e_action e_key e_val abs rs_global rs_inline hs_global hs_inline].
    + change (VBool b) with (abs_val h (HBool b)). rewrite dset_abs. split; [reflexivity|].
      constructor; cbn [hs_global hs_inline].
      * eapply Subseq_nodup; [|exact ND]. apply Subseq_app; [apply Subseq_refl | apply cells_hset_bool].
      * intros c Hc. apply RG. eapply Subseq_in; [|exact Hc]. apply Subseq_app; [apply Subseq_refl | apply cells_hset_bool].
    + change (VBool b) with (abs_val h (HBool b)). rewrite dset_abs. split; [reflexivity|].
      constructor; cbn [hs_global hs_inline].
      * eapply Subseq_nodup; [|exact ND]. apply Subseq_app; [apply cells_hset_bool | apply Subseq_refl].
      * intros c Hc. apply RG. eapply Subseq_in; [|exact Hc]. apply Subseq_app; [apply cells_hset_bool | apply Subseq_refl].
  - (* set.add / set.remove *)
    assert (OP : forall s, (match (if add then A_set_add else A_set_remove) with A_set_add => set_add arg | _ => set_remove arg end) s = set_op add arg s)
      by (intros s; destruct add; reflexivity).
    assert (ACT : apply_effect inl (abs h st) (effect_of (HE_set inl add key arg)) =
                  let op := set_op add arg in
                  if inl then
                    match (if dhas key (rs_inline (abs h st)) then UOk (rs_inline (abs h st))
                           else match dget key (rs_global (abs h st)) with
                                | Some (VSet s) => UOk (dset key (VSet s) (rs_inline (abs h st)))
                                | Some (VBool _) => UErr U_AttributeError
                                | None => UErr U_KeyError
                                end) with
                    | UOk ovl =>
                        match dget key ovl with
                        | Some (VSet s) => UOk (mkRS (rs_global (abs h st)) (dset key (VSet (op s)) ovl))
                        | Some (VBool _) => UErr U_AttributeError
                        | None => UErr U_KeyError
                        end
                    | UErr x => UErr x
                    | UNeed q => UNeed q
                    end
                  else
                    match dget key (rs_global (abs h st)) with
                    | Some (VSet s) => UOk (mkRS (dset key (VSet (op s)) (rs_global (abs h st))) (rs_inline (abs h st)))
                    | Some (VBool _) => UErr U_AttributeError
                    | None => UErr U_KeyError
                    end).
    { unfold apply_effect. cbn [effect_of e_action e_key e_val]. destruct add; reflexivity. }
    cbn [inline_of]. rewrite ACT. clear ACT OP. cbv zeta. cbn [abs rs_global rs_inline].
    destruct inl; cbn [happly].
    + (* inline *)
      rewrite dhas_abs. destruct (hget key (hs_inline st)) as [v|] eqn:GI.
      * (* the overlay already has the key *)
        rewrite dget_abs, GI. cbn [option_map]. destruct v as [b|c]; cbn [abs_val].
        -- exists U_AttributeError. reflexivity.
        -- assert (Hc : In c (cells (hs_inline st))) by (eapply hget_cell; exact GI).
           assert (Lc : (c < length h)%nat) by (apply RG; apply in_or_app; right; exact Hc).
           assert (NDg : NoDup (cells (hs_global st)) /\ NoDup (cells (hs_inline st)) /\ ~ In c (cells (hs_global st))).
           { split; [eapply nodup_app_l; exact ND|]. split; [eapply nodup_app_r; exact ND|].
             intros X. exact (nodup_app_disj _ _ _ ND X Hc). }
           destruct NDg as (NDg & NDi & Nc). split.
           ++ unfold abs. cbn [hs_global hs_inline]. rewrite abs_dict_hwrite_other by exact Nc.
              rewrite (abs_dict_hwrite_key h key c _ (hs_inline st) GI NDi Lc). reflexivity.
           ++ constructor; cbn [hs_global hs_inline]; [exact ND | intros c' Hc'; rewrite hwrite_length; apply RG; exact Hc'].
      * (* seed the overlay from the persistent set *)
        rewrite dget_abs. destruct (hget key (hs_global st)) as [[b|c]|] eqn:GG; cbn [option_map abs_val].
        -- exists U_AttributeError. reflexivity.
        -- unfold halloc. cbn [fst snd].
           assert (Hc : In c (cells (hs_global st))) by (eapply hget_cell; exact GG).
           assert (Lc : (c < length h)%nat) by (apply RG; apply in_or_app; left; exact Hc).
           set (s := hread h c). set (h1 := h ++ [s]).
           assert (R1 : hread h1 (length h) = s) by apply hread_app_new.
           rewrite R1.
           assert (DG : dget key (dset key (VSet s) (abs_dict h (hs_inline st))) = Some (VSet s)).
           { generalize (abs_dict h (hs_inline st)). intros d. induction d as [|[k' w] d IHd]; simpl.
             - rewrite eqb_str_refl. reflexivity.
             - destruct (eqb_str key k') eqn:E; simpl; rewrite ?eqb_str_refl, ?E; [reflexivity | exact IHd]. }
           rewrite DG. rewrite dset_dset. split.
           ++ unfold abs. cbn [hs_global hs_inline].
              assert (Fresh : ~ In (length h) (cells (hs_global st) ++ cells (hs_inline st))).
              { intros X. specialize (RG _ X). lia. }
              rewrite abs_dict_hwrite_other by (intros X; apply Fresh; apply in_or_app; left; exact X).
              unfold h1. rewrite abs_dict_app by (intros c' Hc'; apply RG; apply in_or_app; left; exact Hc').
              f_equal.
              assert (GN : hget key (hset key (HSet (length h)) (hs_inline st)) = Some (HSet (length h))).
              { clear. induction (hs_inline st) as [|[k' w] d IHd]; simpl.
                - rewrite eqb_str_refl. reflexivity.
                - destruct (eqb_str key k') eqn:E; simpl; rewrite ?eqb_str_refl, ?E; [reflexivity | exact IHd]. }
              rewrite (abs_dict_hwrite_key (h ++ [s]) key (length h) _ _ GN).
              ** rewrite <- dset_abs. cbn [abs_val]. rewrite dset_dset.
                 rewrite abs_dict_app by (intros c' Hc'; apply RG; apply in_or_app; right; exact Hc'). reflexivity.
              ** rewrite cells_hset_new by exact GI. apply nodup_snoc; [eapply nodup_app_r; exact ND|].
                 intros X. apply Fresh. apply in_or_app. right. exact X.
              ** rewrite app_length. simpl. lia.
           ++ constructor; cbn [hs_global hs_inline].
              ** rewrite cells_hset_new by exact GI. rewrite app_assoc.
                 assert (Fresh : ~ In (length h) (cells (hs_global st) ++ cells (hs_inline st))).
                 { intros X. specialize (RG _ X). lia. }
                 apply nodup_snoc; assumption.
              ** intros c' Hc'. rewrite hwrite_length. unfold h1. rewrite app_length. simpl.
                 rewrite cells_hset_new in Hc' by exact GI. rewrite app_assoc in Hc'. apply in_app_or in Hc'.
                 destruct Hc' as [Hc'|[<-|[]]]; [specialize (RG _ Hc'); lia | lia].
        -- exists U_KeyError. reflexivity.
    + (* persistent *)
      rewrite dget_abs. destruct (hget key (hs_global st)) as [[b|c]|] eqn:GG; cbn [option_map abs_val].
      * exists U_AttributeError. reflexivity.
      * assert (Hc : In c (cells (hs_global st))) by (eapply hget_cell; exact GG).
        assert (Lc : (c < length h)%nat) by (apply RG; apply in_or_app; left; exact Hc).
        assert (NDg : NoDup (cells (hs_global st))) by (eapply nodup_app_l; exact ND).
        assert (Nc : ~ In c (cells (hs_inline st))) by (intros X; exact (nodup_app_disj _ _ _ ND Hc X)).
        split.
        -- unfold abs. cbn [hs_global hs_inline]. rewrite (abs_dict_hwrite_other _ _ _ _ Nc).
           rewrite (abs_dict_hwrite_key h key c _ (hs_global st) GG NDg Lc). reflexivity.
        -- constructor; cbn [hs_global hs_inline]; [exact ND | intros c' Hc'; rewrite hwrite_length; apply RG; exact Hc'].
      * exists U_KeyError. reflexivity.
Qed.

(* ---------- a list of effects, an update, a run ---------- *)

(* the pure model applied effect by effect, each with its own block/inline flag *)
Fixpoint papply_all (rs : runstate) (es : list heffect) : ures runstate :=
  match es with
  | [] => UOk rs
  | e :: r => match apply_effect (inline_of e) rs (effect_of e) with
              | UOk rs' => papply_all rs' r
              | x => x
              end
  end.
(* RuntimeState.update: the overlay is dropped first *)
Definition pupdate (rs : runstate) (es : list heffect) : ures runstate := papply_all (mkRS (rs_global rs) []) es.

Theorem happly_all_refines es : forall h st, Sep h st ->
  match happly_all h st es with
  | Some (h', st') => papply_all (abs h st) es = UOk (abs h' st') /\ Sep h' st'
  | None => exists x, papply_all (abs h st) es = UErr x
  end.
Proof.
  induction es as [|e r IH]; intros h st S; cbn [happly_all papply_all].
  - split; [reflexivity | exact S].
  - pose proof (happly_refines h st e S) as R. destruct (happly h st e) as [[h1 st1]|].
    + destruct R as [E S1]. rewrite E. apply IH. exact S1.
    + destruct R as [x E]. rewrite E. exists x. reflexivity.
Qed.

Lemma Sep_clear h st : Sep h st -> Sep h (mkHS (hs_global st) []).
Proof.
  intros [ND RG]. constructor; cbn [hs_global hs_inline cells]; rewrite app_nil_r.
  - eapply nodup_app_l. exact ND.
  - intros c Hc. apply RG. apply in_or_app. left. exact Hc.
Qed.

Theorem hs_update_refines h st es : Sep h st ->
  match hs_update h st es with
  | Some (h', st') => pupdate (abs h st) es = UOk (abs h' st') /\ Sep h' st'
  | None => exists x, pupdate (abs h st) es = UErr x
  end.
Proof. intros S. unfold hs_update, pupdate. exact (happly_all_refines es h _ (Sep_clear h st S)). Qed.

(* the directive states a run goes through: one per part, up to the first update that raises *)
Fixpoint hs_trace (h : heap) (st : hstate) (parts : list (list heffect)) : list runstate :=
  match parts with
  | [] => []
  | es :: r => match hs_update h st es with
               | Some (h', st') => abs h' st' :: hs_trace h' st' r
               | None => []
               end
  end.
Fixpoint p_trace (rs : runstate) (parts : list (list heffect)) : list runstate :=
  match parts with
  | [] => []
  | es :: r => match pupdate rs es with
               | UOk rs' => rs' :: p_trace rs' r
               | _ => []
               end
  end.

Theorem hs_trace_refines parts : forall h st, Sep h st -> hs_trace h st parts = p_trace (abs h st) parts.
Proof.
  induction parts as [|es r IH]; intros h st S; cbn [hs_trace p_trace]; [reflexivity|].
  pose proof (hs_update_refines h st es S) as R. destruct (hs_update h st es) as [[h1 st1]|].
  - destruct R as [E S1]. rewrite E. f_equal. apply IH. exact S1.
  - destruct R as [x E]. rewrite E. reflexivity.
Qed.

(* ---------- construction: RuntimeState.__init__ ---------- *)
Lemma deepcopy_abs d : forall h h' d',
  deepcopy h d = (h', d') -> (forall c, In c (cells d) -> (c < length h)%nat) ->
  abs_dict h' d' = abs_dict h d /\ NoDup (cells d') /\
  (forall c, In c (cells d') -> (length h <= c < length h')%nat) /\
  (length h <= length h')%nat /\ (forall c, (c < length h)%nat -> hread h' c = hread h c).
Proof.
  induction d as [|[k v] r IH]; intros h h' d' H RG; simpl in H.
  - inversion H; subst. simpl. split; [reflexivity|]. split; [constructor|]. split; [intros c []|]. split; [lia | reflexivity].
  - destruct v as [b|c0].
    + destruct (deepcopy h r) as [h1 r1] eqn:E. inversion H; subst.
      destruct (IH _ _ _ E RG) as (A & B & C & D & F). simpl. rewrite A. repeat split; assumption || apply C; assumption.
    + unfold halloc in H. destruct (deepcopy (h ++ [hread h c0]) r) as [h2 r2] eqn:E. inversion H; subst.
      assert (RG1 : forall c, In c (cells r) -> (c < length (h ++ [hread h c0]))%nat).
      { intros c Hc. rewrite app_length. simpl. specialize (RG c (or_intror Hc)). lia. }
      destruct (IH _ _ _ E RG1) as (A & B & C & D & F). rewrite app_length in *. simpl in *.
      split; [|split; [|split; [|split]]].
      * rewrite A. rewrite abs_dict_app by (intros c Hc; apply RG; right; exact Hc).
        f_equal. f_equal. f_equal. rewrite F by lia. apply hread_app_new.
      * constructor; [intros X; specialize (C _ X); lia | exact B].
      * intros c [<-|Hc]; [lia | specialize (C _ Hc); lia].
      * lia.
      * intros c Hc. rewrite F by lia. apply hread_app_old. exact Hc.
Qed.

Definition bools (ds : list (str * bool)) : dict := map (fun kv => (fst kv, VBool (snd kv))) ds.

Lemma fold_hset_abs h ds : forall g,
  abs_dict h (fold_left (fun d kv => hset (fst kv) (HBool (snd kv)) d) ds g) =
  fold_left (fun d kv => dset (fst kv) (snd kv) d) (bools ds) (abs_dict h g).
Proof.
  induction ds as [|[k b] r IH]; intros g; simpl; [reflexivity|]. rewrite IH. f_equal.
  symmetry. change (VBool b) with (abs_val h (HBool b)). apply dset_abs.
Qed.

Lemma fold_hset_cells ds : forall g, Subseq (cells (fold_left (fun d kv => hset (fst kv) (HBool (snd kv)) d) ds g)) (cells g).
Proof.
  induction ds as [|[k b] r IH]; intros g; simpl; [apply Subseq_refl|].
  eapply Subseq_trans; [apply IH | apply cells_hset_bool].
Qed.

(* what a fresh RuntimeState is, read through the heap: the defaults' contents overlaid with the options *)
Theorem hs_init_refines h defaults ds h' st :
  hs_init h defaults ds = (h', st) -> (forall c, In c (cells defaults) -> (c < length h)%nat) ->
  abs h' st = mkRS (fold_left (fun d kv => dset (fst kv) (snd kv) d) (bools ds) (abs_dict h defaults)) [] /\ Sep h' st.
Proof.
  unfold hs_init. destruct (deepcopy h defaults) as [h1 g] eqn:E. intros H RG. inversion H; subst.
  destruct (deepcopy_abs _ _ _ _ E RG) as (A & B & C & D & F). split.
  - unfold abs. cbn [hs_global hs_inline]. rewrite fold_hset_abs, A. reflexivity.
  - constructor; cbn [hs_global hs_inline cells]; rewrite app_nil_r.
    + eapply Subseq_nodup; [apply fold_hset_cells | exact B].
    + intros c Hc. apply (Subseq_in _ _ _ (fold_hset_cells ds g)) in Hc. specialize (C _ Hc). lia.
Qed.

(* ---------- a run, and a run after a history ---------- *)
Definition run_trace (h : heap) (defaults : hdict) (ds : list (str * bool)) (parts : list (list heffect)) : list runstate :=
  let '(h', st) := hs_init h defaults ds in hs_trace h' st parts.

Theorem run_trace_pure h defaults ds parts :
  (forall c, In c (cells defaults) -> (c < length h)%nat) ->
  run_trace h defaults ds parts =
  p_trace (mkRS (fold_left (fun d kv => dset (fst kv) (snd kv) d) (bools ds) (abs_dict h defaults)) []) parts.
Proof.
  intros RG. unfold run_trace. destruct (hs_init h defaults ds) as [h' st] eqn:E.
  destruct (hs_init_refines _ _ _ _ _ E RG) as [A S]. rewrite (hs_trace_refines parts h' st S), A. reflexivity.
Qed.

Lemma exec_history_grows hist : forall h defaults, (length h <= length (exec_history h defaults hist))%nat.
Proof.
  unfold exec_history. induction hist as [|r rs IH]; intros h defaults; simpl; [lia|].
  pose proof (run_heap_grows h defaults (fst r) (snd r)) as G.
  specialize (IH (run_directives h defaults (fst r) (snd r)) defaults). lia.
Qed.

Lemma abs_dict_same_reads h1 h2 d : (forall c, In c (cells d) -> hread h1 c = hread h2 c) -> abs_dict h1 d = abs_dict h2 d.
Proof.
  induction d as [|[k v] d IH]; simpl; intros H; [reflexivity|]. destruct v as [b|c]; simpl in *.
  - rewrite IH by exact H. reflexivity.
  - rewrite (H c (or_introl eq_refl)), IH by (intros c' Hc'; apply H; right; exact Hc'). reflexivity.
Qed.

(* C11 for the directive state: whatever ran before in the process -- any number of doctests, in any order, with
   any options and directives, including ones whose update raises -- the next run goes through exactly the
   directive states it goes through in a fresh process *)
Theorem run_trace_independent_of_history hist h defaults ds parts :
  (forall c, In c (cells defaults) -> (c < length h)%nat) ->
  run_trace (exec_history h defaults hist) defaults ds parts = run_trace h defaults ds parts.
Proof.
  intros RG. rewrite !run_trace_pure.
  - f_equal. f_equal. f_equal. apply abs_dict_same_reads. intros c Hc.
    apply default_contents_stable. apply RG. exact Hc.
  - exact RG.
  - intros c Hc. pose proof (exec_history_grows hist h defaults) as G. specialize (RG c Hc). lia.
Qed.

(* ... and those states are the pure model's, started from rs_init, when the defaults hold DEFAULT_RUNTIME_STATE *)
Corollary run_trace_is_rs_init hist h defaults ds parts :
  (forall c, In c (cells defaults) -> (c < length h)%nat) ->
  abs_dict h defaults = DEFAULT_RUNTIME_STATE ->
  run_trace (exec_history h defaults hist) defaults ds parts = p_trace (rs_init (bools ds)) parts.
Proof.
  intros RG D. rewrite run_trace_independent_of_history by exact RG. rewrite run_trace_pure by exact RG.
  rewrite D. reflexivity.
Qed.

(* non-vacuity: the real defaults (eleven flags and the REQUIRES set in cell 0) meet the hypotheses, and a run
   that switches on an unmet REQUIRES leaves the next run's states untouched *)
Definition demo_defaults : hdict :=
  [ (K_DONT_ACCEPT_BLANKLINE, HBool false); (K_ELLIPSIS, HBool true); (K_IGNORE_WHITESPACE, HBool false);
    (K_IGNORE_EXCEPTION_DETAIL, HBool false); (K_NORMALIZE_WHITESPACE, HBool true); (K_IGNORE_WANT, HBool false);
    (K_NORMALIZE_REPR, HBool true); (K_REPORT_CDIFF, HBool false); (K_REPORT_NDIFF, HBool false);
    (K_REPORT_UDIFF, HBool true); (K_SKIP, HBool false); (K_REQUIRES, HSet 0%nat) ].
Example demo_defaults_ok :
  abs_dict [[]] demo_defaults = DEFAULT_RUNTIME_STATE /\
  (forall c, In c (cells demo_defaults) -> (c < length ([[]] : heap))%nat) /\
  let dirty := [([], [[HE_set false true K_REQUIRES [120%N]; HE_assign false K_SKIP true]])] in
  run_trace (exec_history [[]] demo_defaults dirty) demo_defaults [] [[HE_set true true K_REQUIRES [121%N]]]
  = run_trace [[]] demo_defaults [] [[HE_set true true K_REQUIRES [121%N]]].
Proof.
  split; [reflexivity|]. split; [intros c [<-|[]]; simpl; lia|]. vm_compute. reflexivity.
Qed.
