(* MonotoneNW.v — switching NORMALIZE_WHITESPACE on never turns a match into a mismatch, ALSO when ELLIPSIS is on
   (CheckerProofs.check_output_monotone needed ELLIPSIS off for this leniency): the wildcard relation survives the
   collapsing of white space (EllCollapse.ellmatch_collapse).  Only NORMALIZE_REPR has to be off (finding F7c is the
   witness that this guard cannot be dropped). *)
From XD Require Import Model.Base Model.Lit Model.Ellipsis Model.Checker
  Spec.EllipsisSpec Spec.MatchRel Proofs.BaseFacts Proofs.EllipsisProofs Proofs.CheckerProofs Proofs.EllCollapse.
Open Scope N_scope.

Lemma ws_norm_nw_shape fl :
  (forall s, ws_norm (set_len L_NORMALIZE_WHITESPACE fl) s = ws_norm fl s) \/
  (forall s, ws_norm (set_len L_NORMALIZE_WHITESPACE fl) s = collapse_ws (ws_norm fl s)).
Proof.
  unfold ws_norm. cbn [set_len NORMALIZE_WHITESPACE IGNORE_WHITESPACE orb].
  destruct (NORMALIZE_WHITESPACE fl), (IGNORE_WHITESPACE fl); cbn [orb]; auto.
Qed.

Theorem check_output_monotone_nw fl got want :
  NORMALIZE_REPR fl = false ->
  check_output fl got want = true -> check_output (set_len L_NORMALIZE_WHITESPACE fl) got want = true.
Proof.
  intros GR. rewrite !check_output_iff. unfold MatchRel.
  intros [H|[H|H]]; [tauto|tauto|]. right. right.
  rewrite GR in H. change (NORMALIZE_REPR (set_len L_NORMALIZE_WHITESPACE fl)) with (NORMALIZE_REPR fl). rewrite GR.
  unfold Core, NGot, NWant in *. rewrite set_len_base_want.
  change (ELLIPSIS (set_len L_NORMALIZE_WHITESPACE fl)) with (ELLIPSIS fl).
  destruct (ws_norm_nw_shape fl) as [Hh|Hh]; rewrite !Hh.
  - exact H.
  - destruct H as [H|[E H]]; [left; rewrite H; reflexivity|right; split; [exact E|]].
    apply ellmatch_collapse, H.
Qed.

(* a match that exists only through the wildcard, with blanks that the collapsing changes on both sides *)
Example monotone_nw_example :
  let fl := mkFlags true false false false false false false in
  let got := [97;32;32;98;32;120;10;99]%N in          (* "a  b x\nc" *)
  let want := [97;32;32;98;32;46;46;46;10;99]%N in    (* "a  b ...\nc" *)
  check_output fl got want = true /\ eqb_str got want = false /\
  check_output (set_len L_NORMALIZE_WHITESPACE fl) got want = true.
Proof. vm_compute. repeat split; reflexivity. Qed.
