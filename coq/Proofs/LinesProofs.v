(* LinesProofs.v — reported line numbers point at the real lines (C08): the arithmetic. *)
From XD Require Import Model.Base Model.Parser Model.Collect Model.Lines Model.RunLoop Proofs.BaseFacts.
Open Scope N_scope.

(* ---------- docstring start ---------- *)
(* a triple-quoted literal in quote style q that opens on line s and closes on line e, whose value holds one
   newline per physical line break (e - s of them): the workaround finds s *)
Theorem docstr_start_triple (s e : nat) q ends starts :
  (s <= e)%nat -> ends q = true -> (q = T_double3 -> ends T_single3 = false) ->
  starts (Z.of_nat s) q = true ->
  find_docstr_start e (e - s) ends starts = Z.of_nat s.
Proof.
  intros Hle He Hother Hs. unfold find_docstr_start.
  replace (Z.of_nat e - Z.of_nat (e - s))%Z with (Z.of_nat s) by lia.
  destruct q.
  - rewrite He, Hs. reflexivity.
  - rewrite (Hother eq_refl), He, Hs. reflexivity.
Qed.

(* a literal that is not triple quoted sits on one line *)
Theorem docstr_start_single e n ends starts :
  ends T_single3 = false -> ends T_double3 = false -> find_docstr_start e n ends starts = Z.of_nat e.
Proof. intros H1 H2. unfold find_docstr_start. rewrite H1, H2. reflexivity. Qed.

(* ---------- google blocks: offsets are positions ---------- *)
Inductive Tiles : nat -> list (nat * nat) -> nat -> Prop :=
| tiles_nil a : Tiles a [] a
| tiles_cons a len r b : (0 < len)%nat -> Tiles (a + len) r b -> Tiles a ((a, len) :: r) b.

Lemma group_runs_tile ids : forall cur len off,
  Tiles off (group_runs ids cur len off) (off + len + length ids).
Proof.
  induction ids as [|g r IH]; intros cur len off; simpl.
  - destruct len; [rewrite !Nat.add_0_r; constructor|].
    rewrite Nat.add_0_r. constructor; [lia | constructor].
  - destruct (Nat.eqb g cur).
    + specialize (IH cur (S len) off). replace (off + len + S (length r))%nat with (off + S len + length r)%nat by lia. exact IH.
    + destruct len.
      * specialize (IH g 1%nat off). replace (off + 0 + S (length r))%nat with (off + 1 + length r)%nat by lia. exact IH.
      * constructor; [lia|]. specialize (IH g 1%nat (off + S len)%nat).
        replace (off + S len + S (length r))%nat with (off + S len + 1 + length r)%nat by lia. exact IH.
Qed.

(* the groups tile the docstring: the offset recorded for a block is the position of its first line, every
   line belongs to exactly one group, and the lengths add up to the number of lines *)
Theorem google_offsets_are_positions ids :
  Tiles 0 (google_group_offsets ids) (length ids).
Proof.
  unfold google_group_offsets. destruct ids as [|g r]; [constructor|].
  pose proof (group_runs_tile (g :: r) g 0%nat 0%nat) as H. simpl in H |- *. exact H.
Qed.

Lemma Tiles_le a rs b : Tiles a rs b -> (a <= b)%nat.
Proof. induction 1; lia. Qed.

Lemma fold_sum_shift (l0 : list (nat * nat)) : forall x,
  fold_left (fun acc ol => (acc + snd ol)%nat) l0 x = (x + fold_left (fun acc ol => (acc + snd ol)%nat) l0 0)%nat.
Proof. induction l0 as [|y l0 IHl]; intros x; simpl; [lia|]. rewrite IHl. rewrite (IHl (snd y)). lia. Qed.

Lemma Tiles_nth a rs b : Tiles a rs b -> forall i o l, nth_error rs i = Some (o, l) ->
  (a <= o)%nat /\ (o + l <= b)%nat /\ o = (a + fold_left (fun acc ol => acc + snd ol) (firstn i rs) 0)%nat.
Proof.
  induction 1 as [a0|a0 len r b0 Hl Ht IH]; intros i o l H; [destruct i; discriminate|].
  destruct i as [|i]; simpl in H.
  - inversion H; subst. simpl. pose proof (Tiles_le _ _ _ Ht). lia.
  - destruct (IH i o l H) as (A & B & C). simpl firstn. simpl fold_left. rewrite fold_sum_shift. lia.
Qed.

(* the example's line: docstring line doclineno (1-based, the line of the opening quotes), the tag line at
   position offset in the docstring, the body on the next line *)
Theorem google_example_line doclineno offset :
  google_example_lineno doclineno offset = (doclineno + (offset + 1))%nat.
Proof. unfold google_example_lineno. lia. Qed.

(* ---------- freeform: curr_offset ---------- *)
(* once a part is kept the offset no longer moves *)
Lemma freeform_offset_frozen items : forall ps ig k off, (0 < k)%nat ->
  fst (freeform_go items ps ig k off) = off.
Proof.
  induction items as [|it r IH]; intros ps ig k off Hk; simpl; [reflexivity|].
  destruct it as [n sk|n].
  - destruct k; [lia|]. simpl. apply IH. lia.
  - destruct (ig || ps).
    + destruct k; [lia|]. simpl. apply IH. lia.
    + apply IH. lia.
Qed.

(* before that, every text part and every ignored part advances it by its number of lines; the first
   kept part fixes it *)
Lemma freeform_text_step n sk r ps ig off :
  freeform_go (FText n sk :: r) ps ig 0 off = freeform_go r sk false 0 (off + n).
Proof. reflexivity. Qed.
Lemma freeform_ignored_step n r ps ig off : ig || ps = true ->
  freeform_go (FPart n :: r) ps ig 0 off = freeform_go r false true 0 (off + n).
Proof. intros H. simpl. rewrite H. reflexivity. Qed.
Lemma freeform_first_kept n r ps ig off : ig || ps = false ->
  fst (freeform_go (FPart n :: r) ps ig 0 off) = off.
Proof. intros H. simpl. rewrite H. apply freeform_offset_frozen. lia. Qed.

(* the freeform doctest starts curr_offset lines below the docstring's first line: with the parts
   partitioning the docstring (C13) that is the first line of the first kept part *)
Theorem freeform_lineno_spec doclineno pre n rest :
  (forall it, In it pre -> match it with FText _ sk => sk = false | FPart _ => False end) ->
  freeform_example_lineno doclineno (pre ++ FPart n :: rest) =
  Some (doclineno + fold_left (fun a it => a + match it with FText k _ => k | FPart k => k end) pre 0)%nat.
Proof.
  intros Hpre. unfold freeform_example_lineno.
  assert (G : forall pre off, (forall it, In it pre -> match it with FText _ sk => sk = false | FPart _ => False end) ->
              forall ps0, ps0 = false ->
              fst (freeform_go (pre ++ FPart n :: rest) ps0 false 0 off) =
                (off + fold_left (fun a it => a + match it with FText k _ => k | FPart k => k end) pre 0)%nat /\
              (0 < snd (freeform_go (pre ++ FPart n :: rest) ps0 false 0 off))%nat).
  { clear. induction pre as [|it pre IH]; intros off H ps0 ->.
    - simpl. split; [rewrite freeform_offset_frozen by lia; lia|].
      assert (K : forall items ps ig k o, (0 < k)%nat -> (0 < snd (freeform_go items ps ig k o))%nat).
      { induction items as [|i r IHr]; intros ps ig k o Hk; simpl; [exact Hk|].
        destruct i; [destruct k; [lia|]; simpl; apply IHr; lia|]. destruct (ig || ps); [destruct k; [lia|]; simpl; apply IHr; lia | apply IHr; lia]. }
      apply K. lia.
    - destruct it as [k sk|k]; [|exfalso; exact (H (FPart k) (or_introl eq_refl))].
      assert (sk = false) by exact (H (FText k sk) (or_introl eq_refl)). subst sk.
      simpl app. rewrite freeform_text_step.
      destruct (IH (off + k)%nat (fun it Hit => H it (or_intror Hit)) false eq_refl) as [A B].
      split; [|exact B]. rewrite A. simpl fold_left.
      assert (F : forall l x, fold_left (fun a it => (a + match it with FText k0 _ => k0 | FPart k0 => k0 end)%nat) l x =
                              (x + fold_left (fun a it => (a + match it with FText k0 _ => k0 | FPart k0 => k0 end)%nat) l 0)%nat).
      { induction l as [|y l IHl]; intros x; simpl; [lia|]. rewrite IHl. rewrite (IHl (match y with FText k0 _ => k0 | FPart k0 => k0 end)). lia. }
      rewrite (F pre k). lia. }
  destruct (G pre 0%nat Hpre false eq_refl) as [A B].
  destruct (freeform_go (pre ++ FPart n :: rest) false false 0 0) as [off kept]. simpl in A, B.
  destruct kept; [lia|]. simpl. rewrite A. reflexivity.
Qed.

(* ---------- the failing line ---------- *)
(* failed_lineno = DocTest.lineno + failed_line_offset: with lineno the file line of the doctest's first line
   and offsets = positions (C13), the failing line's position in the file *)
Theorem failed_lineno_is_sum doc_lineno ps st tb o :
  failed_line_offset ps st tb = Some o -> failed_lineno doc_lineno ps st tb = Some (doc_lineno + o)%nat.
Proof. unfold failed_lineno. intros ->. reflexivity. Qed.
