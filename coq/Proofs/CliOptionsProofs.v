(* CliOptionsProofs.v — every option of the list reaches the default options of the run (C04 / C15). *)
From XD Require Import Model.Base Model.Directive Model.CliOptions Proofs.BaseFacts Proofs.DirectiveProofs.
Open Scope N_scope.

Definition fill (d : dict) (opts : list (str * bool)) : dict :=
  fold_left (fun d o => dset (fst o) (VBool (snd o)) d) opts d.

(* the value recorded for a name is the sign of its LAST mention; a name that is not mentioned keeps what it had *)
Fixpoint last_mention (k : str) (opts : list (str * bool)) : option bool :=
  match opts with
  | [] => None
  | (k', b) :: rest => match last_mention k rest with
                       | Some b' => Some b'
                       | None => if eqb_str k k' then Some b else None
                       end
  end.

Lemma fill_get d opts k :
  dget k (fill d opts) = match last_mention k opts with Some b => Some (VBool b) | None => dget k d end.
Proof.
  revert d. induction opts as [|[k' b] rest IH]; intros d; [reflexivity|].
  change (fill d ((k', b) :: rest)) with (fill (dset k' (VBool b) d) rest). rewrite IH. cbn [last_mention].
  destruct (last_mention k rest) as [b'|]; [reflexivity|].
  destruct (eqb_str k k') eqn:E.
  - apply eqb_str_spec in E. subst k'. apply dget_dset_same.
  - apply dget_dset_other. intros X. subst k'. rewrite eqb_str_refl in E. discriminate E.
Qed.

Theorem populate_get opts k :
  dget k (populate_from_cli opts) = match last_mention k opts with Some b => Some (VBool b) | None => None end.
Proof. unfold populate_from_cli. apply (fill_get [] opts k). Qed.

Lemma last_mention_in opts k b : last_mention k opts = Some b -> In (k, b) opts.
Proof.
  induction opts as [|[k' b'] rest IH]; [discriminate|]. cbn [last_mention].
  destruct (last_mention k rest) as [x|] eqn:L.
  - intros H. injection H as H. subst x. right. apply IH. reflexivity.
  - destruct (eqb_str k k') eqn:E; [|discriminate]. intros H. injection H as H. subst b'.
    apply eqb_str_spec in E. subst k'. left. reflexivity.
Qed.

Lemma last_mention_some opts k b : In (k, b) opts -> exists b', last_mention k opts = Some b'.
Proof.
  induction opts as [|[k' b0] rest IH]; [intros []|]. intros [H|H]; cbn [last_mention].
  - injection H as H1 H2. subst k' b0. destruct (last_mention k rest) as [x|]; [exists x; reflexivity|].
    rewrite eqb_str_refl. exists b. reflexivity.
  - destruct (IH H) as (x & Hx). rewrite Hx. exists x. reflexivity.
Qed.

(* when no name is mentioned twice, EVERY option of the list is in the default options, with its own sign ... *)
Theorem populate_holds_every_option opts : NoDup (map fst opts) ->
  forall k b, In (k, b) opts -> dget k (populate_from_cli opts) = Some (VBool b).
Proof.
  intros ND k b H. rewrite populate_get.
  destruct (last_mention_some opts k b H) as (b' & L). rewrite L.
  apply last_mention_in in L.
  assert (b' = b); [|subst; reflexivity].
  clear -ND H L. induction opts as [|[k0 b0] rest IH]; [destruct H|].
  cbn [map fst] in ND. inversion ND as [|? ? Hn Hr]; subst.
  destruct H as [H|H]; destruct L as [L|L].
  - congruence.
  - injection H as H1 H2. subst k0 b0. exfalso. apply Hn. apply (in_map fst) in L. exact L.
  - injection L as L1 L2. subst k0 b0. exfalso. apply Hn. apply (in_map fst) in H. exact H.
  - apply IH; assumption.
Qed.

(* ... and nothing else is *)
Theorem populate_holds_nothing_else opts k :
  (forall b, ~ In (k, b) opts) -> dget k (populate_from_cli opts) = None.
Proof.
  intros H. rewrite populate_get. destruct (last_mention k opts) as [b|] eqn:L; [|reflexivity].
  exfalso. apply (H b). apply last_mention_in. exact L.
Qed.

(* the defaults made from the command line are boolean defaults in the sense of C04_defaults_as_leading_block (unless REQUIRES is
   named, which has no boolean meaning) *)
Lemma fill_in d opts k v : In (k, v) (fill d opts) -> In (k, v) d \/ exists b, v = VBool b /\ In (k, b) opts.
Proof.
  revert d. induction opts as [|[k' b] rest IH]; intros d H; [left; exact H|].
  change (fill d ((k', b) :: rest)) with (fill (dset k' (VBool b) d) rest) in H.
  destruct (IH _ H) as [X|(b' & E & X)].
  - assert (In (k, v) d \/ (k, v) = (k', VBool b)) as [Y|Y].
    { clear -X. induction d as [|[k2 v2] d IHd]; simpl in X.
      - destruct X as [X|[]]. right. symmetry. exact X.
      - destruct (eqb_str k' k2) eqn:E.
        + destruct X as [X|X]; [right; symmetry; exact X | left; right; exact X].
        + destruct X as [X|X]; [left; left; exact X|]. destruct (IHd X) as [Y|Y]; [left; right; exact Y | right; exact Y]. }
    + left. exact Y.
    + injection Y as Y1 Y2. subst k v. right. exists b. split; [reflexivity | left; reflexivity].
  - right. exists b'. split; [exact E | right; exact X].
Qed.

Theorem populate_bool_defaults opts : (forall b, ~ In (K_REQUIRES, b) opts) -> BoolDefaults (populate_from_cli opts).
Proof.
  intros H k v Hin. unfold populate_from_cli in Hin. destruct (fill_in [] opts k v Hin) as [[]|(b & E & X)].
  split; [|exists b; exact E]. intros Ek. subst k. apply (H b). exact X.
Qed.

(* non-vacuity, and the shape a seeded change got wrong (only the last option recorded): '+SKIP,+IGNORE_WHITESPACE' *)
Example populate_example :
  let opts := [(K_SKIP, true); (K_IGNORE_WHITESPACE, true); (K_ELLIPSIS, false)] in
  NoDup (map fst opts) /\ (forall b, ~ In (K_REQUIRES, b) opts) /\
  populate_from_cli opts = [(K_SKIP, VBool true); (K_IGNORE_WHITESPACE, VBool true); (K_ELLIPSIS, VBool false)].
Proof.
  split; [|split; [|vm_compute; reflexivity]].
  - repeat constructor; simpl; intros H; repeat (destruct H as [H|H]; [discriminate H|]); exact H.
  - intros b H. simpl in H. repeat (destruct H as [H|H]; [discriminate H|]). exact H.
Qed.
