(* StdOutputFull.v — StdOutputProofs.std_output_accepted_gen with its one open lemma supplied by EllCollapse:
   every flag setting of the standard OutputChecker that a '# doctest:' directive can produce is covered. *)
From XD Require Import Model.Base Model.Ellipsis Model.Checker Model.StdDoctest Model.StdOutput
  Spec.EllipsisSpec Proofs.StdOutputProofs Proofs.EllCollapse.
Open Scope N_scope.

Theorem std_output_accepted e n ls got :
  ls <> [] -> Forall LineOK ls -> Plain got -> Plain (join_nl ls) ->
  contains BLANKLINE got = false ->
  true_for_1 (join_nl ls ++ [NL]) got = false ->
  (e = true -> contains marker got = false) ->
  std_check_output e n (join_nl ls ++ [NL]) got = true ->
  check_output default_flags got (join_nl ls) = true.
Proof.
  intros Hne HF Hg Hw Hnm Ht Hell.
  apply (std_output_accepted_gen true (fun _ => ellmatch_collapse) e n ls got Hne HF Hw got Hg eq_refl); try assumption.
  - intros He. rewrite cgo_collapse, marker_C. apply Hell, He.
  - reflexivity.
Qed.

(* ---------- at the level of one example (the run loop's comparison of a part, RunLoop.part_check) ---------- *)
From XD Require Import Model.Text Model.Parser Model.Directive Model.RunLoop Proofs.RunWant Proofs.WordsFacts.

(* an example that is not an expression, or whose value is None: the standard module compares what it wrote to stdout.
   um: output of earlier examples that no want has consumed yet - whatever it is, the example passes *)
Theorem std_statement_example_passes e n ls um out :
  ls <> [] -> Forall LineOK ls -> Plain out -> Plain (join_nl ls) ->
  contains BLANKLINE out = false ->
  true_for_1 (join_nl ls ++ [NL]) out = false ->
  (e = true -> contains marker out = false) ->
  std_check_output e n (join_nl ls ++ [NL]) out = true ->
  part_check default_flags (join_nl ls) um out NotEvaled = GW_ok.
Proof.
  intros Hne HF Hg Hw Hnm Ht Hell Hstd.
  apply part_check_ok_iff; [discriminate|]. exists out. split; [apply candidate_last|].
  cbn [CandOK]. eapply std_output_accepted; eassumption.
Qed.

(* an expression example that writes nothing: the standard module compares repr(value) + newline, xdoctest the repr *)
Theorem std_expression_example_passes e n ls um r :
  ls <> [] -> Forall LineOK ls -> Plain r -> Plain (join_nl ls) ->
  contains BLANKLINE (r ++ [NL]) = false ->
  true_for_1 (join_nl ls ++ [NL]) (r ++ [NL]) = false ->
  (e = true -> contains marker (r ++ [NL]) = false) ->
  std_check_output e n (join_nl ls ++ [NL]) (r ++ [NL]) = true ->
  part_check default_flags (join_nl ls) um [] (EvalRepr r) = GW_ok.
Proof.
  intros Hne HF Hg Hw Hnm Ht Hell Hstd.
  apply part_check_ok_iff; [discriminate|]. exists []. split; [apply candidate_last|].
  cbn [CandOK]. right.
  apply (std_output_accepted_gen true (fun _ => ellmatch_collapse) e n ls (r ++ [NL]) Hne HF Hw r Hg); try assumption.
  - symmetry. apply words_app_trailing. reflexivity.
  - intros He. rewrite cgo_collapse, marker_C. apply Hell, He.
  - reflexivity.
Qed.

(* a wildcard want under ELLIPSIS alone, white space that differs, a marker line: the hypotheses are satisfiable *)
Definition demo2_want_lines : list str := [[97;32;46;46;46]; BLANKLINE; [99]].          (* "a ...", "<BLANKLINE>", "c" *)
Definition demo2_got : str := [97;32;32;120;10;10;99;10].                              (* "a  x\n\nc\n" *)
Example demo_std_output_ellipsis_hyps :
  demo2_want_lines <> [] /\ Forall LineOK demo2_want_lines /\ Plain demo2_got /\ Plain (join_nl demo2_want_lines) /\
  contains BLANKLINE demo2_got = false /\ true_for_1 (join_nl demo2_want_lines ++ [NL]) demo2_got = false /\
  contains marker demo2_got = false /\
  std_check_output true false (join_nl demo2_want_lines ++ [NL]) demo2_got = true /\
  std_check_output false false (join_nl demo2_want_lines ++ [NL]) demo2_got = false.
Proof.
  assert (N1 : forall l, forallb (fun c => negb (c =? NL)) l = true -> FormatProofs.NoNL l).
  { intros l H c Hc. rewrite forallb_forall in H. apply H in Hc. destruct (c =? NL); [discriminate Hc|reflexivity]. }
  assert (N2 : forall s, forallb (fun c => negb (c =? CR)) s = true -> ~ In CR s).
  { intros s H Hc. rewrite forallb_forall in H. apply H in Hc. discriminate Hc. }
  split; [discriminate|]. split.
  { repeat constructor; try (apply N1; reflexivity); try (left; reflexivity); right; reflexivity. }
  split; [repeat split; try reflexivity; apply N2; reflexivity|].
  split; [repeat split; try reflexivity; apply N2; reflexivity|].
  repeat split; reflexivity.
Qed.

(* a raising example with an expected traceback: the standard module compares the block's final 'Type: message' text with the
   last line of the formatted exception, using the same OutputChecker (IGNORE_EXCEPTION_DETAIL not needed) *)
From XD Require Import Proofs.RunDecide.
Theorem std_traceback_example_passes e n ls last want :
  extract_exc_want want = Some (join_nl ls) ->
  ls <> [] -> Forall LineOK ls -> Plain last -> Plain (join_nl ls) ->
  contains BLANKLINE last = false ->
  true_for_1 (join_nl ls ++ [NL]) last = false ->
  (e = true -> contains marker last = false) ->
  std_check_output e n (join_nl ls ++ [NL]) last = true ->
  check_exception default_flags last want = Some true.
Proof.
  intros X Hne HF Hg Hw Hnm Ht Hell Hstd.
  destruct (check_exception_spec default_flags last want (join_nl ls) X) as [[_ A] _]. apply A.
  left. eapply std_output_accepted; eassumption.
Qed.
