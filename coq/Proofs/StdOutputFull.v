(* StdOutputFull.v — StdOutputProofs.std_output_accepted_gen with its one open lemma supplied by EllCollapse:
   every flag setting of the standard OutputChecker that a '# doctest:' directive can produce is covered. *)
From XD Require Import Model.Base Model.Ellipsis Model.Checker Model.StdDoctest Model.StdOutput
  Spec.EllipsisSpec Proofs.StdOutputProofs Proofs.EllCollapse.
Open Scope N_scope.

Theorem std_output_accepted e n ls got :
  ls <> [] -> Forall LineOK ls -> Plain got -> Plain (join_nl ls) ->
  contains BLANKLINE got = false ->
  true_for_1 (join_nl ls ++ [NL]) got = false ->
  (e = true -> contains marker (collapse_ws got) = false) ->
  std_check_output e n (join_nl ls ++ [NL]) got = true ->
  check_output default_flags got (join_nl ls) = true.
Proof.
  intros Hne HF Hg Hw Hnm Ht Hell. apply (std_output_accepted_gen true); try assumption.
  - intros _. exact ellmatch_collapse.
  - reflexivity.
Qed.

(* a wildcard want under ELLIPSIS alone, white space that differs, a marker line: the hypotheses are satisfiable *)
Definition demo2_want_lines : list str := [[97;32;46;46;46]; BLANKLINE; [99]].          (* "a ...", "<BLANKLINE>", "c" *)
Definition demo2_got : str := [97;32;32;120;10;10;99;10].                              (* "a  x\n\nc\n" *)
Example demo_std_output_ellipsis_hyps :
  demo2_want_lines <> [] /\ Forall LineOK demo2_want_lines /\ Plain demo2_got /\ Plain (join_nl demo2_want_lines) /\
  contains BLANKLINE demo2_got = false /\ true_for_1 (join_nl demo2_want_lines ++ [NL]) demo2_got = false /\
  contains marker (collapse_ws demo2_got) = false /\
  std_check_output true false (join_nl demo2_want_lines ++ [NL]) demo2_got = true /\
  std_check_output false false (join_nl demo2_want_lines ++ [NL]) demo2_got = false.
Proof.
  assert (N1 : forall l, forallb (fun c => negb (c =? NL)) l = true -> FormatProofs.NoNL l).
  { intros l H c Hc. rewrite forallb_forall in H. apply H in Hc. destruct (c =? NL); [discriminate Hc|reflexivity]. }
  assert (N2 : forall s, forallb (fun c => negb (c =? CR)) s = true -> ~ In CR s).
  { intros s H Hc. rewrite forallb_forall in H. apply H in Hc. discriminate Hc. }
  split; [discriminate|]. split.
  { repeat constructor; try (apply N1; reflexivity); try (left; reflexivity); right; reflexivity. }
  split; [repeat split; try reflexivity; apply N2; reflexivity|].
  split; [repeat split; try reflexivity; apply N2; reflexivity|].
  repeat split; reflexivity.
Qed.
