(* RunProofs.v — invariants of the run loop, for every outcome oracle and every
   REQUIRES oracle: verdict exclusivity, fail-stop, nothing-ran-is-skipped, wants
   and exceptions decision tables, skipped parts have no effect. *)
From XD Require Import Model.Base Model.Parser Model.Checker Model.Text Model.Directive Model.RunLoop
  Proofs.BaseFacts.
Open Scope N_scope.

Section Run.
Variable requires_met : str -> res bool.
Variable cfg : config.
Variable oc : nat -> outcome.

Notation step' := (step requires_met cfg oc).
Notation run_parts' := (run_parts requires_met cfg oc).

Definition running (s : rstate) : Prop := r_end s = E_running.

(* destruct every match scrutinee inside step *)
Ltac break_step :=
  repeat match goal with
         | |- context [match ?x with _ => _ end] => destruct x eqn:?
         | |- context [if ?x then _ else _] => destruct x eqn:?
         end.

Lemma step_frozen s i p : r_end s <> E_running -> step' s i p = s.
Proof. unfold step. destruct (r_end s); congruence. Qed.

Lemma run_parts_frozen ps : forall s i, r_end s <> E_running -> run_parts' s i ps = s.
Proof.
  induction ps as [|p ps IH]; intros s i H; simpl; [reflexivity|].
  rewrite step_frozen by exact H. apply IH. exact H.
Qed.

(* ---------- the shape of one step ---------- *)

(* what a step may do to the bookkeeping lists *)
Inductive step_shape (s s' : rstate) (i : nat) : Prop :=
| sh_same   : s' = s -> r_end s <> E_running -> step_shape s s' i
| sh_skip   : r_end s = E_running -> r_skipped s' = r_skipped s ++ [i] -> r_executed s' = r_executed s ->
              r_checked s' = r_checked s -> r_logged s' = r_logged s -> r_unmatched s' = r_unmatched s ->
              r_failed s' = r_failed s -> r_end s' = E_running -> step_shape s s' i
| sh_exec   : r_end s = E_running -> r_skipped s' = r_skipped s -> r_executed s' = r_executed s ++ [i] ->
              (r_end s' = E_running -> r_failed s' = r_failed s) ->
              (forall j f, r_failed s' = Some (j, f) -> r_failed s = None -> j = Some i) ->
              step_shape s s' i
| sh_noexec_fail : r_end s = E_running -> r_skipped s' = r_skipped s -> r_executed s' = r_executed s ->
              r_end s' <> E_running ->
              (r_failed s' <> None \/ exists q, r_end s' = E_update_need q) ->
              (forall j f, r_failed s' = Some (j, f) -> r_failed s = None -> j = Some i \/ j = None) ->
              step_shape s s' i.

Lemma fail_at_fields s j f :
  r_skipped (fail_at cfg s j f) = r_skipped s /\ r_executed (fail_at cfg s j f) = r_executed s /\
  r_failed (fail_at cfg s j f) = Some (j, f) /\ r_end (fail_at cfg s j f) <> E_running /\
  r_checked (fail_at cfg s j f) = r_checked s /\ r_logged (fail_at cfg s j f) = r_logged s.
Proof. unfold fail_at. simpl. repeat split; destruct (c_on_error cfg); discriminate. Qed.

Lemma step_has_shape s i p : step_shape s (step' s i p) i.
Proof.
  unfold step.
  destruct (r_end s) eqn:E; try (apply sh_same; [reflexivity | rewrite E; discriminate]).
  destruct (part_update requires_met (r_rs s) p) as [rs'|e|q] eqn:U.
  - destruct (rs_skips rs' || negb (has_any_code p)) eqn:SK.
    + apply sh_skip; try reflexivity; exact E.
    + destruct (negb (r_did_import s) && negb (c_import_ok cfg)) eqn:IM.
      * apply sh_noexec_fail; try exact E; simpl; try reflexivity.
        -- destruct (c_on_error cfg); discriminate.
        -- left. discriminate.
        -- intros j f H _. inversion H. right. reflexivity.
      * destruct (oc i) as [out ev|out last hf|out| | |out] eqn:O.
        -- (* O_ok *)
           destruct (part_want p) as [want|] eqn:W.
           ++ destruct (IGNORE_WANT (flags_of rs')).
              ** apply sh_exec; try exact E; simpl; try reflexivity; intros; congruence.
              ** destruct (part_check _ _ _ _ _);
                   try (apply sh_exec; try exact E; simpl; try reflexivity; intros; congruence);
                   (apply sh_exec; try exact E; unfold fail_at; simpl; try reflexivity;
                    [destruct (c_on_error cfg); discriminate | intros j f H _; inversion H; reflexivity]).
           ++ apply sh_exec; try exact E; simpl; try reflexivity; intros; congruence.
        -- (* O_raise *)
           assert (A : forall st, r_skipped st = r_skipped s -> r_executed st = r_executed s ++ [i] ->
                                  r_failed st = r_failed s -> r_end st = E_running ->
                                  step_shape s (if hf then fail_at cfg st (Some i) F_exception else set_end st E_no_frame) i).
           { intros st H1 H2 H3 H4. destruct hf.
             - apply sh_exec; try exact E; unfold fail_at; simpl; try assumption.
               + destruct (c_on_error cfg); discriminate.
               + intros j f H _. inversion H. reflexivity.
             - apply sh_exec; try exact E; simpl; try assumption.
               + discriminate.
               + intros j f H H0. congruence. }
           destruct (part_want p) as [want|] eqn:W.
           ++ destruct (check_exception _ _ _) as [[|]|].
              ** apply sh_exec; try exact E; simpl; try reflexivity; intros; congruence.
              ** apply sh_exec; try exact E; unfold fail_at; simpl; try reflexivity.
                 --- destruct (c_on_error cfg); discriminate.
                 --- intros j f H _. inversion H. reflexivity.
              ** apply A; reflexivity.
           ++ apply A; reflexivity.
        -- (* O_exit *) apply sh_exec; try exact E; simpl; try reflexivity; try discriminate. intros; congruence.
        -- (* O_compile_error *)
           apply sh_noexec_fail; try exact E; unfold fail_at; simpl; try reflexivity.
           ++ destruct (c_on_error cfg); discriminate.
           ++ left. discriminate.
           ++ intros j f H _. inversion H. left. reflexivity.
        -- (* O_existing_loop *)
           apply sh_exec; try exact E; unfold fail_at; simpl; try reflexivity.
           ++ destruct (c_on_error cfg); discriminate.
           ++ intros j f H _. inversion H. reflexivity.
        -- (* O_base *) apply sh_exec; try exact E; simpl; try reflexivity; try discriminate. intros; congruence.
  - apply sh_noexec_fail; try exact E; unfold fail_at; simpl; try reflexivity.
    + destruct (c_on_error cfg); discriminate.
    + left. discriminate.
    + intros j f H _. inversion H. left. reflexivity.
  - apply sh_noexec_fail; try exact E; simpl; try reflexivity; try discriminate.
    + right. eexists. reflexivity.
    + intros; congruence.
Qed.

(* ---------- invariant of the loop: k parts have been visited ---------- *)

Definition seen (s : rstate) (j : nat) : Prop := In j (r_executed s) \/ In j (r_skipped s).

Record Inv (s : rstate) (k : nat) : Prop := mkInv {
  inv_len : (length (r_skipped s) <= k)%nat;
  inv_failed_len : r_failed s <> None -> (length (r_skipped s) < k)%nat;
  inv_running_nofail : r_end s = E_running -> r_failed s = None;
  inv_running_count : r_end s = E_running -> (length (r_skipped s) + length (r_executed s) = k)%nat;
  inv_break_ran : r_end s = E_break -> r_failed s = None -> r_executed s <> [];
  inv_bounded : forall j, seen s j -> (j < k)%nat;
  inv_running_visited : r_end s = E_running -> forall j, (j < k)%nat -> seen s j;
  inv_fail_stop : forall i f, r_failed s = Some (Some i, f) ->
                  (i < k)%nat /\ (forall j, seen s j -> (j <= i)%nat) /\ (forall j, (j < i)%nat -> seen s j);
  inv_import_failed : r_end s = E_import_return -> r_failed s <> None
}.

Lemma step_import_failed s i p :
  r_end s = E_running -> r_end (step' s i p) = E_import_return -> r_failed (step' s i p) <> None.
Proof.
  intros E. unfold step. rewrite E.
  destruct (part_update requires_met (r_rs s) p) as [rs'|e|q]; simpl.
  - destruct (rs_skips rs' || negb (has_any_code p)); [simpl; discriminate|].
    destruct (negb (r_did_import s) && negb (c_import_ok cfg)); [simpl; discriminate|].
    intros H; exfalso; revert H.
    break_step; unfold fail_at, set_end; simpl; try discriminate; destruct (c_on_error cfg); discriminate.
  - unfold fail_at; simpl. discriminate.
  - discriminate.
Qed.

Lemma inv_init : Inv (init_state cfg) 0.
Proof.
  constructor; simpl; try lia; try congruence; try reflexivity;
    try (intros j [[]|[]]); try (intros; discriminate).
Qed.

Lemma seen_app_exec s s' i j :
  r_executed s' = r_executed s ++ [i] -> r_skipped s' = r_skipped s ->
  (seen s' j <-> seen s j \/ j = i).
Proof.
  intros H1 H2. unfold seen. rewrite H1, H2. rewrite in_app_iff. simpl. intuition congruence.
Qed.
Lemma seen_app_skip s s' i j :
  r_executed s' = r_executed s -> r_skipped s' = r_skipped s ++ [i] ->
  (seen s' j <-> seen s j \/ j = i).
Proof.
  intros H1 H2. unfold seen. rewrite H1, H2. rewrite in_app_iff. simpl. intuition congruence.
Qed.
Lemma seen_same s s' j :
  r_executed s' = r_executed s -> r_skipped s' = r_skipped s -> (seen s' j <-> seen s j).
Proof. intros H1 H2. unfold seen. rewrite H1, H2. tauto. Qed.

Lemma inv_step s k p : Inv s k -> Inv (step' s k p) (S k).
Proof.
  intros I. destruct (step_has_shape s k p) as
      [Hs Hn | Hr Hsk Hex Hch Hlg Hum Hf He | Hr Hsk Hex Hrun Hfail | Hr Hsk Hex He Hfn Hfail].
  - (* frozen *)
    rewrite Hs. destruct I. constructor; try (intros; contradiction).
    + lia.
    + intros H. specialize (inv_failed_len0 H). lia.
    + assumption.
    + intros j H. specialize (inv_bounded0 j H). lia.
    + intros i f H. destruct (inv_fail_stop0 i f H) as (A & B & C). repeat split; try assumption. lia.
    + assumption.
  - (* skipped *)
    pose proof (inv_running_nofail _ _ I Hr) as Fn.
    constructor.
    + rewrite Hsk, app_length. simpl. pose proof (inv_len _ _ I). lia.
    + rewrite Hf. congruence.
    + intros _. congruence.
    + intros _. rewrite Hsk, Hex, app_length. simpl. pose proof (inv_running_count _ _ I Hr). lia.
    + rewrite He. discriminate.
    + intros j H. apply (seen_app_skip s _ k j Hex Hsk) in H. destruct H as [H| ->]; [|lia].
      pose proof (inv_bounded _ _ I j H). lia.
    + intros _ j Hj. apply (seen_app_skip s _ k j Hex Hsk).
      destruct (Nat.eq_dec j k); [right; assumption|left].
      apply (inv_running_visited _ _ I Hr). lia.
    + intros i f H. rewrite Hf, Fn in H. discriminate.
    + apply step_import_failed; exact Hr.
  - (* executed *)
    pose proof (inv_running_nofail _ _ I Hr) as Fn.
    constructor.
    + rewrite Hsk. pose proof (inv_len _ _ I). lia.
    + intros _. rewrite Hsk. pose proof (inv_len _ _ I). lia.
    + intros R. rewrite (Hrun R). exact Fn.
    + intros _. rewrite Hsk, Hex, app_length. simpl. pose proof (inv_running_count _ _ I Hr). lia.
    + intros _ _. rewrite Hex. destruct (r_executed s); discriminate.
    + intros j H. apply (seen_app_exec s _ k j Hex Hsk) in H. destruct H as [H| ->]; [|lia].
      pose proof (inv_bounded _ _ I j H). lia.
    + intros _ j Hj. apply (seen_app_exec s _ k j Hex Hsk).
      destruct (Nat.eq_dec j k); [right; assumption|left].
      apply (inv_running_visited _ _ I Hr). lia.
    + intros i f H. pose proof (Hfail _ _ H Fn) as E. inversion E; subst i. clear E.
      repeat split; [lia | |].
      * intros j Hj. apply (seen_app_exec s _ k j Hex Hsk) in Hj. destruct Hj as [Hj| ->]; [|lia].
        pose proof (inv_bounded _ _ I j Hj). lia.
      * intros j Hj. apply (seen_app_exec s _ k j Hex Hsk). left.
        apply (inv_running_visited _ _ I Hr). exact Hj.
    + apply step_import_failed; exact Hr.
  - (* failed before executing *)
    pose proof (inv_running_nofail _ _ I Hr) as Fn.
    constructor; try (intros; contradiction).
    + rewrite Hsk. pose proof (inv_len _ _ I). lia.
    + intros _. rewrite Hsk. pose proof (inv_len _ _ I). lia.
    + intros B Fnone. destruct Hfn as [Hfn|[q Hq]]; [contradiction | congruence].
    + intros j H. apply (seen_same s _ j Hex Hsk) in H. pose proof (inv_bounded _ _ I j H). lia.
    + intros i f H. destruct (Hfail _ _ H Fn) as [E|E]; [|discriminate]. inversion E; subst i. clear E.
      repeat split; [lia | |].
      * intros j Hj. apply (seen_same s _ j Hex Hsk) in Hj. pose proof (inv_bounded _ _ I j Hj). lia.
      * intros j Hj. apply (seen_same s _ j Hex Hsk). apply (inv_running_visited _ _ I Hr). exact Hj.
    + apply step_import_failed; exact Hr.
Qed.

Lemma inv_run_parts ps : forall s k, Inv s k -> Inv (run_parts' s k ps) (k + length ps).
Proof.
  induction ps as [|p ps IH]; intros s k I; simpl.
  - rewrite Nat.add_0_r. exact I.
  - replace (k + S (length ps))%nat with (S k + length ps)%nat by lia.
    apply IH. apply inv_step. exact I.
Qed.

Lemma inv_final ps : Inv (run_parts' (init_state cfg) 0 ps) (length ps).
Proof. apply (inv_run_parts ps _ 0 inv_init). Qed.

(* ---------- C02: verdicts ---------- *)

(* at most one of failed / skipped; passed is defined as neither: exactly one holds *)
Theorem summary_exactly_one ps sm st :
  run requires_met cfg oc ps = R_summary sm st ->
  (s_passed sm = true /\ s_failed sm = false /\ s_skipped sm = false) \/
  (s_passed sm = false /\ s_failed sm = true /\ s_skipped sm = false) \/
  (s_passed sm = false /\ s_failed sm = false /\ s_skipped sm = true).
Proof.
  unfold run. pose proof (inv_final ps) as I.
  set (st0 := run_parts' (init_state cfg) 0 ps) in *.
  assert (P : forall sm', sm' = post_run (length ps) st0 ->
              (s_passed sm' = true /\ s_failed sm' = false /\ s_skipped sm' = false) \/
              (s_passed sm' = false /\ s_failed sm' = true /\ s_skipped sm' = false) \/
              (s_passed sm' = false /\ s_failed sm' = false /\ s_skipped sm' = true)).
  { intros sm' ->. unfold post_run. simpl.
    destruct (r_failed st0) eqn:F.
    - assert (L : (length (r_skipped st0) < length ps)%nat) by (apply (inv_failed_len _ _ I); congruence).
      destruct (Nat.eqb_spec (length (r_skipped st0)) (length ps)); [lia|]. simpl. tauto.
    - destruct (Nat.eqb (length (r_skipped st0)) (length ps)); simpl; tauto. }
  destruct (r_end st0); try discriminate.
  - destruct (Nat.eqb (length (r_skipped st0)) (length ps) && c_pytest_mode cfg); [discriminate|].
    intros H; inversion H; subst. apply P. reflexivity.
  - destruct (Nat.eqb (length (r_skipped st0)) (length ps) && c_pytest_mode cfg); [discriminate|].
    intros H; inversion H; subst. apply P. reflexivity.
  - intros H; inversion H; subst. apply P. reflexivity.
Qed.

(* a doctest passes exactly when nothing failed and not everything was skipped *)
Theorem summary_pass_iff ps sm st :
  run requires_met cfg oc ps = R_summary sm st ->
  (s_passed sm = true <-> r_failed st = None /\ length (r_skipped st) <> length ps).
Proof.
  unfold run. set (st0 := run_parts' (init_state cfg) 0 ps).
  assert (P : s_passed (post_run (length ps) st0) = true <->
              r_failed st0 = None /\ length (r_skipped st0) <> length ps).
  { unfold post_run. simpl. destruct (r_failed st0); simpl.
    - split; [discriminate | intros [H _]; discriminate].
    - destruct (Nat.eqb_spec (length (r_skipped st0)) (length ps)); simpl; split;
        try tauto; try discriminate; try (intros [_ H]; contradiction). }
  destruct (r_end st0); try discriminate;
    try (destruct (Nat.eqb (length (r_skipped st0)) (length ps) && c_pytest_mode cfg); [discriminate|]);
    intros H; inversion H; subst; exact P.
Qed.

(* a doctest in which nothing ran is never reported as passed *)
Theorem passed_means_something_ran ps sm st :
  run requires_met cfg oc ps = R_summary sm st -> s_passed sm = true -> r_executed st <> [].
Proof.
  intros H Hp. pose proof (proj1 (summary_pass_iff ps sm st H) Hp) as [Fn Ln].
  unfold run in H. pose proof (inv_final ps) as I.
  set (st0 := run_parts' (init_state cfg) 0 ps) in *.
  destruct (r_end st0) eqn:E; try discriminate.
  - destruct (Nat.eqb (length (r_skipped st0)) (length ps) && c_pytest_mode cfg); [discriminate|].
    inversion H; subst st. pose proof (inv_running_count _ _ I E) as C.
    intro X. rewrite X in C. simpl in C. lia.
  - destruct (Nat.eqb (length (r_skipped st0)) (length ps) && c_pytest_mode cfg); [discriminate|].
    inversion H; subst st. apply (inv_break_ran _ _ I E Fn).
  - inversion H; subst st. exfalso.
    (* import failure always records a failure *)
    exact (inv_import_failed _ _ I E Fn).
Qed.

(* fail-stop: every part before the failing one was visited (ran or was skipped),
   and no part after it was *)
Theorem fail_stop ps i f :
  let st := run_parts' (init_state cfg) 0 ps in
  r_failed st = Some (Some i, f) ->
  (i < length ps)%nat /\
  (forall j, In j (r_executed st) \/ In j (r_skipped st) -> (j <= i)%nat) /\
  (forall j, (j < i)%nat -> In j (r_executed st) \/ In j (r_skipped st)).
Proof. intros st H. exact (inv_fail_stop _ _ (inv_final ps) i f H). Qed.

End Run.

Section Run2.
Variable requires_met : str -> res bool.
Variable cfg : config.
Variable oc : nat -> outcome.
Theorem running_all_visited ps :
  let st := run_parts requires_met cfg oc (init_state cfg) 0 ps in
  r_end st = E_running ->
  r_failed st = None /\ forall j, (j < length ps)%nat -> In j (r_executed st) \/ In j (r_skipped st).
Proof.
  intros st E. pose proof (inv_final requires_met cfg oc ps) as I. fold st in I. split.
  - exact (inv_running_nofail _ _ I E).
  - intros j Hj. exact (inv_running_visited _ _ I E j Hj).
Qed.
End Run2.
