(* RunEscape.v — with on_error='return' DocTest.run returns a summary, marked
   failed iff a failure was recorded (C09); failed_line_offset is defined for it. *)
From XD Require Import Model.Base Model.Parser Model.Checker Model.Text Model.Directive Model.RunLoop
  Proofs.BaseFacts Proofs.RunProofs.
Open Scope N_scope.

Section Escape.
Variable requires_met : str -> res bool.
Variable cfg : config.
Variable oc : nat -> outcome.

Definition Tame (e : run_end) : Prop := e = E_running \/ e = E_break \/ e = E_import_return.

(* the traceback of an exception raised by a part contains a frame of the doctest *)
Definition HasDoctestFrame : Prop := forall i out last hf, oc i = O_raise out last hf -> hf = true.
(* no SystemExit / KeyboardInterrupt *)
Definition NoBaseException : Prop := forall i out, oc i <> O_base out.
(* the executable model's "oracle entry missing" answer does not occur *)
Definition OracleTotal : Prop := forall rs ds q, rs_update requires_met rs ds <> UNeed q.

Hypothesis Hret : c_on_error cfg = OE_return.
Hypothesis Hframe : HasDoctestFrame.
Hypothesis Hbase : NoBaseException.
Hypothesis Htotal : OracleTotal.

Lemma step_tame s i p : Tame (r_end s) -> Tame (r_end (step requires_met cfg oc s i p)).
Proof.
  intros T. unfold step. destruct (r_end s) eqn:E;
    try (rewrite E; exact T); try (destruct T as [X|[X|X]]; discriminate).
  destruct (part_update requires_met (r_rs s) p) as [rs'|e|q] eqn:U.
  - destruct (rs_skips rs' || negb (has_any_code p)); [left; reflexivity|].
    destruct (negb (r_did_import s) && negb (c_import_ok cfg)).
    + simpl. rewrite Hret. right. right. reflexivity.
    + destruct (oc i) as [out ev|out last hf|out| | |out] eqn:O.
      * destruct (part_want p); [|left; reflexivity].
        destruct (IGNORE_WANT (flags_of rs')); [left; reflexivity|].
        destruct (part_check _ _ _ _ _); unfold fail_at; simpl; rewrite ?Hret; unfold Tame; auto.
      * rewrite (Hframe i out last hf O).
        destruct (part_want p); [destruct (check_exception _ _ _) as [[|]|]|];
          unfold fail_at; simpl; rewrite ?Hret; unfold Tame; auto.
      * simpl. unfold Tame; auto.
      * unfold fail_at; simpl; rewrite Hret. unfold Tame; auto.
      * unfold fail_at; simpl; rewrite Hret. unfold Tame; auto.
      * exfalso. exact (Hbase i out O).
  - unfold fail_at; simpl; rewrite Hret. unfold Tame; auto.
  - exfalso. unfold part_update in U. destruct (p_dirs_raise p); [discriminate | exact (Htotal _ _ _ U)].
Qed.

Lemma run_parts_tame ps : forall s i, Tame (r_end s) -> Tame (r_end (run_parts requires_met cfg oc s i ps)).
Proof. induction ps as [|p ps IH]; intros s i T; simpl; [exact T | apply IH; apply step_tame; exact T]. Qed.

(* a run asked to return errors returns a summary; it is marked failed iff a failure was recorded *)
Theorem return_never_raises ps : c_pytest_mode cfg = false ->
  exists sm st, run requires_met cfg oc ps = R_summary sm st /\
                (s_failed sm = true <-> r_failed st <> None).
Proof.
  intros Hpy. unfold run.
  pose proof (run_parts_tame ps (init_state cfg) 0%nat (or_introl eq_refl)) as T.
  set (st := run_parts requires_met cfg oc (init_state cfg) 0 ps) in *.
  assert (F : s_failed (post_run (length ps) st) = true <-> r_failed st <> None).
  { unfold post_run; simpl. destruct (r_failed st); split; congruence. }
  rewrite Hpy, andb_false_r.
  destruct T as [X|[X|X]]; rewrite X; eexists; eexists; (split; [reflexivity | exact F]).
Qed.

End Escape.

(* the failing line is defined for every recorded failure and lies inside the failing part
   (or is the doctest's first line for an import failure) *)
Theorem failed_line_defined ps st tb : forall j f, r_failed st = Some (j, f) ->
  (j = None -> failed_line_offset ps st tb = Some O) /\
  (forall i p, j = Some i -> nth_error ps i = Some p ->
     exists o, failed_line_offset ps st tb = Some o /\
       match f with
       | F_gotwant => o = (line_offset p + length (exec_lines p))%nat       (* the first line of the want *)
       | F_extract_repr | F_existing_loop => o = (line_offset p + length (exec_lines p) - 1)%nat
       | F_directive => o = line_offset p
       | _ => o = (line_offset p + tb - 1)%nat
       end).
Proof.
  intros j f H. unfold failed_line_offset. rewrite H. split.
  - intros ->. reflexivity.
  - intros i p -> Hp. rewrite Hp. eexists. split; [reflexivity|]. destruct f; lia.
Qed.
