(* EllCollapse.v — the wildcard relation survives ' '.join(text.split()) applied to both texts:

       EllMatch g w  ->  EllMatch (collapse_ws g) (collapse_ws w)

   (xdoctest's separators swallow the white space around '...', so collapsing white-space runs - which never joins dots
   and never separates them - moves no separator).  This closes the last flag setting of the standard module in
   StdOutputProofs (ELLIPSIS without NORMALIZE_WHITESPACE on the standard side, while xdoctest's default state collapses).

   The collapsing is re-expressed as a one-pass scanner cgo with an explicit state (started: a word character was written
   before; pending: white space was seen since), which is compositional (cgo_app) where join/words is not; cgo_collapse
   shows that it is the same function.  split_sim runs split_go on a text and on its collapsed form in lock step. *)
From XD Require Import Model.Base Model.Ellipsis Model.Checker Spec.EllipsisSpec
  Proofs.BaseFacts Proofs.EllipsisProofs Proofs.WordsFacts.
From Coq Require Import Lia.
Open Scope N_scope.

(* ---------- the scanner ---------- *)
Fixpoint cgo (s : str) (st pd : bool) : str :=
  match s with
  | [] => []
  | c :: s' => if is_space c then cgo s' st st
               else (if pd then [SP] else []) ++ c :: cgo s' true false
  end.
Fixpoint cst (s : str) (st pd : bool) : bool * bool :=
  match s with
  | [] => (st, pd)
  | c :: s' => if is_space c then cst s' st st else cst s' true false
  end.
Definition C (s : str) : str := cgo s false false.

Lemma cgo_app x : forall y st pd,
  cgo (x ++ y) st pd = cgo x st pd ++ cgo y (fst (cst x st pd)) (snd (cst x st pd)).
Proof.
  induction x as [|a x IH]; intros y st pd; cbn [app cgo cst]; [reflexivity|].
  destruct (is_space a); [apply IH|]. rewrite IH, <- app_assoc. reflexivity.
Qed.

Lemma cgo_ws t : forall st pd, forallb is_space t = true -> cgo t st pd = [].
Proof.
  induction t as [|c t IH]; intros st pd H; [reflexivity|]. cbn [forallb] in H. apply andb_prop in H as [Hc Ht].
  cbn [cgo]. rewrite Hc. apply IH, Ht.
Qed.

Lemma cst_ws t : forall st pd, forallb is_space t = true -> cst t st pd = (st, if nonempty t then st else pd).
Proof.
  induction t as [|c t IH]; intros st pd H; [reflexivity|]. cbn [forallb] in H. apply andb_prop in H as [Hc Ht].
  cbn [cst nonempty]. rewrite Hc, IH by exact Ht. destruct t; reflexivity.
Qed.

Lemma cst_snoc_nonws x c : forall st pd, is_space c = false -> cst (x ++ [c]) st pd = (true, false).
Proof.
  induction x as [|a x IH]; intros st pd H; cbn [app cst]; [rewrite H; reflexivity|].
  destruct (is_space a); apply IH, H.
Qed.

Lemma cgo_state y : forall st pd, exists J, cgo y st pd = J ++ cgo y false false.
Proof.
  induction y as [|c y IH]; intros st pd; [exists []; reflexivity|].
  cbn [cgo]. destruct (is_space c).
  - apply IH.
  - exists (if pd then [SP] else []). reflexivity.
Qed.

Lemma C_app x y : exists J, C (x ++ y) = C x ++ J ++ C y.
Proof.
  unfold C. rewrite cgo_app. destruct (cgo_state y (fst (cst x false false)) (snd (cst x false false))) as (J & E).
  exists J. rewrite E. reflexivity.
Qed.

Lemma C_mid a r b : exists r', C (a ++ r ++ b) = C a ++ r' ++ C b.
Proof.
  destruct (C_app a (r ++ b)) as (J1 & E1). destruct (C_app r b) as (J2 & E2).
  exists (J1 ++ C r ++ J2). rewrite E1, E2, <- !app_assoc. reflexivity.
Qed.

Lemma InOrder_C ps r : InOrder ps r -> forall a b, exists r', C (a ++ r ++ b) = C a ++ r' ++ C b /\ InOrder (map C ps) r'.
Proof.
  induction 1 as [g|p ps g1 g2 H IH]; intros a b.
  - destruct (C_mid a g b) as (r' & E). exists r'. split; [exact E|constructor].
  - destruct (IH (a ++ g1 ++ p) b) as (r2 & E2 & I2). destruct (C_mid a g1 p) as (r1 & E1).
    exists (r1 ++ C p ++ r2). split.
    + replace (a ++ (g1 ++ p ++ g2) ++ b) with ((a ++ g1 ++ p) ++ g2 ++ b) by (rewrite <- !app_assoc; reflexivity).
      rewrite E2, E1, <- !app_assoc. reflexivity.
    + cbn [map]. constructor. exact I2.
Qed.

Lemma C_trailing x t : forallb is_space t = true -> C (x ++ t) = C x.
Proof. intros H. unfold C. rewrite cgo_app. rewrite (cgo_ws t) by exact H. apply app_nil_r. Qed.

Lemma nonempty_rev {A} (l : list A) : nonempty (rev l) = nonempty l.
Proof. destruct l as [|a l]; [reflexivity|]. cbn. destruct (rev l); reflexivity. Qed.

Lemma C_snoc x t c :
  (x = [] \/ exists x0 a, x = x0 ++ [a] /\ is_space a = false) -> forallb is_space t = true -> is_space c = false ->
  C (x ++ t ++ [c]) = C x ++ (if nonempty x && nonempty t then [SP] else []) ++ [c].
Proof.
  intros Hx Ht Hc. unfold C. rewrite cgo_app. f_equal. rewrite cgo_app. rewrite (cgo_ws t) by exact Ht. cbn [app].
  rewrite cst_ws by exact Ht. cbn [fst snd cgo]. rewrite Hc.
  destruct Hx as [->|(x0 & a & -> & Ha)].
  - cbn [cst fst snd nonempty andb]. destruct (nonempty t); reflexivity.
  - rewrite cst_snoc_nonws by exact Ha. cbn [fst snd]. replace (nonempty (x0 ++ [a])) with true by (destruct x0; reflexivity).
    cbn [andb]. destruct (nonempty t); reflexivity.
Qed.

(* ---------- cgo is ' '.join(s.split()) ---------- *)
Lemma words_aux_nonempty y : forall cur, cur <> [] -> words_aux y cur <> [].
Proof.
  induction y as [|c y IH]; intros cur H.
  - destruct cur; [contradiction|discriminate].
  - cbn [words_aux]. destruct (is_space c).
    + destruct cur; [contradiction|discriminate].
    + apply IH. discriminate.
Qed.

Lemma cgo_pending s : cgo s true true = if nonempty (words s) then SP :: cgo s false false else [].
Proof.
  induction s as [|c s IH]; [reflexivity|]. cbn [cgo]. unfold words. cbn [words_aux]. destruct (is_space c) eqn:E.
  - exact IH.
  - pose proof (words_aux_nonempty s [c]) as N. destruct (words_aux s [c]); [exfalso; apply N; [discriminate|reflexivity]|].
    reflexivity.
Qed.

Lemma join_sp_cons a l : join [SP] (a :: l) = a ++ (if nonempty l then SP :: join [SP] l else []).
Proof. destruct l; [cbn; symmetry; apply app_nil_r|reflexivity]. Qed.

Lemma cgo_words s : forall cur,
  join [SP] (words_aux s cur) = rev cur ++ cgo s (nonempty cur) false.
Proof.
  induction s as [|c s IH]; intros cur.
  - cbn [words_aux cgo]. destruct cur; [reflexivity|]. cbn [join]. symmetry. apply app_nil_r.
  - cbn [words_aux cgo]. destruct (is_space c) eqn:E.
    + destruct cur as [|a cur].
      * rewrite IH. reflexivity.
      * rewrite join_sp_cons. f_equal. cbn [nonempty]. rewrite cgo_pending. unfold words.
        destruct (nonempty (words_aux s [])) eqn:N; [|reflexivity]. rewrite (IH []). reflexivity.
    + rewrite IH. cbn [rev nonempty app]. rewrite <- app_assoc. reflexivity.
Qed.

Theorem cgo_collapse s : collapse_ws s = C s.
Proof. unfold collapse_ws, words, C. rewrite cgo_words. reflexivity. Qed.

(* ---------- the marker in a collapsed text ---------- *)
Lemma cgo_pending_head s : cgo s true true = [] \/ exists r, cgo s true true = SP :: r.
Proof. rewrite cgo_pending. destruct (nonempty (words s)); [right; eexists; reflexivity|left; reflexivity]. Qed.

Lemma dot_not_space : is_space DOT = false. Proof. reflexivity. Qed.

Lemma dot_neq_space f : is_space f = true -> (DOT =? f) = false.
Proof. intros E. destruct (DOT =? f) eqn:D; [|reflexivity]. apply N.eqb_eq in D. subst f. discriminate E. Qed.

Lemma sp_neq_dot : (DOT =? SP) = false. Proof. reflexivity. Qed.

Lemma starts_dot1 s : starts_with [DOT] (cgo s true false) = starts_with [DOT] s.
Proof.
  destruct s as [|f s]; [reflexivity|]. cbn [cgo]. destruct (is_space f) eqn:E.
  - cbn [starts_with]. rewrite (dot_neq_space f E). cbn [andb].
    destruct (cgo_pending_head s) as [->|(r & ->)]; [reflexivity|]. cbn [starts_with]. rewrite sp_neq_dot. reflexivity.
  - cbn [app starts_with]. destruct (DOT =? f); reflexivity.
Qed.

Lemma starts_dot2 s : starts_with [DOT; DOT] (cgo s true false) = starts_with [DOT; DOT] s.
Proof.
  destruct s as [|d s]; [reflexivity|]. cbn [cgo]. destruct (is_space d) eqn:E.
  - cbn [starts_with]. rewrite (dot_neq_space d E). cbn [andb].
    destruct (cgo_pending_head s) as [->|(r & ->)]; [reflexivity|]. cbn [starts_with]. rewrite sp_neq_dot. reflexivity.
  - cbn [app]. change (starts_with [DOT; DOT] (d :: cgo s true false)) with ((DOT =? d) && starts_with [DOT] (cgo s true false)).
    change (starts_with [DOT; DOT] (d :: s)) with ((DOT =? d) && starts_with [DOT] s). rewrite starts_dot1. reflexivity.
Qed.

Lemma marker_cgo_start c s : starts_with marker (c :: cgo s true false) = starts_with marker (c :: s).
Proof.
  change (starts_with marker (c :: cgo s true false)) with ((DOT =? c) && starts_with [DOT; DOT] (cgo s true false)).
  change (starts_with marker (c :: s)) with ((DOT =? c) && starts_with [DOT; DOT] s). rewrite starts_dot2. reflexivity.
Qed.

Lemma marker_start_inv c s : starts_with marker (c :: s) = true -> c = DOT /\ exists s', s = DOT :: DOT :: s'.
Proof.
  intros H. apply starts_with_spec in H as (t & E). unfold marker in E. cbn in E. injection E as -> ->.
  split; [reflexivity|]. eexists. reflexivity.
Qed.

(* ---------- split_go on a text and on its collapsed form, in lock step ---------- *)
Fixpoint NW (k : nat) (s : str) : Prop :=
  match k, s with
  | O, _ => True
  | S k', c :: s' => is_space c = false /\ NW k' s'
  | S _, [] => False
  end.

(* an optional blank in front of the next character of the collapsed text *)
Lemma lhs_step (pd : bool) X P e :
  split_go ((if pd then [SP] else []) ++ X) P [] 0 e = split_go X P (if pd && negb e then [SP] else []) 0 e.
Proof. destruct pd; [|reflexivity]. destruct e; reflexivity. Qed.

Lemma split_sim s : forall p q k e st pd P,
  forallb is_space q = true ->
  (p = [] \/ exists a p0, p = a :: p0 /\ is_space a = false) ->
  rev P = C (rev p) ->
  (e = false -> st = nonempty p /\ pd = nonempty p && nonempty q) ->
  (e = true -> p = [] /\ q = [] /\ st = true) ->
  (k <> O -> pd = false /\ st = true /\ e = true) ->
  NW k s ->
  split_go (cgo s st pd) P [] k e = map C (split_go s p q k e).
Proof.
  induction s as [|c s IH]; intros p q k e st pd P Hq Hp HP He0 He1 Hk HN.
  - cbn [cgo split_go map app]. rewrite HP, rev_app_distr. rewrite C_trailing by (rewrite forallb_rev; exact Hq). reflexivity.
  - destruct k as [|k].
    + (* no characters of a marker pending *)
      cbn [split_go]. destruct (starts_with marker (c :: s)) eqn:M.
      * (* a marker starts here *)
        destruct (marker_start_inv _ _ M) as (-> & s2 & Es).
        cbn [cgo]. rewrite dot_not_space. rewrite lhs_step. cbn [split_go].
        rewrite marker_cgo_start, M.
        cbn [map]. rewrite HP. f_equal.
        apply (IH [] [] 2%nat true true false []); try reflexivity; try (left; reflexivity); try discriminate; auto.
        rewrite Es. cbn [NW]. repeat split; reflexivity.
      * destruct (is_space c) eqn:Sc.
        -- (* white space *)
           cbn [cgo]. rewrite Sc. destruct e.
           ++ destruct (He1 eq_refl) as (-> & -> & ->).
              apply (IH [] [] 0%nat true true true P); auto; try discriminate. intros; tauto.
           ++ destruct (He0 eq_refl) as (Hst & Hpd).
              apply (IH p (c :: q) 0%nat false st st P); auto; try discriminate.
              ** cbn [forallb]. rewrite Sc, Hq. reflexivity.
              ** intros _. split; [exact Hst|]. cbn [nonempty]. rewrite andb_true_r. exact Hst.
              ** intros; tauto.
        -- (* an ordinary character *)
           cbn [cgo]. rewrite Sc. rewrite lhs_step. cbn [split_go]. rewrite marker_cgo_start, M, Sc.
           apply (IH (c :: q ++ p) [] 0%nat false true false); auto; try discriminate.
           ++ right. exists c, (q ++ p). split; [reflexivity|exact Sc].
           ++ cbn [rev]. rewrite !rev_app_distr. cbn [rev app]. rewrite HP. rewrite <- !app_assoc.
              rewrite C_snoc; [| |rewrite forallb_rev; exact Hq|exact Sc].
              ** rewrite !nonempty_rev. f_equal. f_equal.
                 destruct e.
                 --- destruct (He1 eq_refl) as (-> & -> & _). rewrite andb_false_r. reflexivity.
                 --- destruct (He0 eq_refl) as (_ & ->). rewrite andb_true_r.
                     destruct (nonempty p && nonempty q); reflexivity.
              ** destruct Hp as [->|(a & p0 & -> & Ha)]; [left; reflexivity|right].
                 exists (rev p0), a. split; [reflexivity|exact Ha].
    + (* inside a marker: its remaining dots are skipped on both sides *)
      destruct HN as (Sc & HN). destruct (Hk ltac:(discriminate)) as (-> & -> & ->).
      cbn [cgo split_go]. rewrite Sc. cbn [app split_go].
      destruct (He1 eq_refl) as (-> & -> & _).
      apply (IH [] [] k true true false P); auto; try discriminate.
Qed.

Theorem split_ell_C w : split_ell (C w) = map C (split_ell w).
Proof.
  unfold split_ell, C. apply (split_sim w [] [] 0%nat false false false []); auto; try discriminate.
  exact I.
Qed.

(* ---------- the marker is there after collapsing iff it was there before ---------- *)
Lemma contains_cons_false' w c s : contains w (c :: s) = false -> starts_with w (c :: s) = false /\ contains w s = false.
Proof.
  intros H. split.
  - destruct (starts_with w (c :: s)) eqn:E; [|reflexivity]. apply starts_with_spec in E as (t & E).
    assert (contains w (c :: s) = true) by (apply contains_spec; exists [], t; exact E). congruence.
  - destruct (contains w s) eqn:E; [|reflexivity]. apply contains_spec in E as (a & b & ->).
    assert (contains w (c :: a ++ w ++ b) = true) by (apply contains_spec; exists (c :: a), b; reflexivity). congruence.
Qed.

Lemma split_go_nomarker s : forall p q e, contains marker s = false -> exists x, split_go s p q 0 e = [x].
Proof.
  induction s as [|c s IH]; intros p q e H; [eexists; reflexivity|].
  apply contains_cons_false' in H as (M & H). cbn [split_go]. rewrite M.
  destruct (is_space c); [destruct e|]; apply IH, H.
Qed.

Lemma marker_C w : contains marker (C w) = contains marker w.
Proof.
  destruct (contains marker w) eqn:Hw.
  - destruct (contains marker (C w)) eqn:Hc; [reflexivity|].
    destruct (split_go_nomarker (C w) [] [] false Hc) as (x & E). fold (split_ell (C w)) in E.
    rewrite split_ell_C in E. destruct (split_ell_shape w Hw) as (w0 & mids & wl & S). rewrite S in E.
    cbn [map] in E. rewrite map_app in E. destruct (map C mids); discriminate E.
  - destruct (contains marker (C w)) eqn:Hc; [|reflexivity].
    destruct (split_go_nomarker w [] [] false Hw) as (x & E). fold (split_ell w) in E.
    destruct (split_ell_shape (C w) Hc) as (w0 & mids & wl & S). rewrite split_ell_C, E in S.
    cbn [map] in S. destruct mids; discriminate S.
Qed.

(* ---------- the theorem ---------- *)
Theorem ellmatch_C g w : EllMatch g w -> EllMatch (C g) (C w).
Proof.
  unfold EllMatch. rewrite marker_C. destruct (contains marker w) eqn:Hw.
  - intros (w0 & mids & wl & rest & S & -> & I).
    destruct (InOrder_C mids rest I w0 wl) as (r' & E & I').
    exists (C w0), (map C mids), (C wl), r'. split; [|split; [exact E|exact I']].
    rewrite split_ell_C, S. cbn [map]. rewrite map_app. reflexivity.
  - intros ->. reflexivity.
Qed.

Theorem ellmatch_collapse g w : EllMatch g w -> EllMatch (collapse_ws g) (collapse_ws w).
Proof. rewrite !cgo_collapse. apply ellmatch_C. Qed.
