(* CheckerProofs.v — check_output is the documented relation; exactness when
   strict; monotonicity of the leniencies where it holds; the clause refuted
   where it does not. *)
From XD Require Import Model.Base Model.Lit Model.Ellipsis Model.Checker
  Spec.EllipsisSpec Spec.MatchRel Proofs.BaseFacts Proofs.EllipsisProofs.
Open Scope N_scope.

Lemma is_empty_spec {A} (l : list A) : is_empty l = true <-> l = [].
Proof. destruct l; simpl; split; congruence. Qed.

Lemma check_match_iff fl g w : check_match fl g w = true <-> Core fl g w.
Proof.
  unfold check_match, Core. destruct (eqb_str g w) eqn:E.
  - apply eqb_str_spec in E. tauto.
  - apply eqb_str_false in E. destruct (ELLIPSIS fl).
    + rewrite ellipsis_match_iff. tauto.
    + split; [discriminate|]. intros [H|[H _]]; [contradiction|discriminate].
Qed.

Lemma check_match_false_iff fl g w : check_match fl g w = false <-> ~ Core fl g w.
Proof.
  rewrite <- check_match_iff. destruct (check_match fl g w); split; congruence.
Qed.

Lemma check_match_refl fl g : check_match fl g g = true.
Proof. unfold check_match. rewrite eqb_str_refl. reflexivity. Qed.

(* norm_repr computes the unique text allowed by Unquote *)
Lemma norm_repr_unquote fl a b : Unquote fl a b (norm_repr fl a b).
Proof.
  unfold norm_repr, Unquote.
  pose proof (check_match_iff fl a b) as H0.
  pose proof (check_match_iff fl (strip_outer a) b) as H1.
  destruct (check_match fl a b), (quoted_by QUOTE2 a), (quoted_by QUOTE1 a),
    (check_match fl (strip_outer a) b); cbn [andb];
    intuition (try discriminate; try congruence).
Qed.

Lemma unquote_unique fl a b x y : Unquote fl a b x -> Unquote fl a b y -> x = y.
Proof.
  unfold Unquote. intros Hx Hy.
  destruct Hx as [[C ->]|[NC Hx]]; destruct Hy as [[C' ->]|[NC' Hy]]; try tauto.
  destruct Hx as [(Q&C&->)|[(N2&Q&C&->)|(N2&N1&->)]];
    destruct Hy as [(Q'&C'&->)|[(N2'&Q'&C'&->)|(N2'&N1'&->)]]; tauto.
Qed.

Theorem check_output_iff fl got want :
  check_output fl got want = true <-> MatchRel fl got want.
Proof.
  unfold check_output, MatchRel.
  destruct (is_empty want) eqn:E0.
  { apply is_empty_spec in E0. tauto. }
  assert (Hw : want <> []) by (intro H; apply is_empty_spec in H; congruence).
  destruct (eqb_str got want) eqn:E1.
  { apply eqb_str_spec in E1. tauto. }
  apply eqb_str_false in E1.
  unfold normalize. fold (NGot fl got). fold (NWant fl want).
  destruct (NORMALIZE_REPR fl).
  - rewrite check_match_iff. split.
    + intros H. right. right.
      exists (norm_repr fl (NGot fl got) (NWant fl want)),
             (norm_repr fl (NWant fl want) (norm_repr fl (NGot fl got) (NWant fl want))).
      repeat split; try apply norm_repr_unquote. exact H.
    + intros [H|[H|(g' & w' & U1 & U2 & C)]]; try contradiction.
      pose proof (unquote_unique _ _ _ _ _ U1 (norm_repr_unquote fl (NGot fl got) (NWant fl want))) as ->.
      pose proof (unquote_unique _ _ _ _ _ U2 (norm_repr_unquote fl (NWant fl want) _)) as ->.
      exact C.
  - rewrite check_match_iff. tauto.
Qed.

Theorem check_output_identical fl t : check_output fl t t = true.
Proof.
  unfold check_output. destruct (is_empty t); [reflexivity|]. rewrite eqb_str_refl. reflexivity.
Qed.

(* ---------- every leniency off: exact up to the base normalisation ---------- *)

Definition all_off (fl : flags) : Prop :=
  ELLIPSIS fl = false /\ NORMALIZE_WHITESPACE fl = false /\ IGNORE_WHITESPACE fl = false /\
  NORMALIZE_REPR fl = false.

Theorem check_output_strict fl got want :
  all_off fl -> want <> [] ->
  (check_output fl got want = true <-> got = want \/ base_got got = base_want fl want).
Proof.
  intros (E & NW & IW & NR) Hw. rewrite check_output_iff. unfold MatchRel, Core, NGot, NWant, ws_norm.
  rewrite NR, E, NW, IW. cbn [orb]. split.
  - intros [H|[H|[H|[H _]]]]; try tauto; discriminate.
  - tauto.
Qed.

(* ---------- monotonicity ---------- *)

Lemma set_len_base_want f fl w : base_want (set_len f fl) w = base_want fl w.
Proof. destruct f; reflexivity. Qed.

Definition notsp (c : char) : bool := negb (is_space c).

Lemma filter_join_sp ws :
  filter notsp (join [SP] ws) = concat (map (filter notsp) ws).
Proof.
  induction ws as [|w ws IH]; [reflexivity|].
  destruct ws as [|w2 ws].
  - simpl. rewrite app_nil_r. reflexivity.
  - change (join [SP] (w :: w2 :: ws)) with (w ++ [SP] ++ join [SP] (w2 :: ws)).
    rewrite !filter_app. rewrite IH. reflexivity.
Qed.

Lemma filter_notsp_id l : (forall c, In c l -> is_space c = false) -> filter notsp l = l.
Proof.
  intros H. induction l as [|x l IH]; [reflexivity|]. simpl. unfold notsp at 1.
  rewrite (H x (or_introl eq_refl)). simpl. f_equal. apply IH. intros c Hc. apply H. right. exact Hc.
Qed.

Lemma words_aux_filter s : forall cur, (forall c, In c cur -> is_space c = false) ->
  concat (map (filter notsp) (words_aux s cur)) = rev cur ++ filter notsp s.
Proof.
  induction s as [|c s IH]; intros cur Hc.
  - simpl. destruct cur as [|x cur]; [reflexivity|]. cbn [map concat]. rewrite !app_nil_r.
    apply filter_notsp_id. intros y Hy. apply Hc. apply in_rev. exact Hy.
  - cbn [words_aux filter]. unfold notsp at 2. destruct (is_space c) eqn:Sc; cbn [negb].
    + destruct cur as [|x cur].
      * rewrite IH; [reflexivity|]. intros ? [].
      * cbn [map concat]. rewrite IH by (intros ? []). cbn [rev app].
        rewrite filter_notsp_id; [reflexivity|].
        intros y Hy. apply Hc. apply in_rev. exact Hy.
    + rewrite IH.
      * cbn [rev]. rewrite <- app_assoc. reflexivity.
      * intros y [<-|Hy]; [exact Sc | apply Hc; exact Hy].
Qed.

Lemma collapse_delete s : delete_ws (collapse_ws s) = delete_ws s.
Proof.
  unfold collapse_ws, delete_ws, words. fold notsp.
  rewrite filter_join_sp. rewrite words_aux_filter by (intros ? []). reflexivity.
Qed.

Lemma ws_norm_ellipsis fl s : ws_norm (set_len L_ELLIPSIS fl) s = ws_norm fl s.
Proof. reflexivity. Qed.
Lemma ws_norm_repr fl s : ws_norm (set_len L_NORMALIZE_REPR fl) s = ws_norm fl s.
Proof. reflexivity. Qed.

(* switching a whitespace leniency on post-composes the normalisation with a function *)
Lemma ws_norm_nw fl : exists h, forall s, ws_norm (set_len L_NORMALIZE_WHITESPACE fl) s = h (ws_norm fl s).
Proof.
  unfold ws_norm. cbn [set_len NORMALIZE_WHITESPACE IGNORE_WHITESPACE orb].
  destruct (NORMALIZE_WHITESPACE fl), (IGNORE_WHITESPACE fl); cbn [orb].
  - exists (fun x => x). reflexivity.
  - exists (fun x => x). reflexivity.
  - exists (fun x => x). reflexivity.
  - exists collapse_ws. reflexivity.
Qed.

Lemma ws_norm_iw fl : exists h, forall s, ws_norm (set_len L_IGNORE_WHITESPACE fl) s = h (ws_norm fl s).
Proof.
  unfold ws_norm. cbn [set_len NORMALIZE_WHITESPACE IGNORE_WHITESPACE]. rewrite orb_true_r.
  destruct (NORMALIZE_WHITESPACE fl), (IGNORE_WHITESPACE fl); cbn [orb].
  - exists (fun x => x). reflexivity.
  - exists delete_ws. reflexivity.
  - exists (fun x => x). reflexivity.
  - exists delete_ws. intros s. apply collapse_delete.
Qed.

Theorem check_output_monotone fl f got want :
  MonoGuard fl f ->
  check_output fl got want = true -> check_output (set_len f fl) got want = true.
Proof.
  intros G. rewrite !check_output_iff. unfold MatchRel.
  intros [H|[H|H]]; [tauto|tauto|]. right. right.
  destruct f; cbn [MonoGuard] in G.
  - (* ELLIPSIS on, NORMALIZE_REPR off *)
    rewrite G in H. change (NORMALIZE_REPR (set_len L_ELLIPSIS fl)) with (NORMALIZE_REPR fl). rewrite G.
    unfold Core, NGot, NWant in *. rewrite set_len_base_want, !ws_norm_ellipsis.
    destruct H as [H|[E H]]; [left; exact H | right; split; [reflexivity | exact H]].
  - (* NORMALIZE_WHITESPACE on; ELLIPSIS and NORMALIZE_REPR off *)
    destruct G as [GE GR]. rewrite GR in H.
    change (NORMALIZE_REPR (set_len L_NORMALIZE_WHITESPACE fl)) with (NORMALIZE_REPR fl). rewrite GR.
    unfold Core, NGot, NWant in *. rewrite set_len_base_want.
    destruct (ws_norm_nw fl) as [h Hh]. rewrite !Hh.
    left. destruct H as [H|[H _]]; [rewrite H; reflexivity | congruence].
  - (* IGNORE_WHITESPACE on *)
    destruct G as [GE GR]. rewrite GR in H.
    change (NORMALIZE_REPR (set_len L_IGNORE_WHITESPACE fl)) with (NORMALIZE_REPR fl). rewrite GR.
    unfold Core, NGot, NWant in *. rewrite set_len_base_want.
    destruct (ws_norm_iw fl) as [h Hh]. rewrite !Hh.
    left. destruct H as [H|[H _]]; [rewrite H; reflexivity | congruence].
  - (* NORMALIZE_REPR on; ELLIPSIS off *)
    change (NORMALIZE_REPR (set_len L_NORMALIZE_REPR fl)) with true. cbv iota.
    unfold NGot, NWant in *. rewrite set_len_base_want, !ws_norm_repr.
    destruct (NORMALIZE_REPR fl) eqn:NR.
    + (* already on: nothing changes *)
      destruct H as (g' & w' & U1 & U2 & C). exists g', w'.
      unfold Unquote, Core in *.
      change (ELLIPSIS (set_len L_NORMALIZE_REPR fl)) with (ELLIPSIS fl). tauto.
    + unfold Core in H. rewrite G in H. destruct H as [H|[H _]]; [|discriminate].
      exists (ws_norm fl (base_got got)), (ws_norm fl (base_want fl want)). unfold Unquote, Core.
      rewrite H. tauto.
Qed.

(* ---------- texts differing in a non-whitespace character never match ---------- *)

Lemma nonws_eq a b : a = b -> nonws a = nonws b.
Proof. congruence. Qed.

Theorem check_output_nonws fl got want :
  want <> [] -> got <> want ->
  NORMALIZE_REPR fl = false ->
  (ELLIPSIS fl = false \/ contains marker (NWant fl want) = false) ->
  nonws (NGot fl got) <> nonws (NWant fl want) ->
  check_output fl got want = false.
Proof.
  intros Hw Hg NR Hm Hn.
  destruct (check_output fl got want) eqn:E; [|reflexivity].
  apply check_output_iff in E. unfold MatchRel in E. rewrite NR in E.
  destruct E as [E|[E|E]]; try contradiction.
  unfold Core in E. destruct E as [E|[E1 E2]].
  - rewrite E in Hn. contradiction.
  - destruct Hm as [Hm|Hm]; [congruence|].
    unfold EllMatch in E2. rewrite Hm in E2. rewrite E2 in Hn. contradiction.
Qed.
