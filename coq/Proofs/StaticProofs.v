(* StaticProofs.v — collection is exact (C07): the visitor collects exactly the visible callables,
   each under one key; the package walk collects exactly the files of the package tree. *)
From XD Require Import Model.Base Model.StaticCollect Proofs.BaseFacts.
Open Scope N_scope.

(* ---------- the ordered dictionary ---------- *)
Lemma od_set_keys k v d k' : In k' (map fst (od_set k v d)) <-> k' = k \/ In k' (map fst d).
Proof.
  induction d as [|[k2 v2] d IH]; simpl; [intuition|].
  destruct (eqb_str k k2) eqn:E; simpl.
  - apply eqb_str_spec in E. subst. intuition.
  - rewrite IH. intuition.
Qed.

Lemma od_set_nodup k v d : NoDup (map fst d) -> NoDup (map fst (od_set k v d)).
Proof.
  induction d as [|[k2 v2] d IH]; simpl; intros H; [constructor; [tauto | constructor]|].
  inversion H; subst. destruct (eqb_str k k2) eqn:E; simpl.
  - apply eqb_str_spec in E. subst. constructor; assumption.
  - constructor; [|apply IH; assumption]. rewrite od_set_keys. intros [X|X]; [|contradiction].
    subst. rewrite eqb_str_refl in E. discriminate.
Qed.

Lemma od_set_entries k v d k' v' : In (k', v') (od_set k v d) -> (k' = k /\ v' = v) \/ In (k', v') d.
Proof.
  induction d as [|[k2 v2] d IH]; simpl.
  - intros [X|[]]. inversion X. auto.
  - destruct (eqb_str k k2) eqn:E; simpl.
    + intros [X|X]; [inversion X; auto | auto].
    + intros [X|X]; [auto | destruct (IH X); auto].
Qed.

(* ---------- which definitions are visible ---------- *)
Inductive Visible : option str -> snode -> str -> option nat -> Prop :=
| V_func cls name doc ch :
    Visible cls (SNode NK_Func name false doc ch) (callname_of cls name) doc
| V_class name hidden doc ch :
    Visible None (SNode NK_Class name hidden doc ch) name doc
| V_member name hidden doc ch c nm d :
    In c ch -> Visible (Some name) c nm d -> Visible None (SNode NK_Class name hidden doc ch) nm d
| V_inside cls name hidden doc ch c nm d :
    In c ch -> Visible cls c nm d -> Visible cls (SNode NK_Other name hidden doc ch) nm d
| V_else cls name hidden doc ch c nm d :        (* ch = the else branch of the main guard *)
    In c ch -> Visible cls c nm d -> Visible cls (SNode NK_IfMain name hidden doc ch) nm d.

(* the inner loop of generic_visit *)
Definition go_all (c : option str) :=
  fix go (l : list snode) (a : calldefs) : calldefs :=
    match l with [] => a | x :: r => go r (visit c x a) end.

Lemma go_all_is_visit_list c l a : go_all c l a = visit_list c l a.
Proof. revert a. induction l as [|x r IH]; intros a; simpl; [reflexivity | apply IH]. Qed.

Lemma visit_unfold cls k name hidden doc children acc :
  visit cls (SNode k name hidden doc children) acc =
  match k with
  | NK_Func => if hidden then acc else od_set (callname_of cls name) doc acc
  | NK_Class => match cls with
                | None => visit_list (Some name) children (od_set name doc acc)
                | Some _ => acc
                end
  | NK_IfMain => visit_list cls children acc
  | NK_Other => visit_list cls children acc
  end.
Proof. destruct k; simpl; try reflexivity; [destruct cls; [reflexivity | apply go_all_is_visit_list] | apply go_all_is_visit_list | apply go_all_is_visit_list]. Qed.

(* keys stay unique: every collected callable appears exactly once *)
Lemma visit_nodup : forall n cls acc, NoDup (map fst acc) -> NoDup (map fst (visit cls n acc)).
Proof.
  fix IH 1. intros [k name hidden doc children] cls acc H. rewrite visit_unfold.
  assert (L : forall c a, NoDup (map fst a) -> NoDup (map fst (visit_list c children a))).
  { intros c. induction children as [|x r IHl]; intros a Ha; simpl; [exact Ha|].
    apply IHl. apply IH. exact Ha. }
  destruct k.
  - destruct hidden; [exact H | apply od_set_nodup; exact H].
  - destruct cls; [exact H|]. apply L. apply od_set_nodup; exact H.
  - apply L. exact H.
  - apply L. exact H.
Qed.

Lemma visit_list_nodup cls l acc : NoDup (map fst acc) -> NoDup (map fst (visit_list cls l acc)).
Proof. revert acc. induction l as [|x r IH]; intros acc H; simpl; [exact H | apply IH; apply visit_nodup; exact H]. Qed.

(* sound and complete: a key is collected iff it was there before or names a visible definition *)
Lemma visit_keys : forall n cls acc nm,
  In nm (map fst (visit cls n acc)) <-> In nm (map fst acc) \/ exists d, Visible cls n nm d.
Proof.
  fix IH 1. intros [k name hidden doc children] cls acc nm. rewrite visit_unfold.
  assert (L : forall c a,
              (In nm (map fst (visit_list c children a)) <-> In nm (map fst a) \/ exists x d, In x children /\ Visible c x nm d)).
  { intros c. induction children as [|x r IHl]; intros a; simpl.
    - split; [auto | intros [X|(x & d & [] & _)]; exact X].
    - rewrite IHl. rewrite IH. split.
      + intros [[X|(d & X)]|(y & d & Hy & X)]; [auto | right; exists x, d; auto | right; exists y, d; auto].
      + intros [X|(y & d & [<-|Hy] & X)]; [auto | left; right; exists d; exact X | right; exists y, d; auto]. }
  destruct k.
  - destruct hidden.
    + split; [auto | intros [X|(d & X)]; [exact X | inversion X]].
    + rewrite od_set_keys. split.
      * intros [->|X]; [right; exists doc; constructor | auto].
      * intros [X|(d & X)]; [auto | inversion X; subst; auto].
  - destruct cls as [c|].
    + split; [auto | intros [X|(d & X)]; [exact X | inversion X]].
    + rewrite L. rewrite od_set_keys. split.
      * intros [[->|X]|(x & d & Hx & X)]; [right; exists doc; constructor | auto | right; exists d; eapply V_member; eauto].
      * intros [X|(d & X)]; [auto|]. inversion X; subst; [left; left; reflexivity | right; eauto].
  - rewrite L. split.
    + intros [X|(x & d & Hx & X)]; [auto | right; exists d; eapply V_else; eauto].
    + intros [X|(d & X)]; [auto|]. inversion X; subst. right. eauto.
  - rewrite L. split.
    + intros [X|(x & d & Hx & X)]; [auto | right; exists d; eapply V_inside; eauto].
    + intros [X|(d & X)]; [auto|]. inversion X; subst. right. eauto.
Qed.

(* the docstring stored under a key is the docstring of a visible definition of that name *)
Lemma visit_entries : forall n cls acc nm d,
  In (nm, d) (visit cls n acc) -> In (nm, d) acc \/ Visible cls n nm d.
Proof.
  fix IH 1. intros [k name hidden doc children] cls acc nm d. rewrite visit_unfold.
  assert (L : forall c a,
              In (nm, d) (visit_list c children a) -> In (nm, d) a \/ exists x, In x children /\ Visible c x nm d).
  { intros c. induction children as [|x r IHl]; intros a; simpl; [intros H; left; exact H|].
    intros H. destruct (IHl _ H) as [X|(y & Hy & X)].
    - destruct (IH x c a nm d X) as [Y|Y]; [left; exact Y | right; exists x; split; [left; reflexivity | exact Y]].
    - right. exists y. split; [right; exact Hy | exact X]. }
  destruct k.
  - destruct hidden; [intros H; left; exact H|]. intros H. destruct (od_set_entries _ _ _ _ _ H) as [[-> ->]|X]; [right; constructor | left; exact X].
  - destruct cls; [intros H; left; exact H|]. intros H. destruct (L _ _ H) as [X|(x & Hx & X)].
    + destruct (od_set_entries _ _ _ _ _ X) as [[-> ->]|Y]; [right; constructor | left; exact Y].
    + right. eapply V_member; [exact Hx | exact X].
  - intros H. destruct (L _ _ H) as [X|(x & Hx & X)]; [left; exact X | right; eapply V_else; [exact Hx | exact X]].
  - intros H. destruct (L _ _ H) as [X|(x & Hx & X)]; [left; exact X | right; eapply V_inside; [exact Hx | exact X]].
Qed.

(* ---------- whole module ---------- *)
Inductive ModVisible (body : list snode) : str -> option nat -> Prop :=
| MV x nm d : In x body -> Visible None x nm d -> ModVisible body nm d.

Lemma visit_list_keys cls l : forall acc nm,
  In nm (map fst (visit_list cls l acc)) <-> In nm (map fst acc) \/ exists x d, In x l /\ Visible cls x nm d.
Proof.
  induction l as [|x r IH]; intros acc nm; simpl.
  - split; [auto | intros [X|(x & d & [] & _)]; exact X].
  - rewrite IH, visit_keys. split.
    + intros [[X|(d & X)]|(y & d & Hy & X)]; [auto | right; exists x, d; auto | right; exists y, d; auto].
    + intros [X|(y & d & [<-|Hy] & X)]; [auto | left; right; exists d; exact X | right; exists y, d; auto].
Qed.

Theorem collect_sound_complete moddoc body nm :
  In nm (map fst (visit_module moddoc body)) <->
  (nm = DOC_KEY /\ moddoc <> None) \/ exists d, ModVisible body nm d.
Proof.
  unfold visit_module. rewrite visit_list_keys. split.
  - intros [X|(x & d & Hx & X)].
    + destruct moddoc; simpl in X; [destruct X as [<-|[]]; left; split; [reflexivity | discriminate] | contradiction].
    + right. exists d. econstructor; eauto.
  - intros [[-> X]|(d & X)].
    + left. destruct moddoc; [simpl; auto | contradiction].
    + right. inversion X; subst. eauto.
Qed.

Theorem collect_keys_unique moddoc body : NoDup (map fst (visit_module moddoc body)).
Proof.
  unfold visit_module. apply visit_list_nodup. destruct moddoc; simpl; [constructor; [tauto | constructor] | constructor].
Qed.

(* nothing else is collected: not nested functions or classes, not setters/deleters, not code under the main guard *)
Theorem not_collected cls n nm d : Visible cls n nm d ->
  match n with
  | SNode NK_Func _ hidden _ _ => hidden = false
  | SNode NK_Class _ _ _ _ => cls = None
  | _ => True
  end.
Proof. intros H. inversion H; subst; auto. Qed.

(* a function definition contributes only its own name: nothing nested in it is visible *)
Theorem nested_in_function_invisible cls name hidden doc ch nm' d' :
  Visible cls (SNode NK_Func name hidden doc ch) nm' d' -> nm' = callname_of cls name /\ d' = doc /\ hidden = false.
Proof. intros H. inversion H; subst. auto. Qed.

(* ---------- the package walk ---------- *)
Inductive InPkg : list str -> dtree -> list str -> Prop :=
| IP_mod d nm ch n :
    has_init ch = true -> In (DFile n) ch -> ends_with DOT_PY n = true -> n <> INIT_PY ->
    InPkg d (DDir nm ch) (d ++ [n])
| IP_subinit d nm ch n ch' :
    has_init ch = true -> In (DDir n ch') ch -> has_init ch' = true ->
    InPkg d (DDir nm ch) (d ++ [n; INIT_PY])
| IP_deeper d nm ch x p :
    has_init ch = true -> In x ch -> InPkg (d ++ [dname x]) x p -> InPkg d (DDir nm ch) p.

Definition go_walk (d : list str) :=
  fix go (l : list dtree) : list (list str) :=
    match l with [] => [] | x :: r => walk (d ++ [dname x]) x ++ go r end.

Lemma walk_unfold d nm children :
  walk d (DDir nm children) =
  if has_init children then mod_files d children ++ sub_inits d children ++ go_walk d children else [].
Proof. reflexivity. Qed.

(* the walk yields exactly: the .py files of every directory all of whose ancestors (down from the package
   directory, itself included) hold an __init__.py, and the __init__.py of each such sub-package *)
Theorem walk_spec : forall t d p, In p (walk d t) <-> InPkg d t p.
Proof.
  fix IH 1. intros [n|nm ch] d p.
  - simpl. split; [tauto | intros H; inversion H].
  - rewrite walk_unfold.
    assert (G : In p (go_walk d ch) <-> exists x, In x ch /\ InPkg (d ++ [dname x]) x p).
    { induction ch as [|x r IHl]; simpl.
      - split; [tauto | intros (x & [] & _)].
      - rewrite in_app_iff, IH, IHl. split.
        + intros [X|(y & Hy & X)]; [exists x; auto | exists y; auto].
        + intros (y & [<-|Hy] & X); [auto | right; exists y; auto]. }
    destruct (has_init ch) eqn:HI.
    + rewrite !in_app_iff, G. unfold mod_files, sub_inits. rewrite !in_flat_map. split.
      * intros [(t & Ht & X)|[(t & Ht & X)|(x & Hx & X)]].
        -- destruct t as [n|n c]; [|contradiction].
           destruct (ends_with DOT_PY n && negb (eqb_str n INIT_PY)) eqn:E; [|contradiction].
           destruct X as [<-|[]]. apply andb_true_iff in E. destruct E as [E1 E2].
           apply IP_mod; try assumption. apply negb_true_iff in E2. apply eqb_str_false. exact E2.
        -- destruct t as [n|n c]; [contradiction|]. destruct (has_init c) eqn:E; [|contradiction].
           destruct X as [<-|[]]. eapply IP_subinit; eauto.
        -- eapply IP_deeper; eauto.
      * intros H. inversion H; subst.
        -- left. exists (DFile n). split; [assumption|]. 
           assert (E : ends_with DOT_PY n && negb (eqb_str n INIT_PY) = true).
           { apply andb_true_iff. split; [assumption|]. apply negb_true_iff. apply eqb_str_false. assumption. }
           rewrite E. left. reflexivity.
        -- right. left. exists (DDir n ch'). split; [assumption|].
           match goal with E : has_init ch' = true |- _ => rewrite E end. left. reflexivity.
        -- right. right. exists x. auto.
    + split; [intros [] | intros H; inversion H; congruence].
Qed.

(* nothing outside the package directory is collected *)
Theorem walk_inside : forall t d p, InPkg d t p -> exists rest, p = d ++ rest /\ rest <> [].
Proof.
  intros t d p H. induction H.
  - exists [n]. split; [reflexivity | discriminate].
  - exists [n; INIT_PY]. split; [reflexivity | discriminate].
  - destruct IHInPkg as (rest & -> & _). exists (dname x :: rest). split; [rewrite <- app_assoc; reflexivity | discriminate].
Qed.
