(* StdEllipsisProofs.v — whatever the standard doctest module's ELLIPSIS matcher accepts, xdoctest's accepts:
   for all texts,  doctest._ellipsis_match(want, got)  ==>  checker._ellipsis_match(got, want).
   (The converse is false: xdoctest also swallows the blanks around the marker.) *)
From XD Require Import Model.Base Model.Ellipsis Model.StdDoctest Spec.EllipsisSpec
  Proofs.BaseFacts Proofs.EllipsisProofs.
From Coq Require Import Lia.
Open Scope N_scope.

(* ---------- xdoctest's matcher is match_pieces over its own split ---------- *)
Lemma ellipsis_match_pieces got want :
  ellipsis_match got want =
  if negb (contains marker want) then eqb_str want got else match_pieces (split_ell want) got.
Proof. reflexivity. Qed.

(* ---------- match_pieces in closed form, for any pieces ---------- *)
Lemma match_pieces_closed got w0 mids wl :
  match_pieces (w0 :: mids ++ [wl]) got =
    starts_with w0 got && ends_with wl got &&
    (length w0 <=? length got - length wl)%nat &&
    scan mids (slice (length w0) (length got - length wl) got).
Proof.
  unfold match_pieces.
  destruct (nonempty w0) eqn:N0.
  - destruct (starts_with w0 got) eqn:E1; cbv beta iota zeta; cbn [negb andb]; [|reflexivity].
    rewrite last_opt_app.
    destruct (nonempty wl) eqn:Nl.
    + destruct (ends_with wl got) eqn:E2; cbv beta iota zeta; cbn [negb andb]; [|reflexivity].
      rewrite removelast_last.
      destruct (Nat.ltb_spec (length got - length wl) (length w0));
        destruct (Nat.leb_spec (length w0) (length got - length wl)); try lia; reflexivity.
    + apply nonempty_false in Nl. subst wl. cbv beta iota zeta; cbn [negb andb].
      rewrite ends_with_nil. cbn [andb length]. rewrite Nat.sub_0_r.
      pose proof (starts_with_length _ _ E1) as L.
      destruct (Nat.ltb_spec (length got) (length w0)); [lia|].
      destruct (Nat.leb_spec (length w0) (length got)); [|lia].
      cbn [andb]. rewrite scan_nil_last. reflexivity.
  - apply nonempty_false in N0. subst w0. cbv beta iota zeta; cbn [negb andb].
    change ([] :: mids ++ [wl]) with (([] :: mids) ++ [wl]).
    rewrite last_opt_app. rewrite starts_with_nil. cbn [andb length].
    destruct (nonempty wl) eqn:Nl.
    + destruct (ends_with wl got) eqn:E2; cbv beta iota zeta; cbn [negb andb]; [|reflexivity].
      rewrite removelast_last.
      change (Nat.ltb (length got - length wl) 0) with false.
      change (0 <=? length got - length wl)%nat with true.
      cbv iota. cbn [andb]. rewrite scan_nil_head. reflexivity.
    + apply nonempty_false in Nl. subst wl. cbv beta iota zeta; cbn [negb andb].
      rewrite ends_with_nil. cbn [andb length]. rewrite Nat.sub_0_r.
      change (Nat.ltb (length got) 0) with false.
      change (0 <=? length got)%nat with true.
      cbv iota. cbn [andb].
      change (([] :: mids) ++ [[]]) with ([] :: (mids ++ [[]])).
      rewrite scan_nil_head, scan_nil_last. reflexivity.
Qed.

(* got = first piece ++ rest ++ last piece, the middle pieces in order inside rest *)
Definition PiecesMatch (w0 : str) (mids : list str) (wl got : str) : Prop :=
  exists rest, got = w0 ++ rest ++ wl /\ InOrder mids rest.

Lemma match_pieces_iff got w0 mids wl :
  match_pieces (w0 :: mids ++ [wl]) got = true <-> PiecesMatch w0 mids wl got.
Proof.
  rewrite match_pieces_closed, !andb_true_iff. split.
  - intros [[[H1 H2] H3] H4].
    apply starts_with_spec in H1 as [t H1]. apply ends_with_spec in H2 as [u H2].
    apply Nat.leb_le in H3. apply scan_iff in H4.
    exists (slice (length w0) (length got - length wl) got). split; [|exact H4].
    eapply split_three; eauto.
  - intros (rest & Hg & Hio). subst got. repeat split.
    + apply starts_with_app.
    + apply ends_with_spec. exists (w0 ++ rest). rewrite <- app_assoc. reflexivity.
    + apply Nat.leb_le. rewrite !app_length. lia.
    + apply scan_iff. rewrite slice_middle. exact Hio.
Qed.

(* ---------- the two splits cut at the same markers; xdoctest's pieces are the std pieces with text
   (the blanks around the marker) shaved off where a marker adjoins ---------- *)

(* PRel L stds xds: the first std piece is L ++ (first xd piece) ++ T, ..., the last is L' ++ (last xd piece) *)
Inductive PRel : str -> list str -> list str -> Prop :=
| pr_last L xp : PRel L [L ++ xp] [xp]
| pr_cons L xp T L1 stds xds : PRel L1 stds xds -> PRel L ((L ++ xp ++ T) :: stds) (xp :: xds).

Lemma splits_related : forall s sp p q k e lead,
  sp = q ++ p ++ lead -> (e = true -> p = [] /\ q = []) ->
  exists L, (e = false -> L = rev lead) /\ PRel L (std_go s sp k) (split_go s p q k e).
Proof.
  induction s as [|c s IH]; intros sp p q k e lead Hsp He.
  - cbn [std_go split_go]. exists (rev lead). split; [reflexivity|].
    subst sp. rewrite app_assoc, rev_app_distr. apply pr_last.
  - cbn [std_go split_go]. destruct k as [|k]; [|apply IH; assumption].
    destruct (starts_with marker (c :: s)) eqn:M.
    + (* a marker starts here: both emit a piece *)
      destruct (IH [] [] [] 2%nat true []) as (L1 & _ & R1); [reflexivity | auto |].
      exists (rev lead). split; [reflexivity|].
      subst sp. rewrite !rev_app_distr, <- app_assoc.
      eapply pr_cons. exact R1.
    + destruct (is_space c) eqn:SP.
      * destruct e.
        -- (* eaten by the separator *)
           destruct (He eq_refl) as [-> ->]. simpl in Hsp. subst sp.
           destruct (IH (c :: lead) [] [] 0%nat true (c :: lead)) as (L & _ & R); [reflexivity | auto |].
           exists L. split; [discriminate | exact R].
        -- destruct (IH (c :: sp) p (c :: q) 0%nat false lead) as (L & HL & R);
             [subst sp; reflexivity | discriminate |].
           exists L. split; [intros _; apply HL; reflexivity | exact R].
      * destruct (IH (c :: sp) (c :: q ++ p) [] 0%nat false lead) as (L & HL & R);
          [subst sp; simpl; rewrite <- app_assoc; reflexivity | discriminate |].
        destruct e.
        -- exists L. split; [discriminate | exact R].
        -- exists L. split; [intros _; apply HL; reflexivity | exact R].
Qed.

Lemma split_std_ell_related s : PRel [] (split_std s) (split_ell s).
Proof.
  destruct (splits_related s [] [] [] 0%nat false []) as (L & HL & R); [reflexivity | discriminate |].
  rewrite (HL eq_refl) in R. exact R.
Qed.

(* ---------- transfer of a match along PRel ---------- *)

(* a text g ends with the last piece and holds the earlier ones, in order, before it *)
Definition TailMatch (ps : list str) (g : str) : Prop :=
  exists mids wl rest, ps = mids ++ [wl] /\ g = rest ++ wl /\ InOrder mids rest.

Lemma PRel_nonempty L stds xds : PRel L stds xds -> stds <> [] /\ xds <> [].
Proof. intros H; inversion H; split; discriminate. Qed.

Lemma TailMatch_prepend ps x g : TailMatch ps g -> TailMatch ps (x ++ g).
Proof.
  intros (mids & wl & rest & -> & -> & H). exists mids, wl, (x ++ rest).
  split; [reflexivity|]. split; [rewrite app_assoc; reflexivity | apply InOrder_prepend; exact H].
Qed.

Lemma TailMatch_transfer L stds xds : PRel L stds xds -> forall g, TailMatch stds g -> TailMatch xds g.
Proof.
  induction 1 as [L xp | L xp T L1 stds xds R IH]; intros g (mids & wl & rest & E & Hg & Hio).
  - destruct mids as [|m mids].
    + simpl in E. inversion E; subst wl. exists [], xp, (rest ++ L).
      split; [reflexivity|]. split; [subst g; rewrite <- !app_assoc; reflexivity | constructor].
    + exfalso. inversion E as [[E1 E2]]. destruct mids; discriminate.
  - destruct mids as [|m mids].
    + exfalso. simpl in E. inversion E as [[E1 E2]]. apply (proj1 (PRel_nonempty _ _ _ R)). exact E2.
    + simpl in E. inversion E as [[E1 E2]]. subst m.
      inversion Hio as [|p0 ps0 g1 g2 Hio' Ep Eg]; subst.
      assert (TM : TailMatch (mids ++ [wl]) (g2 ++ wl)) by (exists mids, wl, g2; auto).
      apply IH in TM. destruct TM as (xm & xl & r2 & Ex & Eg2 & Hx).
      exists (xp :: xm), xl, ((g1 ++ L) ++ xp ++ (T ++ r2)).
      split; [rewrite Ex; reflexivity|]. split.
      * rewrite <- !app_assoc. rewrite <- Eg2. reflexivity.
      * constructor. apply InOrder_prepend. exact Hx.
Qed.

(* ---------- the theorem ---------- *)
Lemma PRel_length L stds xds : PRel L stds xds -> length stds = length xds.
Proof. induction 1; simpl; congruence. Qed.

Theorem std_ellipsis_implies_xdoctest want got :
  std_ellipsis_match want got = true -> ellipsis_match got want = true.
Proof.
  rewrite ellipsis_match_pieces. unfold std_ellipsis_match.
  destruct (contains marker want) eqn:Hc; cbn [negb]; [|exact (fun H => H)].
  destruct (split_ell_shape want Hc) as (x0 & xmids & xl & Hx).
  pose proof (split_std_ell_related want) as R. rewrite Hx in R.
  inversion R as [|L xp T L1 stds xds R' EL Es Exd]; subst.
  - exfalso. destruct xmids; discriminate.
  - (* split_std want = (x0 ++ T) :: stds, PRel L1 stds (xmids ++ [xl]) *)
    rewrite Hx.
    assert (NE : stds <> []) by apply (proj1 (PRel_nonempty _ _ _ R')).
    destruct (@exists_last _ stds NE) as (smids & sl & ->).
    rewrite !match_pieces_iff. intros (rest & Hg & Hio).
    assert (TM : TailMatch (smids ++ [sl]) (rest ++ sl)) by (exists smids, sl, rest; auto).
    apply (TailMatch_transfer _ _ _ R') in TM. apply (TailMatch_prepend _ T) in TM.
    destruct TM as (xm' & xl' & r' & E & Eg & Hio').
    apply app_inj_tail in E as [-> ->].
    exists r'. split; [|exact Hio'].
    subst got. rewrite <- Eg, <- !app_assoc. reflexivity.
Qed.

(* the converse fails: xdoctest also swallows the blanks around the marker *)
Example xdoctest_accepts_more :
  ellipsis_match [97;120;98] [97;32;46;46;46;32;98] = true /\          (* got 'axb', want 'a ... b' *)
  std_ellipsis_match [97;32;46;46;46;32;98] [97;120;98] = false.
Proof. vm_compute. split; reflexivity. Qed.
