(* DirInlineProofs.v — the inline/block classification of Model/DirInline.v (C04; finding F31). *)
From XD Require Import Model.Base Model.Parser Model.Text Model.Format Model.DirInline Proofs.BaseFacts Proofs.FormatProofs Proofs.FormatTrailing.
Open Scope N_scope.

(* inline iff some line of the statement is neither empty nor a comment *)
Theorem extract_inline_iff text :
  extract_inline text = true <->
  exists l, In l (splitlines text) /\ blank_line l = false /\ comment_line l = false.
Proof.
  unfold extract_inline. rewrite negb_true_iff. split.
  - intros H. induction (splitlines text) as [|l ls IH]; [discriminate H|].
    cbn [filter] in H. destruct (blank_line l) eqn:B; cbn [negb] in H.
    + destruct (IH H) as (x & Hx & R). exists x. split; [right; exact Hx | exact R].
    + cbn [forallb] in H. destruct (comment_line l) eqn:C.
      * cbn [andb] in H. destruct (IH H) as (x & Hx & R). exists x. split; [right; exact Hx | exact R].
      * exists l. split; [left; reflexivity | split; assumption].
  - intros (l & Hl & B & C).
    destruct (forallb comment_line (filter (fun l0 => negb (blank_line l0)) (splitlines text))) eqn:F; [|reflexivity].
    rewrite forallb_forall in F. assert (X : In l (filter (fun l0 => negb (blank_line l0)) (splitlines text))).
    { apply filter_In. split; [exact Hl | rewrite B; reflexivity]. }
    rewrite (F l X) in C. discriminate C.
Qed.

(* str.splitlines over lines that may be empty: every line back except an empty last one (as for the parser's own splitter) *)
Theorem splitlines_join_all ls : Forall Clean ls -> splitlines (join_nl ls) = drop_last_empty ls.
Proof.
  unfold splitlines, splitlines_keep.
  induction ls as [|l r IH]; intros H; [reflexivity|]. inversion H as [|? ? Hc Hr]; subst.
  destruct r as [|m r].
  - change (join_nl [l]) with l. rewrite <- (app_nil_r l) at 1. rewrite sk_chars by exact Hc. simpl. rewrite app_nil_r.
    unfold flush_rev. destruct (rev l) eqn:R.
    + assert (l = []) by (destruct l; [reflexivity | apply (f_equal (@length _)) in R; rewrite rev_length in R; discriminate]).
      subst. reflexivity.
    + rewrite <- R, rev_involutive. simpl. rewrite chomp_clean by exact Hc.
      destruct l; [discriminate R | reflexivity].
  - rewrite join_nl_cons. rewrite sk_chars by exact Hc. rewrite app_nil_r.
    cbn [splitlines_keep_aux]. assert (X : (NL =? CR) = false) by reflexivity. rewrite X.
    assert (Y : is_linebreak NL = true) by reflexivity. rewrite Y.
    cbn [map]. rewrite (IH Hr).
    change (rev (NL :: rev l)) with (rev (rev l) ++ [NL]). rewrite rev_involutive, chomp_line by exact Hc. reflexivity.
Qed.

Lemma drop_last_empty_incl ls (l : str) : In l (drop_last_empty ls) -> In l ls.
Proof.
  induction ls as [|a t IH]; intros H; [exact H|]. destruct t as [|m r].
  - simpl in H. destruct a; [destruct H | exact H].
  - change (drop_last_empty (a :: m :: r)) with (a :: drop_last_empty (m :: r)) in H.
    destruct H as [H|H]; [left; exact H | right; apply IH; exact H].
Qed.

Lemma drop_last_empty_keeps ls (l : str) : In l ls -> l <> [] -> In l (drop_last_empty ls).
Proof.
  induction ls as [|a t IH]; intros H Hne; [exact H|]. destruct t as [|m r].
  - destruct H as [H|[]]. subst a. simpl. destruct l; [exfalso; apply Hne; reflexivity | left; reflexivity].
  - change (drop_last_empty (a :: m :: r)) with (a :: drop_last_empty (m :: r)).
    destruct H as [H|H]; [left; exact H | right; apply IH; assumption].
Qed.

(* a statement written as lines each of which is empty or a comment: its directives are BLOCK directives -- however many
   empty lines stand in front of, between or behind the comments (fix F31) *)
Theorem comment_only_statement_is_block ls :
  Forall Clean ls -> Forall (fun l => blank_line l = true \/ comment_line l = true) ls ->
  extract_inline (join_nl ls) = false.
Proof.
  intros Hc Hk. destruct (extract_inline (join_nl ls)) eqn:E; [|reflexivity].
  apply extract_inline_iff in E. destruct E as (l & Hl & B & C).
  rewrite (splitlines_join_all ls Hc) in Hl. apply drop_last_empty_incl in Hl.
  rewrite Forall_forall in Hk. destruct (Hk l Hl) as [X|X]; [rewrite X in B | rewrite X in C]; discriminate.
Qed.

(* a statement one of whose lines holds code: its directives are INLINE *)
Theorem statement_with_code_is_inline ls l :
  Forall Clean ls -> In l ls -> blank_line l = false -> comment_line l = false ->
  extract_inline (join_nl ls) = true.
Proof.
  intros Hc Hl B C. apply extract_inline_iff. exists l. split; [|split; assumption].
  rewrite (splitlines_join_all ls Hc). apply drop_last_empty_keeps; [exact Hl|].
  intros E. subst l. discriminate B.
Qed.

(* the shape of F31: one directive comment, m empty lines in front of it and n behind it *)
Corollary block_directive_with_spacing c m n : Clean c -> comment_line c = true ->
  extract_inline (join_nl (repeat [] m ++ [c] ++ repeat [] n)) = false.
Proof.
  intros Hc Hk. apply comment_only_statement_is_block.
  - apply Forall_app. split; [apply Forall_forall; intros x Hx; apply repeat_spec in Hx; subst x; intros ? []|].
    apply Forall_app. split; [constructor; [exact Hc | constructor]|].
    apply Forall_forall; intros x Hx; apply repeat_spec in Hx; subst x; intros ? [].
  - apply Forall_app. split; [apply Forall_forall; intros x Hx; apply repeat_spec in Hx; subst x; left; reflexivity|].
    apply Forall_app. split; [constructor; [right; exact Hk | constructor]|].
    apply Forall_forall; intros x Hx; apply repeat_spec in Hx; subst x; left; reflexivity.
Qed.

(* ... which the rule before the fix got wrong as soon as two empty lines followed (or one stood in front) *)
Definition demo_directive_comment : str := [35;32;120;100;111;99;116;101;115;116;58;32;43;83;75;73;80].   (* "# xdoctest: +SKIP" *)

Theorem block_with_spacing_refuted_before_F31 :
  extract_inline_before_F31 (join_nl [demo_directive_comment; []; []]) = true /\
  extract_inline_before_F31 (join_nl [[]; demo_directive_comment]) = true /\
  extract_inline (join_nl [demo_directive_comment; []; []]) = false /\
  extract_inline (join_nl [[]; demo_directive_comment]) = false /\
  Clean demo_directive_comment /\ comment_line demo_directive_comment = true.
Proof.
  repeat split; try (vm_compute; reflexivity).
  intros c Hc. unfold demo_directive_comment in Hc.
  repeat (destruct Hc as [Hc|Hc]; [subst c; reflexivity|]). destruct Hc.
Qed.
