(* ProcProofs.v — process-global state is restored after every outcome (C12); the stdout
   recorded for a doctest is exactly what its code wrote (C01). *)
From XD Require Import Model.Base Model.Proc Proofs.BaseFacts.
Open Scope N_scope.

(* ---------- sys.path ---------- *)
Lemma remove_insert {A} i (x : A) l : (i <= length l)%nat -> remove_at i (insert_at i x l) = l.
Proof.
  revert l. induction i as [|k IH]; intros l H; [reflexivity|].
  destruct l as [|y l']; simpl in *; [lia|]. rewrite IH by lia. reflexivity.
Qed.

Lemma nth_insert {A} i (x : A) l : (i <= length l)%nat -> nth_error (insert_at i x l) i = Some x.
Proof.
  revert l. induction i as [|k IH]; intros l H; [reflexivity|].
  destruct l as [|y l']; simpl in *; [lia|]. apply IH. lia.
Qed.

Lemma length_insert {A} i (x : A) l : length (insert_at i x l) = S (length l).
Proof.
  revert l. induction i as [|k IH]; intros l; [reflexivity|].
  destruct l as [|y l']; simpl; [reflexivity | rewrite IH; reflexivity].
Qed.

Lemma ppc_index_bound len index : (- Z.of_nat len - 1 <= index <= Z.of_nat len)%Z -> (ppc_index len index <= len)%nat.
Proof. unfold ppc_index. intros H. destruct (index <? 0)%Z eqn:E; lia. Qed.

(* a body that leaves sys.path alone: the context restores it exactly, for every admissible index
   (negative ones too) and whatever way the body ends *)
Theorem path_context path d index :
  (- Z.of_nat (length path) - 1 <= index <= Z.of_nat (length path))%Z ->
  let '(path', i) := ppc_enter path d index in ppc_exit path' d i = PPC_ok path.
Proof.
  intros H. unfold ppc_enter. pose proof (ppc_index_bound _ _ H) as B.
  set (i := ppc_index (length path) index) in *. unfold ppc_exit.
  rewrite length_insert. destruct (Nat.leb_spec (S (length path)) i); [lia|].
  rewrite nth_insert by exact B. rewrite eqb_str_refl, remove_insert by exact B. reflexivity.
Qed.

Lemma index_of_spec d l r : index_of d l = Some r ->
  nth_error l r = Some d /\ forall j, (j < r)%nat -> nth_error l j <> Some d.
Proof.
  revert r. induction l as [|y l IH]; intros r H; simpl in H; [discriminate|].
  destruct (eqb_str d y) eqn:E.
  - inversion H; subst. apply eqb_str_spec in E. subst y. split; [reflexivity | intros j Hj; lia].
  - destruct (index_of d l) as [k|] eqn:K; [|discriminate]. inversion H; subst.
    destruct (IH k eq_refl) as [A B]. split; [exact A|].
    intros [|j] Hj; simpl.
    + intro X. inversion X; subst. rewrite eqb_str_refl in E. discriminate.
    + apply B. lia.
Qed.

Lemma index_of_none d l : index_of d l = None -> ~ In d l.
Proof.
  induction l as [|y l IH]; simpl; [tauto|]. destruct (eqb_str d y) eqn:E; [discriminate|].
  destruct (index_of d l); [discriminate|]. intros _ [X|X].
  - subst y. rewrite eqb_str_refl in E. discriminate.
  - exact (IH eq_refl X).
Qed.

(* a body that changed sys.path: exit removes exactly one occurrence of the temporary entry - the one at the
   remembered index if it is still there, else the first one; it raises RuntimeError iff the entry is gone,
   and (mirrored from the code) IndexError when the list became shorter than the remembered index *)
Theorem path_recovery path' d i :
  match ppc_exit path' d i with
  | PPC_ok p'' => exists j, nth_error path' j = Some d /\ p'' = remove_at j path' /\
                            (nth_error path' i = Some d -> j = i) /\
                            (nth_error path' i <> Some d -> forall k, (k < j)%nat -> nth_error path' k <> Some d)
  | PPC_runtime_error => ~ In d path' /\ (i < length path')%nat
  | PPC_index_error => (length path' <= i)%nat
  end.
Proof.
  unfold ppc_exit. destruct (Nat.leb_spec (length path') i) as [L|L]; [exact L|].
  destruct (nth_error path' i) as [x|] eqn:N.
  - destruct (eqb_str x d) eqn:E.
    + apply eqb_str_spec in E. subst x. exists i. repeat split; try assumption; try reflexivity.
      intros X. contradiction.
    + destruct (index_of d path') as [r|] eqn:R.
      * destruct (index_of_spec _ _ _ R) as [A B]. exists r. split; [exact A|]. split; [reflexivity|]. split.
        -- intros X. inversion X; subst. rewrite eqb_str_refl in E. discriminate.
        -- intros _. exact B.
      * split; [apply index_of_none; exact R | exact L].
  - apply nth_error_None in N. lia.
Qed.

(* ---------- stdout, warnings ---------- *)
Lemma do_ops_stderr s ops : p_stderr (do_ops s ops) = p_stderr s.
Proof.
  unfold do_ops. revert s. induction ops as [|o ops IH]; intros s; simpl; [reflexivity|].
  rewrite IH. destruct o; simpl; try reflexivity. destruct (Nat.eqb (p_stdout s) CAP); reflexivity.
Qed.

Lemma with_cap_restores orig pos s body :
  let '(s', _, _) := with_cap orig pos s body in p_stdout s' = orig /\ p_stderr s' = p_stderr s.
Proof. unfold with_cap. simpl. split; [reflexivity | rewrite do_ops_stderr; reflexivity]. Qed.

Lemma run_parts_proc_stdout orig bodies : forall pos s logged,
  p_stdout s = orig ->
  p_stdout (fst (run_parts_proc orig pos s bodies logged)) = orig /\
  p_stderr (fst (run_parts_proc orig pos s bodies logged)) = p_stderr s.
Proof.
  induction bodies as [|b rest IH]; intros pos s logged H; [split; [exact H | reflexivity]|].
  cbn [run_parts_proc]. unfold with_cap. cbn beta iota zeta.
  destruct (IH (length (p_cap_text (do_ops (set_stdout s CAP) b)))
               (set_stdout (do_ops (set_stdout s CAP) b) orig)
               (logged ++ [skipn pos (p_cap_text (do_ops (set_stdout s CAP) b))]) eq_refl) as [A B].
  split; [exact A|]. etransitivity; [exact B|]. simpl. rewrite do_ops_stderr. reflexivity.
Qed.

(* after running a doctest, whatever its parts did and however the run ended: sys.stdout and sys.stderr are
   the original objects, the warnings filter state and showwarning are what they were *)
Theorem run_restores s bodies :
  let s' := fst (run_proc s bodies) in
  p_stdout s' = p_stdout s /\ p_stderr s' = p_stderr s /\
  p_filters s' = p_filters s /\ p_showwarning s' = p_showwarning s.
Proof.
  unfold run_proc.
  destruct (run_parts_proc (p_stdout s) 0 (mkProc (p_stdout s) (p_stderr s) (p_filters s) RECORDING []) bodies [])
    as [s1 logged] eqn:R. simpl.
  pose proof (run_parts_proc_stdout (p_stdout s) bodies 0%nat
                (mkProc (p_stdout s) (p_stderr s) (p_filters s) RECORDING []) [] eq_refl) as [A B].
  rewrite R in A, B. simpl in A, B. auto.
Qed.

(* ---------- capture bookkeeping ---------- *)
(* the text a body writes to the capture stream: writes made while sys.stdout is the capture object *)
Fixpoint captured_from (out : obj) (body : list op) : str :=
  match body with
  | [] => []
  | Write t :: r => (if Nat.eqb out CAP then t else []) ++ captured_from out r
  | SetStdout v :: r => captured_from v r
  | _ :: r => captured_from out r
  end.
Definition captured (body : list op) : str := captured_from CAP body.

Lemma do_ops_cap_text body : forall s,
  p_cap_text (do_ops s body) = p_cap_text s ++ captured_from (p_stdout s) body.
Proof.
  unfold do_ops. induction body as [|o r IH]; intros s; simpl; [rewrite app_nil_r; reflexivity|].
  rewrite IH. destruct o; simpl; try reflexivity.
  destruct (Nat.eqb (p_stdout s) CAP) eqn:E; simpl; rewrite ?E, ?app_assoc; reflexivity.
Qed.

Lemma run_parts_proc_logged orig bodies : forall pos s logged,
  pos = length (p_cap_text s) ->
  snd (run_parts_proc orig pos s bodies logged) = logged ++ map captured bodies /\
  p_cap_text (fst (run_parts_proc orig pos s bodies logged)) = p_cap_text s ++ concat (map captured bodies).
Proof.
  induction bodies as [|b rest IH]; intros pos s logged Hp.
  - simpl. rewrite !app_nil_r. split; reflexivity.
  - cbn [run_parts_proc]. unfold with_cap. cbn beta iota zeta.
    assert (T : p_cap_text (do_ops (set_stdout s CAP) b) = p_cap_text s ++ captured b).
    { rewrite do_ops_cap_text. reflexivity. }
    destruct (IH (length (p_cap_text (do_ops (set_stdout s CAP) b)))
                 (set_stdout (do_ops (set_stdout s CAP) b) orig)
                 (logged ++ [skipn pos (p_cap_text (do_ops (set_stdout s CAP) b))]) eq_refl) as [A B].
    split.
    + etransitivity; [exact A|]. rewrite T, Hp, skipn_app_exact, <- app_assoc. reflexivity.
    + etransitivity; [exact B|]. simpl. rewrite T, <- app_assoc. reflexivity.
Qed.

(* the stdout recorded for each part is exactly what that part wrote to the capture stream: nothing lost,
   duplicated or attributed to another part *)
Theorem capture_exact s bodies :
  snd (run_proc s bodies) = map captured bodies /\
  concat (snd (run_proc s bodies)) = p_cap_text (fst (run_proc s bodies)).
Proof.
  unfold run_proc.
  destruct (run_parts_proc (p_stdout s) 0 (mkProc (p_stdout s) (p_stderr s) (p_filters s) RECORDING []) bodies [])
    as [s1 logged] eqn:R. simpl.
  pose proof (run_parts_proc_logged (p_stdout s) bodies 0%nat
                (mkProc (p_stdout s) (p_stderr s) (p_filters s) RECORDING []) [] eq_refl) as [A B].
  rewrite R in A, B. simpl in A, B. subst logged. split; [reflexivity | symmetry; exact B].
Qed.
