(* CompatProofs.v — what the standard doctest module accepts by exact comparison, xdoctest accepts (C20);
   and a witness that the full compatibility statement is false of the faithful model (finding F6). *)
From XD Require Import Model.Base Model.Ellipsis Model.Checker Model.Text Model.Parser Model.Directive Model.RunLoop
  Proofs.BaseFacts Proofs.CheckerProofs Proofs.RunWant Proofs.RunDecide.
Open Scope N_scope.

(* the standard OutputChecker's first test is got == want: under every flag setting xdoctest accepts that *)
Theorem exact_output_accepted fl got want : got = want -> check_output fl got want = true.
Proof. intros ->. apply check_output_identical. Qed.

(* a want is satisfied by the exact output of its own example, whatever was printed before *)
Theorem exact_want_passes fl want um got ev : ReprSafe ev -> got = want ->
  part_check fl want um got ev = GW_ok.
Proof.
  intros Hs ->. apply (part_check_ok_iff fl want um want ev Hs).
  exists want. split; [apply candidate_last|].
  unfold CandOK. destruct ev as [|r|].
  - apply check_output_identical.
  - destruct want as [|c w]; [right|left; split; [discriminate|]]; try apply check_output_identical.
    unfold check_output. reflexivity.
  - unfold ReprSafe in Hs. congruence.
Qed.

(* an expected exception whose traceback block ends in exactly the raised exception's final line passes *)
Theorem exact_traceback_passes fl last want : extract_exc_want want = Some last ->
  check_exception fl last want = Some true.
Proof.
  intros H. destruct (check_exception_spec fl last want last H) as [[_ A] _]. apply A.
  left. apply check_output_identical.
Qed.

(* the echoed value of an expression example (nothing printed) is compared by its repr *)
Theorem echoed_value_passes fl r : r <> [] -> check_got_vs_want fl r [] (EvalRepr r) = GW_ok.
Proof. intros H. unfold check_got_vs_want. simpl. rewrite check_output_identical. reflexivity. Qed.

(* F6: an expression example that prints and returns: stdout followed by the repr is what the standard module
   wants; the faithful model rejects it *)
Definition f6_stdout : str := [105;110;32;102;32;51;10].           (* "in f 3\n" *)
Definition f6_repr : str := [53].                                   (* "5" *)
Definition f6_want : str := [105;110;32;102;32;51;10;53].           (* "in f 3\n5" *)
Theorem compat_refuted_F6 :
  part_check default_flags f6_want [] f6_stdout (EvalRepr f6_repr) = GW_gotwant.
Proof. vm_compute. reflexivity. Qed.

From XD Require Import Model.StdDoctest.
(* finding F6f: under ELLIPSIS the standard matcher accepts the got b'abc' for the want b... ; xdoctest's comparison removes
   the prefix letter from the got only and rejects *)
Definition f6f_want : str := [98;46;46;46]%N.      (* b... *)
Definition f6f_got : str := [98;39;97;98;99;39]%N.       (* b'abc' *)
Theorem compat_refuted_F6f :
  std_ellipsis_match f6f_want f6f_got = true /\ check_output default_flags f6f_got f6f_want = false.
Proof. vm_compute. split; reflexivity. Qed.

From XD Require Import Model.StdOutput.
(* findings F6g, F6h, F6i (each is a hypothesis of StdOutputProofs.std_output_accepted that cannot be dropped):
   the standard OutputChecker accepts, check_output in xdoctest's default state does not *)
Definition f6g_want : str := BLANKLINE.                                  (* the want line <BLANKLINE> ... *)
Definition f6g_got : str := BLANKLINE ++ [NL].                           (* ... for an output that IS the text <BLANKLINE> *)
Theorem compat_refuted_F6g :
  std_check_output false false (f6g_want ++ [NL]) f6g_got = true /\ check_output default_flags f6g_got f6g_want = false.
Proof. vm_compute. split; reflexivity. Qed.

Definition f6h_want : str := [97;46;46;46]%N.                            (* a... *)
Definition f6h_got : str := [97;98;13;99;10]%N.                          (* "ab\rc\n": a carriage return inside the line *)
Theorem compat_refuted_F6h :
  std_check_output true false (f6h_want ++ [NL]) f6h_got = true /\ check_output default_flags f6h_got f6h_want = false.
Proof. vm_compute. split; reflexivity. Qed.

Definition f6i_want : str := [46;27;91;48;109;46;46;46]%N.               (* ".<ESC>[0m..." *)
Definition f6i_got : str := [46;27;91;48;109;97;10]%N.                   (* ".<ESC>[0ma\n" *)
Theorem compat_refuted_F6i :
  std_check_output true false (f6i_want ++ [NL]) f6i_got = true /\ check_output default_flags f6i_got f6i_want = false.
Proof. vm_compute. split; reflexivity. Qed.

Definition f6d_want : str := [49]%N.                                     (* 1 *)
Definition f6d_got : str := TRUE_NL.                                     (* "True\n" *)
Theorem compat_refuted_F6d :
  std_check_output false false (f6d_want ++ [NL]) f6d_got = true /\ check_output default_flags f6d_got f6d_want = false.
Proof. vm_compute. split; reflexivity. Qed.
