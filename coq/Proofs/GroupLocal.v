(* GroupLocal.v — grouping of labelled lines (_group_labeled_lines) is local:
   (1) every group / chunk holds lines of one class (text, source, want);
   (2) at a clean boundary (the class changes and the next line is not a want) the chunks of the whole are the chunks
       of the left piece followed by the chunks of the right piece.  (C13; used by the re-parse theorem of C18.) *)
From Coq Require Import List Arith Lia Bool NArith.
From XD Require Import Model.Base Model.Parser Spec.Partition Proofs.BaseFacts Proofs.ParserProofs.
Import ListNotations.
Local Open Scope nat_scope.

(* ---------- classes of labels ---------- *)
Inductive lclass := KText | KSrc | KWant.
Definition class_of (l : label) : lclass :=
  match l with TEXT => KText | DSRC | DCNT => KSrc | WANT => KWant end.
Definition GroupClassOK (g : label * list (label * str)) : Prop :=
  Forall (fun it => class_of (fst it) = class_of (fst g)) (snd g) /\ snd g <> [].

Lemma label_eqb_eq a b : label_eqb a b = true <-> a = b.
Proof. destruct a, b; cbn; split; intros H; try reflexivity; try discriminate. Qed.
Lemma olabel_eqb_some a b : olabel_eqb (Some a) (Some b) = true <-> a = b.
Proof. apply label_eqb_eq. Qed.

(* pass 1: an item joins the open group only if it has the label of the previous item, or continues a DSRC line *)
Lemma pass1_class : forall items left state cur,
  (forall s, state = Some s -> cur <> [] /\ Forall (fun it => class_of (fst it) = class_of s) cur /\
                               exists x r, cur = x :: r /\ left = Some (fst x)) ->
  (state = None -> left = None /\ cur = []) ->
  Forall GroupClassOK (pass1 left items state cur).
Proof.
  induction items as [|mid rest IH]; intros left state cur HS HN.
  - cbn [pass1]. destruct cur as [|c cur]; [constructor|]. destruct state as [s|]; [|constructor].
    destruct (HS s eq_refl) as (NE & F & _). constructor; [|constructor]. split; cbn [fst snd].
    + apply Forall_rev. exact F.
    + intros E. apply (f_equal (@rev _)) in E. rewrite rev_involutive in E. cbn in E. discriminate.
  - cbn [pass1].
    set (right := match rest with r :: _ => Some (fst r) | [] => None end).
    destruct ((negb (olabel_eqb left (Some (fst mid))) || label_eqb (fst mid) DSRC && is_lab DCNT right) &&
              negb (is_lab DSRC left && label_eqb (fst mid) DCNT)) eqn:NG.
    + assert (K : Forall GroupClassOK (pass1 (Some (fst mid)) rest (Some (fst mid)) [mid])).
      { apply IH; [|discriminate]. intros s E. inversion E; subst s. split; [discriminate|]. split.
        - constructor; [reflexivity | constructor].
        - exists mid, []. split; reflexivity. }
      destruct state as [s|]; [|exact K].
      destruct (HS s eq_refl) as (NE & F & _). constructor; [|exact K]. split; cbn [fst snd].
      * apply Forall_rev. exact F.
      * intros E. apply (f_equal (@rev _)) in E. rewrite rev_involutive in E. cbn in E. contradiction.
    + (* joins the open group *)
      destruct state as [s|].
      * destruct (HS s eq_refl) as (NE & F & x & r & EC & EL). apply IH; [|discriminate].
        intros s' E. inversion E; subst s'. split; [discriminate|]. split.
        -- constructor; [|exact F].
           (* class of mid = class of s: mid has the label of x, or x is DSRC and mid DCNT *)
           subst cur left. inversion F as [|? ? Fx _]; subst.
           apply andb_false_iff in NG. destruct NG as [NG|NG].
           ++ apply orb_false_iff in NG. destruct NG as [NG _]. apply negb_false_iff in NG.
              apply olabel_eqb_some in NG. rewrite <- NG. exact Fx.
           ++ apply negb_false_iff in NG. apply andb_true_iff in NG. destruct NG as [N1 N2].
              unfold is_lab in N1. apply olabel_eqb_some in N1. apply label_eqb_eq in N2.
              rewrite N2. rewrite <- Fx, <- N1. reflexivity.
        -- exists mid, cur. split; reflexivity.
      * (* no open group: the first item always opens one *)
        destruct (HN eq_refl) as [-> ->]. cbn in NG. discriminate.
Qed.

Lemma pass2_class : forall groups left state cur,
  Forall GroupClassOK groups ->
  (forall s, state = Some s -> left = Some s /\ cur <> [] /\ Forall (fun it => class_of (fst it) = class_of s) cur) ->
  (state = None -> left = None /\ cur = []) ->
  Forall GroupClassOK (pass2 left groups state cur).
Proof.
  induction groups as [|mid rest IH]; intros left state cur HG HS HN.
  - cbn [pass2]. destruct cur as [|c cur]; [constructor|]. destruct state as [s|]; [|constructor].
    destruct (HS s eq_refl) as (_ & NE & F). constructor; [|constructor]. split; assumption.
  - inversion HG as [|? ? [Fm NEm] Hr]; subst. cbn [pass2].
    set (right := match rest with r :: _ => Some (fst r) | [] => None end).
    destruct (olabel_eqb left (Some (fst mid)) && negb (is_lab WANT right)) eqn:C.
    + apply andb_true_iff in C. destruct C as [C _].
      destruct state as [s|].
      * destruct (HS s eq_refl) as (EL & NE & F). subst left. apply olabel_eqb_some in C.
        apply IH; [exact Hr | | discriminate].
        intros s' E. inversion E; subst s'. split; [rewrite C; reflexivity|]. split.
        -- destruct cur; [contradiction | discriminate].
        -- apply Forall_app. split; [exact F|]. rewrite C. exact Fm.
      * destruct (HN eq_refl) as [-> _]. cbn in C. discriminate.
    + assert (K : Forall GroupClassOK (pass2 (Some (fst mid)) rest (Some (fst mid)) (snd mid))).
      { apply IH; [exact Hr | | discriminate]. intros s' E. inversion E; subst s'. repeat split; assumption. }
      destruct state as [s|]; [|exact K].
      destruct (HS s eq_refl) as (EL & NE & F). subst left. constructor; [|exact K]. split; assumption.
Qed.

(* ---------- pass 3 keeping the labels ---------- *)
Inductive lchunk :=
| LText (items : list (label * str))
| LCode (src want : list (label * str)).
Definition forget (c : lchunk) : chunk :=
  match c with LText t => TextChunk (map snd t) | LCode s w => CodeChunk (map snd s) (map snd w) end.
Definition litems (c : lchunk) : list (label * str) :=
  match c with LText t => t | LCode s w => s ++ w end.

Fixpoint lpass3 (groups : list (label * list (label * str))) (prev : option (list (label * str)))
  : res (list lchunk) :=
  let flush := match prev with Some p => [LCode p []] | None => [] end in
  match groups with
  | [] => match prev with
          | Some [] => Ok []
          | Some p => Ok [LCode p []]
          | None => Ok []
          end
  | (state, group) :: rest =>
      match state with
      | TEXT => do r <- lpass3 rest None; Ok (flush ++ LText group :: r)
      | WANT =>
          match prev with
          | None => Err E_Assertion
          | Some p => do r <- lpass3 rest None; Ok (LCode p group :: r)
          end
      | DSRC | DCNT => do r <- lpass3 rest (Some group); Ok (flush ++ r)
      end
  end.

Definition res_map {A B} (f : A -> B) (r : res A) : res B :=
  match r with Ok x => Ok (f x) | Err e => Err e end.

Lemma lpass3_forget : forall groups prev,
  pass3 groups (option_map (map snd) prev) = res_map (map forget) (lpass3 groups prev).
Proof.
  induction groups as [|[state group] rest IH]; intros prev.
  - cbn [pass3 lpass3]. destruct prev as [[|p ps]|]; reflexivity.
  - cbn [pass3 lpass3]. destruct state.
    + specialize (IH None). cbn [option_map] in IH. rewrite IH.
      destruct (lpass3 rest None) as [r|e]; [|reflexivity]. cbn [bind res_map].
      destruct prev as [p|]; cbn [option_map]; cbn [map app forget]; reflexivity.
    + specialize (IH (Some group)). cbn [option_map] in IH. rewrite IH.
      destruct (lpass3 rest (Some group)) as [r|e]; [|reflexivity]. cbn [bind res_map].
      destruct prev as [p|]; cbn [option_map]; cbn [map app forget]; reflexivity.
    + specialize (IH (Some group)). cbn [option_map] in IH. rewrite IH.
      destruct (lpass3 rest (Some group)) as [r|e]; [|reflexivity]. cbn [bind res_map].
      destruct prev as [p|]; cbn [option_map]; cbn [map app forget]; reflexivity.
    + destruct prev as [p|]; cbn [option_map]; [|reflexivity].
      specialize (IH None). cbn [option_map] in IH. rewrite IH.
      destruct (lpass3 rest None) as [r|e]; reflexivity.
Qed.

Definition opt_items (o : option (list (label * str))) : list (label * str) :=
  match o with Some p => p | None => [] end.

Lemma lpass3_items : forall groups prev lcs, lpass3 groups prev = Ok lcs ->
  concat (map litems lcs) = opt_items prev ++ glines groups.
Proof.
  induction groups as [|[state group] rest IH]; intros prev lcs H.
  - cbn [lpass3] in H. destruct prev as [[|p ps]|]; inversion H; cbn; rewrite ?app_nil_r; reflexivity.
  - cbn [lpass3] in H. unfold glines. cbn [map concat snd]. fold (glines rest).
    destruct state.
    + destruct (lpass3 rest None) as [r|e] eqn:R; cbn [bind] in H; [|discriminate]. inversion H; subst lcs.
      rewrite map_app, concat_app. cbn [map concat litems]. rewrite (IH _ _ R). cbn [opt_items app].
      destruct prev; cbn; rewrite ?app_nil_r, <- ?app_assoc; reflexivity.
    + destruct (lpass3 rest (Some group)) as [r|e] eqn:R; cbn [bind] in H; [|discriminate]. inversion H; subst lcs.
      rewrite map_app, concat_app. rewrite (IH _ _ R). cbn [opt_items].
      destruct prev; cbn; rewrite ?app_nil_r, <- ?app_assoc; reflexivity.
    + destruct (lpass3 rest (Some group)) as [r|e] eqn:R; cbn [bind] in H; [|discriminate]. inversion H; subst lcs.
      rewrite map_app, concat_app. rewrite (IH _ _ R). cbn [opt_items].
      destruct prev; cbn; rewrite ?app_nil_r, <- ?app_assoc; reflexivity.
    + destruct prev as [p|]; [|discriminate].
      destruct (lpass3 rest None) as [r|e] eqn:R; cbn [bind] in H; [|discriminate]. inversion H; subst lcs.
      cbn [map concat litems]. rewrite (IH _ _ R). cbn [opt_items app]. rewrite <- app_assoc. reflexivity.
Qed.

Definition AllClass (k : lclass) (items : list (label * str)) : Prop :=
  Forall (fun it => class_of (fst it) = k) items.
Definition LChunkOK (c : lchunk) : Prop :=
  match c with
  | LText t => AllClass KText t
  | LCode s w => AllClass KSrc s /\ AllClass KWant w /\ s <> []
  end.

Lemma lpass3_class : forall groups prev lcs,
  Forall GroupClassOK groups -> (forall p, prev = Some p -> AllClass KSrc p /\ p <> []) ->
  lpass3 groups prev = Ok lcs -> Forall LChunkOK lcs.
Proof.
  induction groups as [|[state group] rest IH]; intros prev lcs HG HP H.
  - cbn [lpass3] in H. destruct prev as [[|p ps]|]; inversion H; subst; [constructor | | constructor].
    constructor; [|constructor]. destruct (HP _ eq_refl) as [A B]. split; [exact A|]. split; [constructor | exact B].
  - inversion HG as [|? ? [Fg NEg] Hr]; subst. cbn [fst snd] in Fg, NEg. cbn [lpass3] in H.
    assert (FL : forall lcs', Forall LChunkOK lcs' ->
                 Forall LChunkOK (match prev with Some p => [LCode p []] | None => [] end ++ lcs')).
    { intros lcs' K. destruct prev as [p|]; [|exact K]. constructor; [|exact K].
      destruct (HP p eq_refl) as [A B]. repeat split; [exact A | constructor | exact B]. }
    destruct state.
    + destruct (lpass3 rest None) as [r|e] eqn:R; cbn [bind] in H; [|discriminate]. inversion H; subst lcs.
      apply FL. constructor; [exact Fg|]. eapply IH; [exact Hr | | exact R]. intros p E; discriminate.
    + destruct (lpass3 rest (Some group)) as [r|e] eqn:R; cbn [bind] in H; [|discriminate]. inversion H; subst lcs.
      apply FL. eapply IH; [exact Hr | | exact R]. intros p E. inversion E; subst p. split; assumption.
    + destruct (lpass3 rest (Some group)) as [r|e] eqn:R; cbn [bind] in H; [|discriminate]. inversion H; subst lcs.
      apply FL. eapply IH; [exact Hr | | exact R]. intros p E. inversion E; subst p. split; assumption.
    + destruct prev as [p|]; [|discriminate].
      destruct (lpass3 rest None) as [r|e] eqn:R; cbn [bind] in H; [|discriminate]. inversion H; subst lcs.
      destruct (HP p eq_refl) as [A B]. constructor; [repeat split; assumption|].
      eapply IH; [exact Hr | | exact R]. intros q E; discriminate.
Qed.

(* the chunks, with the labels of their lines: the labelled lines in order, every chunk of one kind *)
Theorem group_lines_labelled ll gs : group_lines ll = Ok gs ->
  exists lcs, gs = map forget lcs /\ concat (map litems lcs) = ll /\ Forall LChunkOK lcs.
Proof.
  unfold group_lines. intros H.
  change (@None (list str)) with (option_map (map (@snd label str)) None) in H.
  rewrite lpass3_forget in H.
  destruct (lpass3 (pass2 None (pass1 None ll None []) None []) None) as [lcs|e] eqn:L; [|discriminate].
  cbn [res_map] in H. inversion H; subst gs. exists lcs. split; [reflexivity|].
  assert (G1 : Forall GroupClassOK (pass1 None ll None [])).
  { apply pass1_class; [intros s E; discriminate | intros _; split; reflexivity]. }
  assert (G2 : Forall GroupClassOK (pass2 None (pass1 None ll None []) None [])).
  { apply pass2_class; [exact G1 | intros s E; discriminate | intros _; split; reflexivity]. }
  split.
  - rewrite (lpass3_items _ _ _ L). cbn [opt_items app].
    rewrite pass2_lines; [|intros _; split; reflexivity | reflexivity].
    rewrite pass1_lines; [|intros _; split; reflexivity]. reflexivity.
  - eapply lpass3_class; [exact G2 | | exact L]. intros p E; discriminate.
Qed.

(* ---------- clean boundaries ---------- *)
Lemma class_neq_label x y : class_of x <> class_of y -> label_eqb x y = false.
Proof. destruct x, y; cbn; intros H; try reflexivity; exfalso; apply H; reflexivity. Qed.
Lemma class_neq_not_cnt x y : class_of x <> class_of y -> label_eqb DSRC x && label_eqb y DCNT = false.
Proof. destruct x, y; cbn; intros H; try reflexivity; exfalso; apply H; reflexivity. Qed.

Lemma pass1_boundary x (yi : label * str) B' s cur : class_of x <> class_of (fst yi) ->
  pass1 (Some x) (yi :: B') (Some s) cur = (s, rev cur) :: pass1 None (yi :: B') None [].
Proof.
  intros H. cbn [pass1]. cbn [olabel_eqb is_lab].
  rewrite (class_neq_label _ _ H), (class_neq_not_cnt _ _ H). cbn [negb orb andb]. reflexivity.
Qed.
Lemma class_neq_not_cnt' x y : class_of x <> class_of y -> label_eqb x DSRC && label_eqb DCNT y = false.
Proof. destruct x, y; cbn; intros H; try reflexivity; exfalso; apply H; reflexivity. Qed.

Definition newgrp (left : option label) (m : label) (right : option label) : bool :=
  (negb (olabel_eqb left (Some m)) || (label_eqb m DSRC && is_lab DCNT right))
  && negb (is_lab DSRC left && label_eqb m DCNT).
Definition head_label (l : list (label * str)) : option label :=
  match l with r :: _ => Some (fst r) | [] => None end.

Lemma pass1_cons left mid rest state cur :
  pass1 left (mid :: rest) state cur =
  if newgrp left (fst mid) (head_label rest) then
    match state with
    | Some s => (s, rev cur) :: pass1 (Some (fst mid)) rest (Some (fst mid)) [mid]
    | None => pass1 (Some (fst mid)) rest (Some (fst mid)) [mid]
    end
  else pass1 (Some (fst mid)) rest state (mid :: cur).
Proof. reflexivity. Qed.

Lemma pass1_nil left state cur :
  pass1 left [] state cur = match cur, state with [], _ => [] | _, Some s => [(s, rev cur)] | _, None => [] end.
Proof. reflexivity. Qed.

Lemma newgrp_last left a y : class_of a <> class_of y -> newgrp left a (Some y) = newgrp left a None.
Proof. intros H. unfold newgrp. cbn [is_lab olabel_eqb]. rewrite (class_neq_not_cnt' _ _ H). rewrite andb_false_r. reflexivity. Qed.

Lemma pass1_app : forall A left state cur (yi : label * str) B' d,
  A <> [] -> class_of (fst (last A d)) <> class_of (fst yi) ->
  (state = None -> left = None /\ cur = []) ->
  pass1 left (A ++ yi :: B') state cur = pass1 left A state cur ++ pass1 None (yi :: B') None [].
Proof.
  induction A as [|a A IH]; intros left state cur yi B' d NE HC HN; [contradiction|].
  destruct A as [|a' A''].
  - (* a is the last item of the left piece *)
    cbn [last] in HC. cbn [app]. rewrite (pass1_cons left a (yi :: B')), (pass1_cons left a []).
    cbn [head_label]. rewrite (newgrp_last _ _ _ HC).
    destruct (newgrp left (fst a) None) eqn:NG.
    + rewrite pass1_nil. destruct state as [s|].
      * cbn [app]. f_equal. rewrite pass1_boundary by exact HC. reflexivity.
      * rewrite pass1_boundary by exact HC. reflexivity.
    + rewrite pass1_nil. destruct state as [s|].
      * rewrite pass1_boundary by exact HC. reflexivity.
      * destruct (HN eq_refl) as [-> ->]. cbn in NG. discriminate.
  - change (last (a :: a' :: A'') d) with (last (a' :: A'') d) in HC.
    change ((a :: a' :: A'') ++ yi :: B') with (a :: (a' :: A'') ++ yi :: B').
    rewrite (pass1_cons left a ((a' :: A'') ++ yi :: B')), (pass1_cons left a (a' :: A'')).
    change (head_label ((a' :: A'') ++ yi :: B')) with (head_label (a' :: A'')).
    destruct (newgrp left (fst a) (head_label (a' :: A''))) eqn:NG.
    + destruct state as [s|].
      * cbn [app]. f_equal. apply (IH _ _ _ _ _ d); [discriminate | exact HC | discriminate].
      * apply (IH _ _ _ _ _ d); [discriminate | exact HC | discriminate].
    + destruct state as [s|].
      * apply (IH _ _ _ _ _ d); [discriminate | exact HC | discriminate].
      * destruct (HN eq_refl) as [-> ->]. unfold newgrp in NG. cbn in NG. discriminate.
Qed.

Definition ghead (l : list (label * list (label * str))) : option label :=
  match l with r :: _ => Some (fst r) | [] => None end.

Lemma pass2_cons left mid rest state cur :
  pass2 left (mid :: rest) state cur =
  if olabel_eqb left (Some (fst mid)) && negb (is_lab WANT (ghead rest)) then
    pass2 (Some (fst mid)) rest state (cur ++ snd mid)
  else
    match state, left with
    | Some _, Some l => (l, cur) :: pass2 (Some (fst mid)) rest (Some (fst mid)) (snd mid)
    | _, _ => pass2 (Some (fst mid)) rest (Some (fst mid)) (snd mid)
    end.
Proof. reflexivity. Qed.

Lemma pass2_nil left state cur :
  pass2 left [] state cur = match cur, state with [], _ => [] | _, Some s => [(s, cur)] | _, None => [] end.
Proof. reflexivity. Qed.

Lemma label_neq_eqb x y : x <> y -> label_eqb x y = false.
Proof. destruct x, y; cbn; intros H; try reflexivity; exfalso; apply H; reflexivity. Qed.

Lemma pass2_boundary x (g : label * list (label * str)) GB' s cur : x <> fst g ->
  pass2 (Some x) (g :: GB') (Some s) cur = (x, cur) :: pass2 None (g :: GB') None [].
Proof.
  intros H. rewrite !pass2_cons. cbn [olabel_eqb]. rewrite (label_neq_eqb _ _ H). cbn [andb]. reflexivity.
Qed.

Lemma not_want_lab y : y <> WANT -> is_lab WANT (Some y) = false.
Proof. destruct y; cbn; intros H; try reflexivity. exfalso. apply H. reflexivity. Qed.

Lemma pass2_app : forall GA left state cur (g : label * list (label * str)) GB' d,
  GA <> [] -> Forall (fun x => snd x <> []) GA ->
  fst (last GA d) <> fst g -> fst g <> WANT -> state = left ->
  pass2 left (GA ++ g :: GB') state cur = pass2 left GA state cur ++ pass2 None (g :: GB') None [].
Proof.
  induction GA as [|a GA IH]; intros left state cur g GB' d NE HNE HC HW HE; [contradiction|].
  inversion HNE as [|? ? Ha Hr]; subst.
  destruct GA as [|a' GA''].
  - cbn [last] in HC. cbn [app]. rewrite (pass2_cons left a (g :: GB')), (pass2_cons left a []).
    cbn [ghead]. rewrite (not_want_lab _ HW). cbn [is_lab olabel_eqb negb]. rewrite !andb_true_r.
    destruct (olabel_eqb left (Some (fst a))) eqn:C.
    + destruct left as [l|]; [|discriminate]. apply olabel_eqb_some in C. subst l.
      rewrite pass2_boundary by exact HC. rewrite pass2_nil.
      destruct (cur ++ snd a) eqn:E; [apply app_eq_nil in E; destruct E as [_ E]; contradiction|]. reflexivity.
    + rewrite pass2_nil.
      assert (K : pass2 (Some (fst a)) (g :: GB') (Some (fst a)) (snd a) =
                  match snd a with [] => [] | _ :: _ => [(fst a, snd a)] end ++ pass2 None (g :: GB') None []).
      { rewrite pass2_boundary by exact HC. destruct (snd a); [contradiction | reflexivity]. }
      destruct left as [l|]; [|rewrite K; reflexivity]. rewrite K. reflexivity.
  - change (last (a :: a' :: GA'') d) with (last (a' :: GA'') d) in HC.
    change ((a :: a' :: GA'') ++ g :: GB') with (a :: (a' :: GA'') ++ g :: GB').
    rewrite (pass2_cons left a ((a' :: GA'') ++ g :: GB')), (pass2_cons left a (a' :: GA'')).
    change (ghead ((a' :: GA'') ++ g :: GB')) with (ghead (a' :: GA'')).
    destruct (olabel_eqb left (Some (fst a)) && negb (is_lab WANT (ghead (a' :: GA'')))) eqn:C.
    + apply (IH _ _ _ _ _ d); [discriminate | exact Hr | exact HC | exact HW |].
      apply andb_true_iff in C. destruct C as [C _]. destruct left as [l|]; [|discriminate].
      apply olabel_eqb_some in C. subst l. reflexivity.
    + destruct left as [l|].
      * cbn [app]. f_equal. apply (IH _ _ _ _ _ d); [discriminate | exact Hr | exact HC | exact HW | reflexivity].
      * apply (IH _ _ _ _ _ d); [discriminate | exact Hr | exact HC | exact HW | reflexivity].
Qed.

Definition both {A} (r1 r2 : res (list A)) : res (list A) :=
  match r1 with
  | Err e => Err e
  | Ok a => match r2 with Err e => Err e | Ok b => Ok (a ++ b) end
  end.

Lemma pass3_app : forall GA prev (g : label * list (label * str)) GB',
  Forall (fun x => snd x <> []) GA -> (forall p, prev = Some p -> p <> []) -> fst g <> WANT ->
  pass3 (GA ++ g :: GB') prev = both (pass3 GA prev) (pass3 (g :: GB') None).
Proof.
  induction GA as [|[st grp] GA IH]; intros prev g GB' HNE HP HW.
  - cbn [app]. destruct g as [gl gi]. cbn [fst] in HW. cbn [pass3].
    destruct gl; try (exfalso; apply HW; reflexivity).
    + destruct (pass3 GB' None) as [r|e]; cbn [bind both];
        (destruct prev as [[|p ps]|]; [exfalso; apply (HP [] eq_refl); reflexivity | reflexivity | reflexivity]).
    + destruct (pass3 GB' (Some (map snd gi))) as [r|e]; cbn [bind both];
        (destruct prev as [[|p ps]|]; [exfalso; apply (HP [] eq_refl); reflexivity | reflexivity | reflexivity]).
    + destruct (pass3 GB' (Some (map snd gi))) as [r|e]; cbn [bind both];
        (destruct prev as [[|p ps]|]; [exfalso; apply (HP [] eq_refl); reflexivity | reflexivity | reflexivity]).
  - inversion HNE as [|? ? Hg Hr]; subst. cbn [snd] in Hg.
    change (((st, grp) :: GA) ++ g :: GB') with ((st, grp) :: GA ++ g :: GB').
    assert (NB : map snd grp <> []) by (destruct grp; [contradiction | discriminate]).
    set (R2 := pass3 (g :: GB') None).
    assert (IH' : forall prev', (forall p, prev' = Some p -> p <> []) ->
                  pass3 (GA ++ g :: GB') prev' = both (pass3 GA prev') R2) by (intros; apply IH; assumption).
    clearbody R2. clear IH.
    cbn [pass3]. destruct st.
    + rewrite (IH' None) by discriminate.
      destruct (pass3 GA None) as [a|e]; cbn [bind both]; [|reflexivity].
      destruct R2 as [b|e]; cbn [bind both]; [|reflexivity].
      rewrite <- app_assoc. reflexivity.
    + rewrite (IH' (Some (map snd grp))) by (intros p E; inversion E; subst; exact NB).
      destruct (pass3 GA (Some (map snd grp))) as [a|e]; cbn [bind both]; [|reflexivity].
      destruct R2 as [b|e]; cbn [bind both]; [|reflexivity].
      rewrite <- app_assoc. reflexivity.
    + rewrite (IH' (Some (map snd grp))) by (intros p E; inversion E; subst; exact NB).
      destruct (pass3 GA (Some (map snd grp))) as [a|e]; cbn [bind both]; [|reflexivity].
      destruct R2 as [b|e]; cbn [bind both]; [|reflexivity].
      rewrite <- app_assoc. reflexivity.
    + destruct prev as [p|]; [|reflexivity].
      rewrite (IH' None) by discriminate.
      destruct (pass3 GA None) as [a|e]; cbn [bind both]; [|reflexivity].
      destruct R2 as [b|e]; cbn [bind both]; reflexivity.
Qed.

(* ---------- heads and tails of the group lists ---------- *)
Lemma pass1_head : forall items left s cur, cur <> [] ->
  exists grp rest, pass1 left items (Some s) cur = (s, grp) :: rest.
Proof.
  induction items as [|mid items IH]; intros left s cur NE.
  - rewrite pass1_nil. destruct cur; [contradiction|]. eexists. eexists. reflexivity.
  - rewrite pass1_cons. destruct (newgrp left (fst mid) (head_label items)).
    + eexists. eexists. reflexivity.
    + apply IH. discriminate.
Qed.

Lemma pass1_fresh_head (yi : label * str) B' :
  exists grp rest, pass1 None (yi :: B') None [] = (fst yi, grp) :: rest.
Proof.
  rewrite pass1_cons. unfold newgrp. cbn [olabel_eqb is_lab negb orb andb]. apply pass1_head. discriminate.
Qed.

Lemma pass2_head : forall groups s cur, cur <> [] ->
  exists grp rest, pass2 (Some s) groups (Some s) cur = (s, grp) :: rest.
Proof.
  induction groups as [|mid groups IH]; intros s cur NE.
  - rewrite pass2_nil. destruct cur; [contradiction|]. eexists. eexists. reflexivity.
  - rewrite pass2_cons. destruct (olabel_eqb (Some s) (Some (fst mid)) && negb (is_lab WANT (ghead groups))) eqn:C.
    + apply andb_true_iff in C. destruct C as [C _]. apply olabel_eqb_some in C. rewrite <- C. apply IH.
      destruct cur; [contradiction | discriminate].
    + eexists. eexists. reflexivity.
Qed.

Lemma pass2_fresh_head (g : label * list (label * str)) GB' : snd g <> [] ->
  exists grp rest, pass2 None (g :: GB') None [] = (fst g, grp) :: rest.
Proof. intros NE. rewrite pass2_cons. cbn [olabel_eqb andb]. apply pass2_head. exact NE. Qed.

Lemma last_app_ne {A} (a b : list A) d : b <> [] -> last (a ++ b) d = last b d.
Proof.
  intros NE. induction a as [|x a IH]; [reflexivity|]. cbn [app].
  destruct (a ++ b) eqn:E; [apply app_eq_nil in E; destruct E; contradiction|]. cbn [last]. exact IH.
Qed.

Lemma last_in_ne {A} (l : list A) d : l <> [] -> In (last l d) l.
Proof.
  intros NE. destruct (exists_last NE) as (l' & z & ->). rewrite last_last. apply in_or_app. right. left. reflexivity.
Qed.

Lemma last_group_class : forall (G : list (label * list (label * str))) d d',
  Forall GroupClassOK G -> G <> [] ->
  class_of (fst (last G d)) = class_of (fst (last (glines G) d')).
Proof.
  induction G as [|g G IH]; intros d d' HG NE; [contradiction|].
  inversion HG as [|? ? [Fg NEg] Hr]; subst. destruct G as [|g' G'].
  - cbn [last]. unfold glines. cbn [map concat]. rewrite app_nil_r.
    rewrite Forall_forall in Fg. symmetry. apply Fg. apply last_in_ne. exact NEg.
  - change (last (g :: g' :: G') d) with (last (g' :: G') d).
    rewrite (IH d d' Hr) by discriminate. unfold glines. cbn [map concat].
    rewrite (last_app_ne (snd g)); [reflexivity|].
    inversion Hr as [|? ? [_ NE'] _]; subst. destruct (snd g'); [contradiction | discriminate].
Qed.

Lemma group_nonempty (G : list (label * list (label * str))) :
  Forall GroupClassOK G -> Forall (fun x => snd x <> []) G.
Proof. intros H. eapply Forall_impl; [|exact H]. intros g [_ NE]. exact NE. Qed.

(* ---------- the split theorem ---------- *)
(* at a boundary where the class of the lines changes and the next line is not a want, the chunks of the whole
   are the chunks of the left piece followed by the chunks of the right piece *)
Theorem group_lines_app A (yi : label * str) B' d :
  A <> [] -> class_of (fst (last A d)) <> class_of (fst yi) -> fst yi <> WANT ->
  group_lines (A ++ yi :: B') = both (group_lines A) (group_lines (yi :: B')).
Proof.
  intros NE HC HW. unfold group_lines.
  rewrite (pass1_app A None None [] yi B' d NE HC) by (intros _; split; reflexivity).
  set (G1A := pass1 None A None []).
  assert (C1A : Forall GroupClassOK G1A).
  { apply pass1_class; [intros s E; discriminate | intros _; split; reflexivity]. }
  assert (L1A : glines G1A = A).
  { unfold G1A. rewrite pass1_lines; [reflexivity | intros _; split; reflexivity]. }
  assert (NE1 : G1A <> []).
  { intros E. rewrite E in L1A. cbn in L1A. subst A. contradiction. }
  assert (C1B : Forall GroupClassOK (pass1 None (yi :: B') None [])).
  { apply pass1_class; [intros s E; discriminate | intros _; split; reflexivity]. }
  destruct (pass1_fresh_head yi B') as (grp1 & rest1 & E1). rewrite E1 in C1B |- *.
  assert (HL : fst (last G1A (TEXT, [])) <> fst (fst yi, grp1)).
  { cbn [fst]. intros E. apply HC. rewrite <- E. rewrite <- L1A. symmetry. apply last_group_class; assumption. }
  rewrite (pass2_app G1A None None [] (fst yi, grp1) rest1 (TEXT, []) NE1 (group_nonempty _ C1A) HL HW eq_refl).
  set (G2A := pass2 None G1A None []).
  assert (C2A : Forall GroupClassOK G2A).
  { apply pass2_class; [exact C1A | intros s E; discriminate | intros _; split; reflexivity]. }
  inversion C1B as [|? ? [_ NEg] _]. cbn [snd] in NEg.
  destruct (pass2_fresh_head (fst yi, grp1) rest1 NEg) as (grp2 & rest2 & E2). rewrite E2. cbn [fst] in E2 |- *.
  apply (pass3_app G2A None (fst yi, grp2) rest2 (group_nonempty _ C2A)); [intros p E; discriminate | exact HW].
Qed.

(* a run of text lines is one text chunk *)
Lemma pass1_text_run : forall T left cur, AllClass KText T -> cur <> [] ->
  Forall (fun it => fst it = TEXT) cur -> left = Some TEXT ->
  pass1 left T (Some TEXT) cur = [(TEXT, rev cur ++ T)].
Proof.
  induction T as [|t T IH]; intros left cur HT NE HCur HL.
  - rewrite pass1_nil. destruct cur; [contradiction|]. rewrite app_nil_r. reflexivity.
  - inversion HT as [|? ? Ht Hr]; subst. rewrite pass1_cons.
    assert (Et : fst t = TEXT) by (destruct (fst t); cbn in Ht; try discriminate; reflexivity).
    unfold newgrp. rewrite Et. cbn [olabel_eqb label_eqb is_lab negb orb andb].
    rewrite (IH (Some TEXT) (t :: cur)); [|exact Hr | discriminate | constructor; assumption | reflexivity].
    cbn [rev]. rewrite <- app_assoc. reflexivity.
Qed.

Theorem group_lines_text (t : label * str) T : AllClass KText (t :: T) ->
  group_lines (t :: T) = Ok [TextChunk (map snd (t :: T))].
Proof.
  intros H. inversion H as [|? ? Ht Hr]; subst.
  assert (Et : fst t = TEXT) by (destruct (fst t); cbn in Ht; try discriminate; reflexivity).
  unfold group_lines. rewrite pass1_cons. unfold newgrp. cbn [olabel_eqb is_lab negb orb andb].
  rewrite Et. rewrite (pass1_text_run T (Some TEXT) [t]); [|exact Hr | discriminate | constructor; [exact Et | constructor] | reflexivity].
  reflexivity.
Qed.
