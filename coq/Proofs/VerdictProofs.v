(* VerdictProofs.v — the pytest plugin (run(on_error='raise'), mode pytest, then
   anything_ran) and the native runner (run(on_error='return')) give the same
   verdict for every doctest, for every behaviour of its parts (C15). *)
From XD Require Import Model.Base Model.Parser Model.Checker Model.Text Model.Directive Model.RunLoop Model.Runner
  Proofs.BaseFacts Proofs.RunProofs Proofs.RunEscape.
Open Scope N_scope.

Ltac break_all :=
  repeat match goal with
         | |- context [match ?x with _ => _ end] => destruct x eqn:?
         | |- context [if ?x then _ else _] => destruct x eqn:?
         end.

Lemma set_end_same s : set_end s (r_end s) = s.
Proof. destruct s; reflexivity. Qed.

Section Verdict.
Variable requires_met : str -> res bool.
Variable oc : nat -> outcome.
Variables cfgN cfgP : config.
Hypothesis HN : c_on_error cfgN = OE_return.
Hypothesis HP : c_on_error cfgP = OE_raise.
Hypothesis Himp : c_import_ok cfgN = c_import_ok cfgP.
Hypothesis Hds : c_default_state cfgN = c_default_state cfgP.
Hypothesis Hrk : c_report_key cfgN = c_report_key cfgP.

Notation stepN := (step requires_met cfgN oc).
Notation stepP := (step requires_met cfgP oc).

(* the two runs go through the same states; only the way a failure ends the loop differs *)
Definition end_sim (e1 e2 : run_end) : Prop :=
  (e1 = e2 /\ (forall f, e1 <> E_raise f) /\ e1 <> E_import_return) \/
  (exists f, e2 = E_raise f /\ (e1 = E_break \/ e1 = E_import_return)).

Definition sim (s1 s2 : rstate) : Prop := s2 = set_end s1 (r_end s2) /\ end_sim (r_end s1) (r_end s2).

Lemma sim_init : sim (init_state cfgN) (init_state cfgP).
Proof.
  unfold sim, init_state. rewrite Hds, Hrk. simpl. split; [reflexivity|].
  left. split; [reflexivity|]. split; [intros f; discriminate | discriminate].
Qed.

Lemma sim_step s1 s2 i p : sim s1 s2 -> sim (stepN s1 i p) (stepP s2 i p).
Proof.
  intros [S E]. destruct (r_end s1) eqn:E1.
  - (* running: the states are equal *)
    assert (E2 : r_end s2 = E_running).
    { destruct E as [[A _]|(f & A & [B|B])]; congruence. }
    assert (X : s2 = s1). { rewrite S, E2, <- E1. apply set_end_same. }
    subst s2. clear S E E2. unfold step, fail_at, set_end. rewrite E1, HN, HP, Himp.
    break_all; simpl; (split; [reflexivity|]);
      first [ left; split; [reflexivity|]; split; [intros; discriminate | discriminate]
            | right; eexists; split; [reflexivity|]; auto ].
  - (* stopped: both are frozen *)
    assert (F2 : r_end s2 <> E_running).
    { destruct E as [[A _]|(f & A & _)]; congruence. }
    rewrite (step_frozen requires_met cfgN oc s1 i p) by congruence.
    rewrite (step_frozen requires_met cfgP oc s2 i p) by exact F2. split; [exact S | rewrite E1; exact E].
  - assert (F2 : r_end s2 <> E_running). { destruct E as [[A _]|(f & A & _)]; congruence. }
    rewrite (step_frozen requires_met cfgN oc s1 i p) by congruence.
    rewrite (step_frozen requires_met cfgP oc s2 i p) by exact F2. split; [exact S | rewrite E1; exact E].
  - assert (F2 : r_end s2 <> E_running). { destruct E as [[A _]|(f0 & A & _)]; congruence. }
    rewrite (step_frozen requires_met cfgN oc s1 i p) by congruence.
    rewrite (step_frozen requires_met cfgP oc s2 i p) by exact F2. split; [exact S | rewrite E1; exact E].
  - assert (F2 : r_end s2 <> E_running). { destruct E as [[A _]|(f & A & _)]; congruence. }
    rewrite (step_frozen requires_met cfgN oc s1 i p) by congruence.
    rewrite (step_frozen requires_met cfgP oc s2 i p) by exact F2. split; [exact S | rewrite E1; exact E].
  - assert (F2 : r_end s2 <> E_running). { destruct E as [[A _]|(f & A & _)]; congruence. }
    rewrite (step_frozen requires_met cfgN oc s1 i p) by congruence.
    rewrite (step_frozen requires_met cfgP oc s2 i p) by exact F2. split; [exact S | rewrite E1; exact E].
  - assert (F2 : r_end s2 <> E_running). { destruct E as [[A _]|(f & A & _)]; congruence. }
    rewrite (step_frozen requires_met cfgN oc s1 i p) by congruence.
    rewrite (step_frozen requires_met cfgP oc s2 i p) by exact F2. split; [exact S | rewrite E1; exact E].
Qed.

Lemma sim_run_parts ps : forall s1 s2 i, sim s1 s2 ->
  sim (run_parts requires_met cfgN oc s1 i ps) (run_parts requires_met cfgP oc s2 i ps).
Proof. induction ps as [|p ps IH]; intros s1 s2 i H; simpl; [exact H | apply IH; apply sim_step; exact H]. Qed.

End Verdict.

(* ---------- more invariants of one run (any configuration) ---------- *)
Section Inv2.
Variable requires_met : str -> res bool.
Variable cfg : config.
Variable oc : nat -> outcome.
Notation step' := (step requires_met cfg oc).

Record Inv2 (s : rstate) (k : nat) : Prop := mkInv2 {
  i2_logged : (length (r_executed s) <= length (r_logged s))%nat;
  i2_ran_not_all_skipped : r_executed s <> [] -> (length (r_skipped s) < k)%nat;
  i2_skipped_le : (length (r_skipped s) <= k)%nat;
  i2_raise_failed : forall f, r_end s = E_raise f -> r_failed s <> None;
  i2_raise_mode : c_on_error cfg = OE_raise ->
                  (r_end s = E_break -> r_failed s = None) /\ r_end s <> E_import_return;
  i2_running_nofail : r_end s = E_running -> r_failed s = None
}.

Lemma inv2_init : Inv2 (init_state cfg) 0.
Proof. constructor; simpl; try lia; try congruence; try (intros; discriminate). intros _. split; [reflexivity | discriminate]. Qed.

Lemma inv2_step s k p : Inv2 s k -> Inv2 (step' s k p) (S k).
Proof.
  intros [A B C D E F]. destruct (r_end s) eqn:En.
  2-7: (rewrite step_frozen by congruence; constructor; rewrite ?En; try assumption; try lia;
        try (intros X; specialize (B X); lia)).
  specialize (F eq_refl).
  unfold step, fail_at, set_end. rewrite En.
  constructor; break_all; simpl; rewrite ?app_length; simpl; try lia; try congruence;
    try (intros; discriminate); try (intros X; specialize (B X); lia);
    try (intros _; lia);
    try (intros OE; split; [intros; congruence | discriminate]);
    try (intros OE; split; [reflexivity | discriminate]);
    try (intros OE; split; [intros; discriminate | discriminate]);
    try (intros OE; rewrite OE in *; discriminate).
Qed.

Lemma inv2_run_parts ps : forall s k, Inv2 s k -> Inv2 (run_parts requires_met cfg oc s k ps) (k + length ps).
Proof.
  induction ps as [|p ps IH]; intros s k I; simpl.
  - rewrite Nat.add_0_r. exact I.
  - replace (k + S (length ps))%nat with (S k + length ps)%nat by lia. apply IH. apply inv2_step. exact I.
Qed.

Lemma inv2_final ps : Inv2 (run_parts requires_met cfg oc (init_state cfg) 0 ps) (length ps).
Proof. apply (inv2_run_parts ps _ 0 inv2_init). Qed.
End Inv2.

Section Same.
Variable requires_met : str -> res bool.
Variable oc : nat -> outcome.
Variables cfgN cfgP : config.
Hypothesis HN : c_on_error cfgN = OE_return.
Hypothesis HP : c_on_error cfgP = OE_raise.
Hypothesis HNm : c_pytest_mode cfgN = false.
Hypothesis HPm : c_pytest_mode cfgP = true.
Hypothesis Himp : c_import_ok cfgN = c_import_ok cfgP.
Hypothesis Hds : c_default_state cfgN = c_default_state cfgP.
Hypothesis Hrk : c_report_key cfgN = c_report_key cfgP.
Hypothesis Hframe : HasDoctestFrame oc.
Hypothesis Hbase : NoBaseException oc.
Hypothesis Htotal : OracleTotal requires_met.

Lemma fields_of_set_end s e :
  r_skipped (set_end s e) = r_skipped s /\ r_executed (set_end s e) = r_executed s /\
  r_logged (set_end s e) = r_logged s /\ r_failed (set_end s e) = r_failed s.
Proof. destruct s; repeat split. Qed.

Theorem same_verdict ps :
  exists v, native_verdict (run requires_met cfgN oc ps) = Some v /\
            pytest_verdict (run requires_met cfgP oc ps) = Some v.
Proof.
  pose proof (sim_run_parts requires_met oc cfgN cfgP HN HP Himp ps _ _ 0%nat
                (sim_init cfgN cfgP Hds Hrk)) as [S E].
  pose proof (run_parts_tame requires_met cfgN oc HN Hframe Hbase Htotal ps (init_state cfgN) 0%nat
                (or_introl eq_refl)) as T.
  pose proof (inv_final requires_met cfgN oc ps) as I1.
  pose proof (inv2_final requires_met cfgN oc ps) as J1.
  pose proof (inv2_final requires_met cfgP oc ps) as J2.
  unfold run. rewrite HNm, HPm, andb_false_r, andb_true_r.
  set (s1 := run_parts requires_met cfgN oc (init_state cfgN) 0 ps) in *.
  set (s2 := run_parts requires_met cfgP oc (init_state cfgP) 0 ps) in *.
  destruct (fields_of_set_end s1 (r_end s2)) as (Fsk & Fex & Flg & Ffl). rewrite <- S in *.
  assert (LOG : r_executed s1 <> [] -> nonempty (r_logged s1) = true).
  { intros X. pose proof (i2_logged _ _ _ J1) as L. destruct (r_executed s1); [congruence|].
    destruct (r_logged s1); [simpl in L; lia | reflexivity]. }
  assert (NSK : r_executed s1 <> [] -> Nat.eqb (length (r_skipped s1)) (length ps) = false).
  { intros X. pose proof (i2_ran_not_all_skipped _ _ _ J1 X). apply Nat.eqb_neq. lia. }
  destruct T as [T|[T|T]]; rewrite T in *.
  - (* ran to the end without failure *)
    assert (E2 : r_end s2 = E_running) by (destruct E as [[A _]|(f & A & [B|B])]; congruence).
    rewrite E2. pose proof (inv_running_nofail _ _ I1 T) as NF.
    rewrite Fsk.
    destruct (Nat.eqb (length (r_skipped s1)) (length ps)) eqn:SK.
    + exists V_skipped. unfold native_verdict, pytest_verdict, verdict_of_summary, post_run. simpl.
      rewrite ?Fsk, ?Ffl, ?NF, ?SK. split; reflexivity.
    + assert (X : r_executed s1 <> []).
      { pose proof (inv_running_count _ _ I1 T) as C. apply Nat.eqb_neq in SK.
        intro Z. rewrite Z in C. simpl in C. lia. }
      exists V_passed. unfold native_verdict, pytest_verdict, verdict_of_summary, post_run, anything_ran. simpl.
      rewrite ?Fsk, ?Flg, ?Ffl, ?NF, ?SK, ?(LOG X). split; reflexivity.
  - (* the loop was left by break *)
    destruct E as [[A _]|(f & A & _)].
    + (* graceful exit in both *)
      rewrite <- A.
      destruct (i2_raise_mode _ _ _ J2 HP) as [NB _]. rewrite <- A in NB. specialize (NB eq_refl).
      rewrite Ffl in NB.
      pose proof (inv_break_ran _ _ I1 T NB) as X.
      rewrite Fsk, (NSK X).
      exists V_passed. unfold native_verdict, pytest_verdict, verdict_of_summary, post_run, anything_ran. simpl.
      rewrite ?Fsk, ?Flg, ?Ffl, ?NB, ?(NSK X), ?(LOG X). split; reflexivity.
    + (* a failure: returned by one, raised by the other *)
      rewrite A. pose proof (i2_raise_failed _ _ _ J2 f A) as NF. rewrite Ffl in NF.
      exists V_failed. unfold native_verdict, pytest_verdict, verdict_of_summary, post_run. simpl.
      destruct (r_failed s1) eqn:F1; [|congruence]. split; reflexivity.
  - (* import failure *)
    pose proof (inv_import_failed _ _ I1 T) as NF.
    destruct E as [[A [_ B]]|(f & A & _)]; [congruence|]. rewrite A.
    exists V_failed. unfold native_verdict, pytest_verdict, verdict_of_summary, post_run. simpl.
    destruct (r_failed s1) eqn:F1; [|congruence]. split; reflexivity.
Qed.

(* the two skip tests coincide: nothing logged <-> every part skipped (no failure recorded) *)
Theorem anything_ran_iff_not_all_skipped ps :
  let st := run_parts requires_met cfgN oc (init_state cfgN) 0 ps in
  r_failed st = None -> ps <> [] ->
  (anything_ran st = false <-> length (r_skipped st) = length ps).
Proof.
  intros st NF NE.
  pose proof (run_parts_tame requires_met cfgN oc HN Hframe Hbase Htotal ps (init_state cfgN) 0%nat
                (or_introl eq_refl)) as T.
  pose proof (inv_final requires_met cfgN oc ps) as I1.
  pose proof (inv2_final requires_met cfgN oc ps) as J1. fold st in T, I1, J1.
  unfold anything_ran.
  assert (EX : r_executed st <> [] <-> length (r_skipped st) <> length ps).
  { split.
    - intros X. pose proof (i2_ran_not_all_skipped _ _ _ J1 X). lia.
    - intros X Z. destruct T as [T|[T|T]].
      + pose proof (inv_running_count _ _ I1 T) as C. rewrite Z in C. simpl in C. lia.
      + exact (inv_break_ran _ _ I1 T NF Z).
      + exact (inv_import_failed _ _ I1 T NF). }
  split.
  - intros L. destruct (Nat.eq_dec (length (r_skipped st)) (length ps)) as [|N]; [assumption|].
    apply EX in N. pose proof (i2_logged _ _ _ J1) as LL.
    destruct (r_executed st); [congruence|]. destruct (r_logged st); [simpl in LL; lia | discriminate].
  - intros L. destruct (r_logged st) as [|x l] eqn:LG; [reflexivity|]. exfalso.
    (* something was logged although every part was skipped: a logged entry means the part passed the skip test *)
    assert (X : ~ (r_executed st <> [])) by (intro X; apply EX in X; congruence).
    assert (Z : r_executed st = []) by (destruct (r_executed st); [reflexivity | exfalso; apply X; discriminate]).
    clear - LG Z NF. revert LG Z NF. subst st.
    (* logged without executed only happens at a compile error, which records a failure *)
    assert (G : forall ps s k, (r_logged s <> [] -> r_executed s <> [] \/ r_failed s <> None) ->
                r_logged (run_parts requires_met cfgN oc s k ps) <> [] ->
                r_executed (run_parts requires_met cfgN oc s k ps) <> [] \/ r_failed (run_parts requires_met cfgN oc s k ps) <> None).
    { induction ps0 as [|p ps0 IH]; intros s k H1; simpl; [exact H1|].
      apply IH.
      unfold step, fail_at, set_end. destruct (r_end s) eqn:En; try exact H1.
      break_all; simpl; intros; try (left; destruct (r_executed s); discriminate); try (right; discriminate);
        try (apply H1; assumption). }
    intros LG Z NF'. destruct (G ps (init_state cfgN) 0%nat) as [A|A].
    + simpl. intros X; contradiction X; reflexivity.
    + rewrite LG. discriminate.
    + congruence.
    + congruence.
Qed.
End Same.
