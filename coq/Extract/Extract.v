(* Extract.v — extraction of the executable model to OCaml.
   Only ExtrOcamlBasic is used (bool, option, unit, list, prod, sumbool, sumor
   mapped to OCaml's); N, positive, Z, nat stay the extracted inductive types. *)
From Coq Require Import ExtrOcamlBasic.
From XD Require Import Model.Base Model.Ellipsis Model.Checker Model.Parser Model.Text Model.Directive Model.RunLoop Model.Runner Model.Collect Model.FS Spec.ImportResolve Model.Proc Model.Isolation Model.Format Model.StaticCollect Model.DynCollect Model.Lines Model.StdDoctest Model.StdOutput Model.Report Model.DirInline Model.CliOptions.
Extraction Language OCaml.
Extraction "../ocaml/xdmodel_core.ml"
  is_space is_linebreak is_word
  eqb_str starts_with ends_with find_sub contains words splitlines_keep splitlines
  split_on join strip lstrip rstrip
  Z.add Z.sub Z.ltb Z.of_nat Z.to_nat
  split_ell ellipsis_match split_std std_ellipsis_match std_check_output std_rm_blank std_blank_got
  strip_ansi rm_prefix rm_blankline rm_trailing_ws drop_cr_lines collapse_ws delete_ws
  norm_repr normalize check_match check_output strip_exception_details extract_exc_want_cb
  check_exception_cb check_got_vs_want default_flags strict_flags is_uU is_bB
  expandtabs min_indentation normalize_docstring label_lines group_lines parse parse_repl oracles_of_tables is_balanced o_bal
  locate_ps1 package_chunk
  dedent codeblock extract_exc_want check_exception indent_text
  rs_init rs_update rs_get rs_skips flags_of set_report_style DEFAULT_RUNTIME_STATE
  has_any_code part_want part_check run anything_ran failed_line_offset failed_lineno init_state
  gather listed run_examples exit_status native_verdict pytest_verdict verdict_of_summary
  style_examples contain collect_module google_examples freeform_examples auto_examples
  fs_of_list modname_to_modpath syspath_modname_to_modpath modpath_to_modname split_modpath normalize_modpath resolve_roots
  ppc_enter ppc_exit run_proc
  hs_init hs_update hget hread run_directives exec_history K_SKIP K_REQUIRES
  n_digits_of format_src format_part dump_module dump_function repr_failure_head_of
  visit_module visit package_modpaths walk dyn_module
  find_docstr_start google_group_offsets freeform_example_lineno google_example_lineno
  extract_inline extract_inline_before_F31 populate_from_cli.
