"""Runs a doctest through the real DocTest.run with recording wrappers (installed from
outside, no source hooks) and through the Coq run-loop model fed with the recorded
per-part outcomes; returns both results in one canonical shape.

Canonical result:
  {'end': 'summary'|'raised'|'base'|'noframe'|'pytestskip'|'escaped:<Class>',
   'passed','failed','skipped' (for summary), 'failure': kind or None, 'failed_part': idx|'import'|None,
   'skipped_parts': [...], 'executed': [...], 'logged': {idx: text}, 'unmatched': [...]}
"""
import asyncio
import sys
import traceback
import warnings

from harness import common, parsemodel
from harness.common import Sym

REPORT_KEY = 'REPORT_UDIFF'


class _AsyncioProxy:
    """the asyncio module as seen from xdoctest.doctest_example, with run() observed"""

    def __init__(self, real, rec):
        self._real = real
        self._rec = rec

    def __getattr__(self, name):
        return getattr(self._real, name)

    def run(self, coro, *a, **kw):
        rec = self._rec
        idx = rec.cur
        try:
            r = self._real.run(coro, *a, **kw)
        except Exception as e:
            rec.exec_res[idx] = ('raise', e, sys.exc_info()[2])
            raise
        except BaseException as e:
            rec.exec_res[idx] = ('raise' if type(e).__name__ == 'Skipped' else 'base', e, None)
            raise
        rec.exec_res[idx] = ('ok', r, None)
        return r


class Recorder:
    """wraps compile/exec/eval (and asyncio.run) as seen from xdoctest.doctest_example"""

    def __init__(self, ex):
        self.ex = ex
        self.compile_err = {}      # part idx -> True
        self.exec_res = {}         # part idx -> ('ok', value|NOT) | ('raise', exc) | ('base', exc)
        self.order = []            # part indices handed to exec/eval, in order
        self.cur = None

    def part_index(self):
        fp = self.ex.failed_part
        for i, p in enumerate(self.ex._parts):
            if p is fp:
                return i
        return None

    def install(self, mod):
        rec = self
        real_compile, real_exec, real_eval = compile, exec, eval

        def my_compile(source, *a, **kw):
            fn = kw.get('filename', '')
            if isinstance(fn, str) and fn.startswith('<doctest:') and 'global_exec' not in fn:
                idx = rec.part_index()
                rec.cur = idx
                try:
                    return real_compile(source, *a, **kw)
                except Exception:
                    rec.compile_err[idx] = True
                    raise
            return real_compile(source, *a, **kw)

        def wrap(real):
            def runner(code, g=None, *a):
                idx = rec.cur
                rec.order.append(idx)
                try:
                    r = real(code, g, *a)
                except Exception as e:
                    rec.exec_res[idx] = ('raise', e, sys.exc_info()[2])
                    raise
                except BaseException as e:
                    # pytest's Skipped derives from BaseException but is caught by run like ExitTestException
                    rec.exec_res[idx] = ('raise' if type(e).__name__ == 'Skipped' else 'base', e, None)
                    raise
                rec.exec_res[idx] = ('ok', r, None)
                return r
            return runner
        mod.compile = my_compile
        mod.exec = wrap(real_exec)
        mod.eval = wrap(real_eval)
        # a part with top-level await: eval() only builds the coroutine, asyncio.run executes it -- what the part
        # does (value, exception) is the outcome of that call
        real_asyncio = mod.__dict__.get('asyncio')
        if real_asyncio is not None and not isinstance(real_asyncio, _AsyncioProxy):
            mod.asyncio = _AsyncioProxy(real_asyncio, rec)

    @staticmethod
    def uninstall(mod):
        for name in ('compile', 'exec', 'eval'):
            if name in mod.__dict__:
                del mod.__dict__[name]
        a = mod.__dict__.get('asyncio')
        if isinstance(a, _AsyncioProxy):
            mod.asyncio = a._real


def part_data(p):
    try:
        ds = [parsemodel.dir_data(d) for d in p.directives]
    except Exception:
        ds = Sym('raise')       # lazily extracted directives that fail to parse
    return [Sym('part'), list(p.exec_lines), list(p.want_lines or []), p.line_offset, list(p.orig_lines or []),
            ds, Sym(p.compile_mode)]


def requires_table(parts):
    from xdoctest import directive
    tab = {}
    for p in parts:
        try:
            pds = p.directives
        except Exception:
            continue
        for d in pds:
            if d.name == 'REQUIRES':
                for a in d.args:
                    if a not in tab:
                        try:
                            tab[a] = bool(directive._is_requires_satisfied(a))
                        except Exception:
                            tab[a] = Sym('raise')
    return [[k, v] for k, v in tab.items()]


def failure_kind(ex, rec):
    from xdoctest import checker, exceptions
    if ex.exc_info is None:
        return None, None
    ev = ex.exc_info[1]
    if ex.failed_part == '<IMPORT>':
        return 'import', 'import'
    idx = None
    for i, p in enumerate(ex._parts):
        if p is ex.failed_part:
            idx = i
    if isinstance(ev, checker.ExtractGotReprException):
        return 'extractrepr', idx
    if isinstance(ev, checker.GotWantException):
        return 'gotwant', idx
    if isinstance(ev, exceptions.ExistingEventLoopError):
        return 'loop', idx
    if idx is not None and rec.compile_err.get(idx):
        return 'compile', idx
    if type(ev) is Exception and str(ev).startswith('Failed to parse directive'):
        return 'directive', idx
    return 'exception', idx


def run_impl(doc, on_error='return', pytest_mode=False, default_state=None, inject=None, verbose=0,
             prebuilt=None, prelude=None, shared_default=None):
    """returns (canonical result, example, recorder); shared_default: the options dict itself, not a copy (the runner hands
    one dict to every doctest of a run)"""
    from xdoctest import doctest_example
    ex = prebuilt if prebuilt is not None else doctest_example.DocTest(docsrc=doc, lineno=1)
    ex.mode = 'pytest' if pytest_mode else 'native'
    if default_state is not None:
        ex.config['default_runtime_state'] = dict(default_state)
    if shared_default is not None:
        ex.config['default_runtime_state'] = shared_default
    with warnings.catch_warnings():
        warnings.simplefilter('ignore')
        ex._parse()
    trace = []
    ex.global_namespace['TRACE'] = trace
    if inject:
        ex.global_namespace.update(inject)
    if prelude:
        exec(prelude, ex.global_namespace)
    rec = Recorder(ex)
    rec.install(doctest_example)
    res = {'end': None, 'failure': None, 'failed_part': None}
    old_stdout = sys.stdout
    try:
        with warnings.catch_warnings():
            warnings.simplefilter('ignore')
            try:
                summary = ex.run(on_error=on_error, verbose=verbose)
                res['end'] = 'summary'
                res['passed'], res['failed'], res['skipped'] = bool(summary['passed']), bool(summary['failed']), bool(summary['skipped'])
            except BaseException as e:      # noqa
                name = type(e).__name__
                if name == 'Skipped':
                    res['end'] = 'pytestskip'
                elif isinstance(e, (SystemExit, KeyboardInterrupt, GeneratorExit)):
                    res['end'] = 'base'
                elif ex.exc_info is not None and ex.exc_info[1] is e or (
                        ex.exc_info is not None and getattr(ex.exc_info[1], 'orig_ex', None) is e):
                    res['end'] = 'raised'
                elif isinstance(e, ValueError) and str(e).startswith('Could not clean traceback'):
                    res['end'] = 'noframe'
                else:
                    res['end'] = 'escaped:' + name
    finally:
        Recorder.uninstall(doctest_example)
        sys.stdout = old_stdout
    kind, idx = failure_kind(ex, rec)
    res['failure'] = kind
    res['failed_part'] = idx
    res['skipped_parts'] = [i for i, p in enumerate(ex._parts) if any(p is q for q in ex._skipped_parts)]
    res['executed'] = list(rec.order)
    res['logged'] = {int(k): v for k, v in ex.logged_stdout.items()}
    res['unmatched'] = list(ex._unmatched_stdout)
    res['trace'] = list(trace)
    return res, ex, rec


def outcomes_for_model(ex, rec):
    """per-part outcome table from what the real run observed"""
    from xdoctest import constants
    ocs = []
    for i, p in enumerate(ex._parts):
        out = ex.logged_stdout.get(i, '')
        if out is None:
            out = ''
        if rec.compile_err.get(i):
            ocs.append(Sym('compile'))
            continue
        r = rec.exec_res.get(i)
        if r is None:
            # never executed in the real run (skipped, after the end, or existing loop)
            ev = ex.exc_info[1] if ex.exc_info else None
            if ev is not None and type(ev).__name__ == 'ExistingEventLoopError' and ex.failed_part is p:
                ocs.append(Sym('loop'))
            else:
                ocs.append([Sym('ok'), '', Sym('notevaled')])
            continue
        tag, val, tb = r
        if tag == 'ok':
            ev = Sym('notevaled')
            if p.compile_mode == 'eval':
                try:
                    ev = [Sym('repr'), repr(val)]
                except Exception:
                    ev = Sym('reprraises')
            ocs.append([Sym('ok'), out, ev])
        elif tag == 'raise':
            name = type(val).__name__
            if name in ('ExitTestException', 'Skipped'):
                ocs.append([Sym('exit'), out])
            else:
                last = traceback.format_exception_only(type(val), val)[-1]
                has_frame = False
                t = tb
                while t is not None:
                    if t.tb_frame.f_code.co_filename == ex._partfilename:
                        has_frame = True
                        break
                    t = t.tb_next
                ocs.append([Sym('raise'), out, last, has_frame])
        else:
            ocs.append([Sym('base'), out])
    return ocs


def canon_model(ans):
    """model answer -> canonical dict"""
    if not isinstance(ans, list) or not ans:
        return {'end': 'model-error', 'raw': repr(ans)}
    tag = str(ans[0])
    if tag == 'need' or tag == 'error':
        return {'end': 'model-' + tag, 'raw': common.sx_enc(ans)}
    res = {'end': tag, 'failure': None, 'failed_part': None}
    if tag == 'summary':
        res['passed'], res['failed'], res['skipped'] = ans[1], ans[2], ans[3]
        st = ans[4]
    elif tag == 'raised':
        st = ans[2]
    else:
        st = ans[1]
    skipped, executed, checked, logged, unmatched, failed = st
    res['skipped_parts'] = list(skipped)
    res['executed'] = list(executed)
    res['checked'] = list(checked)
    res['logged'] = {int(k): v for k, v in logged}
    res['unmatched'] = list(unmatched)
    if failed is not None:
        _, idx, kind = failed
        res['failure'] = str(kind)
        res['failed_part'] = 'import' if isinstance(idx, Sym) else idx
    return res


KEYS = ['end', 'passed', 'failed', 'skipped', 'failure', 'failed_part', 'skipped_parts', 'executed', 'logged', 'unmatched']


def diff(impl, model):
    out = []
    for k in KEYS:
        if impl.get(k) != model.get(k):
            out.append((k, impl.get(k), model.get(k)))
    return out


def default_state_enc(default_state):
    out = []
    for k, v in (default_state or {}).items():
        if isinstance(v, (set, frozenset, list)):
            out.append([k, [Sym('set')] + sorted(v)])
        else:
            out.append([k, bool(v)])
    return out


def model_request(ex, rec, on_error='return', pytest_mode=False, default_state=None, import_ok=True):
    cfg = [Sym(on_error), bool(pytest_mode), default_state_enc(default_state), REPORT_KEY, bool(import_ok)]
    return ('run', cfg, requires_table(ex._parts), outcomes_for_model(ex, rec), [part_data(p) for p in ex._parts])


def run_both_many(cases):
    """cases: list of dict(doc=..., on_error=..., pytest_mode=..., default_state=..., inject=...)
    -> list of (impl, model, diff, example)"""
    impls, reqs, exs = [], [], []
    for c in cases:
        impl, ex, rec = run_impl(c['doc'], c.get('on_error', 'return'), c.get('pytest_mode', False),
                                 c.get('default_state'), c.get('inject'), prelude=c.get('prelude'))
        impls.append(impl)
        exs.append(ex)
        reqs.append(model_request(ex, rec, c.get('on_error', 'return'), c.get('pytest_mode', False),
                                  c.get('default_state')))
    answers = common.model_batch(reqs)
    out = []
    for impl, ans, ex in zip(impls, answers, exs):
        m = canon_model(ans)
        out.append((impl, m, diff(impl, m), ex))
    return out


def report_request(ex):
    """model request for the head of DocTest.repr_failure (up to the TRACEBACK heading) of a failed example, and the
    implementation's lines (uncoloured); None when the example did not fail"""
    from xdoctest import checker, exceptions
    import contextlib, io
    if ex.exc_info is None:
        return None
    ev = ex.exc_info[1]
    if isinstance(ev, checker.ExtractGotReprException):
        kind = 'extractrepr'
    elif isinstance(ev, checker.GotWantException):
        kind = 'gotwant'
    elif isinstance(ev, exceptions.ExistingEventLoopError):
        kind = 'loop'
    else:
        kind = 'exception'
    if ex.failed_part == '<IMPORT>':
        failed = [Sym('import'), Sym('import')]
    else:
        idx = [i for i, p in enumerate(ex._parts) if p is ex.failed_part]
        if not idx:
            return None
        failed = [idx[0], Sym(kind)]
    skipped = [i for i, p in enumerate(ex._parts) if any(p is q for q in ex._skipped_parts)]
    logged = [[int(k), v] for k, v in ex.logged_stdout.items()]
    tb = getattr(ex, 'failed_tb_lineno', None) or 0
    old = ex.config['colored']
    ex.config['colored'] = False
    try:
        with contextlib.redirect_stdout(io.StringIO()):
            lines = ex.repr_failure()
    finally:
        ex.config['colored'] = old
    prefix = ex._block_prefix
    stop = prefix + ' TRACEBACK'
    head = lines[:lines.index(stop) + 1] if stop in lines else lines
    fpath = ex.UNKNOWN_FPATH if ex.fpath is None else ex.fpath
    req = ('repr_failure_head', ex.exc_info[0].__name__, str(ex.node), str(fpath), prefix, ex.lineno, [part_data(p) for p in ex._parts],
           skipped, logged, failed, tb, bool(ex.config.getvalue('offset_linenos', None)), bool(ex.config.getvalue('partnos')))
    return req, head


def run_both_many_safe(items):
    """run_both_many; when one of the (well formed) doctests cannot even be parsed or handed to the model, the others are still
    judged and that one comes back as a run that did not return a summary (so that it is reported as the failing input)"""
    try:
        return run_both_many(items)
    except Exception:      # noqa
        out = []
        for it in items:
            try:
                out += run_both_many([it])
            except Exception as e:      # noqa
                out.append(({'end': 'not parsed or run: %s: %s' % (type(e).__name__, str(e)[:120]), 'passed': False, 'failed': None, 'skipped': False,
                             'trace': None, 'failure': None, 'failed_part': None, 'executed': None, 'logged': None}, None, [], None))
        return out
