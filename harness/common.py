"""Shared machinery of the /verif checks: protocol to the extracted Coq model,
canonical enumerations, proof step, evidence / replay / known-finding output.

Everything random derives from VERIF_SEED.  Nothing here imports xdoctest; the
property modules do, from /repo/src (PYTHONPATH is forced by ./check).
"""
import hashlib
import itertools
import json
import os
import random
import re
import subprocess
import sys
import time

VERIF = os.path.dirname(os.path.dirname(os.path.abspath(__file__)))
COQ = os.path.join(VERIF, 'coq')
BIN = os.path.join(VERIF, 'bin', 'xdmodel')
REPO = os.environ.get('XDOCTEST_REPO', '/repo')
NPROC = int(os.environ.get('VERIF_JOBS', '0')) or min(16, os.cpu_count() or 4)


# ----------------------------------------------------------------------------
# s-expression protocol
# ----------------------------------------------------------------------------
class Sym(str):
    """a bare symbol of the protocol (constructor names etc.)"""
    def __repr__(self):
        return 'Sym(%s)' % str.__repr__(self)


def sx_enc(v):
    if isinstance(v, Sym):
        return str(v)
    if v is True:
        return 'true'
    if v is False:
        return 'false'
    if v is None:
        return 'none'
    if isinstance(v, int):
        return str(v)
    if isinstance(v, str):
        return "'" + '.'.join(str(ord(c)) for c in v)
    if isinstance(v, (list, tuple)):
        return '(' + ' '.join(sx_enc(x) for x in v) + ')'
    raise TypeError('cannot encode %r' % (v,))


def srclines(s):
    """the lines of a docstring as the file and the tokenizer count them (parser._splitlines since fix F28): broken at
    newlines and carriage returns only, a final empty piece dropped"""
    lines = re.split('\r\n|\r|\n', s)
    if lines and lines[-1] == '':
        lines.pop()
    return lines


def some(v):
    return [Sym('some'), v]


_tok = re.compile(r"[()]|[^\s()]+")


def sx_dec(text):
    toks = _tok.findall(text)
    pos = 0

    def value():
        nonlocal pos
        t = toks[pos]
        pos += 1
        if t == '(':
            out = []
            while toks[pos] != ')':
                out.append(value())
            pos += 1
            return out
        if t[0] == "'":
            if len(t) == 1:
                return ''
            return ''.join(chr(int(x)) for x in t[1:].split('.'))
        if t == 'true':
            return True
        if t == 'false':
            return False
        if t == 'none':
            return None
        if re.fullmatch(r'-?\d+', t):
            return int(t)
        return Sym(t)
    v = value()
    return v


class ModelError(Exception):
    pass


def ensure_model_built():
    if not os.path.exists(BIN):
        raise ModelError('bin/xdmodel missing: run ./setup.sh')


def model_batch(requests, raw=False):
    """requests: list of (fn, arg, ...) tuples -> list of decoded answers.
    One subprocess per batch (communicate() avoids pipe deadlock)."""
    ensure_model_built()
    if not requests:
        return []
    text = '\n'.join(sx_enc([Sym(r[0])] + list(r[1:])) for r in requests) + '\n'
    p = subprocess.run([BIN], input=text.encode(), stdout=subprocess.PIPE,
                       stderr=subprocess.PIPE)
    if p.returncode != 0:
        raise ModelError('xdmodel failed: rc=%s %s' % (p.returncode, p.stderr.decode()[-500:]))
    lines = p.stdout.decode().split('\n')
    if lines and lines[-1] == '':
        lines.pop()
    if len(lines) != len(requests):
        raise ModelError('xdmodel answered %d lines for %d requests; stderr=%s' % (
            len(lines), len(requests), p.stderr.decode()[-300:]))
    if raw:
        return lines
    return [sx_dec(l) for l in lines]


def model_call(fn, *args):
    return model_batch([(fn,) + args])[0]


def is_error(ans):
    return isinstance(ans, list) and len(ans) >= 1 and ans[0] == Sym('error')


# ----------------------------------------------------------------------------
# canonical enumerations (same order as iter_strings in ocaml/dispatch.ml)
# ----------------------------------------------------------------------------
def iter_strings(alpha, maxlen):
    for n in range(maxlen + 1):
        for tup in itertools.product(alpha, repeat=n):
            yield ''.join(tup)


def count_strings(k, maxlen):
    return sum(k ** n for n in range(maxlen + 1))


def md5_join(results):
    return hashlib.md5('\n'.join(results).encode()).hexdigest()


# ----------------------------------------------------------------------------
# parallel map with per-worker initialisation, deterministic order
# ----------------------------------------------------------------------------
def pmap(func, items, jobs=None, chunksize=1):
    import multiprocessing as mp
    jobs = jobs or NPROC
    items = list(items)
    if jobs <= 1 or len(items) <= 1:
        return [func(x) for x in items]
    ctx = mp.get_context('fork')
    with ctx.Pool(min(jobs, len(items))) as pool:
        return pool.map(func, items, chunksize)


# ----------------------------------------------------------------------------
# run context: tier, seed, counters, violations, evidence
# ----------------------------------------------------------------------------
class Ctx:
    def __init__(self, pid, tier, seed):
        self.pid = pid
        self.tier = tier
        self.seed = seed
        self.t0 = time.time()
        self.evaluations = 0
        self.nontrivial = 0
        self.samples = []
        self.rule_parts = []
        self.hist = {}
        self.violations = []        # list of dict(kind, what, replay)
        self.known = []             # KNOWN-FINDING lines
        self.corr_failures = []     # correspondence disagreements (model vs impl)
        self.proof = None           # filled by proof_step
        self.notes = []
        self.exhaustive = None
        self.extra = {}
        self.assumptions = []

    def rng(self, salt=''):
        return random.Random('%s/%s/%s' % (self.seed, self.pid, salt))

    def count(self, key, n=1):
        self.hist[key] = self.hist.get(key, 0) + n

    def sample(self, s, limit=8):
        if len(self.samples) < limit:
            self.samples.append(s)

    def add_rule(self, text):
        self.rule_parts.append(text)

    # -- reporting ---------------------------------------------------------
    def write_replay(self, name, payload):
        d = os.path.join(VERIF, 'replays')
        os.makedirs(d, exist_ok=True)
        h = hashlib.sha1(json.dumps(payload, sort_keys=True, default=repr).encode()).hexdigest()[:10]
        path = os.path.join(d, '%s-%s-%s.json' % (self.pid, name, h))
        with open(path, 'w') as f:
            json.dump(payload, f, indent=1, sort_keys=True, default=repr)
        return path

    def violation(self, name, payload, found_input=True):
        """Report a property violation with a concrete failing input (or, with
        found_input=False, a broken theorem/correspondence without one)."""
        payload = dict(payload)
        payload['property'] = self.pid
        payload['kind'] = name
        payload['seed'] = self.seed
        payload['tier'] = self.tier
        payload['failing_input_found'] = bool(found_input)
        path = self.write_replay(name, payload)
        self.violations.append(dict(kind=name, replay=path, found_input=found_input))
        return path

    def known_finding(self, what):
        if what not in self.known:
            self.known.append(what)


_PROCESS_STREAMS = (sys.stdout, sys.stderr)       # the streams this process started with: the verdict lines go there, whatever happened


def restore_streams(ctx=None):
    """the verdict must reach the caller also when something the check ran left another object in sys.stdout / sys.stderr (that is a
    finding about the code under test, reported as such, never a reason to stay silent)"""
    replaced = [n for n, cur, orig in (('sys.stdout', sys.stdout, _PROCESS_STREAMS[0]), ('sys.stderr', sys.stderr, _PROCESS_STREAMS[1])) if cur is not orig]
    sys.stdout, sys.stderr = _PROCESS_STREAMS
    if replaced and ctx is not None:
        ctx.violation('process-streams-replaced', {
            'what': 'when the check finished, %s of the checking process was not the stream the process started with: something that ran in it replaced the '
                    'stream behind the harness (every harness puts back what it installs)' % ' and '.join(replaced),
            'theorem_or_correspondence': 'harness of %s: process-wide streams at the end of the check' % ctx.pid}, False)
    return replaced


def finish(ctx):
    """print KNOWN-FINDING / VIOLATION lines, write evidence, return exit code"""
    restore_streams(ctx)
    wall = time.time() - ctx.t0
    pr = ctx.proof or {}
    cov = {
        'obligations': pr.get('obligations', 0),
        'discharged': pr.get('discharged', 0),
        'checker_cmd': pr.get('checker_cmd', ''),
        'trusted_base': pr.get('trusted_base', []),
        'theorems': pr.get('theorems', []),
        'axioms_reported': pr.get('axioms', []),
        'evaluations': int(ctx.evaluations),
        'distinct_nontrivial': int(ctx.nontrivial),
        'rule': ' | '.join(ctx.rule_parts),
        'samples': ctx.samples or ['(none)'],
        'histogram': ctx.hist,
        'correspondence_disagreements': len(ctx.corr_failures),
        'known_findings_seen': list(ctx.known),
        'notes': ctx.notes,
    }
    if ctx.exhaustive is not None:
        cov['exhaustive'] = bool(ctx.exhaustive)
    cov.update(ctx.extra)
    ev = {
        'property_id': ctx.pid,
        'tier': ctx.tier,
        'seed': int(ctx.seed),
        'level': 'proof',
        'coverage': cov,
        'assumptions': ctx.assumptions,
        'wall_s': round(wall, 2),
        'violations': len(ctx.violations),
    }
    os.makedirs(os.path.join(VERIF, 'evidence'), exist_ok=True)
    evname = ctx.pid + '.json' if ctx.proof is not None else '.dev_' + ctx.pid + '.json'   # --no-proof runs never touch the real file
    with open(os.path.join(VERIF, 'evidence', evname), 'w') as f:
        json.dump(ev, f, indent=1, sort_keys=True, default=repr)
        f.write('\n')
    for k in ctx.known:
        print('KNOWN-FINDING: property=%s %s' % (ctx.pid, k))
    for v in ctx.violations:
        tail = '' if v['found_input'] else ' no-failing-input-found'
        print('VIOLATION property=%s replay=%s%s' % (ctx.pid, v['replay'], tail))
    print('[%s] tier=%s seed=%s evaluations=%d nontrivial=%d obligations=%s/%s violations=%d wall=%.1fs' % (
        ctx.pid, ctx.tier, ctx.seed, ctx.evaluations, ctx.nontrivial,
        cov['discharged'], cov['obligations'], len(ctx.violations), wall))
    sys.stdout.flush()
    return 1 if ctx.violations else 0


# ----------------------------------------------------------------------------
# known findings
# ----------------------------------------------------------------------------
def load_known_findings(pid):
    path = os.path.join(VERIF, 'KNOWN_FINDINGS.json')
    if not os.path.exists(path):
        return []
    with open(path) as f:
        data = json.load(f)
    return [e for e in data.get('findings', []) if e.get('property') == pid and e.get('status') == 'known']


# ----------------------------------------------------------------------------
# proof step
# ----------------------------------------------------------------------------
FORBIDDEN = re.compile(
    r'\b(Admitted|admit|Axiom|Axioms|Parameter|Parameters|Conjecture|Conjectures|Admit Obligations)\b'
    r'|Unset\s+Guard|bypass_check|Unset\s+Positivity|Unset\s+Universe|type-in-type|impredicative-set')

TRUSTED_BASE = [
    'Coq 8.16.1 kernel (coqc); vm_compute used for witnesses and finite sweeps; native_compute not used',
    'extraction: ExtrOcamlBasic only (bool, option, unit, list, prod, sumbool, sumor -> OCaml); N/positive/Z/nat stay inductive',
    'ocaml/sxlib.ml, dispatch.ml, driver.ml: hand-written protocol glue',
    'harness/*.py: generators, implementation drivers, canonicalisers, oracle tables filled from CPython 3.12 (tokenize/ast/exec/os)',
    'hand-written Gallina model of the anchored xdoctest functions, tied to /repo only by the correspondence check of this run',
]


def _strip_comments(src):
    out = []
    depth = 0
    i = 0
    while i < len(src):
        if src.startswith('(*', i):
            depth += 1
            i += 2
        elif src.startswith('*)', i) and depth:
            depth -= 1
            i += 2
        else:
            if not depth:
                out.append(src[i])
            i += 1
    return ''.join(out)


def scan_forbidden():
    hits = []
    for root, _, files in os.walk(COQ):
        for fn in files:
            if fn.endswith('.v'):
                p = os.path.join(root, fn)
                src = _strip_comments(open(p).read())
                # Variable/Hypothesis outside a section
                depth = 0
                for ln, line in enumerate(src.split('\n'), 1):
                    s = line.strip()
                    if re.match(r'Section\s+\w+', s):
                        depth += 1
                    elif re.match(r'End\s+\w+\s*\.', s) and depth:
                        depth -= 1
                    if FORBIDDEN.search(line):
                        hits.append('%s:%d: %s' % (os.path.relpath(p, VERIF), ln, s[:80]))
                    if depth == 0 and re.match(r'(Variable|Variables|Hypothesis|Hypotheses|Context)\b', s):
                        hits.append('%s:%d: %s (outside section)' % (os.path.relpath(p, VERIF), ln, s[:80]))
    return hits


def proof_step(ctx, thorough_coqchk=None):
    """make (incremental, full .vo), then always recompile Props/<pid>.v so this
    run observes the theorems being accepted and the Print Assumptions output."""
    pid = ctx.pid
    res = {'obligations': 0, 'discharged': 0, 'theorems': [], 'axioms': [],
           'trusted_base': list(TRUSTED_BASE), 'checker_cmd': ''}
    ctx.proof = res
    propfile = os.path.join(COQ, 'Props', pid + '.v')
    if not os.path.exists(propfile):
        ctx.notes.append('no Props/%s.v' % pid)
        return res
    src = _strip_comments(open(propfile).read())
    theorems = re.findall(r'^\s*(?:Theorem|Lemma|Corollary)\s+(\w+)', src, re.M)
    res['theorems'] = theorems
    res['obligations'] = len(theorems)
    env = dict(os.environ)
    jobs = str(NPROC)
    if not os.path.exists(os.path.join(COQ, 'Makefile')):
        subprocess.run(['coq_makefile', '-f', '_CoqProject', '-o', 'Makefile'], cwd=COQ,
                       stdout=subprocess.DEVNULL, stderr=subprocess.DEVNULL)
    mk = subprocess.run(['timeout', '1500', 'make', '-j', jobs], cwd=COQ, env=env,
                        stdout=subprocess.PIPE, stderr=subprocess.STDOUT)
    cmd = 'make -C coq && coqc -Q . XD Props/%s.v (Print Assumptions under every theorem)' % pid
    if mk.returncode != 0:
        res['checker_cmd'] = cmd
        res['build_log'] = mk.stdout.decode()[-2000:]
        ctx.violation('proof-build-failed', {'log': res['build_log'],
                      'theorem_or_correspondence': 'coq build (make) failed'}, found_input=False)
        return res
    p = subprocess.run(['timeout', '900', 'coqc', '-Q', '.', 'XD', 'Props/%s.v' % pid], cwd=COQ,
                       stdout=subprocess.PIPE, stderr=subprocess.STDOUT)
    out = p.stdout.decode()
    res['checker_cmd'] = cmd
    if p.returncode != 0:
        res['build_log'] = out[-2000:]
        ctx.violation('theorem-not-accepted', {'log': out[-2000:],
                      'theorem_or_correspondence': 'Props/%s.v' % pid}, found_input=False)
        return res
    closed = out.count('Closed under the global context')
    axioms = sorted(set(re.findall(r'^([A-Za-z_][\w.]*)\s*:', out, re.M)))
    res['axioms'] = axioms
    res['closed_under_global_context'] = closed
    bad = scan_forbidden()
    if bad:
        res['forbidden'] = bad
        ctx.violation('forbidden-construct', {'hits': bad,
                      'theorem_or_correspondence': 'development contains Admitted/Axiom/...'}, found_input=False)
        return res
    n_print = len(re.findall(r'Print\s+Assumptions', src))
    if n_print < len(theorems):
        ctx.notes.append('Props/%s.v: %d theorems but %d Print Assumptions' % (pid, len(theorems), n_print))
    res['discharged'] = len(theorems)
    if (thorough_coqchk if thorough_coqchk is not None else ctx.tier == 'thorough'):
        c = subprocess.run(['timeout', '1500', 'coqchk', '-silent', '-o', '-Q', '.', 'XD', 'XD.Props.%s' % pid],
                           cwd=COQ, stdout=subprocess.PIPE, stderr=subprocess.STDOUT)
        txt = c.stdout.decode()
        res['coqchk_rc'] = c.returncode
        res['coqchk_tail'] = txt[-1500:]
        if c.returncode != 0:
            ctx.violation('coqchk-failed', {'log': txt[-2000:],
                          'theorem_or_correspondence': 'coqchk XD.Props.%s' % pid}, found_input=False)
    return res


# ----------------------------------------------------------------------------
# exhaustive step-level comparison: model function vs implementation function
# over all strings of length <= maxlen over alpha (digest first, locate on mismatch)
# ----------------------------------------------------------------------------
def exhaustive_step(ctx, name, model_fn, impl_fn, alpha, maxlen, extra_args=(), nontrivial=None):
    """model_fn: protocol function taking (extra..., s); impl_fn: python callable on s.
    Returns list of (s, model, impl) disagreements (at most 3)."""
    strs = list(iter_strings(alpha, maxlen))
    call = [Sym(model_fn)] + list(extra_args) + [Sym('_')]
    digest = model_call('forall_str', alpha, maxlen, Sym('digest'), call)
    mine = []
    nt = 0
    for s in strs:
        r = impl_fn(s)
        if nontrivial is not None:
            nt += 1 if nontrivial(s, r) else 0
        elif r != s:
            nt += 1
        mine.append(sx_enc(r))
    ctx.evaluations += len(strs)
    ctx.nontrivial += nt
    ctx.count('step:%s:strings' % name, len(strs))
    ctx.count('step:%s:changed' % name, nt)
    out = []
    if md5_join(mine) != str(digest):
        for i in range(0, len(strs), 5000):
            chunk = strs[i:i + 5000]
            ans = model_batch([(model_fn,) + tuple(extra_args) + (s,) for s in chunk])
            for s, a, m in zip(chunk, ans, mine[i:i + 5000]):
                if sx_enc(a) != m:
                    out.append((s, a, sx_dec(m)))
                    if len(out) >= 3:
                        return out
    return out
