"""writes MANIFEST.json from the table below (kept in one place so it stays valid)"""
import json, os
HERE = os.path.dirname(os.path.dirname(os.path.abspath(__file__)))

CHECKS = {
 'C06': dict(
   text="Coq theorem C06_ellipsis_iff: the model of checker._ellipsis_match (including the re.split scanner) accepts exactly the declarative wildcard relation EllMatch for ALL strings (greedy leftmost scan proved sound and complete, no length bound). The model is tied to the code by an exhaustive differential run over {a,b,space,newline,.} (|got|<=5, |want|<=6; ~5.7M pairs quick) plus seeded random longer pairs; by the theorem every disagreement is a concrete input on which the code departs from the relation.",
   note="Trusted: Coq kernel, extraction (ExtrOcamlBasic), OCaml driver, Python harness; model hand-written, tied by bounded differential testing only; alphabet of fidelity 0..255+U+2028+U+3000.",
   technique="Coq proof (induction: greedy scan = InOrder relation) + extracted-model/implementation exhaustive differential correspondence",
   design="5/C06"),
 'C05': dict(
   text="Coq theorems over the model of checker.check_output/normalize: C05_relation (verdict = declarative MatchRel, which embeds the C06 wildcard relation, for ALL texts and all flag settings), C05_identical, C05_strict_exact, C05_nonws_differs, C05_monotone_partial (every leniency is monotone under MonoGuard) and three C05_monotone_refuted_* witnesses showing the monotonicity clause is false of the faithful model outside the guard (finding F7, recorded as known finding, re-evaluated on the real code every run). Tie to the code: each of the 9 normalisation steps compared with the real re/str call on all strings up to length 6-7 over step-specific alphabets, and check_output compared under all 32 flag settings on all small pairs plus seeded structured random pairs.",
   note="Trusted: Coq kernel, extraction, OCaml driver, harness; per-pattern scanners replace Python's re (validated exhaustively per step, bounded); alphabet of fidelity 0..255+U+2028+U+3000; monotonicity proved only under MonoGuard (NORMALIZE_WHITESPACE/IGNORE_WHITESPACE with ELLIPSIS on is outside the proved part).",
   technique="Coq proof (relation equivalence, monotonicity lemmas, vm_compute refutation witnesses) + step-level and whole-relation differential correspondence",
   design="5/C05"),
 'C13': dict(
   text="Coq theorems over the model of DoctestParser (_label_docsrc_lines with _complete_source, the three grouping passes): C13_label_partition (exactly one labelled line per docstring line, in order, identical up to the inserted triple-quote display prefix, for EVERY tokenizer behaviour incl. raising ones, from any labeller state) and C13_group_partition (+ per-pass lemmas: nothing lost, duplicated or reordered by grouping). Tie to the code: parse (labels, groups, parts, offsets, modes, directives, failure phase) compared with the extracted model on every docstring of <=3 lines over a 22-symbol line alphabet plus 40000 seeded 4-9 line docstrings and 4000 block-built docstrings; model-independent partition/offset/intended-label predicates are evaluated on the implementation. Two genuine mislabelling defects found that way are recorded as known findings F8a/F8b (adjacent examples of different indentation).",
   note="Trusted: Coq kernel, extraction, driver, harness; tokenizer/ast are oracles answered by CPython (pristine copy of the vendored 3.11 tokenizer; ast.parse); Directive.extract answers taken from xdoctest in this check; partition of parts inside a chunk (_package_chunk slicing) and the declarative label spec are checked on the implementation by the harness predicates, not yet by a theorem.",
   technique="Coq proof (induction over lines / groups, for all oracles) + extracted-model/implementation differential correspondence + intended-label search",
   design="5/C13"),
}

NOT_APPLICABLE = {}

def main():
    props = [json.loads(l)['id'] for l in open(os.path.join(HERE, 'properties.jsonl'))]
    checks = []
    for pid in props:
        if pid not in CHECKS:
            continue
        c = CHECKS[pid]
        checks.append({
            'property_id': pid,
            'quick_cmd': './check %s --tier quick' % pid,
            'thorough_cmd': './check %s --tier thorough' % pid,
            'evidence_file': 'evidence/%s.json' % pid,
            'replay_cmd_template': './check %s --replay {path}' % pid,
            'engine': 'coq-model-correspondence',
            'level_claimed': {'category': 'proof', 'text': c['text'], 'design_ref': 'DESIGN.md section ' + c['design']},
            'level_note': c['note'],
            'technique': c['technique'],
        })
    na = []
    for pid in props:
        if pid not in CHECKS:
            na.append({'property_id': pid, 'reason': NOT_APPLICABLE.get(pid, 'not yet claimed: model/theorems/correspondence for this property are still being built (see DESIGN.md section 9); no check is registered rather than an unsound one')})
    man = {
        'version': 1,
        'setup_cmd': './setup.sh',
        'hooks': {
            'guard': 'XDOCTEST_VERIF',
            'enable': 'no source hooks: checks import xdoctest from /repo/src (PYTHONPATH) and observe it from outside; ./check exports XDOCTEST_VERIF=1 for uniformity',
            'baseline_off_cmd': 'cd /repo && /venv/bin/python -m pytest -ra -q -p no:cacheprovider --timeout=900 --continue-on-collection-errors',
            'source_commits': [],
            'add_only': True,
        },
        'engines': [{
            'name': 'coq-model-correspondence',
            'path': 'check',
            'serves_properties': [c['property_id'] for c in checks],
            'kind_free_text': 'Coq 8.16.1 theorems over a hand-written Gallina model (coq/), extracted to OCaml (bin/xdmodel) and compared with the implementation in /repo/src by harness/*.py; property-directed search for a failing input on disagreement',
        }],
        'checks': checks,
        'notes': 'See DESIGN.md. Entry point ./check <Cxx> --tier quick|thorough; evidence written by the check itself; KNOWN_FINDINGS.json lists recorded defects.',
        'not_applicable': na,
    }
    with open(os.path.join(HERE, 'MANIFEST.json'), 'w') as f:
        json.dump(man, f, indent=1)
        f.write('\n')

if __name__ == '__main__':
    main()
