"""writes MANIFEST.json from the table below (kept in one place so it stays valid)"""
import json, os
HERE = os.path.dirname(os.path.dirname(os.path.abspath(__file__)))

CHECKS = {
 'C06': dict(
   text="Coq theorem C06_ellipsis_iff: the model of checker._ellipsis_match (including the re.split scanner) accepts exactly the declarative wildcard relation EllMatch for ALL strings (greedy leftmost scan proved sound and complete, no length bound). The model is tied to the code by an exhaustive differential run over {a,b,space,newline,.} (|got|<=5, |want|<=6; ~5.7M pairs quick) plus seeded random longer pairs; by the theorem every disagreement is a concrete input on which the code departs from the relation.",
   note="Trusted: Coq kernel, extraction (ExtrOcamlBasic), OCaml driver, Python harness; model hand-written, tied by bounded differential testing only; alphabet of fidelity 0..255+U+2028+U+3000.",
   technique="Coq proof (induction: greedy scan = InOrder relation) + extracted-model/implementation exhaustive differential correspondence",
   design="5/C06"),
 'C05': dict(
   text="Coq theorems over the model of checker.check_output/normalize: C05_relation (verdict = declarative MatchRel, which embeds the C06 wildcard relation, for ALL texts and all flag settings), C05_identical, C05_strict_exact, C05_nonws_differs, C05_monotone_partial (every leniency is monotone under MonoGuard) and three C05_monotone_refuted_* witnesses showing the monotonicity clause is false of the faithful model outside the guard (finding F7, recorded as known finding, re-evaluated on the real code every run). Tie to the code: each of the 9 normalisation steps compared with the real re/str call on all strings up to length 6-7 over step-specific alphabets, and check_output compared under all 32 flag settings on all small pairs plus seeded structured random pairs.",
   note="Trusted: Coq kernel, extraction, OCaml driver, harness; per-pattern scanners replace Python's re (validated exhaustively per step, bounded); alphabet of fidelity 0..255+U+2028+U+3000; monotonicity proved only under MonoGuard (NORMALIZE_WHITESPACE/IGNORE_WHITESPACE with ELLIPSIS on is outside the proved part).",
   technique="Coq proof (relation equivalence, monotonicity lemmas, vm_compute refutation witnesses) + step-level and whole-relation differential correspondence",
   design="5/C05"),
 'C13': dict(
   text="Coq theorems over the model of DoctestParser (_label_docsrc_lines with _complete_source, the three grouping passes): C13_label_partition (exactly one labelled line per docstring line, in order, identical up to the inserted triple-quote display prefix, for EVERY tokenizer behaviour incl. raising ones, from any labeller state) and C13_group_partition (+ per-pass lemmas: nothing lost, duplicated or reordered by grouping). Tie to the code: parse (labels, groups, parts, offsets, modes, directives, failure phase) compared with the extracted model on every docstring of <=3 lines over a 22-symbol line alphabet plus 40000 seeded 4-9 line docstrings and 4000 block-built docstrings; model-independent partition/offset/intended-label predicates are evaluated on the implementation. Two genuine mislabelling defects found that way are recorded as known findings F8a/F8b (adjacent examples of different indentation).",
   note="Trusted: Coq kernel, extraction, driver, harness; tokenizer/ast are oracles answered by CPython (pristine copy of the vendored 3.11 tokenizer; ast.parse); Directive.extract answers taken from xdoctest in this check; partition of parts inside a chunk (_package_chunk slicing) and the declarative label spec are checked on the implementation by the harness predicates, not yet by a theorem.",
   technique="Coq proof (induction over lines / groups, for all oracles) + extracted-model/implementation differential correspondence + intended-label search",
   design="5/C13"),
 'C02': dict(
   text="Coq theorems over the model of DocTest.run / DoctestPart.check / _post_run (Model/RunLoop.v), for EVERY oracle of what parts print/return/raise and every REQUIRES oracle: C02_candidates + C02_want_iff (a want is satisfied iff some trailing portion of the outputs since the previous want, or the value's repr, matches - exact side conditions), C02_mismatch_means_nothing_matches, C02_no_want_never_fails, C02_want_decides (continue iff satisfied, else got/want failure attributed to that part), C02_fail_stop (all parts before the failing one visited, none after), C02_exactly_one, C02_pass_iff, C02_passed_means_something_ran. Tie to the code: the real run (compile/exec/eval observed from outside) vs the extracted model fed with the recorded outcomes - verdict, failure kind, failing part, executed/skipped parts, per-part stdout, unmatched buffer - on every doctest of <=2 (quick) / 3 statements over 9 statement kinds x every want placement x every correct variant x every single corruption (incl. stale text from earlier in the same doctest), plus seeded deeper doctests; by-construction verdict and TRACE are checked on the implementation independently of the model.",
   note="Trusted: Coq kernel, extraction, driver, harness; per-part outcomes (stdout, value repr, exception) are oracles taken from CPython exec/eval; check_output is the C05 model; helper functions injected into the doctest namespace.",
   technique="Coq proof (loop invariant by induction over parts; characterisation of DoctestPart.check) + extracted-model/implementation differential correspondence + by-construction verdict search",
   design="5/C02"),
 'C03': dict(
   text="Coq theorems over the raising arm of the run-loop model with checker.check_exception / extract_exc_want / _strip_exception_details: C03_no_want_fails, C03_nontraceback_fails (a want that is not a traceback block never hides the exception: the doctest fails with the raised exception), C03_traceback_iff (the run goes on iff the final line matches under the active flags or - with IGNORE_EXCEPTION_DETAIL - the stripped type does; otherwise a got/want failure), C03_exception_match_spec, C03_no_raise_traceback_want, C03_fail_stop, C03_no_failure_all_visited (after an expected exception the following parts are still visited). Tie to the code: extract_exc_want on all line-structured texts of <=2/3 lines over 27 line symbols + seeded longer ones, _strip_exception_details on all strings over {a . : newline space} up to length 5/6, and the doctest table 4 exception classes x 6 messages x 10 want forms x 4 flag settings x positions x {direct, from a helper} run through DocTest.run and the model; by-construction verdict, raised class and TRACE checked on the implementation.",
   note="Trusted: Coq kernel, extraction, driver, harness; traceback.format_exception_only is CPython's (its last element is the oracle); the _EXCEPTION_RE scanner is hand-written (validated on the enumerated texts only).",
   technique="Coq proof (decision table of one loop iteration for all states) + differential correspondence (step level exhaustive, end-to-end table) + by-construction search",
   design="5/C03"),
 'C04': dict(
   text="Coq theorems over the model of RuntimeState/Directive.effects (Model/Directive.v) against the abstract scoping machine Spec/Scoping.v: C04_scoping (for EVERY sequence of directive lists - block or inline, +-SKIP, +-REQUIRES with any arguments met or unmet, any other flag - from every well-formed state and every REQUIRES oracle, the statements that run are exactly those the abstract machine selects, and update never raises), C04_update_refines, C04_inline_leaves_persistent (the whole persistent dict is untouched), C04_overlay_is_dropped, C04_defaults_as_leading_block, C04_initial_state_wf, C04_skipped_no_effect. Tie to the code: RuntimeState.update on every update sequence of <=3/4 over 20 directive symbols (to_dict, skip test, raised class, persistent dict after every update) and the same histories rendered as real doctests in 10 statement shapes (one-line, multi-line, compound, decorated def/class/async def in both prompt styles, with want, decoy directive text in strings) x default_runtime_state, run through DocTest.run and the model; the executed TRACE is compared with a python transcription of the abstract machine.",
   note="Trusted: Coq kernel, extraction, driver, harness; which text is a comment is the tokenizer's (decoys tested); the slicing of a chunk into parts at directive statements (_package_chunk) is covered by the parser correspondence (C13 harness) and the end-to-end TRACE, not by a theorem; REPORT_* directives are outside the property's quantifier (Scoped).",
   technique="Coq proof (refinement of an abstract state machine, induction over directives and parts) + differential correspondence (unit level exhaustive, end-to-end) + spec-vs-TRACE search",
   design="5/C04"),
 'C09': dict(
   text="Coq theorems over the run-loop model (every raising site of DocTest.run is an oracle outcome: directive update, pre-import, compile, exec/eval, check, repr, traceback search) and the runner loop model: C09_return_never_raises (with on_error=return, for every outcome oracle that has a doctest frame and no SystemExit/KeyboardInterrupt, at every position, run returns a summary marked failed iff a failure was recorded), C09_compile_error_recorded, C09_directive_error_recorded, C09_exception_recorded, C09_failed_line_defined, C09_others_still_run, C09_abort_iff_escape. Tie to the code: fault matrix of 17 failure kinds x position x surrounding shape through DocTest.run and the extracted model; model-independent checks on the implementation: summary marked failed, repr_failure renders at verbosity 0..3 and names the exception type and the by-construction failing line, failed_lineno is that file line, on_error=raise records what it raises, doctest_module on a module with the bad doctest between two good ones reports 1 failed / 2 passed, import-failure module. Two genuine defects found this way were repaired (F9 unguarded fallback repr, F10 'impossible state' when rendering a want that normalizes to nothing).",
   note="Trusted: Coq kernel, extraction, driver, harness; HasDoctestFrame is an oracle hypothesis (a doctest that closes the capture stream falsifies it: outside the fault list); repr_failure's text layout and traceback rewriting are not modelled (checked on the implementation only); pytest's INTERNALERROR path is not exercised in the quick tier.",
   technique="Coq proof (ladder totality by case analysis per step + induction over parts; runner loop) + differential correspondence + fault-matrix search on the implementation",
   design="5/C09"),
 'C10': dict(
   text="Coq theorems over the Runner model (gathering lines 283-298, _run_examples tallies, __main__.main): C10_tallies_add_up, C10_summaries_exactly_one (every summary of the run-loop model is exactly one of passed/failed/skipped), C10_failed_list_exact (+C10_positions_spec), C10_exit_status (1 iff some doctest failed, else 0), C10_gather_all / C10_gather_all_once (every non-disabled doctest once, order kept), C10_gather_one (a named doctest runs alone, disabled or not), C10_list_names_all. Tie to the code: every module of <=2/3 doctests over 8 by-construction kinds + seeded modules of 3..8 doctests in function/method/google-block layouts x {all, list, every unique name, every bare callname, missing name} x verbosity: doctest_module's run_summary and __main__.main's return value vs the extracted model; on an exit-value disagreement the search runs python -m xdoctest on modules with 256/512 failing doctests (low 8 bits).",
   note="Trusted: Coq kernel, extraction, driver, harness; per-doctest verdicts are by construction (decided by C02/C03); the zero-argument-function fallback, KeyboardInterrupt handling and 'dump' are outside this check; subprocess exit status only in the thorough tier unless a disagreement triggers the search.",
   technique="Coq proof (list induction: counting, positions, filter uniqueness) + differential correspondence on generated modules + arithmetic-identity search",
   design="5/C10"),
 'C15': dict(
   text="Coq theorems over two verdict functions defined on ONE run-loop model: C15_same_verdict (for every doctest - every list of parts - and every behaviour of its parts with a doctest frame and no SystemExit/KeyboardInterrupt, run(on_error='raise', mode pytest) followed by the all-skipped pytest.skip() and the anything_ran() test gives the same verdict as run(on_error='return') + _post_run; proved by a simulation between the two runs plus loop invariants), C15_same_report (force-disabled: skipped vs omitted is the only difference), C15_anything_ran_iff_not_all_skipped (the two nothing-ran tests coincide), C15_native_exit. Tie to the code: in process, the native verdict and an emulation of XDoctestItem.runtest made of the real is_disabled/run/anything_ran calls vs the extracted model's two verdict functions on every by-construction kind x default state and 2500/40000 seeded fragment doctests; both real front ends as subprocesses (pytest --xdoctest -v, python -m xdoctest <mod> all) on 36/600 generated modules x style {auto, google, freeform} x options: identifiers, per-identifier outcomes and exit codes compared.",
   note="Trusted: Coq kernel, extraction, driver, harness; pytest's collection/reporting/exit status and the option plumbing (_populate_from_cli) are outside the model (compared through the subprocesses only); a doctest starting with '# pytest.skip' is disabled under pytest only and excluded by the statement's hypothesis.",
   technique="Coq proof (simulation between the on_error=raise and on_error=return runs + invariants by induction over parts) + differential correspondence in process + front-end-vs-front-end subprocess comparison",
   design="5/C15"),
 'C14': dict(
   text="Coq theorems: C14_parse_contained (the model of DoctestParser.parse - labelling, grouping, _package_chunk with _locate_ps1_linenos / balanced_intervals / lazy directive extraction - returns parts or the parser's own error for EVERY answer of the tokenizer/ast/semicolon/directive oracles, raising ones included; no internal IndexError/assert escapes the wrapped region), C14_intervals_fuel, and over the model of core.parse_docstr_examples (google / freeform(asone) / auto as generators): C14_examples_contained (never propagates when producers raise only parse errors), C14_warned_iff_failed, C14_freeform_broken_no_example, C14_google_blocks (exactly the example blocks before the first broken one, numbered 0.. in order), C14_others_unaffected. Tie to the code: 7500/180000 grammar-generated strings (prompt fragments, brackets, quotes, backslashes, directive fragments, control characters, keywords, deep nesting) and google-structured docstrings: parse vs the extracted parser model (outcome class, failure phase, parts) and parse_docstr_examples x 3 styles vs the extracted Collect model (examples with num and lineno, warning, propagation), each call under a 5 s alarm; a sample embedded between two valid docstrings in a module x 3 styles (neighbours collected and pass). A genuine defect found by this fuzz (F11, lazily extracted malformed directive aborts the native runner) was repaired.",
   note="Trusted: Coq kernel, extraction, driver, harness; 'never hangs' is tested under an alarm for the real tokenizer, not proved (the model terminates by Coq's guard condition); oracle answers come from CPython; split_google_docblocks is an oracle of the Collect model (its own model is in the C08 check).",
   technique="Coq proof (every Err of the parser model is a parse error: induction over the model's functions; generator containment) + differential correspondence on grammar fuzz + direct escape/timeout/neighbour search",
   design="5/C14"),
 'C17': dict(
   text="Coq theorems over the model of util_import (check_dpath/_isvalid, the sys.path loop, normalize_modpath, split_modpath, modpath_to_modname) on an abstract file system, against the declarative regular import resolution Spec/ImportResolve.v: C17_resolve_iff (for EVERY well-formed tree, root and dotted name of any depth, check_dpath finds exactly the regular package directory or .py file the import system resolves, and nothing otherwise), C17_syspath_resolve, C17_first_root_wins, C17_roundtrip (name -> path -> name when the search root is not itself a package), C17_split_joins, C17_split_spec. Tie to the code: every parent-closed tree with <=5/6 of 14 candidate entries (packages, modules, plain directories beside same-named .py files, __main__.py, underscore names) plus seeded larger trees, created under a temp root: modname_to_modpath / modpath_to_modname / split_modpath / normalize_modpath (4 settings) on all names and paths vs the extracted model (tree read back with os.walk); independently the implementation vs importlib.machinery.FileFinder part by part, the round trip, two-root search paths, and import_module_from_path (module name, sys.path unchanged; importing, raising, missing modules).",
   note="Trusted: Coq kernel, extraction, driver, harness; os.path / os.walk; symlinks, case-insensitive file systems, extension suffixes, egg-links and editable finders are outside the model and never generated; PEP 420 namespace portions count as 'nothing there' (DESIGN reading note); sys.path restoration is C12's model.",
   technique="Coq proof (induction over the name parts / the path, refinement to a declarative resolution spec) + exhaustive differential correspondence on real directory trees + FileFinder oracle search",
   design="5/C17"),
 'C12': dict(
   text="Coq theorems over the model of the process-global brackets (CaptureStdout start/log_part/stop inside `with cap:`, warnings.catch_warnings around the part loop, PythonPathContext enter/exit) with a doctest body being ANY finite sequence of writes and replacements of sys.stdout / warning filters / showwarning: C12_run_restores (after a run stdout, stderr, filter state and showwarning are the originals, for any number of parts doing anything), C12_capture_restores, C12_path_context (sys.path restored exactly for every admissible index when the body leaves it alone), C12_path_recovery (otherwise exactly one occurrence of the temporary entry is removed - the one at the remembered index, else the first; RuntimeError iff gone; IndexError iff shorter - mirrored from the code). Tie to the code: PythonPathContext on 3000/60000 seeded paths x index x 11 body manipulations vs the extracted model; DocTest.run on 7 body flavours x 10 endings (incl. SystemExit/KeyboardInterrupt propagating, ExitTestException, pytest.skip, compile error) x position x on_error with identity checks of sys.stdout/sys.stderr, sys.path, warnings.filters, warnings.showwarning and no running event loop; import_module_from_path and the doctest pre-import on 7 module kinds (incl. modules that rearrange sys.path at import) x index.",
   note="Trusted: Coq kernel, extraction, driver, harness; H-with (CPython runs __exit__ on every way out of a with body, BaseException included); asyncio.run's loop cleanup and the warnings module are runtime (checked on the implementation only); PythonPathContext indices outside -(len+1)..len are outside the modelled range.",
   technique="Coq proof (bracket discipline by induction over parts and operations; list insert/pop algebra) + differential correspondence + before/after identity search on the implementation",
   design="5/C12"),
 'C11': dict(
   text="PARTIAL. Coq theorems over a heap model of the directive state (the mutable REQUIRES set of the process-wide DEFAULT_RUNTIME_STATE, RuntimeState.__init__'s deepcopy, update's in-place set.add/remove, the inline overlay's copy): C11_defaults_never_written (for EVERY history of runs - any order, repetitions, any default options, any directives including ones that make update raise - every heap cell that existed before, in particular the default REQUIRES set, is left exactly as it was), C11_default_contents_stable, C11_run_preserves_heap, C11_fresh_state_owns_its_sets, C11_update_stays_in_own_cells. Tie to the code: seeded histories of RuntimeState constructions/updates vs the extracted heap model (the REQUIRES each state reads after every update, DEFAULT_RUNTIME_STATE after every run). The rest of the property (names of one doctest invisible to another, module globals not rebound, same outcome and captured output in every history) is decided on the implementation: permutations and repetitions of the 13 doctests of a generated module (clashing names, names only another doctest defines, rebinding module globals, SKIP/REQUIRES/flags left on, sys.stdout replaced, warning filters changed) on re-used and fresh DocTest objects x 3 default-option settings, every observation compared with that doctest's first observation.",
   note="Trusted: Coq kernel, extraction, driver, harness; that exec() on a copied namespace dict does not write the module, and that a returning run clears its namespace, are CPython/runtime facts observed by the harness, not theorems; histories contain returning runs only (on_error=return); in-place mutation of shared module objects is outside the statement.",
   technique="Coq proof (heap ownership invariant by induction over effects, parts and histories) + differential correspondence on RuntimeState histories + history-vs-alone search on the implementation",
   design="5/C11"),
}

NOT_APPLICABLE = {}

def main():
    props = [json.loads(l)['id'] for l in open(os.path.join(HERE, 'properties.jsonl'))]
    checks = []
    for pid in props:
        if pid not in CHECKS:
            continue
        c = CHECKS[pid]
        checks.append({
            'property_id': pid,
            'quick_cmd': './check %s --tier quick' % pid,
            'thorough_cmd': './check %s --tier thorough' % pid,
            'evidence_file': 'evidence/%s.json' % pid,
            'replay_cmd_template': './check %s --replay {path}' % pid,
            'engine': 'coq-model-correspondence',
            'level_claimed': {'category': 'proof', 'text': c['text'], 'design_ref': 'DESIGN.md section ' + c['design']},
            'level_note': c['note'],
            'technique': c['technique'],
        })
    na = []
    for pid in props:
        if pid not in CHECKS:
            na.append({'property_id': pid, 'reason': NOT_APPLICABLE.get(pid, 'not yet claimed: model/theorems/correspondence for this property are still being built (see DESIGN.md section 9); no check is registered rather than an unsound one')})
    man = {
        'version': 1,
        'setup_cmd': './setup.sh',
        'hooks': {
            'guard': 'XDOCTEST_VERIF',
            'enable': 'no source hooks: checks import xdoctest from /repo/src (PYTHONPATH) and observe it from outside; ./check exports XDOCTEST_VERIF=1 for uniformity',
            'baseline_off_cmd': 'cd /repo && /venv/bin/python -m pytest -ra -q -p no:cacheprovider --timeout=900 --continue-on-collection-errors',
            'source_commits': [],
            'add_only': True,
        },
        'engines': [{
            'name': 'coq-model-correspondence',
            'path': 'check',
            'serves_properties': [c['property_id'] for c in checks],
            'kind_free_text': 'Coq 8.16.1 theorems over a hand-written Gallina model (coq/), extracted to OCaml (bin/xdmodel) and compared with the implementation in /repo/src by harness/*.py; property-directed search for a failing input on disagreement',
        }],
        'checks': checks,
        'notes': 'See DESIGN.md. Entry point ./check <Cxx> --tier quick|thorough; evidence written by the check itself; KNOWN_FINDINGS.json lists recorded defects.',
        'not_applicable': na,
    }
    with open(os.path.join(HERE, 'MANIFEST.json'), 'w') as f:
        json.dump(man, f, indent=1)
        f.write('\n')

if __name__ == '__main__':
    main()
