"""Generated modules whose doctests have by-construction outcomes (shared by C10, C15, C11)."""

KINDS = ['pass', 'fail_output', 'fail_exc', 'all_skipped', 'partly_skipped', 'expected_exc', 'disabled', 'comment_only',
         'note_then_skip', 'skip_then_note', 'fail_directive_first', 'fail_compile_first', 'late_disable_word', 'warn_then_fail', 'warn_then_pass', 'requires_unmet_block',
         'comment_bare_prompt', 'comment_bare_prompt_prose', 'binds_then_fails', 'reads_leaked_name', 'promptless_google_block',
         'expected_exc_detail_ignored', 'expected_exc_type_only', 'expected_exc_wrong_type_detail_ignored',
         'skip_on_continuation_then_fail', 'skip_on_continuation_then_pass']
# kinds used by the native-runner checks only (under pytest a first line '# pytest.skip' is a force-disable word)
NATIVE_ONLY_KINDS = ['pytest_skip_comment']
# kinds whose verdict is not fixed by construction but must be the SAME in both front ends: a doctest that needs a module which is
# compiled into the interpreter (no file), which one front end's process may have imported and the other not
REQ_MODULE_KINDS = ['requires:faulthandler', 'requires:gc', 'requires:sys', 'requires:json', 'requires:xdverif_no_such_module', 'requires:_thread', 'requires:atexit']
# kinds for the front ends run as subprocesses only (they change process-wide state: the harness process itself must not run them)
SUBPROCESS_ONLY_KINDS = ['chdir_then_pass', 'chdir_then_fail']
# kinds for the comparison of the two front ends only: a doctest that skips ITSELF at run time through pytest's API (whatever the
# verdict is called, it is the same in both front ends, the doctests behind it still run, and nothing of it is a failure)
RUNTIME_SKIP_KINDS = ['calls_pytest_skip', 'calls_pytest_importorskip']
DISABLE_WORDS = ['# DISABLE_DOCTEST', '#DISABLE', '#  unstable', '# FAILING', '#SCRIPT', '# slow_doctest']


def doc_lines(kind, n):
    """doctest lines of one doctest of the given kind; n makes texts unique"""
    if kind.startswith('requires:'):
        return ['>>> # xdoctest: +REQUIRES(module:%s)' % kind.split(':', 1)[1], ">>> print('r%d')" % n, 'r%d' % n]
    if kind == 'calls_pytest_skip':
        return ['>>> import pytest', ">>> pytest.skip('not on this machine %d')" % n, ">>> print('never %d')" % n, 'not reached']
    if kind == 'calls_pytest_importorskip':
        return ['>>> import pytest', ">>> mod = pytest.importorskip('xdverif_no_such_module_%d')" % n, '>>> mod.something()']
    if kind == 'pass':
        return [">>> print('p%d')" % n, 'p%d' % n]
    if kind == 'fail_output':
        return [">>> print('a%d')" % n, 'b%d' % n]
    if kind == 'fail_exc':
        return [">>> x = %d" % n, ">>> raise ValueError('x%d')" % n]
    if kind == 'all_skipped':
        return ['>>> # xdoctest: +SKIP', ">>> print('s%d')" % n, 'never compared']
    if kind in ('chdir_then_pass', 'chdir_then_fail'):
        # the doctest leaves the process in another working directory (a function under test that chdirs): the doctests after it
        # still belong to the same module file
        return ['>>> import os, tempfile', '>>> os.chdir(tempfile.gettempdir())', ">>> print('c%d')" % n, ('c%d' if kind.endswith('pass') else 'WRONG%d') % n]
    if kind == 'requires_unmet_block':
        # a block directive whose condition is not met: everything after it is skipped, in THIS doctest only
        return ['>>> # xdoctest: +REQUIRES(module:xdverif_no_such_module_%d)' % n, ">>> print('u%d')" % n, 'never compared']
    if kind == 'partly_skipped':
        return [">>> print('no')  # xdoctest: +SKIP", 'not compared', ">>> print('z%d')" % n, 'z%d' % n]
    if kind == 'expected_exc':
        return [">>> raise KeyError('k%d')" % n, 'Traceback (most recent call last):', "KeyError: 'k%d'" % n]
    if kind == 'expected_exc_detail_ignored':
        # raised without a message, documented with one; the detail does not count
        return ['>>> # xdoctest: +IGNORE_EXCEPTION_DETAIL', '>>> raise ValueError', 'Traceback (most recent call last):', 'ValueError: the detail %d does not matter' % n]
    if kind == 'expected_exc_type_only':
        return [">>> raise LookupError('detail %d')  # xdoctest: +IGNORE_EXCEPTION_DETAIL" % n, 'Traceback (most recent call last):', '    ...', 'LookupError']
    if kind == 'expected_exc_wrong_type_detail_ignored':
        # the detail does not count, the type does: an ordinary failure of this doctest
        return ['>>> # xdoctest: +IGNORE_EXCEPTION_DETAIL', '>>> raise ValueError', 'Traceback (most recent call last):', 'KeyError: %d' % n]
    if kind == 'skip_on_continuation_then_fail':
        # an inline +SKIP on the LAST line of a statement of several lines skips that statement, not its neighbours
        return ['>>> q%d = 1' % n, '>>> x%d = [1,' % n, '...        2]  # xdoctest: +SKIP', ">>> raise ValueError('still raised %d')" % n]
    if kind == 'skip_on_continuation_then_pass':
        return ['>>> x%d = [1,' % n, '...        2]  # xdoctest: +SKIP', ">>> print('after %d')" % n, 'after %d' % n]
    if kind == 'disabled':
        return ['>>> ' + DISABLE_WORDS[n % len(DISABLE_WORDS)], ">>> print('d%d')" % n, 'WRONG%d' % n]
    if kind == 'note_then_skip':
        return ['>>> # a remark %d' % n, '>>> # xdoctest: +SKIP', ">>> print('n%d')" % n, 'never compared']
    if kind == 'skip_then_note':
        return [">>> print('k%d')  # xdoctest: +SKIP" % n, 'k%d' % n, '>>> # a trailing remark']
    if kind == 'fail_directive_first':
        # fails before anything of the doctest ran: the directive of its first part cannot be applied
        return ['>>> # xdoctest: +REQUIRES(module:os:path:join%d)' % n, ">>> print('q%d')" % n, 'q%d' % n]
    if kind == 'fail_compile_first':
        # fails before anything ran: the first part parses but does not compile
        return ['>>> return %d' % n, ">>> print('r%d')" % n]
    if kind == 'late_disable_word':
        # a force-disable word in a comment that is NOT on the first line: the doctest is enabled and passes
        return [">>> print('l%d')" % n, 'l%d' % n, '>>> ' + DISABLE_WORDS[n % len(DISABLE_WORDS)] + ' is only honoured on line one', ">>> print('m%d')" % n, 'm%d' % n]
    if kind == 'warn_then_fail':
        # emits a warning that is recorded for the doctest, then fails
        return ['>>> import warnings', ">>> warnings.warn('careful %d')" % n, ">>> print('a%d')" % n, 'b%d' % n]
    if kind == 'warn_then_pass':
        return ['>>> import warnings', ">>> warnings.warn('careful %d', RuntimeWarning)" % n, ">>> print('a%d')" % n, 'a%d' % n]
    if kind == 'pytest_skip_comment':
        # for the native runner this first line is an ordinary comment: the doctest runs (and fails by output)
        return ['>>> # pytest.skip is honoured by the pytest plugin only %d' % n, ">>> print('k%d')" % n, 'WRONG%d' % n]
    if kind == 'promptless_google_block':
        # a google block that holds no prompt (a shell command) and prompts elsewhere in the docstring: ONE doctest under this name
        return ['Mixed %d.' % n, '', 'Example:', '    $ python -m tool run %d' % n, '', 'In code this reads', '', ">>> print('g%d')" % n, 'g%d' % n]
    if kind == 'binds_then_fails':
        # binds a name, then fails: the name dies with this doctest's namespace
        return ['>>> leaked_name = %d' % (n + 1), ">>> print('a%d')" % n, 'b%d' % n]
    if kind == 'reads_leaked_name':
        # reads a name that only OTHER doctests of the module bind: NameError, whatever ran (and failed) before
        return ['>>> assert leaked_name', ">>> print('r%d')" % n, 'r%d' % n]
    if kind == 'comment_bare_prompt':
        # remarks set apart by an empty prompt line: still nothing to run
        return ['>>> # first remark %d' % n, '>>>', '>>> # second remark %d' % n]
    if kind == 'comment_bare_prompt_prose':
        # ... followed by a line of prose (which the parser takes for the want of that part)
        return ['>>> # todo %d: write this example' % n, '>>>', '>>> # until then there is nothing to run', 'this sentence is prose, not output %d' % n]
    if kind == 'comment_only':
        return ['>>> # nothing but a comment %d' % n]
    raise KeyError(kind)


# verdict when the doctest is run
VERDICT = {'pass': 'passed', 'fail_output': 'failed', 'fail_exc': 'failed', 'all_skipped': 'skipped',
           'partly_skipped': 'passed', 'expected_exc': 'passed', 'disabled': 'failed', 'comment_only': 'skipped',
           'note_then_skip': 'skipped', 'skip_then_note': 'skipped', 'fail_directive_first': 'failed', 'fail_compile_first': 'failed', 'late_disable_word': 'passed', 'warn_then_fail': 'failed', 'warn_then_pass': 'passed', 'pytest_skip_comment': 'failed', 'requires_unmet_block': 'skipped', 'binds_then_fails': 'failed', 'reads_leaked_name': 'failed', 'promptless_google_block': 'skipped', 'comment_bare_prompt': 'skipped', 'comment_bare_prompt_prose': 'skipped', 'chdir_then_pass': 'passed', 'chdir_then_fail': 'failed',
           'expected_exc_detail_ignored': 'passed', 'expected_exc_type_only': 'passed', 'expected_exc_wrong_type_detail_ignored': 'failed',
           'skip_on_continuation_then_fail': 'failed', 'skip_on_continuation_then_pass': 'passed'}


def module_source(kinds, layout='functions'):
    """returns (source, [(unique_callname, callname, kind)]) in collection order.
    layout 'functions': one function per doctest; 'mixed': functions, a class with methods, and a
    function holding two google-style Example blocks"""
    # (module globals that are merely CALLED like __future__ features or like xdoctest options switch nothing on)
    src = ['"""module docstring without doctests"""', '', "annotations = {'a': 1}", "division = 'north'", 'verbose = 0', '']
    ids = []
    i = 0
    n = len(kinds)
    while i < n:
        kind = kinds[i]
        if layout == 'mixed' and i % 3 == 1:
            cname = 'K%d' % i
            # the first method is called like the module's first function (a class may well have a method named like a function)
            mname = 'f0' if i == 1 else 'm%d' % i
            src += ['class %s(object):' % cname, '    def %s(self):' % mname, '        r"""']
            src += ['        ' + l for l in doc_lines(kind, i)]
            src += ['        """', '']
            ids.append(('%s.%s:0' % (cname, mname), '%s.%s' % (cname, mname), kind))
            i += 1
        elif layout == 'mixed' and i % 3 == 2 and i + 1 < n and 'promptless_google_block' not in (kind, kinds[i + 1]):
            src += ['def g%d():' % i, '    r"""', '    Example:']
            src += ['        ' + l for l in doc_lines(kind, i)]
            src += ['', '    Example:']
            src += ['        ' + l for l in doc_lines(kinds[i + 1], i + 1)]
            src += ['    """', '']
            ids.append(('g%d:0' % i, 'g%d' % i, kind))
            ids.append(('g%d:1' % i, 'g%d' % i, kinds[i + 1]))
            i += 2
        else:
            # layout 'special:<name>': the first callable is called like a command word of the runner (all, dump, list)
            # (every fifth plain function has a non-ASCII identifier: legal, and what the runner is given as its name)
            fname = layout.split(':', 1)[1] if (layout.startswith('special:') and i == 0) else ('f\xe9%d' % i if i % 5 == 4 else 'f%d' % i)
            src += ['def %s():' % fname, '    r"""']
            src += ['    ' + l for l in doc_lines(kind, i)]
            src += ['    """', '']
            ids.append(('%s:0' % fname, fname, kind))
            i += 1
    return '\n'.join(src) + '\n', ids
