"""Generator of doctests whose true behaviour is known by construction.

Every statement calls t(k) / pr(k) / tn(k) exactly once, which appends k to TRACE
(helpers are exec'd into the doctest namespace by the harness, see PRELUDE).  The
stdout text and the value repr of every statement are known without running it.
Tokens are unique per statement so that no accidental match is possible.
"""

PRELUDE = '''
def t(k):
    TRACE.append(k)
    return k
def pr(k):
    TRACE.append(k)
    print('p%da' % k)
    return k + 100
def tn(k):
    TRACE.append(k)
    return None
def boom(k, cls=ValueError, msg='bad'):
    TRACE.append(k)
    raise cls(msg)
import contextlib as _ctxlib
@_ctxlib.contextmanager
def ctx(k):
    TRACE.append(k)
    yield k
def deco(f):
    return f
class Wild(object):
    # a matcher object, equal to everything (like unittest.mock.ANY)
    def __init__(self, k):
        self.k = k
    def __eq__(self, other):
        return True
    def __ne__(self, other):
        return False
    def __repr__(self):
        return 'Wild(%d)' % self.k
class Arr(list):
    # element-wise comparison whose result has no truth value (the numpy convention)
    def __eq__(self, other):
        return Arr([True for _ in self])
    def __ne__(self, other):
        return Arr([False for _ in self])
    def __bool__(self):
        raise ValueError('the truth value of an Arr is ambiguous')
'''

KINDS = ['assign', 'print', 'print2', 'expr', 'printexpr', 'none', 'multi', 'compound', 'def', 'semicolon', 'expr_wild', 'expr_arr', 'expr_words', 'printexpr_semi', 'none_semi']
# the richer statement grammar of the C01 program generator (C01, C18, C19, C20)
MORE_KINDS = ['await_expr', 'unawaited_coro', 'esc_literal', 'annotated_def', 'augassign', 'for', 'while', 'with', 'try', 'decodef', 'class', 'literal_comment', 'triple', 'triple_unprefixed', 'triple_blank', 'triple_unprefixed_blank', 'bracket_blank', 'triple_trailing_ws', 'triple_late_unprefixed', 'triple_dots_body', 'sep_literal',
              'import', 'comment', 'async_await', 'async_for', 'async_with', 'match_stmt', 'paren_with', 'except_star', 'generic_def']
ALL_KINDS = KINDS + MORE_KINDS
TERMINATED_KINDS = ('compound', 'for', 'while', 'with', 'def', 'print', 'assign', 'multi', 'expr', 'try')
TAGWORDS = ['Returns:', 'Args:', 'Note:', 'Raises::', 'Example:', 'Yields:', 'Todo:', 'Returns: ']


DISABLE_LIKE = ['failing inputs are rejected before statement', 'script-style usage of statement', 'unstable on purpose: statement',
                'disable nothing at statement', 'SLOW_DOCTEST is not meant by statement', 'DISABLE_DOCTEST only counts on line one, not at']


class Stmt:
    def __init__(self, kind, k):
        self.kind = kind
        self.k = k
        self.is_expr = False
        self.val = None           # repr of the value for an expression statement with a non-None value
        self.out = ''             # exact stdout text
        if kind == 'assign':
            self.lines = ['v%d = t(%d)' % (k, k)]
        elif kind == 'print':
            self.lines = ["print('o%da', t(%d))" % (k, k)]
            self.out = 'o%da %d\n' % (k, k)
            self.is_expr = True       # a call expression whose value is None
        elif kind == 'print_tagword':
            # (not in ALL_KINDS: used where named) output that reads like a section heading of a google-style docstring
            word = TAGWORDS[k % len(TAGWORDS)]
            self.lines = ["print(t(%d) and '%s')" % (k, word)]
            self.out = word + '\n'
            self.is_expr = True
        elif kind == 'print2':
            self.lines = ["print('o%da\\no%db %%d' %% t(%d))" % (k, k, k)]
            self.out = 'o%da\no%db %d\n' % (k, k, k)
            self.is_expr = True
        elif kind == 'expr':
            self.lines = ['t(%d) + 1000' % k]
            self.is_expr = True
            self.val = str(k + 1000)
        elif kind == 'expr_wild':
            # values with an unusual __eq__: the verdict is about their repr, never about what they compare equal to
            self.lines = ['Wild(t(%d))' % k]
            self.is_expr = True
            self.val = 'Wild(%d)' % k
        elif kind == 'expr_words':
            # quoted words with letters outside ASCII, one of them ending in a letter that is also a string-prefix letter
            self.lines = ["['sn\xe9b', 'kr\xfcu', t(%d)]" % k]
            self.is_expr = True
            self.val = "['sn\xe9b', 'kr\xfcu', %d]" % k
        elif kind == 'expr_arr':
            self.lines = ['Arr([t(%d)])' % k]
            self.is_expr = True
            self.val = '[%d]' % k
        elif kind == 'printexpr':
            self.lines = ['pr(%d)' % k]
            self.is_expr = True
            self.out = 'p%da\n' % k
            self.val = str(k + 100)
        elif kind == 'none':
            self.lines = ['tn(%d)' % k]
            self.is_expr = True
        elif kind == 'printexpr_semi':
            # a semicolon that separates nothing: inside a trailing comment of an expression that prints and has a value
            self.lines = ['pr(%d)  # prints; then returns' % k]
            self.is_expr = True
            self.out = 'p%da\n' % k
            self.val = str(k + 100)
        elif kind == 'none_semi':
            # ... and inside a string literal of an expression whose value is None
            self.lines = ["tn(%d) or {}.get('a;b')" % k]
            self.is_expr = True
        elif kind == 'multi':
            self.lines = ['w%d = [t(%d),' % (k, k), '      0]']
        elif kind == 'compound':
            self.lines = ['if t(%d):' % k, "    print('c%da')" % k, "    print('c%db')" % k]
            self.out = 'c%da\nc%db\n' % (k, k)
        elif kind == 'def':
            self.lines = ['def f%d():' % k, '    return 1', 'u%d = t(%d)' % (k, k)]
            self.starts = [0, 2]
        elif kind == 'augassign':
            self.lines = ['c%d = 0' % k, 'c%d += t(%d)' % (k, k)]
            self.starts = [0, 1]
        elif kind == 'for':
            self.lines = ['for i%d in range(t(%d) - %d + 2):' % (k, k, k), "    print('f%d', i%d)" % (k, k)]
            self.out = 'f%d 0\nf%d 1\n' % (k, k)
        elif kind == 'while':
            self.lines = ['while t(%d) < 0:' % k, '    pass']
        elif kind == 'with':
            self.lines = ['with ctx(%d) as cm%d:' % (k, k), "    print('w%d', cm%d)" % (k, k)]
            self.out = 'w%d %d\n' % (k, k)
        elif kind == 'try':
            self.lines = ['try:', "    print('t%d', t(%d))" % (k, k), '    1 / 0', 'except ZeroDivisionError:', "    print('caught%d')" % k,
                          'finally:', "    print('fin%d')" % k]
            self.out = 't%d %d\ncaught%d\nfin%d\n' % (k, k, k, k)
        elif kind == 'match_stmt':
            # grammar younger than Python 3.8 (structural pattern matching, parenthesised context managers, except*, type parameters):
            # doctest source is parsed with the grammar of the running interpreter
            self.lines = ['match t(%d) %% 2:' % k, '    case 0:', "        print('even%d')" % k, '    case _:', "        print('odd%d')" % k]
            self.out = ('even%d\n' if k % 2 == 0 else 'odd%d\n') % k
        elif kind == 'paren_with':
            self.lines = ['with (ctx(%d) as cm%d,' % (k, k), '      ctx(0) as cz%d):' % k, "    print('pw%d', cm%d, cz%d)" % (k, k, k)]
            self.out = 'pw%d %d 0\n' % (k, k)
        elif kind == 'except_star':
            self.lines = ['try:', "    raise ExceptionGroup('g', [ValueError(t(%d))])" % k, 'except* ValueError as eg%d:' % k, "    print('star%d', len(eg%d.exceptions))" % (k, k)]
            self.out = 'star%d 1\n' % k
        elif kind == 'generic_def':
            self.lines = ['def first%d[T](xs: list[T]) -> T:' % k, '    return xs[0]', 'gd%d = first%d([t(%d)])' % (k, k, k)]
            self.starts = [0, 2]
        elif kind == 'decodef':
            self.lines = ['@deco', 'def g%d(x):' % k, '    y = x + 1', '    return y', 'r%d = g%d(t(%d))' % (k, k, k)]
            self.starts = [0, 4]
        elif kind == 'class':
            self.lines = ['class K%d(object):' % k, '    v = t(%d)' % k, '    def m(self):', '        return self.v']
        elif kind == 'literal_comment':
            self.lines = ['m%d = [t(%d),  # an inner comment' % (k, k), '      2,', '      ]']
        elif kind == 'triple':
            self.lines = ["s%d = t(%d) and '''first" % (k, k), "  body %d" % k, "last'''"]
        elif kind == 'triple_unprefixed':
            self.lines = ["s%d = t(%d) and '''first" % (k, k), "  body %d" % k, "last'''"]
            self.unprefixed = [1, 2]
        elif kind == 'triple_blank':
            # a blank line that matters: inside a triple-quoted string (written with a bare continuation prompt)
            self.lines = ["s%d = t(%d) and '''first" % (k, k), '', "  third %d'''" % k, "print(len(s%d.split(chr(10))))" % k]
            self.starts = [0, 3]
            self.out = '3\n'
        elif kind == 'triple_unprefixed_blank':
            # a completely empty physical line inside a multi-line string whose further lines carry no prompt (a paragraph break)
            self.lines = ["s%d = t(%d) and '''first" % (k, k), '', "  third %d'''" % k, "print(len(s%d.split(chr(10))))" % k]
            self.unprefixed = [1, 2]
            self.starts = [0, 3]
            self.out = '3\n'
        elif kind == 'bracket_blank':
            # an empty physical line inside an open bracket
            self.lines = ['b%d = [t(%d),' % (k, k), '', '       %d]' % k, 'print(len(b%d))' % k]
            self.unprefixed = [1]
            self.starts = [0, 3]
            self.out = '2\n'
        elif kind == 'sep_literal':
            # characters that str.splitlines() breaks at, inside string literals and a comment of one-line statements
            self.lines = ["s%d = 'page1\x0cpage2\u2028x' if t(%d) else ''  # see \x85 note" % (k, k), "print(len(s%d), s%d.count(chr(12)), 'a\x1cb'.split(chr(28)))" % (k, k)]
            self.starts = [0, 1]
            self.out = "13 1 ['a', 'b']\n"
        elif kind == 'triple_dots_body':
            # unprompted lines of a multi-line string that LOOK like prompts: prose led by an ellipsis, a merge-conflict marker, a row of dots
            self.lines = ["s%d = t(%d) and '''first" % (k, k), '...and so on, and so forth', '>>>>>>> theirs', '........', "last %d'''" % k,
                          "print(s%d.split(chr(10))[1:4])" % k]
            self.unprefixed = [1, 2, 3, 4]
            self.starts = [0, 5]
            self.out = "['...and so on, and so forth', '>>>>>>> theirs', '........']\n"
        elif kind == 'save_writer':
            # (C01 only) keeps a reference to whatever sys.stdout is NOW: a bound write method, the stream itself, a logging handler
            self.lines = ['import sys, logging', 'emit = sys.stdout.write', 'stream = sys.stdout',
                          "log = logging.getLogger('xdverif%d'); log.propagate = False; log.setLevel(10)" % k,
                          'log.handlers[:] = [logging.StreamHandler(sys.stdout)]', 'keep%d = t(%d)' % (k, k)]
            self.starts = [0, 1, 2, 3, 4, 5]
        elif kind == 'use_writer':
            # ... and writes through it later, on the other side of a want: still output of this doctest
            self.lines = ["n%d = emit('e%da %%d\\n' %% t(%d))" % (k, k, k)]
            self.out = 'e%da %d\n' % (k, k)
        elif kind == 'use_stream':
            self.lines = ["print('s%da', t(%d), file=stream)" % (k, k)]
            self.out = 's%da %d\n' % (k, k)
        elif kind == 'use_logger':
            self.lines = ["log.warning('l%da %%d', t(%d))" % (k, k)]
            self.out = 'l%da %d\n' % (k, k)
        elif kind == 'inline_skip_triple_blank':
            # (C01 only, never enabled) a statement switched off by an inline directive on its LAST line, an empty line before it
            self.lines = ["print(t(%d), '''first" % k, '', "  third''')  # xdoctest: +SKIP"]
            self.unprefixed = [1] if k % 2 else []
        elif kind == 'inline_skip_bracket_blank':
            self.lines = ['print([t(%d),' % k, '', '       0])  # xdoctest: +SKIP']
            self.unprefixed = [1] if k % 2 else []
        elif kind == 'triple_late_unprefixed':
            # the string opens on a continuation line of the statement; its further lines carry no prompt
            self.lines = ['z%d = "{}|{}".format(t(%d),' % (k, k), "    '''first", '  body %d' % k, " - leaf", "last''')"]
            self.unprefixed = [2, 3, 4]
        elif kind == 'triple_trailing_ws':
            # blanks at the end of the lines of a multi-line string are part of its value
            body = ['first  ', '  body %d   ' % k, "last"]
            self.lines = ["s%d = t(%d) and '''" % (k, k) + body[0], body[1], body[2] + "'''", 'print(len(s%d))' % k]
            self.starts = [0, 3]
            self.out = '%d\n' % len('\n'.join(body))
        elif kind == 'import':
            self.lines = ['import json', 'j%d = json.dumps(t(%d))' % (k, k)]
            self.starts = [0, 1]
        elif kind == 'semicolon':
            self.lines = ['p%d = t(%d); q%d = p%d + 1' % (k, k, k, k)]
        elif kind == 'comment':
            # a comment line; when it is not the first statement of the program (k > 10) its text may begin with one of
            # the legacy force-disable words, which only count on the FIRST line of a doctest
            text = 'a comment before statement %d' % k
            if k > 10 and k % 2 == 0:
                text = DISABLE_LIKE[k % len(DISABLE_LIKE)] + ' %d' % k
            self.lines = ['# ' + text, 'cc%d = t(%d)' % (k, k)]
            self.starts = [0, 1]
        elif kind == 'async_await':
            self.lines = ['async def co%d():' % k, '    return t(%d)' % k, 'aw%d = await co%d()' % (k, k)]
            self.starts = [0, 2]
        elif kind == 'await_expr':
            # the value of an awaited expression is echoed like any other expression value
            self.lines = ['async def cx%d():' % k, '    return t(%d) + 2000' % k, 'await cx%d()' % k]
            self.starts = [0, 2]
            self.is_expr = True
            self.val = str(k + 2000)
        elif kind == 'print_cr':
            # output with carriage returns (a progress line redrawn in place, CR LF line ends): recorded as written.
            # Not in KINDS / MORE_KINDS: a want cannot spell a bare CR, the kind is used in want-less programs only
            self.lines = ["print('cr%%d' %% t(%d), 'x', sep='\\r', end='\\r\\n')" % k]
            self.is_expr = True
            self.out = 'cr%d\rx\r\n' % k
        elif kind == 'annotated_def':
            # annotations are expressions that are evaluated when the def statement runs (no `from __future__ import annotations` here)
            self.lines = ['def an%d(x: t(%d)) -> tn(%d):' % (k, k, k), '    return x', 'v%d: t(%d) = len(an%d.__annotations__)' % (k, k, k)]
            self.starts = [0, 2]
        elif kind == 'esc_literal':
            # real terminal escape sequences inside string literals (ESC [ ... m, and the one-byte CSI) are part of the code
            self.lines = ["e%d = '\x1b[31m' + str(t(%d)) + '\x1b[0m' + '\x9b1m'" % (k, k), "print(len(e%d), e%d.count(chr(27)))" % (k, k)]
            self.starts = [0, 1]
            self.out = '%d 2\n' % (len(str(k)) + 12)
        elif kind == 'unawaited_coro':
            # calling an async function without awaiting it runs none of its body; the value is the coroutine object
            self.lines = ['async def cu%d():' % k, "    print('cu%d body', t(%d))" % (k, k + 5000), '    return 7', 'cu%d()' % k]
            self.starts = [0, 3]
            self.is_expr = True
            self.val = '<coroutine object cu%d at 0x...>' % k
        elif kind == 'async_for':
            self.lines = ['async def ag%d():' % k, '    yield t(%d)' % k, 'async for z%d in ag%d():' % (k, k), "    print('ag%d', z%d)" % (k, k)]
            self.starts = [0, 2]
            self.out = 'ag%d %d\n' % (k, k)
        elif kind == 'async_with':
            self.lines = ['import contextlib', '@contextlib.asynccontextmanager', 'async def ac%d():' % k, '    yield t(%d)' % k,
                          'async with ac%d() as av%d:' % (k, k), "    print('aw%d', av%d)" % (k, k)]
            self.starts = [0, 1, 4]
            self.out = 'aw%d %d\n' % (k, k)
        else:
            raise KeyError(kind)

    def render(self, style='ps2', indent=0):
        """prompted source lines.  style ps2: continuation lines get '... '; ps1: every line gets '>>> ';
        lines listed in self.unprefixed (bodies of triple-quoted strings) get no prompt at all"""
        out = []
        pad = ' ' * indent
        starts = getattr(self, 'starts', [0])
        unpref = getattr(self, 'unprefixed', [])
        inline = getattr(self, 'inline', None)
        for j, l in enumerate(self.lines):
            if j == 0 and inline:
                # an inline directive on the statement's first line, the marker in any accepted spelling
                l = l + '  # %s: ' % MARKERS[(self.k + len(inline)) % len(MARKERS)] + inline
            if j in unpref:
                out.append(pad + l)
            elif j in starts:
                out.append(pad + '>>> ' + l)
            else:
                out.append(pad + ('>>> ' if style == 'ps1' else '... ') + l)
        return out

    def plain_source(self):
        """the de-prompted statement(s) as ordinary Python source lines"""
        return list(self.lines)


def correct_wants(stmts, lo, j):
    """the want texts that are correct after statement j when the previous want followed
    statement lo-1: {variant name: text}; empty dict if nothing can be wanted"""
    acc = ''.join(s.out for s in stmts[lo:j + 1])
    last = stmts[j]
    out = {}
    if acc.strip():
        out['all'] = acc.rstrip('\n')
    if last.is_expr and last.out.strip() and last.out != acc:
        out['last'] = last.out.rstrip('\n')
    if last.is_expr and last.val is not None:
        out['repr'] = last.val
    if last.is_expr and last.val is None and last.kind == 'none' and not last.out:
        out['none'] = 'None'        # repr(None) of an evaluated expression
    return out


CORRUPTIONS = ['replaced', 'appended', 'prepended', 'dropped', 'letter_dropped']


def corrupt(text, how):
    lines = text.split('\n')
    if how == 'replaced':
        return 'zzz_wrong'
    if how == 'appended':
        return '\n'.join(lines + ['qqq_extra'])
    if how == 'prepended':
        return '\n'.join(['qqq_extra'] + lines)
    if how == 'dropped':
        if len(lines) < 2:
            return None
        return '\n'.join(lines[:-1])
    if how == 'letter_dropped':
        # one letter or digit missing INSIDE a word (so it cannot be a string-prefix letter, which stands at a word start):
        # preferably the one directly in front of a quote
        cand = [i for i in range(1, len(text)) if text[i].isalnum() and text[i - 1].isalnum()]
        if not cand:
            return None
        pref = [i for i in cand if i + 1 < len(text) and text[i + 1] in '\'"']
        i = pref[0] if pref else cand[-1]
        return text[:i] + text[i + 1:]
    raise KeyError(how)


def render_doc(stmts, wants, style='ps2', indent=0, blank_after_want=False):
    """wants: dict position -> text (placed directly after statement at that position)"""
    lines = []
    pad = ' ' * indent
    for j, s in enumerate(stmts):
        lines.extend(s.render(style, indent))
        if j in wants:
            lines.extend(pad + w for w in wants[j].split('\n'))
            if blank_after_want:
                lines.append('')
    return '\n'.join(lines)


PROSE = ['Some prose here.', 'More text about the example:', 'Note the following.', 'Args: none', 'Returns: nothing']


# kinds whose first line can carry a trailing comment (not a decorator / comment line, not ending inside a string or
# carrying a comment already)
INLINE_OK = ('assign', 'print', 'print2', 'expr', 'printexpr', 'none', 'multi', 'compound', 'augassign', 'for', 'while', 'with',
             'import', 'semicolon', 'async_with', 'class')
MARKERS = ['xdoctest', 'xdoctest', 'xdoc', 'doctest', 'XDOCTEST', 'XDoc', 'DocTest']
HARMLESS_INLINE = ['+NORMALIZE_WHITESPACE', '+ELLIPSIS', '-IGNORE_WHITESPACE', '+REQUIRES(module:os)']


def add_inline_directives(rng, stmts, prob=0.2):
    """puts a directive that changes nothing on the first line of some statements: the statement becomes a part of
    its own, so part boundaries fall in front of whatever follows (decorated definitions, async statements, ...)"""
    for st in stmts:
        if st.kind in INLINE_OK and rng.random() < prob:
            st.inline = rng.choice(HARMLESS_INLINE)
    return stmts


def gen_program(rng, n=None, kinds=None):
    kinds = kinds or ALL_KINDS
    # mostly short programs; now and then a long one (line numbers with more digits, many parts, long buffers)
    n = n or (rng.randint(9, 45) if rng.random() < 0.03 else rng.randint(1, 8))
    return [Stmt(rng.choice(kinds), 10 + i) for i in range(n)]


def render_layout(rng, stmts, want_prob=0.6, allow_prose=True, google=None, vary_indent=True, terminators=False):
    """a well formed docstring holding the program: prompt style, indentation, wants (correct by
    construction), blank lines and prose between statements.  Returns (text, wants: {stmt index: text})"""
    style = rng.choice(['ps1', 'ps2', 'ps2'])
    google = rng.random() < 0.3 if google is None else google
    lines = []
    wants = {}
    lo = 0
    prev = 'text'
    if google:
        lines += ['Summary.', '', 'Example:']
        indent = 4
    else:
        indent = rng.choice([0, 0, 4])
        if allow_prose and rng.random() < 0.4:
            lines += [rng.choice(PROSE), '']
    for j, s in enumerate(stmts):
        if j and allow_prose and not google and rng.random() < 0.15:
            lines += ['', rng.choice(PROSE), '']
            prev = 'text'
        elif j and rng.random() < 0.2 and prev == 'want':
            lines.append('')
            prev = 'text'
        if vary_indent and j and prev in ('want', 'text') and rng.random() < 0.25:
            # a new example after a want, a blank line or prose may sit at any other indentation
            # (deeper or shallower); inside a google block it stays inside the block
            indent = rng.choice([4, 6, 8] if google else [0, 2, 4, 8])
        lines += s.render(style, indent)
        if terminators and style == 'ps2' and s.kind in TERMINATED_KINDS and rng.random() < 0.5:
            # the way an interactive session closes a block (and some authors any statement): an empty continuation line
            # in front of the output / the next statement.  It is a source line of that statement
            lines.append(' ' * indent + '...')
        prev = 'src'
        cw = correct_wants(stmts, lo, j)
        if s.kind == 'triple_late_unprefixed' and style == 'ps1':
            cw = {}       # Guard F16 (known finding of C01): no want directly behind this layout; the output is wanted later
        if cw and rng.random() < want_prob:
            name = rng.choice(sorted(k for k in cw if k in ('all', 'repr')) or sorted(cw))
            wants[j] = cw[name]
            lines += [' ' * indent + w for w in cw[name].split('\n')]
            lo = j + 1
            prev = 'want'
    return '\n'.join(lines), wants
