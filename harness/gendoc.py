"""Generator of doctests whose true behaviour is known by construction.

Every statement calls t(k) / pr(k) / tn(k) exactly once, which appends k to TRACE
(helpers are exec'd into the doctest namespace by the harness, see PRELUDE).  The
stdout text and the value repr of every statement are known without running it.
Tokens are unique per statement so that no accidental match is possible.
"""

PRELUDE = '''
def t(k):
    TRACE.append(k)
    return k
def pr(k):
    TRACE.append(k)
    print('p%da' % k)
    return k + 100
def tn(k):
    TRACE.append(k)
    return None
def boom(k, cls=ValueError, msg='bad'):
    TRACE.append(k)
    raise cls(msg)
'''

KINDS = ['assign', 'print', 'print2', 'expr', 'printexpr', 'none', 'multi', 'compound', 'def']


class Stmt:
    def __init__(self, kind, k):
        self.kind = kind
        self.k = k
        self.is_expr = False
        self.val = None           # repr of the value for an expression statement with a non-None value
        self.out = ''             # exact stdout text
        if kind == 'assign':
            self.lines = ['v%d = t(%d)' % (k, k)]
        elif kind == 'print':
            self.lines = ["print('o%da', t(%d))" % (k, k)]
            self.out = 'o%da %d\n' % (k, k)
            self.is_expr = True       # a call expression whose value is None
        elif kind == 'print2':
            self.lines = ["print('o%da\\no%db %%d' %% t(%d))" % (k, k, k)]
            self.out = 'o%da\no%db %d\n' % (k, k, k)
            self.is_expr = True
        elif kind == 'expr':
            self.lines = ['t(%d) + 1000' % k]
            self.is_expr = True
            self.val = str(k + 1000)
        elif kind == 'printexpr':
            self.lines = ['pr(%d)' % k]
            self.is_expr = True
            self.out = 'p%da\n' % k
            self.val = str(k + 100)
        elif kind == 'none':
            self.lines = ['tn(%d)' % k]
            self.is_expr = True
        elif kind == 'multi':
            self.lines = ['w%d = [t(%d),' % (k, k), '      0]']
        elif kind == 'compound':
            self.lines = ['if t(%d):' % k, "    print('c%da')" % k, "    print('c%db')" % k]
            self.out = 'c%da\nc%db\n' % (k, k)
        elif kind == 'def':
            self.lines = ['def f%d():' % k, '    return 1', 'u%d = t(%d)' % (k, k)]
            self.two = True
        else:
            raise KeyError(kind)

    def render(self, style='ps2', indent=0):
        """prompted source lines"""
        out = []
        pad = ' ' * indent
        for j, l in enumerate(self.lines):
            if j == 0 or (self.kind == 'def' and j == 2):
                out.append(pad + '>>> ' + l)
            else:
                out.append(pad + ('>>> ' if style == 'ps1' else '... ') + l)
        return out


def correct_wants(stmts, lo, j):
    """the want texts that are correct after statement j when the previous want followed
    statement lo-1: {variant name: text}; empty dict if nothing can be wanted"""
    acc = ''.join(s.out for s in stmts[lo:j + 1])
    last = stmts[j]
    out = {}
    if acc.strip():
        out['all'] = acc.rstrip('\n')
    if last.is_expr and last.out.strip() and last.out != acc:
        out['last'] = last.out.rstrip('\n')
    if last.is_expr and last.val is not None:
        out['repr'] = last.val
    if last.is_expr and last.val is None and last.kind == 'none' and not last.out:
        out['none'] = 'None'        # repr(None) of an evaluated expression
    return out


CORRUPTIONS = ['replaced', 'appended', 'prepended', 'dropped']


def corrupt(text, how):
    lines = text.split('\n')
    if how == 'replaced':
        return 'zzz_wrong'
    if how == 'appended':
        return '\n'.join(lines + ['qqq_extra'])
    if how == 'prepended':
        return '\n'.join(['qqq_extra'] + lines)
    if how == 'dropped':
        if len(lines) < 2:
            return None
        return '\n'.join(lines[:-1])
    raise KeyError(how)


def render_doc(stmts, wants, style='ps2', indent=0, blank_after_want=False):
    """wants: dict position -> text (placed directly after statement at that position)"""
    lines = []
    pad = ' ' * indent
    for j, s in enumerate(stmts):
        lines.extend(s.render(style, indent))
        if j in wants:
            lines.extend(pad + w for w in wants[j].split('\n'))
            if blank_after_want:
                lines.append('')
    return '\n'.join(lines)
