"""Oracle tables for the Coq parser model, filled from the real CPython tokenizer / ast
(and, for directives, from xdoctest's own extractor), plus canonical forms of the real
and the modelled parse results.

The oracles are computed by THIS file directly on CPython (tokenize, ast), not through
xdoctest's wrappers, so that a change to those wrappers shows up as a disagreement.
"""
import ast
import tokenize as std_tokenize
import warnings

from harness import ref_tokenize as tokenize   # CPython 3.11 tokenizer (what static_analysis uses on 3.12)

from harness import common
from harness.common import Sym


# ---------------------------------------------------------------------------
# reference oracles
# ---------------------------------------------------------------------------
def ref_tok(lines):
    """outcome of tokenize.generate_tokens over `lines` (model passes non-empty lines only)"""
    it = iter(lines)

    def _readline():
        return next(it)
    try:
        for _t in tokenize.generate_tokens(_readline):
            pass
    except tokenize.TokenError as ex:
        msg = ex.args[0]
        if msg.startswith(('EOF in multi-line', 'unexpected EOF in multi-line')):
            return Sym('eof')
        return Sym('error')
    except IndentationError as ex:
        msg = ex.args[0]
        if msg.startswith('unindent does not match any outer indentation'):
            return Sym('unindent')
        return Sym('error')
    except Exception:
        return Sym('error')
    return Sym('ok')


def ref_ast(lines):
    try:
        with warnings.catch_warnings():
            warnings.simplefilter('ignore')
            pt = ast.parse('\n'.join(lines), filename='<source_block>')
    except Exception:
        return Sym('raise')
    out = []
    for node in pt.body:
        deco = None
        if getattr(node, 'decorator_list', None):
            deco = common.some(node.decorator_list[0].lineno - 1)
        out.append([node.lineno - 1, deco, isinstance(node, ast.Expr)])
    return out


def ref_semi(lines):
    it = (l for l in lines if l)

    def _readline():
        return next(it)
    try:
        # parser.py uses the stdlib tokenizer for this one
        return any(t.type == std_tokenize.OP and t.string == ';' for t in std_tokenize.generate_tokens(_readline))
    except Exception:
        return Sym('raise')


ORACLE_TIMEOUTS = []     # source blocks on which the implementation-side oracle did not return (per process)


class _OracleTimeout(BaseException):
    pass


def _oracle_alarm(signum, frame):
    raise _OracleTimeout()


def ref_dirs(lines):
    """list(Directive.extract('\\n'.join(lines))) as data (xdoctest's extractor; the
    text -> directive layer is compared separately in C04).  This is the one oracle that runs code of /repo, so it is
    bounded: an extractor that does not return within 5 s answers 'raise' and the block is recorded in ORACLE_TIMEOUTS
    (the callers report it); after three such blocks the extractor is not called again in this process."""
    from xdoctest import directive
    import signal
    import threading
    if len(ORACLE_TIMEOUTS) >= 3:
        ORACLE_TIMEOUTS.append(list(lines))
        return Sym('raise')
    guarded = threading.current_thread() is threading.main_thread()
    if guarded:
        old = signal.signal(signal.SIGALRM, _oracle_alarm)
        prev = signal.alarm(5)
    try:
        with warnings.catch_warnings():
            warnings.simplefilter('ignore')
            ds = list(directive.Directive.extract('\n'.join(lines)))
    except _OracleTimeout:
        ORACLE_TIMEOUTS.append(list(lines))
        return Sym('raise')
    except Exception:
        return Sym('raise')
    finally:
        if guarded:
            signal.alarm(0)
            signal.signal(signal.SIGALRM, old)
            if prev:
                signal.alarm(prev)
    return [dir_data(d) for d in ds]


def dir_data(d):
    return [d.name, bool(d.positive), list(d.args), bool(d.inline)]


REF = {'tok': ref_tok, 'ast': ref_ast, 'semi': ref_semi, 'dirs': ref_dirs}


class Tables:
    def __init__(self):
        self.t = {'tok': {}, 'ast': {}, 'semi': {}, 'dirs': {}}

    def add(self, kind, lines):
        key = tuple(lines)
        if key not in self.t[kind]:
            self.t[kind][key] = REF[kind](list(lines))

    def enc(self):
        return [[[list(k), v] for k, v in self.t[kind].items()] for kind in ('tok', 'ast', 'semi', 'dirs')]


_CACHE = {}


def model_parse_many(docstrings, fn='parse', max_rounds=600):
    """runs the model on every docstring, answering NEED queries from the reference oracles
    (per-docstring tables, re-run until no query is open).  Returns decoded results."""
    tabs = [Tables() for _ in docstrings]
    results = [None] * len(docstrings)
    pending = list(range(len(docstrings)))
    for _round in range(max_rounds):
        if not pending:
            break
        ans = common.model_batch([(fn, tabs[i].enc(), docstrings[i]) for i in pending])
        nxt = []
        for i, a in zip(pending, ans):
            if isinstance(a, list) and a and a[0] == Sym('need'):
                tabs[i].add(str(a[1]), a[2])
                nxt.append(i)
            else:
                results[i] = a
        pending = nxt
    for i in pending:
        results[i] = [Sym('error'), 'oracle rounds exhausted']
    return results, tabs


# ---------------------------------------------------------------------------
# canonical form of the implementation's result
# ---------------------------------------------------------------------------
def impl_parse(docstring, simulate_repl=False):
    """canonical result of DoctestParser().parse, in the same shape as the model's answer"""
    from xdoctest import parser, exceptions
    import signal
    with warnings.catch_warnings():
        warnings.simplefilter('ignore')
        try:
            parts = (parser.DoctestParser(simulate_repl=True) if simulate_repl else parser.DoctestParser()).parse(docstring)
        except exceptions.DoctestParseError as ex:
            fp = str(ex.msg).replace('Failed to parse doctest in ', '')
            return [Sym('parseerror'), Sym(fp)]
        except RecursionError:
            return [Sym('raised'), Sym('RecursionError')]
        except Exception as ex:
            return [Sym('raised'), Sym(type(ex).__name__)]
        out = []
        for p in parts:
            if isinstance(p, str):
                out.append([Sym('text'), p])
            else:
                try:
                    ds = [dir_data(d) for d in p.directives]
                except Exception:
                    ds = Sym('raise')
                out.append([Sym('part'), list(p.exec_lines), list(p.want_lines or []), p.line_offset,
                            list(p.orig_lines), ds, Sym(p.compile_mode)])
        return [Sym('parsed'), out]


def canon_model(ans):
    """drop what the implementation side does not report (the wrapped error class)"""
    if isinstance(ans, list) and ans and ans[0] == Sym('parseerror'):
        return [Sym('parseerror'), ans[1]]
    return ans
